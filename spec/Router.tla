------------------------------- MODULE Router -------------------------------
(***************************************************************************)
(* C06 -- the router dispatches to the route the documented priority       *)
(* selects.                                                                *)
(*                                                                         *)
(* What is specified (pkg/route/tree.go, pkg/route/engine.go):             *)
(*   Valid(p)     checkPathValid: which pattern strings are syntactically  *)
(*                acceptable                                               *)
(*   Parse(p)     the character-level structure of a pattern: a sequence   *)
(*                of tokens, each one literal byte, "PARAM" (":name" up to *)
(*                the next "/") or "ANY" ("*name", last token), and the    *)
(*                parameter names in order                                 *)
(*   Accepts(R)   which route sets registration accepts: every pattern     *)
(*                valid, and no two routes of one method with the same     *)
(*                token sequence (= same pattern after erasing parameter   *)
(*                names); router.insert panics "handlers are already       *)
(*                registered" exactly then                                 *)
(*   Match(R,m,s) the route selected for method m and path s: a priority   *)
(*                depth-first search over the character-level trie of the  *)
(*                token sequences -- at a trie node with remaining input:  *)
(*                  1. input exhausted and a route ends here -> that route *)
(*                  2. the literal edge for the next input byte            *)
(*                  3. the PARAM edge (only when input remains); consumes  *)
(*                     the possibly EMPTY run up to the next "/"           *)
(*                  4. the ANY edge; consumes everything that remains      *)
(*                     (possibly nothing)                                  *)
(*                an alternative is tried only when all earlier ones       *)
(*                failed to complete (backtracking).  router.find walks    *)
(*                the compressed form of the same trie.                    *)
(*   Declarative reading of the same rule (FitSet / Beats): among          *)
(*   the routes that match the path on their own, the winner is the one    *)
(*   that, against every other one, has the stronger token at the first    *)
(*   position where the two token sequences differ (end-of-pattern >       *)
(*   literal > PARAM > ANY).  TLC checks the two agree (PriorityRule) on   *)
(*   every reachable state of the exhaustive configuration, so the         *)
(*   operational search used for trace validation is known to implement    *)
(*   the property's sentence, including "backtracking when a choice        *)
(*   cannot complete" (Complete: some route fits => Match finds one).      *)
(*                                                                         *)
(* State machine: Register(r) in any order (outcome ok|panic), then        *)
(* Lookup(m, path).  Routes carry their registration position `pos`;       *)
(* every choice among several candidate routes in Match is resolved        *)
(* towards the EARLIEST registered one, so order independence is not true  *)
(* by construction: OrderIndependent compares the result with the result   *)
(* for every other registration order of the same set (it fails when the   *)
(* duplicate rule is removed from Accepts -- tried).                       *)
(*                                                                         *)
(* Semantic details taken from the real router and the hertz routing docs  *)
(* (probed: 400 k random sets against a throw-away reference; the property *)
(* sentence itself does not fix them):                                     *)
(*   - a PARAM edge needs non-empty remaining input, but may then match an *)
(*     empty run (mid-segment "/v:x/y" matches "/v/y" with x = "", "/a/:x" *)
(*     does not match "/a/")                                               *)
(*   - ANY matches the empty remainder ("/a/*w" matches "/a/", not "/a")   *)
(*                                                                         *)
(* Deliberately unconstrained / out of scope:                              *)
(*   - response status and body when nothing matches (404/405, redirects;  *)
(*     the driver switches RedirectTrailingSlash, RedirectFixedPath and    *)
(*     HandleMethodNotAllowed off), params seen by NoRoute handlers        *)
(*   - request paths the engine would normalise (empty segment, segment    *)
(*     starting with ".", "%", "?", "#", "\"): InScopePath is false, the   *)
(*     lookup is not judged                                                *)
(*   - patterns that RouterGroup.handle rewrites with path.Join before the *)
(*     tree sees them (empty or dot segments), patterns not starting with  *)
(*     "/", and the odd shape "*name:more": InScopePat is false, the       *)
(*     registration outcome is not judged                                  *)
(*   - UseRawPath x UnescapePathValues: see Routed / ParamList below; only *)
(*     the escapes %41, %2B, %25 are modelled; RemoveExtraSlash is off     *)
(***************************************************************************)
EXTENDS Integers, Sequences, FiniteSets, TLC

CONSTANTS GetPats,     \* pattern strings the exhaustive configuration registers for GET
          PostPats,    \* ... for POST
          Paths,       \* request paths looked up in the exhaustive configuration
          MaxRoutes    \* longest registration sequence

-----------------------------------------------------------------------------
(* strings *)
Ch(s, i) == SubSeq(s, i, i)
Sub(s, i, j) == IF j < i THEN "" ELSE SubSeq(s, i, j)

\* index of the first "/" of s at or after i; Len(s) + 1 if there is none
RECURSIVE NextSlash(_, _)
NextSlash(s, i) == IF i > Len(s) THEN i ELSE IF Ch(s, i) = "/" THEN i ELSE NextSlash(s, i + 1)

HasChar(s, c) == \E i \in 1 .. Len(s) : Ch(s, i) = c
EndsWith(s, t) == Len(s) >= Len(t) /\ SubSeq(s, Len(s) - Len(t) + 1, Len(s)) = t

-----------------------------------------------------------------------------
(* patterns *)

\* checkPathValid (tree.go), byte by byte
Valid(p) ==
  /\ Len(p) >= 1 /\ Ch(p, 1) = "/"
  /\ \A i \in 1 .. Len(p) :
       /\ Ch(p, i) = ":" =>
            /\ i < Len(p) /\ Ch(p, i + 1) # "/"                          \* non-empty name
            /\ \A j \in i + 1 .. NextSlash(p, i + 1) - 1 : Ch(p, j) \notin {":", "*"}   \* one wildcard per segment
       /\ Ch(p, i) = "*" =>
            /\ i < Len(p)                                                \* non-empty name
            /\ i > 1 /\ Ch(p, i - 1) = "/"                               \* "/" before the catch-all
            /\ NextSlash(p, i) = Len(p) + 1                              \* catch-all is last

\* shapes whose registration outcome this specification judges: begins with "/", no empty segment and no segment
\* beginning with "." (RouterGroup.handle rewrites those with path.Join before the tree sees them), no escape/query
\* bytes, no ":" inside a catch-all name.  (One pass over the string: TLC evaluates about 200 k operator
\* applications per second.)
InScopePat(p) ==
  /\ Len(p) >= 1 /\ Ch(p, 1) = "/"
  /\ \A i \in 1 .. Len(p) :
       /\ Ch(p, i) \notin {"%", "?", "#", "\\"}
       /\ i < Len(p) => SubSeq(p, i, i + 1) \notin {"//", "/."}
       /\ Ch(p, i) = "*" => \A j \in i + 1 .. Len(p) : Ch(p, j) # ":"

RECURSIVE ParseFrom(_, _, _, _)
ParseFrom(p, i, toks, names) ==
  IF i > Len(p) THEN [toks |-> toks, names |-> names]
  ELSE LET c == Ch(p, i) IN
       IF c = ":" THEN LET j == NextSlash(p, i + 1) IN
                       ParseFrom(p, j, Append(toks, "PARAM"), Append(names, Sub(p, i + 1, j - 1)))
       ELSE IF c = "*" THEN [toks |-> Append(toks, "ANY"), names |-> Append(names, Sub(p, i + 1, Len(p)))]
       ELSE ParseFrom(p, i + 1, Append(toks, c), names)
Parse(p) == ParseFrom(p, 1, << >>, << >>)

\* a registered route: id, method, pattern, registration position, parsed pattern
MkRoute(id, m, p, pos) == LET q == Parse(p) IN
  [id |-> id, m |-> m, pat |-> p, pos |-> pos, toks |-> q.toks, names |-> q.names]

\* registration of (m, p) on top of the accepted routes R succeeds: the pattern is valid and no route of the same
\* method has the same token sequence
NoTwin(R, q) == \A r \in R : r.m = q.m => r.toks # q.toks
AcceptsAdd(R, m, p) == Valid(p) /\ NoTwin(R, MkRoute(0, m, p, 0))
\* a whole set is acceptable (in any order: the condition is symmetric and subset-closed)
Accepts(R) == /\ \A r \in R : Valid(r.pat)
              /\ \A r, q \in R : (r # q /\ r.m = q.m) => r.toks # q.toks

-----------------------------------------------------------------------------
(* matching *)

NoRoute == [id |-> -1, m |-> "", pat |-> "", pos |-> 0, toks |-> << >>, names |-> << >>]
Miss == [found |-> FALSE, r |-> NoRoute, vals |-> << >>]
Hit(r, vals) == [found |-> TRUE, r |-> r, vals |-> vals]

First(C) == CHOOSE r \in C : \A q \in C : r.pos <= q.pos      \* earliest registered candidate

\* C: candidate routes, all with the same first d tokens, which have consumed s[1..i-1]; vals: parameter values so far
RECURSIVE Find(_, _, _, _, _)
Find(C, d, s, i, vals) ==
  LET n    == Len(s)
      ends == {r \in C : Len(r.toks) = d}
      more == {r \in C : Len(r.toks) > d}
  IN
  IF i > n /\ ends # {} THEN Hit(First(ends), vals)
  ELSE
    LET lit == IF i <= n THEN {r \in more : r.toks[d + 1] = Ch(s, i)} ELSE {}
        st  == IF lit # {} THEN Find(lit, d + 1, s, i + 1, vals) ELSE Miss
    IN
    IF st.found THEN st
    ELSE
      LET par == IF i <= n THEN {r \in more : r.toks[d + 1] = "PARAM"} ELSE {}
          j   == NextSlash(s, i)
          pa  == IF par # {} THEN Find(par, d + 1, s, j, Append(vals, Sub(s, i, j - 1))) ELSE Miss
      IN
      IF pa.found THEN pa
      ELSE
        LET any == {r \in more : r.toks[d + 1] = "ANY"}
        IN IF any # {} THEN Hit(First(any), Append(vals, Sub(s, i, n))) ELSE Miss

OfMethod(R, m) == {r \in R : r.m = m}
Match(R, m, s) == Find(OfMethod(R, m), 0, s, 1, << >>)

\* request paths the engine hands to the tree unchanged: begins with "/", no empty segment, no segment beginning
\* with ".", no escape, query, fragment or backslash
InScopePath(s) ==
  /\ Len(s) >= 1 /\ Ch(s, 1) = "/"
  /\ \A i \in 1 .. Len(s) :
       /\ Ch(s, i) \notin {"%", "?", "#", "\\"}
       /\ i < Len(s) => SubSeq(s, i, i + 1) \notin {"//", "/."}

(* The two path options of Engine.ServeHTTP (pkg/common/config/option.go):                                            *)
(*   UseRawPath = false (default)  the tree walks URI().Path(), i.e. the request path percent-decoded ONCE; a         *)
(*                                 parameter is the substring of that decoded path it matched, whatever              *)
(*                                 UnescapePathValues says ("effectively true, as the path is already unescaped");   *)
(*                                 "+" is an ordinary path byte                                                      *)
(*   UseRawPath = true             the tree walks the path as sent; a parameter is the substring it matched,         *)
(*                                 percent-decoded once if UnescapePathValues (default true), else as sent           *)
(* Escapes modelled: %41 (A), %2B (+), %25 (%) -- so "%2541" is the text "%41" after one decoding.  Not judged       *)
(* (InScopeSent false): any other "%", and "+" when UseRawPath and UnescapePathValues are both on (the code uses     *)
(* url.QueryUnescape there, which also turns "+" into a space; the option text does not say whether it should).      *)
EscPairs == {"41", "2B", "25"}
EscByte(h) == IF h = "41" THEN "A" ELSE IF h = "2B" THEN "+" ELSE "%"
RECURSIVE DecFrom(_, _)
DecFrom(v, i) == IF i > Len(v) THEN ""
                 ELSE IF Ch(v, i) = "%" /\ i + 2 <= Len(v) /\ SubSeq(v, i + 1, i + 2) \in EscPairs
                      THEN EscByte(SubSeq(v, i + 1, i + 2)) \o DecFrom(v, i + 3)
                 ELSE Ch(v, i) \o DecFrom(v, i + 1)
Dec(v) == IF HasChar(v, "%") THEN DecFrom(v, 1) ELSE v          \* one percent-decoding pass
\* the path the tree walks for the request path s
Routed(raw, s) == IF raw THEN s ELSE Dec(s)
\* request paths (as sent) this specification judges under the given options
InScopeSent(raw, unesc, s) ==
  /\ Len(s) >= 1 /\ Ch(s, 1) = "/"
  /\ \A i \in 1 .. Len(s) :
       /\ Ch(s, i) \notin {"?", "#", "\\"}
       /\ Ch(s, i) = "%" => (i + 2 <= Len(s) /\ SubSeq(s, i + 1, i + 2) \in EscPairs)
       /\ (raw /\ unesc) => Ch(s, i) # "+"
  /\ LET r == Routed(raw, s) IN \A i \in 1 .. Len(r) - 1 : SubSeq(r, i, i + 1) \notin {"//", "/."}

\* what a handler must observe: ctx.Params as <<[k, v], ...>>; dec = UseRawPath /\ UnescapePathValues
ParamList(r, vals, dec) == [k \in 1 .. Len(vals) |-> [k |-> r.names[k], v |-> IF dec THEN Dec(vals[k]) ELSE vals[k]]]

\* the search for s backs out of a PARAM edge whose consumed text contains an escape (used by the generator only, to
\* label the cases in which known finding C06-rawpath-backtrack can show)
RECURSIVE EscBack(_, _, _, _)
EscBack(C, d, s, i) ==
  LET n    == Len(s)
      ends == {r \in C : Len(r.toks) = d}
      more == {r \in C : Len(r.toks) > d}
  IN
  IF i > n /\ ends # {} THEN FALSE
  ELSE LET lit == IF i <= n THEN {r \in more : r.toks[d + 1] = Ch(s, i)} ELSE {}
           par == IF i <= n THEN {r \in more : r.toks[d + 1] = "PARAM"} ELSE {}
           j   == NextSlash(s, i)
           run == Sub(s, i, j - 1)
       IN \/ lit # {} /\ EscBack(lit, d + 1, s, i + 1)
          \/ /\ ~(lit # {} /\ Find(lit, d + 1, s, i + 1, << >>).found)
             /\ par # {}
             /\ \/ EscBack(par, d + 1, s, j)
                \/ ~Find(par, d + 1, s, j, << >>).found /\ HasChar(run, "%")

-----------------------------------------------------------------------------
(* the declarative reading of the priority rule *)

Fit(r, s) == Find({r}, 0, s, 1, << >>)
FitSet(R, m, s) == {r \in OfMethod(R, m) : Fit(r, s).found}

Rank(r, k) == IF k > Len(r.toks) THEN 4
              ELSE IF r.toks[k] = "PARAM" THEN 2
              ELSE IF r.toks[k] = "ANY" THEN 1 ELSE 3
SameTok(r, q, k) == \/ k > Len(r.toks) /\ k > Len(q.toks)
                    \/ k <= Len(r.toks) /\ k <= Len(q.toks) /\ r.toks[k] = q.toks[k]
\* r is stronger than q at the first point where the two patterns differ
Beats(r, q) == \E k \in 1 .. Len(r.toks) + 1 :
                  /\ \A h \in 1 .. k - 1 : SameTok(r, q, h)
                  /\ ~SameTok(r, q, k)
                  /\ Rank(r, k) > Rank(q, k)

\* substituting the values into the pattern gives back the path
RECURSIVE Subst(_, _, _, _)
Subst(toks, vals, d, k) ==
  IF d > Len(toks) THEN ""
  ELSE IF toks[d] \in {"PARAM", "ANY"} THEN vals[k] \o Subst(toks, vals, d + 1, k + 1)
  ELSE toks[d] \o Subst(toks, vals, d + 1, k)

-----------------------------------------------------------------------------
(* state machine *)

VARIABLES regd,     \* accepted routes, as a sequence in registration order
          tried,    \* (method, pattern) pairs whose registration was attempted
          outcome,  \* outcome of the last Register: "ok" | "panic" | "none"
          last      \* the last lookup: [m, path, res, ran]; ran = ids of the route handlers that ran
vars == <<regd, tried, outcome, last>>

Universe == ({"GET"} \X GetPats) \cup ({"POST"} \X PostPats)
Methods == {"GET", "POST"}

Rng(f) == {f[i] : i \in DOMAIN f}
Regd == Rng(regd)

NoLookup == [m |-> "", path |-> "", res |-> Miss, ran |-> << >>]

Init == regd = << >> /\ tried = {} /\ outcome = "none" /\ last = NoLookup

\* engine.addRoute -> router.addRoute: checkPathValid, then insert panics on an occupied node
Register(m, p) ==
  /\ last = NoLookup                                   \* registration phase precedes the lookup
  /\ <<m, p>> \notin tried /\ Cardinality(tried) < MaxRoutes
  /\ tried' = tried \cup {<<m, p>>}
  /\ IF AcceptsAdd(Regd, m, p)
     THEN /\ regd' = Append(regd, MkRoute(Cardinality(tried) + 1, m, p, Len(regd) + 1))
          /\ outcome' = "ok"
     ELSE /\ regd' = regd /\ outcome' = "panic"
  /\ last' = NoLookup

\* Engine.ServeHTTP: find in the method's tree; run the matched route's handlers, or none
Lookup(m, s) ==
  /\ last = NoLookup
  /\ InScopePath(s)
  /\ LET res == Match(Regd, m, s) IN
       last' = [m |-> m, path |-> s, res |-> res, ran |-> IF res.found THEN <<res.r.id>> ELSE << >>]
  /\ outcome' = "none"
  /\ UNCHANGED <<regd, tried>>

Next == \/ \E u \in Universe : Register(u[1], u[2])
        \/ \E m \in Methods, s \in Paths : Lookup(m, s)
Spec == Init /\ [][Next]_vars

-----------------------------------------------------------------------------
(* properties *)

TypeOK == /\ outcome \in {"ok", "panic", "none"}
          /\ Len(regd) <= MaxRoutes
          /\ last.res.found \in BOOLEAN

\* registration never leaves an ambiguous set behind, and refuses exactly the invalid / duplicate-shaped additions
AcceptedSetsOnly == Accepts(Regd)

Looked == last.path # ""

\* Match implements the sentence of the property: the winner is the fitting route that beats every other fitting route
PriorityRule ==
  Looked => LET F == FitSet(Regd, last.m, last.path) IN
            /\ last.res.found <=> F # {}                                   \* Complete (backtracking) and Sound
            /\ last.res.found => /\ last.res.r \in F
                                 /\ \A q \in F \ {last.res.r} : Beats(last.res.r, q)
                                 /\ last.res.vals = Fit(last.res.r, last.path).vals

\* every parameter equals the substring it matched: substituting the values reproduces the path, named parameters
\* never span a "/", there is exactly one value per name
ParamsAreSubstrings ==
  (Looked /\ last.res.found) =>
     LET r == last.res.r  v == last.res.vals IN
     /\ Len(v) = Len(r.names)
     /\ Subst(r.toks, v, 1, 1) = last.path
     /\ \A k \in 1 .. Len(v) : r.toks[Len(r.toks)] # "ANY" \/ k < Len(v) => ~HasChar(v[k], "/")

NoMatchNoHandler ==
  Looked => /\ FitSet(Regd, last.m, last.path) = {} => last.ran = << >>
            /\ Len(last.ran) <= 1
            /\ \A i \in DOMAIN last.ran : \E r \in Regd : r.id = last.ran[i] /\ r.m = last.m

\* the result is a function of the SET of registered routes: re-registering the same routes in any other order
\* (positions permuted) selects the same route with the same values
Reorder(R, f) == {[r EXCEPT !.pos = f[r.pos]] : r \in R}
OrderIndependent ==
  Looked => \A f \in Permutations(1 .. Len(regd)) :
              LET res == Match(Reorder(Regd, f), last.m, last.path) IN
              /\ res.found = last.res.found
              /\ res.found => res.r.id = last.res.r.id /\ res.vals = last.res.vals
=============================================================================
