CONSTANTS
  Alphabet <- Alphabet3
  MaxLen = 10
  BackslashSep = FALSE
  RandMax = 24
  PadMax = 6
INIT GenInit
NEXT GenNext
