CONSTANTS
  MaxToks = 1
  Big = FALSE
  NRand = 0
SPECIFICATION Spec
INVARIANTS ImplIsRefAll
