CONSTANTS
  MaxToks = 1
  Big = FALSE
  NRand = 0
  Part = "all"
SPECIFICATION Spec
INVARIANTS ImplIsRefAll
