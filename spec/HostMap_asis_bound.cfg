\* the cleaner AS WRITTEN: TLC must refute BoundedPerKey (two HostClients of one key with MaxConns connections each)
CONSTANTS
  Keys = {"a"}
  TLSKeys = {}
  Callers = {1, 2}
  MaxCalls = 1
  NH = 2
  MaxConns = 1
  MaxTicks = 1
  MaxCI = 0
  MaxReap = 0
  Retries = 0
  HoldCounted = FALSE
  CIAll = TRUE
SPECIFICATION Spec
VIEW View
INVARIANTS TypeOK BoundedPerKey
