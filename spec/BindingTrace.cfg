CONSTANTS
  Procs = {p1}
  MaxBinds = 1
INIT TraceInit
NEXT TraceNext
INVARIANTS Report TraceCacheSound
