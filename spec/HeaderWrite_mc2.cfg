CONSTANTS Mode = "ref"
Profile = "pair-q"
SPECIFICATION Spec
INVARIANTS TypeOK Safe
