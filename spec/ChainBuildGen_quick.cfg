CONSTANTS MaxOps = 4 MaxGroups = 3 MaxRoutes = 2
RandomPrograms = 300
INIT GenInit
NEXT GenNext
