CONSTANTS MaxOps = 4 MaxGroups = 3 MaxRoutes = 2
INIT GenInit
NEXT GenNext
