CONSTANTS Lens = {0} Nums = {0} MaxSmall = 8192 MaxReqs = 0
INIT TraceInit
NEXT TraceNext
INVARIANTS Report
