CONSTANTS
  N = 2
  Readers = {1}
  MaxOps = 1
  Locked = FALSE
SPECIFICATION Spec
INVARIANTS TypeOK Linearizable NoTornRead Snapshot MutexOK
