CONSTANTS MaxK = 2
INIT GenInit
NEXT GenNext
