CONSTANTS
  Slots = {1}
  Objs = {1}
  MaxReq = 1
  MaxMut = 1
  Drop = {}
  HeaderLengthFix = TRUE
INIT TraceInit
NEXT TraceNext
INVARIANTS Report PoolCleanT
