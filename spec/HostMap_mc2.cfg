\* corrected; one http key and one https key (two maps, two cleaners), 2 callers x 2 calls, MaxConns 2
CONSTANTS
  Keys = {"a", "b"}
  TLSKeys = {"b"}
  Callers = {1, 2}
  MaxCalls = 2
  NH = 4
  MaxConns = 2
  MaxTicks = 2
  MaxCI = 1
  MaxReap = 2
  Retries = 0
  HoldCounted = TRUE
  CIAll = TRUE
SPECIFICATION Spec
VIEW View
INVARIANTS TypeOK IdsSuffice MapSound OnePerKey OrphanFree BoundedPerKey CleanerCount LockExcludes
PROPERTIES RemoveOnlyIdle CloseIdleAll CloseIdleKeepsBusy
