CONSTANTS
  Nil <- NilStr
  Render <- RenderStr
  Lit <- LitStr
  McFamilies = {}
  McTarget = 0
INIT TraceInit
NEXT TraceNext
INVARIANTS Report
