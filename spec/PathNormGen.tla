---------------------------- MODULE PathNormGen ----------------------------
(* C07: the case space is too big for a case file (7^0+..+7^8 strings), so the driver enumerates it itself in the *)
(* order of PathNorm!Succ and the trace spec checks that order and completeness.  What TLC generates here is the  *)
(* description of the space, from the same constants the specification is checked with: alphabet (in order),     *)
(* MaxLen, the number of strings Total(MaxLen), the alphabet / length range of the random longer strings, and    *)
(* the pads (long prefixes / suffixes) that the cores of length <= PadMax are additionally wrapped in.            *)
EXTENDS PathNorm, Json, IOUtils
CONSTANTS RandMax,    \* longest random string
          PadMax      \* cores of length <= PadMax are also run wrapped in every pad of PathNorm!Pads (0: none)
ASSUME ndJsonSerialize(IOEnv.VERIF_OUT,
         <<[alphabet |-> Alphabet, maxlen |-> MaxLen, total |-> Total(MaxLen),
            randAlphabet |-> Alphabet10, randMin |-> MaxLen + 1, randMax |-> RandMax,
            padMax |-> PadMax, padTotal |-> IF PadMax = 0 THEN 0 ELSE Total(PadMax),
            pads |-> [i \in 1 .. Len(Pads) |-> [pre |-> Pads[i][1], post |-> Pads[i][2]]]]>>)
GenInit == cur = << >>
GenNext == UNCHANGED cur
=============================================================================
