---------------------------- MODULE PathNormGen ----------------------------
(* C07: the case space is too big for a case file (7^0+..+7^8 strings), so the driver enumerates it itself in the *)
(* order of PathNorm!Succ and the trace spec checks that order and completeness.  What TLC generates here is the  *)
(* description of the space, from the same constants the specification is checked with: alphabet (in order),     *)
(* MaxLen, the number of strings Total(MaxLen), and the alphabet / length range of the random longer strings.     *)
EXTENDS PathNorm, Json, IOUtils
CONSTANTS RandMax
ASSUME ndJsonSerialize(IOEnv.VERIF_OUT,
         <<[alphabet |-> Alphabet, maxlen |-> MaxLen, total |-> Total(MaxLen),
            randAlphabet |-> Alphabet10, randMin |-> MaxLen + 1, randMax |-> RandMax]>>)
GenInit == cur = << >>
GenNext == UNCHANGED cur
=============================================================================
