CONSTANTS
  Slots = {1}
  Objs = {1}
  MaxReq = 1
  MaxMut = 1
  Drop = {}
  HeaderLengthFix = TRUE
  PairMod = 11
  PairAllModes = FALSE
  SPairMod = 5
  NTriple = 2500
  NConc = 1
  Conns = 4
  Rounds = 25
  TouchShapes = 1
INIT GenInit
NEXT GenNext
