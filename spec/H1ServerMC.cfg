CONSTANTS MaxReqs = 2
SPECIFICATION MCSpec
INVARIANTS TypeOK CursorSync NoOverread OncePerRequest ResponsesFIFO CleanReject StreamExact TracerAlternates PairsBracket NothingAfterClose FinalIndependent
