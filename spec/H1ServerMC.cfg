CONSTANTS MaxReqs = 2
Configs <- QuickConfigs
SPECIFICATION MCSpec
INVARIANTS TypeOK CursorSync NoOverread OncePerRequest ResponsesFIFO CleanReject StreamExact TracerAlternates PairsBracket NothingAfterClose FinalIndependent
