------------------------------ MODULE PathNorm ------------------------------
(***************************************************************************)
(* C07 -- normalised request paths cannot climb out of the root.           *)
(*                                                                         *)
(* A request target is a sequence of TOKENS of `Alphabet` ("/", ".", "a",  *)
(* "%2e", "%2f", "%", "\\" ...); its bytes are the concatenation of the     *)
(* tokens.  Byte strings are sequences of one-character strings; a byte     *)
(* outside 0x20..0x7E is the symbolic character "<HH>" (the driver uses the *)
(* same rendering).                                                        *)
(*                                                                         *)
(*   Decode     percent-decoding, once; a '%' not followed by two hex      *)
(*              digits is kept literally and scanning goes on behind it.   *)
(*   Ref        THE PROPERTY: decode once, add the leading slash, split at *)
(*              '/', resolve the segments left to right with a stack       *)
(*              ('..' pops if it can; '' and '.' are dropped unless last;   *)
(*              a final '..' pops and leaves the empty last segment), join.*)
(*   Contained  begins with '/', no '..' segment, no ''/'.' segment except *)
(*              the last.                                                  *)
(*   Impl       transcription of pkg/protocol/uri.go:normalizePath (unix   *)
(*              build: uri_unix.go:addLeadingSlash) and                     *)
(*              pkg/protocol/args.go:decodeArgAppendNoPlus, loop by loop.   *)
(*              Go's "copy(b[i:], b[j:]); b = b[:len(b)-j+i]" is written as *)
(*              deleting b[i:j]; bytes behind len(b) are never read again.  *)
(*   CleanImpl  transcription of pkg/common/utils/path.go:CleanPath with   *)
(*              its lazily allocated buffer; CleanRef = what its doc       *)
(*              comment says (stack resolution without decoding, trailing  *)
(*              slash kept).                                               *)
(*                                                                         *)
(* State machine: `cur` steps through ALL token strings of length <=        *)
(* MaxLen in shortlex order (cur' = Succ(cur)); the enumeration is split    *)
(* in contiguous blocks (one per length and first K tokens)      so that TLC   *)
(* workers run blocks side by side.  The number of distinct states must be  *)
(* Total(MaxLen) (checked by the runner), i.e. Succ misses nothing.         *)
(* Invariants: ImplIsRef, RefContained, ImplContained, CleanImplIsRef,      *)
(* CleanContained, RankOK.                                                  *)
(*                                                                         *)
(* BackslashSep = TRUE models the Windows build (backslashes become        *)
(* slashes after decoding); the real code is only run on unix here.         *)
(*                                                                         *)
(* Deliberately unconstrained (trace spec): what CleanPath returns beyond   *)
(* containment (the property only states containment for it); the status   *)
(* and body of file responses except "the sentinel outside the root was    *)
(* not served"; scheme/host/query handling of the URI parser (the alphabet  *)
(* has no ':', '?', '#').                                                   *)
(***************************************************************************)
EXTENDS Integers, Sequences, FiniteSets, TLC

CONSTANTS Alphabet,      \* sequence of tokens, in enumeration order
          MaxLen,        \* longest enumerated token string
          BackslashSep   \* FALSE: unix (filepath.Separator = '/')

\* the alphabets of the property's quantifier (cfg: Alphabet <- Alphabet7); the trace spec also admits the
\* thorough-tier tokens in randomly drawn longer strings
Alphabet7 == <<"/", ".", "a", "%2e", "%2f", "%", "\\">>
Alphabet10 == Alphabet7 \o <<"%2E", "%252e", "%2F">>
\* second, "deep" space: few tokens, long strings (nesting such as /a/a/../../a needs 9+ tokens)
Alphabet3 == <<"/", ".", "a">>

N == Len(Alphabet)
TokSet == {Alphabet[i] : i \in 1 .. N}
TokIdx == [t \in TokSet |-> CHOOSE i \in 1 .. N : Alphabet[i] = t]

Max(S) == CHOOSE x \in S : \A y \in S : y <= x
Min(S) == CHOOSE x \in S : \A y \in S : x <= y

------------------------------------------------------------------------------
(* shortlex enumeration of token strings *)

RECURSIVE Pow(_, _)
Pow(b, e) == IF e = 0 THEN 1 ELSE b * Pow(b, e - 1)
RECURSIVE Total(_)
Total(n) == IF n < 0 THEN 0 ELSE Pow(N, n) + Total(n - 1)    \* number of strings of length <= n

First(n) == [i \in 1 .. n |-> Alphabet[1]]
IsLastOfLen(s) == \A i \in 1 .. Len(s) : s[i] = Alphabet[N]

Succ(s) == IF IsLastOfLen(s) THEN First(Len(s) + 1)
           ELSE LET p == Max({i \in 1 .. Len(s) : s[i] # Alphabet[N]})
                IN [i \in 1 .. Len(s) |-> IF i < p THEN s[i]
                                          ELSE IF i = p THEN Alphabet[TokIdx[s[i]] + 1]
                                          ELSE Alphabet[1]]

RECURSIVE RankDigits(_, _)
RankDigits(s, i) == IF i > Len(s) THEN 0 ELSE (TokIdx[s[i]] - 1) * Pow(N, Len(s) - i) + RankDigits(s, i + 1)
Rank(s) == Total(Len(s) - 1) + RankDigits(s, 1)               \* 0-based position in the enumeration

------------------------------------------------------------------------------
(* bytes *)

Printable == " !\"#$%&'()*+,-./0123456789:;<=>?@ABCDEFGHIJKLMNOPQRSTUVWXYZ[\\]^_`abcdefghijklmnopqrstuvwxyz{|}~"
HexUp == "0123456789ABCDEF"
Chr(v) == IF v \in 32 .. 126 THEN SubSeq(Printable, v - 31, v - 31)
          ELSE "<" \o SubSeq(HexUp, (v \div 16) + 1, (v \div 16) + 1) \o SubSeq(HexUp, (v % 16) + 1, (v % 16) + 1) \o ">"

\* bytesconv.Hex2intTable: 16 = not a hex digit
HexTab == [c \in {"0","1","2","3","4","5","6","7","8","9","a","b","c","d","e","f","A","B","C","D","E","F"} |->
             CASE c = "0" -> 0 [] c = "1" -> 1 [] c = "2" -> 2 [] c = "3" -> 3 [] c = "4" -> 4
               [] c = "5" -> 5 [] c = "6" -> 6 [] c = "7" -> 7 [] c = "8" -> 8 [] c = "9" -> 9
               [] c \in {"a", "A"} -> 10 [] c \in {"b", "B"} -> 11 [] c \in {"c", "C"} -> 12
               [] c \in {"d", "D"} -> 13 [] c \in {"e", "E"} -> 14 [] c \in {"f", "F"} -> 15]
Hex2int(c) == IF c \in DOMAIN HexTab THEN HexTab[c] ELSE 16

\* third space, "padded": the strings of the enumeration wrapped in long plain material, so that the whole target
\* is longer than CleanPath's 128-byte stack buffer (path.go: stackBufSize), with the point where the cleaner has to
\* modify the path behind byte 128 (long prefix: one long segment / many short segments), before it (long
\* suffix) and in the middle.  A pad is <<prefix tokens, suffix tokens>>; a pad token is a run of 'a'.
RECURSIVE Rep(_)
Rep(n) == IF n = 0 THEN "" ELSE "a" \o Rep(n - 1)
RECURSIVE Times(_, _)
Times(seq, n) == IF n = 0 THEN << >> ELSE seq \o Times(seq, n - 1)
Pad(pre, post) == <<pre, post>>
Pads == << Pad(<<"/", Rep(125)>>, << >>),               \* 126 bytes in front: totals 126.. straddle 128
           Pad(Times(<<"/", "a">>, 65), << >>),          \* 65 short segments in front (130 bytes)
           Pad(<< >>, <<"/", Rep(130)>>),                \* modification first, 131 plain bytes behind it
           Pad(<<"/", Rep(60)>>, <<"/", Rep(70)>>) >>    \* modification in the middle of 132+ bytes
PadTok == {Rep(125), Rep(130), Rep(60), Rep(70)}
AllTok == TokSet \cup {Alphabet10[i] : i \in 1 .. Len(Alphabet10)} \cup PadTok
TokChars == [t \in AllTok |-> [i \in 1 .. Len(t) |-> SubSeq(t, i, i)]]
RECURSIVE FlatFrom(_, _)
FlatFrom(s, i) == IF i > Len(s) THEN << >> ELSE TokChars[s[i]] \o FlatFrom(s, i + 1)
Flat(s) == FlatFrom(s, 1)                                       \* the bytes of a token string

Slash == "/"
Dot == <<".">>
DotDot == <<".", ".">>

------------------------------------------------------------------------------
(* the reference: decode once, then resolve with a stack *)

RECURSIVE DecodeFrom(_, _)
DecodeFrom(c, i) ==
    IF i > Len(c) THEN << >>
    ELSE IF c[i] = "%" /\ i + 2 <= Len(c) /\ Hex2int(c[i + 1]) < 16 /\ Hex2int(c[i + 2]) < 16
         THEN <<Chr(16 * Hex2int(c[i + 1]) + Hex2int(c[i + 2]))>> \o DecodeFrom(c, i + 3)
         ELSE <<c[i]>> \o DecodeFrom(c, i + 1)
Decode(c) == DecodeFrom(c, 1)

Unbackslash(c) == IF BackslashSep THEN [i \in 1 .. Len(c) |-> IF c[i] = "\\" THEN Slash ELSE c[i]] ELSE c

AddSlash(c) == IF c = << >> \/ c[1] # Slash THEN <<Slash>> \o c ELSE c

\* segments of a path that begins with '/': what follows each '/'   ("/" -> <<"">>, "/a/" -> <<"a","">>)
RECURSIVE SegsFrom(_, _, _)
SegsFrom(p, i, acc) == IF i > Len(p) THEN <<acc>>
                       ELSE IF p[i] = Slash THEN <<acc>> \o SegsFrom(p, i + 1, << >>)
                       ELSE SegsFrom(p, i + 1, Append(acc, p[i]))
Segs(p) == SegsFrom(p, 2, << >>)

PopSeg(st) == IF st = << >> THEN st ELSE SubSeq(st, 1, Len(st) - 1)

\* left to right with a stack; the result is the list of segments of the normalised path
RECURSIVE Resolve(_, _, _)
Resolve(sg, i, st) ==
    LET g == sg[i] IN
    IF i = Len(sg)
    THEN CASE g = DotDot -> Append(PopSeg(st), << >>)      \* ".../x/.."  ->  ".../"
           [] g = << >>  -> Append(st, << >>)              \* trailing slash kept
           [] g = Dot    -> Append(st, Dot)                \* a final "." is left alone
           [] OTHER      -> Append(st, g)
    ELSE CASE g = DotDot -> Resolve(sg, i + 1, PopSeg(st))
           [] g = << >>  -> Resolve(sg, i + 1, st)
           [] g = Dot    -> Resolve(sg, i + 1, st)
           [] OTHER      -> Resolve(sg, i + 1, Append(st, g))

RECURSIVE JoinFrom(_, _)
JoinFrom(sg, i) == IF i > Len(sg) THEN << >> ELSE <<Slash>> \o sg[i] \o JoinFrom(sg, i + 1)
Join(sg) == JoinFrom(sg, 1)

RefBytes(c) == Join(Resolve(Segs(AddSlash(Unbackslash(Decode(c)))), 1, << >>))
Ref(s) == RefBytes(Flat(s))

Contained(p) == /\ p # << >> /\ p[1] = Slash
                /\ LET sg == Segs(p) IN
                   \A i \in 1 .. Len(sg) : /\ sg[i] # DotDot
                                           /\ i < Len(sg) => sg[i] \notin {<< >>, Dot}

------------------------------------------------------------------------------
(* Go helpers: 0-based indices, -1 = not found *)

MatchAt(b, pat, i) == \A j \in 1 .. Len(pat) : b[i + j] = pat[j]            \* pat at 0-based offset i
Index(b, pat) == LET C == {i \in 0 .. Len(b) - Len(pat) : MatchAt(b, pat, i)} IN IF C = {} THEN -1 ELSE Min(C)
LastIndex(b, pat) == LET C == {i \in 0 .. Len(b) - Len(pat) : MatchAt(b, pat, i)} IN IF C = {} THEN -1 ELSE Max(C)
IndexByte(b, ch) == Index(b, <<ch>>)
LastIndexByte(b, ch) == LastIndex(b, <<ch>>)
Slice(b, i, j) == SubSeq(b, i + 1, j)                                       \* b[i:j]
Cut(b, i, j) == Slice(b, 0, i) \o Slice(b, j, Len(b))                       \* copy(b[i:], b[j:]); b = b[:len(b)-j+i]

StrSlashSlash == <<"/", "/">>
StrSlashDotSlash == <<"/", ".", "/">>
StrSlashDotDotSlash == <<"/", ".", ".", "/">>
StrSlashDotDot == <<"/", ".", ".">>

(* args.go: decodeArgAppendNoPlus(dst, src) *)
RECURSIVE DecodeLoop(_, _, _)
DecodeLoop(dst, src, i) ==
    IF ~(i < Len(src)) THEN dst
    ELSE LET c == src[i + 1] IN
         IF c = "%"
         THEN IF i + 2 >= Len(src) THEN dst \o Slice(src, i, Len(src))        \* return append(dst, src[i:]...)
              ELSE LET x2 == Hex2int(src[i + 3])
                       x1 == Hex2int(src[i + 2])
                   IN IF x1 = 16 \/ x2 = 16 THEN DecodeLoop(Append(dst, "%"), src, i + 1)
                      ELSE DecodeLoop(Append(dst, Chr(x1 * 16 + x2)), src, i + 3)   \* i += 2; i++
         ELSE DecodeLoop(Append(dst, c), src, i + 1)
DecodeArgAppendNoPlus(dst, src) == IF IndexByte(src, "%") < 0 THEN dst \o src ELSE DecodeLoop(dst, src, 0)

(* uri_unix.go: addLeadingSlash(dst, src) *)
AddLeadingSlash(dst, src) == IF Len(src) = 0 \/ src[1] # Slash THEN Append(dst, Slash) ELSE dst

(* uri.go: normalizePath -- "remove duplicate slashes" *)
RECURSIVE RmDupSlashes(_)
RmDupSlashes(b) == LET n == Index(b, StrSlashSlash) IN
                   IF n < 0 THEN b
                   ELSE \* b = b[n:]; copy(b, b[1:]); b = b[:len(b)-1]; bSize--   (dst[:n] stays in front)
                        Slice(b, 0, n) \o RmDupSlashes(Slice(b, n + 1, Len(b)))

(* "remove /./ parts" *)
RECURSIVE RmDotParts(_)
RmDotParts(b) == LET n == Index(b, StrSlashDotSlash) IN
                 IF n < 0 THEN b
                 ELSE LET nn == n + Len(StrSlashDotSlash) - 1 IN RmDotParts(Cut(b, n, nn))

(* "remove /foo/../ parts" *)
RECURSIVE RmDotDotParts(_)
RmDotDotParts(b) == LET n == Index(b, StrSlashDotDotSlash) IN
                    IF n < 0 THEN b
                    ELSE LET nn0 == LastIndexByte(Slice(b, 0, n), Slash)
                             nn == IF nn0 < 0 THEN 0 ELSE nn0
                             n2 == n + Len(StrSlashDotDotSlash) - 1
                         IN RmDotDotParts(Cut(b, nn, n2))

(* "remove trailing /foo/.." *)
RmTrailingDotDot(b) == LET n == LastIndex(b, StrSlashDotDot) IN
                       IF n >= 0 /\ n + Len(StrSlashDotDot) = Len(b)
                       THEN LET nn == LastIndexByte(Slice(b, 0, n), Slash) IN
                            IF nn < 0 THEN <<Slash>> ELSE Slice(b, 0, nn + 1)
                       ELSE b

NormalizePath(src) == LET d0 == AddLeadingSlash(<< >>, src)
                          d1 == DecodeArgAppendNoPlus(d0, src)
                          d2 == Unbackslash(d1)                         \* if filepath.Separator == '\\' { ... }
                      IN RmTrailingDotDot(RmDotDotParts(RmDotParts(RmDupSlashes(d2))))
\* URI.Path(): an empty path reads as "/"
ImplBytes(c) == LET p == NormalizePath(c) IN IF Len(p) = 0 THEN <<Slash>> ELSE p
Impl(s) == ImplBytes(Flat(s))

------------------------------------------------------------------------------
(* utils.CleanPath: transcription with the lazily allocated buffer.  buf = << >> means "not allocated: the   *)
(* output so far is a prefix of p".  Unwritten buffer bytes are "<00>".                                       *)

Zero == "<00>"
BufApp(buf, s, w, c) ==        \* bufApp(&buf, s, w, c)
    IF Len(buf) = 0
    THEN IF s[w + 1] = c THEN buf
         ELSE [i \in 1 .. Len(s) |-> IF i <= w THEN s[i] ELSE IF i = w + 1 THEN c ELSE Zero]
    ELSE [buf EXCEPT ![w + 1] = c]

RECURSIVE BackTo(_, _)
BackTo(src, w) == IF w > 1 /\ src[w + 1] # Slash THEN BackTo(src, w - 1) ELSE w     \* for w > 1 && src[w] != '/' { w-- }

RECURSIVE CopyElem(_, _, _, _)
CopyElem(p, r, w, buf) == IF r < Len(p) /\ p[r + 1] # Slash
                          THEN CopyElem(p, r + 1, w + 1, BufApp(buf, p, w, p[r + 1]))
                          ELSE [r |-> r, w |-> w, buf |-> buf]

RECURSIVE CleanLoop(_, _, _, _, _)
CleanLoop(p, r, w, buf, trailing) ==
    LET n == Len(p) IN
    IF ~(r < n) THEN [w |-> w, buf |-> buf, trailing |-> trailing]
    ELSE CASE p[r + 1] = Slash -> CleanLoop(p, r + 1, w, buf, trailing)
           [] p[r + 1] = "." /\ r + 1 = n -> CleanLoop(p, r + 1, w, buf, TRUE)
           [] p[r + 1] = "." /\ r + 1 < n /\ p[r + 2] = Slash -> CleanLoop(p, r + 2, w, buf, trailing)
           [] p[r + 1] = "." /\ r + 1 < n /\ p[r + 2] = "." /\ (r + 2 = n \/ p[r + 3] = Slash) ->
                 IF w > 1
                 THEN CleanLoop(p, r + 3, BackTo(IF Len(buf) = 0 THEN p ELSE buf, w - 1), buf, trailing)
                 ELSE CleanLoop(p, r + 3, w, buf, trailing)
           [] OTHER ->
                 LET b1 == IF w > 1 THEN BufApp(buf, p, w, Slash) ELSE buf
                     w1 == IF w > 1 THEN w + 1 ELSE w
                     e == CopyElem(p, r, w1, b1)
                 IN CleanLoop(p, e.r, e.w, e.buf, trailing)

CleanImplBytes(p) ==
    LET n == Len(p) IN
    IF n = 0 THEN <<Slash>>
    ELSE LET rooted == p[1] = Slash
             r0 == IF rooted THEN 1 ELSE 0
             buf0 == IF rooted THEN << >> ELSE [i \in 1 .. n + 1 |-> IF i = 1 THEN Slash ELSE Zero]
             tr0 == n > 1 /\ p[n] = Slash
             e == CleanLoop(p, r0, 1, buf0, tr0)
             b2 == IF e.trailing /\ e.w > 1 THEN BufApp(e.buf, p, e.w, Slash) ELSE e.buf
             w2 == IF e.trailing /\ e.w > 1 THEN e.w + 1 ELSE e.w
         IN IF Len(b2) = 0 THEN Slice(p, 0, w2) ELSE Slice(b2, 0, w2)

\* what the doc comment of CleanPath says: path.Clean on the rooted path, trailing slash re-appended
RECURSIVE ResolveAll(_, _, _)
ResolveAll(sg, i, st) == IF i > Len(sg) THEN st
                         ELSE CASE sg[i] = DotDot -> ResolveAll(sg, i + 1, PopSeg(st))
                                [] sg[i] = << >>  -> ResolveAll(sg, i + 1, st)
                                [] sg[i] = Dot    -> ResolveAll(sg, i + 1, st)
                                [] OTHER          -> ResolveAll(sg, i + 1, Append(st, sg[i]))
CleanRefBytes(p) == LET sg == Segs(AddSlash(p))
                        st == ResolveAll(sg, 1, << >>)
                        trailing == (Len(p) > 1 /\ p[Len(p)] = Slash) \/ (p # << >> /\ sg[Len(sg)] = Dot)
                    IN IF st = << >> THEN <<Slash>> ELSE Join(st) \o (IF trailing THEN <<Slash>> ELSE << >>)

------------------------------------------------------------------------------
(* the state machine: shortlex enumeration in blocks *)

VARIABLE cur
vars == <<cur>>

\* a block = all strings of one length with the same first K tokens (lengths < K: one block per length)
K == IF N <= 3 THEN 5 ELSE 3
BlockStarts == {First(n) : n \in 0 .. (IF MaxLen < K THEN MaxLen ELSE K - 1)}
               \cup {pre \o First(n - K) : n \in K .. MaxLen, pre \in [1 .. K -> TokSet]}
BlockEnd(s) == IF Len(s) < K THEN IsLastOfLen(s) ELSE \A i \in K + 1 .. Len(s) : s[i] = Alphabet[N]
Init == cur \in BlockStarts
Next == ~BlockEnd(cur) /\ cur' = Succ(cur)
Spec == Init /\ [][Next]_vars

TypeOK == Len(cur) <= MaxLen /\ \A i \in 1 .. Len(cur) : cur[i] \in TokSet
ImplIsRef == Impl(cur) = Ref(cur)
RefContained == Contained(Ref(cur))
ImplContained == Contained(Impl(cur))
CleanImplIsRef == CleanImplBytes(Flat(cur)) = CleanRefBytes(Flat(cur))
CleanContained == Contained(CleanImplBytes(Flat(cur)))
\* the same five obligations with the intermediate values shared (one evaluation of Flat/Ref/Impl/Clean per state)
AllInOne == LET c == Flat(cur)
                r == RefBytes(c)
                cl == CleanImplBytes(c)
            IN /\ ImplBytes(c) = r /\ Contained(r) /\ cl = CleanRefBytes(c) /\ Contained(cl)
RankOK == /\ Rank(cur) < Total(MaxLen)
          /\ (~(Len(cur) = MaxLen /\ IsLastOfLen(cur))) => Rank(Succ(cur)) = Rank(cur) + 1
=============================================================================
