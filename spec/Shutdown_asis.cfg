\* NEGATIVE (expected: SecondShutdownErrors violated): Engine.Shutdown as written, the CAS loser returns nil
CONSTANTS
  Conns = {c1, c2}
  Callers = {k1, k2}
  Hooks = {h1}
  BeyondHooks = {}
  MaxReq = 1
  Transport = "standard"
  ServerRun = TRUE
  CasLoserErrors = FALSE
  ExitCheckAfterHandler = TRUE
  HooksConcurrent = TRUE
  CountAtAccept = TRUE
SYMMETRY Sym
SPECIFICATION Spec
INVARIANTS TypeOK SecondShutdownErrors
