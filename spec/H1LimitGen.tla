----------------------------- MODULE H1LimitGen -----------------------------
(***************************************************************************)
(* Case generator for C03 (a1): the request body limit (MaxRequestBodySize *)
(* = Limit) at its boundary, for every way a body can be declared and      *)
(* every content type the server pre-parses.  Buffered mode: a body of     *)
(* Limit bytes is handled (and the pipelined probe behind it too); a body  *)
(* of more than Limit bytes is answered by one 4xx + close, no handler,    *)
(* nothing after -- whatever its framing (Content-Length, one chunk, many  *)
(* chunks crossing the limit) and whatever its Content-Type (none, JSON,   *)
(* urlencoded form, multipart form with a boundary).                       *)
(***************************************************************************)
EXTENDS Wire, Json, IOUtils, SequencesExt

CONSTANTS Limit

F(lname, style, words) == [lname |-> lname, style |-> style, words |-> words]
HostField == F("host", "canon", <<"example.com">>)

Req(m, t, fr, n, cs, extra) ==
    [method |-> m, target |-> t, ver |-> "1.1", fields |-> <<HostField>> \o extra,
     framing |-> fr, bodyLen |-> n, chunks |-> cs, hexUpper |-> FALSE, chunkExt |-> FALSE,
     trailers |-> << >>, expect100 |-> FALSE, close |-> FALSE, clStyle |-> "canon", bodyLit |-> "", raw |-> ""]

Probe == Req("GET", "/probe", "none", 0, << >>, <<F("x-a", "canon", <<"probe">>)>>)

Ones(n) == [k \in 1 .. n |-> 1]
RECURSIVE Fill(_, _)
Fill(c, n) == IF n = 0 THEN "" ELSE c \o Fill(c, n - 1)

CT(v) == <<F("content-type", "canon", v)>>
\* a multipart form whose single part carries n bytes
MpBody(n) == "--BB\r\nContent-Disposition: form-data; name=f\r\n\r\n" \o Fill("m", n) \o "\r\n--BB--\r\n"
MpReq(n) == [Req("POST", "/mp", "cl", Len(MpBody(n)), << >>, CT(<<"multipart/form-data;", "boundary=BB">>)) EXCEPT !.bodyLit = MpBody(n)]
\* an urlencoded form of exactly n bytes
UrlBody(n) == "a=" \o Fill("u", n - 2)
UrlReq(n) == [Req("POST", "/form", "cl", n, << >>, CT(<<"application/x-www-form-urlencoded">>)) EXCEPT !.bodyLit = UrlBody(n)]

\* requests whose body is over the limit: must be rejected in buffered mode
Over == <<
   Req("POST", "/o1", "cl", Limit + 1, << >>, << >>),
   Req("PUT", "/o2", "cl", 4 * Limit, << >>, CT(<<"application/json">>)),
   UrlReq(Limit + 1),
   UrlReq(3 * Limit),
   MpReq(Limit),                  \* the form as a whole is over the limit
   MpReq(4 * Limit),
   Req("POST", "/o3", "chunked", Limit + 1, <<Limit + 1>>, << >>),
   Req("POST", "/o4", "chunked", Limit + 1, <<Limit, 1>>, << >>),
   Req("POST", "/o5", "chunked", Limit + 1, <<Limit \div 2, Limit - (Limit \div 2) + 1>>, << >>),
   Req("POST", "/o6", "chunked", Limit + 1, Ones(Limit + 1), CT(<<"application/json">>)),
   Req("POST", "/o7", "chunked", 3 * Limit, <<Limit - 1, Limit - 1, Limit + 2>>, << >>) >>

\* requests whose body is exactly at (or just under) the limit: must be handled, and the probe after them
AtLimit == <<
   Req("POST", "/a1", "cl", Limit, << >>, << >>),
   Req("PUT", "/a2", "cl", Limit - 1, << >>, CT(<<"application/json">>)),
   UrlReq(Limit),
   Req("POST", "/a3", "chunked", Limit, <<Limit>>, << >>),
   Req("POST", "/a4", "chunked", Limit, <<Limit - 1, 1>>, << >>),
   Req("POST", "/a5", "chunked", Limit, Ones(Limit), << >>) >>

\* (Limit is deliberately not a power of two: a body buffer that an at-limit request left behind has spare capacity
\*  beyond the limit, so "over the limit" must be decided by counting, not by running out of buffer)
\* malformed only behind the head (buffered mode reads the whole message before the handler runs: no handler, one 4xx)
Raw(s) == [Req("GET", "/", "none", 0, << >>, << >>) EXCEPT !.raw = s]
LateBad == <<
   Raw("POST /badtr HTTP/1.1\r\nHost: example.com\r\nTransfer-Encoding: chunked\r\n\r\n3\r\nabc\r\n0\r\nBad Key: x\r\n\r\n"),
   Raw("POST /badtr2 HTTP/1.1\r\nHost: example.com\r\nTransfer-Encoding: chunked\r\n\r\n3\r\nabc\r\n0\r\nNoColon\r\n\r\n"),
   Raw("POST /badchunk HTTP/1.1\r\nHost: example.com\r\nTransfer-Encoding: chunked\r\n\r\n3\r\nabc\r\nZZ\r\nabc\r\n0\r\n\r\n"),
   Raw("POST /badchunk2 HTTP/1.1\r\nHost: example.com\r\nTransfer-Encoding: chunked\r\n\r\n3\r\nabcXX0\r\n\r\n") >>

Scripts == [k \in 1 .. Len(LateBad) |-> <<LateBad[k]>>] \o [k \in 1 .. Len(LateBad) |-> <<Probe, LateBad[k]>>] \o
           [k \in 1 .. Len(Over) |-> <<Over[k], Probe>>]
           \o [k \in 1 .. Len(Over) |-> <<Probe, Over[k]>>]
           \o [k \in 1 .. Len(AtLimit) |-> <<AtLimit[k], Probe>>]
           \o [k \in 1 .. Len(AtLimit) |-> <<AtLimit[k], Over[((k * 3) % Len(Over)) + 1]>>]
           \o [k \in 1 .. 4 |-> <<AtLimit[1], Over[k + 6]>>] \o [k \in 1 .. 4 |-> <<AtLimit[4], Over[k + 6]>>]   \* ... then chunked just over it

Case(k) == [id |-> k, script |-> Scripts[k], wire |-> Encode(Scripts[k]), offs |-> Offsets(Scripts[k]),
            behs |-> [i \in 1 .. Len(Scripts[k]) |-> "ok"],
            fault |-> [truncate |-> 0, wfail |-> 0, maxBody |-> Limit, stall |-> FALSE]]

ASSUME \A k \in 1 .. Len(Scripts) : \A j \in 1 .. Len(Scripts[k]) : WellFormedReq(Scripts[k][j])
ASSUME ndJsonSerialize(IOEnv.VERIF_OUT, [k \in 1 .. Len(Scripts) |-> Case(k)])

VARIABLE g
GenInit == g = 0
GenNext == UNCHANGED g
=============================================================================
