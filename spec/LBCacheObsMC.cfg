\* every behaviour of LBCache (2 keys, 2 callers x 1 call, 3 versions, 2 watcher ticks, 1 refresh tick) is accepted
CONSTANTS
  Keys = {"a", "b"}
  Callers = {1, 2}
  Counts = {0, 2}
  CanFail = TRUE
  MaxRes = 3
  MaxCalls = 1
  MaxWTicks = 2
  MaxRTicks = 1
  RefreshResets = FALSE
INIT OInitMC
NEXT ONextMC
VIEW OView
INVARIANTS Accepts
