---------------------------- MODULE HzRouterGen ----------------------------
(***************************************************************************)
(* C16 -- hz-generated router code registers exactly the routes declared   *)
(* in the IDL (translation validation).                                    *)
(*                                                                         *)
(* A DECLARATION is the sequence of HTTP methods the IDL plugins hand to   *)
(* the generator (cmd/hz/thrift/ast.go, protobuf/ast.go: one HttpMethod    *)
(* per (function, api.<verb> annotation), in IDL order):                   *)
(*     [verb, path, name, dir]                                             *)
(* verb in {GET, POST, ..., Any}; path = sequence of segments ("/a/:id/"   *)
(* is <<"a", ":id", "">>, the root "/" is <<"">>); name = handler function *)
(* name; dir = api.handler_path (used with handler-by-method only).        *)
(* OPTIONS: sort (--sort_router), snake (--snake_style_middleware),        *)
(* byMethod (--handler_by_method).                                         *)
(*                                                                         *)
(* Part 1 (obligations) says what the COMPILED AND EXECUTED output of the  *)
(* generator must look like; it is what the trace specification            *)
(* (HzRouterGenTrace) holds every recorded run against:                    *)
(*   - the registered (verb, path) set is Expected(decl) ('Any' = hertz'   *)
(*     nine verbs, route.RouterGroup.Any),                                 *)
(*   - every route runs the handler HandlerId(method, opts),               *)
(*   - the functions that run before the handler are, in order: one        *)
(*     middleware function for the root group, one for every group on the  *)
(*     route's path (Groups(path) = every proper non-empty prefix, i.e.    *)
(*     every node of the segment tree above the route's node, outermost    *)
(*     first), one for the route itself: Slots(path, handler);             *)
(*   - a middleware function belongs to ONE slot: the same generated       *)
(*     function never serves two different groups / a group and a handler  *)
(*     / two different handlers (Functional).                              *)
(* Deliberately unconstrained: names of generated identifiers, files and   *)
(* variables; the order in which routes are registered; how many distinct  *)
(* functions serve one slot (hz sometimes emits two groups for the same    *)
(* prefix, each with its own function: accepted); the text of generator    *)
(* or compiler messages; go vet diagnostics that are not type errors;      *)
(* response status and body of the stub handlers.                          *)
(*                                                                         *)
(* Part 2 (model) transcribes the generator's algorithm -- the segment     *)
(* tree built by RouterNode.Update / FindNearest / Insert / Sort           *)
(* (cmd/hz/generator/router.go) and the router template                    *)
(* (package_tpl.go, template "G") -- with identifier naming abstracted to  *)
(* "one fresh name per tree node" (what DyeGroupName +                      *)
(* util.GetMiddlewareUniqueName are for).  TLC checks on every declaration *)
(* within the bounds of HzRouterGen_mc.cfg that this design meets the      *)
(* obligations of part 1 (so they are satisfiable and the tree algorithm   *)
(* itself is right), that Groups is a path in the tree, and that the       *)
(* obligations are not vacuous (Sensitive).  Whether the REAL naming is    *)
(* injective, the real template attaches the right variable, etc. is       *)
(* decided by the conformance run, not here.                               *)
(***************************************************************************)
EXTENDS Integers, Sequences, FiniteSets, TLC

AnyVerbs == {"GET", "POST", "PUT", "DELETE", "PATCH", "HEAD", "OPTIONS", "CONNECT", "TRACE"}   \* RouterGroup.Any
IdlPackage == "api"      \* go namespace of the IDL the harness declares; handler-by-service puts handlers there

-----------------------------------------------------------------------------
(* Part 1: obligations *)

VerbsOf(v) == IF v = "Any" THEN AnyVerbs ELSE {v}

IsCatchAll(s) == Len(s) > 0 /\ SubSeq(s, 1, 1) = "*"

RECURSIVE PathStr(_)
PathStr(p) == IF Len(p) = 0 THEN "" ELSE "/" \o p[1] \o PathStr(Tail(p))

\* a path hertz can route: inner segments non-empty and not catch-all
WellFormedPath(p) == /\ Len(p) >= 1
                     /\ \A k \in 1 .. Len(p) - 1 : p[k] # "" /\ ~IsCatchAll(p[k])

WellFormed(decl) == /\ Len(decl) >= 1
                    /\ \A i \in DOMAIN decl : WellFormedPath(decl[i].path) /\ decl[i].name # ""

\* hertz itself refuses the same (verb, path) twice ("handlers are already registered"); nothing else (probed:
\* every pair of well-formed paths over the alphabet registers, in both orders)
Legal(decl) == \A i, j \in DOMAIN decl :
                  i < j => ~(decl[i].path = decl[j].path /\ VerbsOf(decl[i].verb) \cap VerbsOf(decl[j].verb) # {})

Expected(decl) == UNION {{[verb |-> v, path |-> PathStr(decl[i].path)] : v \in VerbsOf(decl[i].verb)} : i \in DOMAIN decl}

\* the declared method a registered (verb, path) comes from (unique when Legal)
Owner(decl, v, ps) == CHOOSE i \in DOMAIN decl : v \in VerbsOf(decl[i].verb) /\ PathStr(decl[i].path) = ps

\* the handler a method is bound to: "<package below handler_dir>.<Name>"
HandlerId(m, opts) == (IF opts.byMethod THEN m.dir ELSE IdlPackage) \o "." \o m.name

\* the groups on a route's path, outermost first: every proper non-empty prefix
Groups(p) == [k \in 1 .. Len(p) - 1 |-> SubSeq(p, 1, k)]

\* what runs for a request, position by position: root group, groups, the route's own middleware
Slots(p, hid) == [k \in 1 .. Len(p) + 1 |->
                    IF k = 1 THEN [kind |-> "root", pre |-> "", h |-> ""]
                    ELSE IF k <= Len(p) THEN [kind |-> "group", pre |-> PathStr(Groups(p)[k - 1]), h |-> ""]
                    ELSE [kind |-> "handler", pre |-> "", h |-> hid]]

Pairs(p, hid, chain) == {[n |-> chain[k], s |-> Slots(p, hid)[k]] : k \in DOMAIN chain}
Functional(P) == \A x, y \in P : x.n = y.n => x.s = y.s

\* one observed route: registered under (verb, ps), its probe ran `chain` (middleware function names) and then
\* the handler `handler`; fn = pairs (function name, slot) seen so far in this program
\* (exp = Expected(decl), passed in so that it is computed once per program)
RouteOK(decl, opts, exp, verb, ps, handler, chain, fn) ==
    /\ [verb |-> verb, path |-> ps] \in exp
    /\ LET m == decl[Owner(decl, verb, ps)] IN
         /\ handler = HandlerId(m, opts)
         /\ Len(chain) = Len(m.path) + 1
         /\ Functional(fn \cup Pairs(m.path, handler, chain))

-----------------------------------------------------------------------------
(* Part 2: the generator's algorithm *)

CONSTANTS McInner, McLast, McVerbs, McMaxDepth, McMaxMethods    \* bounds of the exhaustive configuration only

VARIABLES decl, opts,
          nodes,    \* the segment tree: sequence of [par, seg, h]; node id = index, 0 = root ("/");
                    \* h = index of the declared method the node registers, 0 for a pure group node
          done,     \* number of methods inserted (processHandler -> root.Update per method)
          phase,    \* "build" | "rendered"
          reg       \* the routes the rendered Register() function registers: set of [verb, path, handler, chain]
vars == <<decl, opts, nodes, done, phase, reg>>

Kids(ns, c) == {n \in DOMAIN ns : ns[n].par = c}

\* childrenRouterInfo.Less: nodes with an HTTP method first (ordered by the method string), groups last; the order
\* between different segments does not matter for the first match of one segment
VerbRank(v) == CASE v = "Any" -> 1 [] v = "DELETE" -> 2 [] v = "GET" -> 3 [] v = "POST" -> 4 [] OTHER -> 5
Key(ns, d, n) == IF ns[n].h = 0 THEN 100 ELSE VerbRank(d[ns[n].h].verb)
\* FindNearest: children of c whose Path is "/"+s; with sort_router only pure groups are followed
\* (!strings.EqualFold(c.HttpMethod, "") -> continue)
Cands(ns, c, s, sort) == {n \in Kids(ns, c) : ns[n].seg = s /\ (sort => ns[n].h = 0)}
First(ns, d, S) == CHOOSE n \in S : \A m \in S : Key(ns, d, n) <= Key(ns, d, m)

RECURSIVE FindNearest(_, _, _, _, _, _)
FindNearest(ns, d, p, c, i, sort) ==        \* i segments matched, standing at node c
    LET S == Cands(ns, c, p[i + 1], sort) IN
    IF S = {} THEN [node |-> c, i |-> i]
    ELSE IF i + 1 = Len(p) THEN [node |-> c, i |-> i]      \* the last segment always becomes a NEW node
    ELSE FindNearest(ns, d, p, First(ns, d, S), i + 1, sort)

RECURSIVE InsertChain(_, _, _, _, _)
InsertChain(ns, par, p, i, k) ==            \* RouterNode.Insert: one new node per remaining segment, the last carries the method
    IF i > Len(p) THEN ns
    ELSE LET ns2 == Append(ns, [par |-> par, seg |-> p[i], h |-> IF i = Len(p) THEN k ELSE 0])
         IN InsertChain(ns2, Len(ns2), p, i + 1, k)

Update ==                                   \* RouterNode.Update for method done+1
    /\ phase = "build" /\ done < Len(decl)
    /\ LET k == done + 1
           p == decl[k].path
           f == FindNearest(nodes, decl, p, 0, 0, opts.sort)
       IN nodes' = InsertChain(nodes, f.node, p, f.i + 1, k)
    /\ done' = done + 1
    /\ UNCHANGED <<decl, opts, phase, reg>>

RECURSIVE Anc(_, _)
Anc(ns, n) == IF ns[n].par = 0 THEN << >> ELSE Append(Anc(ns, ns[n].par), ns[n].par)   \* proper ancestors, top-down
NodePath(ns, n) == [k \in 1 .. Len(Anc(ns, n)) |-> ns[Anc(ns, n)[k]].seg] \o <<ns[n].seg>>

\* template "G": a node with a handler emits  <parent group var>.<VERB>(<seg>, append(<own handler mw>(), handler)...);
\* a node with children emits  <own var> := <parent group var>.Group(<seg>, <own group mw>()...);  the root emits
\* root := r.Group("/", rootMw()...).  Names: one per node and role (DyeGroupName + GetMiddlewareUniqueName).
ChainOf(ns, n) == <<<<"root", 0>>>> \o [k \in 1 .. Len(Anc(ns, n)) |-> <<"g", Anc(ns, n)[k]>>] \o <<<<"h", n>>>>
Render ==
    /\ phase = "build" /\ done = Len(decl)
    /\ reg' = UNION {{[verb |-> v, path |-> PathStr(NodePath(nodes, n)), handler |-> HandlerId(decl[nodes[n].h], opts),
                       chain |-> ChainOf(nodes, n)] : v \in VerbsOf(decl[nodes[n].h].verb)}
                     : n \in {x \in DOMAIN nodes : nodes[x].h # 0}}
    /\ phase' = "rendered"
    /\ UNCHANGED <<decl, opts, nodes, done>>

\* ---- every declaration within the bounds of the exhaustive configuration
RECURSIVE PathsOfDepth(_)
PathsOfDepth(d) == IF d = 1 THEN {<<s>> : s \in McLast}
                   ELSE {<<s>> \o q : s \in McInner, q \in PathsOfDepth(d - 1)}
McPaths == UNION {PathsOfDepth(d) : d \in 1 .. McMaxDepth}
McMethods == {[verb |-> v, path |-> p, name |-> "A", dir |-> ""] : v \in McVerbs, p \in McPaths}
RECURSIVE SeqsUpTo(_, _)
SeqsUpTo(S, n) == IF n = 0 THEN {<< >>} ELSE LET R == SeqsUpTo(S, n - 1) IN R \cup {Append(q, x) : q \in {r \in R : Len(r) = n - 1}, x \in S}
McDecls == {d \in SeqsUpTo(McMethods, McMaxMethods) : Len(d) >= 1 /\ Legal(d)}

Init == /\ decl \in McDecls
        /\ opts \in {[sort |-> s, snake |-> FALSE, byMethod |-> FALSE] : s \in BOOLEAN}
        /\ nodes = << >> /\ done = 0 /\ phase = "build" /\ reg = {}
Next == Update \/ Render
Spec == Init /\ [][Next]_vars

\* ---- properties of the design
HandlerNodes == {n \in DOMAIN nodes : nodes[n].h # 0}

\* every inserted method sits at exactly its declared path, so the nodes above it are Groups(path): a path in the tree
GroupsArePathInTree ==
    \A n \in HandlerNodes :
        LET p == decl[nodes[n].h].path a == Anc(nodes, n) IN
        /\ NodePath(nodes, n) = p
        /\ Len(a) = Len(Groups(p))
        /\ \A k \in DOMAIN a : NodePath(nodes, a[k]) = Groups(p)[k] /\ Kids(nodes, a[k]) # {}
        /\ \A k \in 1 .. Len(a) - 1 : nodes[a[k + 1]].par = a[k]
OneNodePerMethod == \A k \in 1 .. done : Cardinality({n \in HandlerNodes : nodes[n].h = k}) = 1
\* with sort_router a node that registers a route never becomes a group
SortKeepsHandlersLeaf == opts.sort => \A n \in HandlerNodes : Kids(nodes, n) = {}

RegPairs == UNION {Pairs(decl[Owner(decl, r.verb, r.path)].path, r.handler, r.chain) : r \in reg}
\* distinct declared routes yield distinct registrations, nothing else is registered, everything is bound and wrapped as declared
DesignMeetsObligations ==
    phase = "rendered" =>
        LET E == Expected(decl) P == RegPairs IN
        /\ {[verb |-> r.verb, path |-> r.path] : r \in reg} = E
        /\ Cardinality(reg) = Cardinality(E)
        /\ \A r \in reg : RouteOK(decl, opts, E, r.verb, r.path, r.handler, r.chain, P)

\* the obligations are not vacuous: dropping a group's middleware, running the parent's function in the child's place,
\* or binding another handler is refused for every route of every declaration
DropAt(s, k) == [i \in 1 .. Len(s) - 1 |-> IF i < k THEN s[i] ELSE s[i + 1]]
Sensitive ==
    phase = "rendered" =>
        LET E == Expected(decl) P == RegPairs IN
        \A r \in reg :
            /\ ~RouteOK(decl, opts, E, r.verb, r.path, r.handler \o "x", r.chain, P)
            /\ \A k \in 1 .. Len(r.chain) : ~RouteOK(decl, opts, E, r.verb, r.path, r.handler, DropAt(r.chain, k), P)
            /\ \A k \in 2 .. Len(r.chain) :
                   ~RouteOK(decl, opts, E, r.verb, r.path, r.handler, [r.chain EXCEPT ![k] = r.chain[k - 1]], P)
=============================================================================
