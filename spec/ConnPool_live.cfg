\* liveness under per-process weak fairness (no symmetry, no state constraint): every call that entered Do leaves it
CONSTANTS
  Callers = {g1, g2}
  NC = 1
  NW = 2
  MaxReqs = 1
  MaxConnsSet = {1}
  WaitSet = {TRUE, FALSE}
  Faults = {"ok", "okclose", "idleclose", "eof0", "eofhdr", "eofbody", "stall", "dialerr", "ctxpre", "ctxpost"}
  IdemSet = {TRUE, FALSE}
  MaxFaults = 2
  Strict = TRUE
  AsWritten = FALSE
  SysOn = {}
SPECIFICATION FairSpec
INVARIANTS TypeOK QuiescentOK IdsSuffice
PROPERTIES Progress
