----------------------------- MODULE H1ServerMC -----------------------------
(* Exhaustive configuration of H1Server: every script of up to MaxReqs abstract requests (head 2 bytes,   *)
(* body 0 or 3 bytes, with/without Expect: 100-continue, Connection: close, malformed, oversized), both    *)
(* body modes, every interleaving of Deliver(1..3) with the server steps.                                  *)
EXTENDS H1Server
CONSTANTS MaxReqs

Shapes == {[hl |-> 2, bl |-> b, expect100 |-> e, close |-> c, bad |-> bd, big |-> bg] :
              b \in {0, 3}, e \in BOOLEAN, c \in BOOLEAN, bd \in BOOLEAN, bg \in BOOLEAN}
\* the peer may close in the middle of the last request
CutLast(rs, cut) == IF cut THEN [rs EXCEPT ![Len(rs)].partial = TRUE] ELSE rs
Sane == {s \in Shapes : (s.expect100 => s.bl > 0) /\ (s.big => s.bl > 0) /\ ~(s.bad /\ s.big) /\ ~(s.bad /\ s.expect100)}

RECURSIVE Layout(_, _)
Layout(ss, at) == IF ss = << >> THEN << >>
                  ELSE LET s == Head(ss) IN
                       <<[start |-> at, headEnd |-> at + s.hl, end |-> at + s.hl + s.bl, bodyLen |-> s.bl,
                          expect100 |-> s.expect100, close |-> s.close, bad |-> s.bad, big |-> s.big, partial |-> FALSE]>>
                       \o Layout(Tail(ss), at + s.hl + s.bl)

RECURSIVE SeqsUpTo(_, _)
SeqsUpTo(S, n) == IF n = 0 THEN {<< >>}
                  ELSE LET P == SeqsUpTo(S, n - 1) IN P \cup {Append(p, s) : p \in {q \in P : Len(q) = n - 1}, s \in S}

MCInit == \E ss \in SeqsUpTo(Sane, MaxReqs) \ {<< >>}, st \in BOOLEAN, tr \in BOOLEAN, wf \in 0 .. 1, cut \in BOOLEAN :
             InitWith(CutLast(Layout(ss, 0), cut), [streaming |-> st, idle |-> "inloop", trace |-> tr, wfail |-> wf])
MCSpec == MCInit /\ [][Next]_vars
=============================================================================
