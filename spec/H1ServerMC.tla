----------------------------- MODULE H1ServerMC -----------------------------
(* Exhaustive configuration of H1Server: every script of up to MaxReqs abstract requests (head 2 bytes,   *)
(* body 0 or 3 bytes, with/without Expect: 100-continue, Connection: close, malformed, oversized), both    *)
(* body modes, every interleaving of Deliver(1..3) with the server steps.                                  *)
EXTENDS H1Server
CONSTANTS MaxReqs,
          Configs    \* set of <<tracing, index of the failing write (0: none), peer closes inside the last request, ContinueHandler refuses, keep-alive disabled>>

Shapes == {[hl |-> 2, bl |-> b, expect100 |-> e, close |-> c, hclose |-> hc, bad |-> bd, big |-> bg] :
              b \in {0, 3}, e \in BOOLEAN, c \in BOOLEAN, hc \in BOOLEAN, bd \in BOOLEAN, bg \in BOOLEAN}
\* the peer may close in the middle of the last request
CutLast(rs, cut) == IF cut /\ rs[Len(rs)].bodyLen > 0 THEN [rs EXCEPT ![Len(rs)].partial = TRUE, ![Len(rs)].end = @ - 1]
                    ELSE IF cut THEN [rs EXCEPT ![Len(rs)].partial = TRUE, ![Len(rs)].end = @ - 1] ELSE rs
Sane == {s \in Shapes : (s.expect100 => s.bl > 0) /\ (s.big => s.bl > 0) /\ ~(s.bad /\ s.big) /\ ~(s.bad /\ s.expect100)
                         /\ ~(s.hclose /\ (s.close \/ s.bad \/ s.big \/ s.expect100))}

QuickConfigs == {<<FALSE, 0, FALSE, FALSE, FALSE>>, <<TRUE, 1, TRUE, FALSE, FALSE>>, <<FALSE, 0, FALSE, TRUE, FALSE>>, <<FALSE, 0, FALSE, FALSE, TRUE>>}
AllConfigs == {<<tr, wf, cut, dn, nk>> : tr \in BOOLEAN, wf \in 0 .. 2, cut \in BOOLEAN, dn \in BOOLEAN, nk \in BOOLEAN}
PlainConfig == {<<FALSE, 0, FALSE, FALSE, FALSE>>}

RECURSIVE Layout(_, _)
Layout(ss, at) == IF ss = << >> THEN << >>
                  ELSE LET s == Head(ss) IN
                       <<[start |-> at, headEnd |-> at + s.hl, end |-> at + s.hl + s.bl, bodyLen |-> s.bl,
                          expect100 |-> s.expect100, close |-> s.close, hclose |-> s.hclose, bad |-> s.bad, big |-> s.big, partial |-> FALSE, ambig |-> FALSE, pre |-> FALSE]>>
                       \o Layout(Tail(ss), at + s.hl + s.bl)

RECURSIVE SeqsUpTo(_, _)
SeqsUpTo(S, n) == IF n = 0 THEN {<< >>}
                  ELSE LET P == SeqsUpTo(S, n - 1) IN P \cup {Append(p, s) : p \in {q \in P : Len(q) = n - 1}, s \in S}

MCInit == \E ss \in SeqsUpTo(Sane, MaxReqs) \ {<< >>}, st \in BOOLEAN, c \in Configs :
             InitWith(CutLast(Layout(ss, 0), c[3]), [streaming |-> st, idle |-> "inloop", trace |-> c[1], wfail |-> c[2], deny |-> c[4], nokeep |-> c[5], tmo |-> 0])
MCSpec == MCInit /\ [][Next]_vars
=============================================================================
