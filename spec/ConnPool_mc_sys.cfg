\* 2 callers x 2 requests with the idle reaper (Sys 1) and a CloseIdleConnections caller (Sys 2) running concurrently
CONSTANTS
  Callers = {g1, g2}
  NC = 2
  NW = 3
  MaxReqs = 2
  MaxConnsSet = {1, 2}
  WaitSet = {TRUE, FALSE}
  Faults = {"ok", "okclose", "idleclose", "eof0", "eofhdr", "eofbody", "stall", "dialerr", "ctxpre", "ctxpost"}
  IdemSet = {TRUE, FALSE}
  MaxFaults = 2
  Strict = TRUE
  AsWritten = FALSE
  SysOn = {1, 2}
SPECIFICATION Spec
SYMMETRY Symm
INVARIANTS TypeOK Exclusive Bounded CountConservation CleanReuse ResponseMatches AtMostOnce QuiescentOK IdsSuffice
