CONSTANTS MaxX = 3
WithReqClose = FALSE
CoreOnly = TRUE
SPECIFICATION MCSpec
INVARIANTS TypeOK NoOverread CleanReuse NoReuseAfterClose OneReplyPerRequest FinalIndependent ClosedNotUsable DirtyIsGivenUp UntilCloseSawEof
