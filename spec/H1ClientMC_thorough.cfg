CONSTANTS MaxX = 3
SPECIFICATION MCSpec
INVARIANTS TypeOK NoOverread CleanReuse NoReuseAfterClose OneReplyPerRequest FinalIndependent ClosedNotUsable
