CONSTANTS MaxX = 3
WithReqClose = FALSE
SPECIFICATION MCSpec
INVARIANTS TypeOK NoOverread CleanReuse NoReuseAfterClose OneReplyPerRequest FinalIndependent ClosedNotUsable
