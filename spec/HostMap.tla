------------------------------ MODULE HostMap ------------------------------
(***************************************************************************************************************)
(* X05 (extension) -- the client's host-client map and its cleaner: pkg/app/client/client.go                   *)
(*   Client.do (key = (https?, lower-case host[:port] text of the URI); c.m / c.ms under c.mLock; creation via  *)
(*   clientFactory.NewHostClient + SetDynamicConfig + HostClientConfigHook; `go c.cleaner(isTLS)` when the     *)
(*   insert made len(m) = 1), Client.cleaner / cleanHostClients (every 10 s: under mLock delete every          *)
(*   HostClient whose ShouldRemove() -- http1: connsCount = 0 -- is true and Close() it; the goroutine ends     *)
(*   when the map is empty), Client.CloseIdleConnections, and the HostClient side as far as the map sees it     *)
(*   (pendingRequests, connsCount, idle list, the idle reaper).                                                *)
(*                                                                                                             *)
(* Clauses (what a user of client.Client relies on):                                                           *)
(*  1 OneHostClientPerKey  at any time at most one HostClient is engaged for a key (in the map, or with a       *)
(*      request in it, or with open connections): MaxConnsPerHost really bounds the connections of a key.       *)
(*      Invariants OnePerKey, OrphanFree, BoundedPerKey.                                                       *)
(*  2 KeyDerivation  two requests share a HostClient iff they agree on https-or-not and on the lower-cased       *)
(*      host[:port] text (no default-port normalisation: "a" and "a:80" are two keys with one address).         *)
(*      (Keys are opaque here; the derivation is checked by HostMapObs/HostMapTrace on the real code.)          *)
(*  3 Cleaner  a HostClient is removed only when it has no connection, no request and no caller between         *)
(*      lookup and use (action property RemoveOnlyIdle); an idle one is removed at the next tick (liveness       *)
(*      IdleRemoved); exactly one cleaner goroutine per non-empty map, none for an empty one (CleanerCount);    *)
(*      a removed HostClient is closed (its observer stops).                                                   *)
(*  5 CloseIdle  CloseIdleConnections visits every HostClient of both maps, empties its idle list and touches   *)
(*      no connection in use (action properties CloseIdleAll, CloseIdleKeepsBusy).                             *)
(*  (4 observers and 6 no-deadlock are judged on the real code only: HostMapObs.)                              *)
(*                                                                                                             *)
(* Actions = critical sections / blocking steps of the code:                                                   *)
(*   Call        driver: c.Do is entered (event Begin)                                                         *)
(*   Lookup      client.go do(): mLock.Lock .. Unlock (lookup, or NewHostClient+SetDynamicConfig+hook+insert,  *)
(*               startCleaner when len(m) = 1)                                                                 *)
(*   Enter       http1 HostClient.Do: pendingRequests++                                                        *)
(*   Acquire     acquireConn: connsLock section (pop idle / connsCount++ / ErrNoFreeConns); a dial is merged    *)
(*   Finish      the exchange: release to the idle list | close (connsCount--) | lose the connection and retry *)
(*   Exit        pendingRequests--, return                                                                     *)
(*   Tick(f)     cleanHostClients(isTLS = f): one mLock section                                                *)
(*   Reap        connsCleaner / peer closes an idle connection: idle--, connsCount--                           *)
(*   CIBegin / CIVisit / CIEnd   Client.CloseIdleConnections: mLock held from begin to end                      *)
(* Constants HoldCounted / CIAll: FALSE = the code AS WRITTEN (the cleaner looks at connsCount only;            *)
(* CloseIdleConnections ranges over c.m only), TRUE = corrected.  HostMap_asis*.cfg must violate.               *)
(* Deliberately not modelled: waiting for a free connection (C10), dial failures (merged: connsCount > 0 while  *)
(* dialing only protects more), proxies, the observer goroutine.                                               *)
(***************************************************************************************************************)
EXTENDS Integers, Sequences, FiniteSets, TLC

CONSTANTS Keys, TLSKeys, Callers, MaxCalls, NH, MaxConns, MaxTicks, MaxCI, MaxReap, Retries, HoldCounted, CIAll

HC == 1 .. NH
Flav(k) == k \in TLSKeys
NoHC == [st |-> "free", k |-> "-", cnt |-> 0, idle |-> 0, pend |-> 0, hold |-> 0]
NoPc == [at |-> "idle", k |-> "-", h |-> 0, tries |-> 0]
NoEv == [ev |-> "none", p |-> 0, hc |-> 0, k |-> "-", n |-> 0, g |-> 0, t |-> 0, res |-> FALSE]
E(ev) == [NoEv EXCEPT !.ev = ev]

VARIABLES m, hc, pc, calls, nexth, ncl, gen, tk, ticks, ci, nci, nreap, out
vars == <<m, hc, pc, calls, nexth, ncl, gen, tk, ticks, ci, nci, nreap, out>>
View == <<m, hc, pc, calls, nexth, ncl, gen, tk, ticks, ci, nci, nreap>>

MapOf(f) == {k \in Keys : Flav(k) = f /\ m[k] # 0}
Held(h) == \E c \in Callers : pc[c].at # "idle" /\ pc[c].h = h
LockFree == ci.at = "idle"

Init == /\ m = [k \in Keys |-> 0] /\ hc = [h \in HC |-> NoHC] /\ pc = [c \in Callers |-> NoPc]
        /\ calls = [c \in Callers |-> 0] /\ nexth = 1 /\ ncl = [f \in BOOLEAN |-> 0] /\ gen = [f \in BOOLEAN |-> 0]
        /\ tk = [f \in BOOLEAN |-> 0] /\ ticks = 0 /\ ci = [at |-> "idle", todo |-> {}, seen |-> {}, all |-> {}]
        /\ nci = 0 /\ nreap = 0 /\ out = << >>

Call(c, k) == /\ pc[c].at = "idle" /\ calls[c] < MaxCalls
              /\ pc' = [pc EXCEPT ![c] = [NoPc EXCEPT !.at = "begun", !.k = k]]
              /\ out' = <<[E("Begin") EXCEPT !.p = c, !.k = k]>>
              /\ UNCHANGED <<m, hc, calls, nexth, ncl, gen, tk, ticks, ci, nci, nreap>>

Lookup(c) ==
    /\ pc[c].at = "begun" /\ LockFree
    /\ LET k == pc[c].k
           f == Flav(k)
           hit == m[k] # 0
           h == IF hit THEN m[k] ELSE nexth
           first == ~hit /\ MapOf(f) = {}
       IN /\ h \in HC
          /\ m' = [m EXCEPT ![k] = h]
          /\ hc' = [hc EXCEPT ![h] = IF hit THEN [@ EXCEPT !.hold = @ + 1]
                                     ELSE [NoHC EXCEPT !.st = "live", !.k = k, !.hold = 1]]
          /\ nexth' = IF hit THEN nexth ELSE nexth + 1
          /\ ncl' = [ncl EXCEPT ![f] = IF first THEN @ + 1 ELSE @]
          /\ gen' = [gen EXCEPT ![f] = IF first THEN @ + 1 ELSE @]
          /\ pc' = [pc EXCEPT ![c].at = "got", ![c].h = h]
          /\ out' = IF hit THEN << >>
                    ELSE <<[E("New") EXCEPT !.p = c, !.hc = h], [E("Config") EXCEPT !.p = c, !.hc = h, !.k = k]>>
    /\ UNCHANGED <<calls, tk, ticks, ci, nci, nreap>>

Enter(c) == /\ pc[c].at = "got"
            /\ hc' = [hc EXCEPT ![pc[c].h].pend = @ + 1]
            /\ pc' = [pc EXCEPT ![c].at = "in"]
            /\ out' = <<[E("Use") EXCEPT !.p = c, !.hc = pc[c].h]>>
            /\ UNCHANGED <<m, calls, nexth, ncl, gen, tk, ticks, ci, nci, nreap>>

Acquire(c) ==
    /\ pc[c].at = "in"
    /\ LET h == pc[c].h IN
       \/ /\ hc[h].idle > 0
          /\ hc' = [hc EXCEPT ![h].idle = @ - 1] /\ pc' = [pc EXCEPT ![c].at = "has"] /\ out' = << >>
       \/ /\ hc[h].idle = 0 /\ hc[h].cnt < MaxConns
          /\ hc' = [hc EXCEPT ![h].cnt = @ + 1] /\ pc' = [pc EXCEPT ![c].at = "has"]
          /\ out' = <<[E("Cnt") EXCEPT !.hc = h, !.n = hc[h].cnt + 1]>>
       \/ /\ hc[h].idle = 0 /\ hc[h].cnt >= MaxConns
          /\ pc' = [pc EXCEPT ![c].at = "nofree"] /\ out' = << >> /\ UNCHANGED hc
    /\ UNCHANGED <<m, calls, nexth, ncl, gen, tk, ticks, ci, nci, nreap>>

Finish(c) ==
    /\ pc[c].at = "has"
    /\ LET h == pc[c].h
           dec == <<[E("Cnt") EXCEPT !.hc = h, !.n = hc[h].cnt - 1]>> IN
       \/ /\ hc' = [hc EXCEPT ![h].idle = @ + 1] /\ pc' = [pc EXCEPT ![c].at = "ok"] /\ out' = << >>
       \/ /\ hc' = [hc EXCEPT ![h].cnt = @ - 1] /\ pc' = [pc EXCEPT ![c].at = "ok"] /\ out' = dec
       \/ /\ pc[c].tries < Retries       \* the attempt lost its connection; hc.Do sleeps and tries again
          /\ hc' = [hc EXCEPT ![h].cnt = @ - 1] /\ pc' = [pc EXCEPT ![c].at = "in", ![c].tries = @ + 1] /\ out' = dec
    /\ UNCHANGED <<m, calls, nexth, ncl, gen, tk, ticks, ci, nci, nreap>>

Exit(c) == /\ pc[c].at \in {"ok", "nofree"}
           /\ hc' = [hc EXCEPT ![pc[c].h].pend = @ - 1, ![pc[c].h].hold = @ - 1]
           /\ pc' = [pc EXCEPT ![c] = NoPc] /\ calls' = [calls EXCEPT ![c] = @ + 1]
           /\ out' = <<[E("Done") EXCEPT !.p = c, !.hc = pc[c].h],
                       [E("End") EXCEPT !.p = c, !.res = (pc[c].at = "ok")]>>
           /\ UNCHANGED <<m, nexth, ncl, gen, tk, ticks, ci, nci, nreap>>

Removable(h) == hc[h].cnt = 0 /\ (HoldCounted => hc[h].hold = 0)      \* ShouldRemove() [+ the corrected guard]
Perms(S) == {s \in [1 .. Cardinality(S) -> S] : \A i, j \in 1 .. Cardinality(S) : i # j => s[i] # s[j]}
Cat(s, F(_)) == LET f[i \in 0 .. Len(s)] == IF i = 0 THEN << >> ELSE f[i - 1] \o F(s[i]) IN f[Len(s)]
Unbounded == MaxTicks >= 99      \* liveness configuration: ticks and reaping are not counted

\* cleanHostClients(f): range over the map (any order), delete + Close what ShouldRemove()s, stop when empty
Tick(f) ==
    /\ ncl[f] > 0 /\ LockFree /\ (Unbounded \/ ticks < MaxTicks)
    /\ \E ord \in Perms(MapOf(f)), quiet \in SUBSET {k \in MapOf(f) : HoldCounted /\ hc[m[k]].hold > 0} :
         LET R == {k \in MapOf(f) : Removable(m[k])}       \* quiet: passed over without asking ShouldRemove
             t == IF Unbounded THEN 0 ELSE tk[f] + 1
             Ev(k) == IF k \in quiet THEN << >> ELSE
                      <<[E("Should") EXCEPT !.hc = m[k], !.g = gen[f], !.t = t, !.res = (k \in R)]>>
                      \o (IF k \in R THEN <<[E("Close") EXCEPT !.hc = m[k], !.g = gen[f]]>> ELSE << >>)
         IN /\ m' = [k \in Keys |-> IF k \in R THEN 0 ELSE m[k]]
            /\ hc' = [h \in HC |-> IF \E k \in R : m[k] = h THEN [hc[h] EXCEPT !.st = "removed"] ELSE hc[h]]
            /\ ncl' = [ncl EXCEPT ![f] = IF MapOf(f) \ R = {} THEN @ - 1 ELSE @]
            /\ tk' = [tk EXCEPT ![f] = t]
            /\ ticks' = IF Unbounded THEN 0 ELSE ticks + 1
            /\ out' = Cat(ord, Ev)
    /\ UNCHANGED <<pc, calls, nexth, gen, ci, nci, nreap>>

\* the idle reaper (connsCleaner) or the peer closes one idle connection
Reap(h) == /\ hc[h].idle > 0 /\ (Unbounded \/ nreap < MaxReap)
           /\ hc' = [hc EXCEPT ![h].idle = @ - 1, ![h].cnt = @ - 1]
           /\ nreap' = IF Unbounded THEN 0 ELSE nreap + 1
           /\ out' = <<[E("Cnt") EXCEPT !.hc = h, !.n = hc[h].cnt - 1]>>
           /\ UNCHANGED <<m, pc, calls, nexth, ncl, gen, tk, ticks, ci, nci>>

\* Client.CloseIdleConnections: mLock is held from CIBegin to CIEnd
CIBegin == /\ LockFree /\ nci < MaxCI
           /\ ci' = [at |-> "in", all |-> {m[k] : k \in {x \in Keys : m[x] # 0}}, seen |-> {},
                     todo |-> {m[k] : k \in {x \in Keys : m[x] # 0 /\ (CIAll \/ ~Flav(x))}}]
           /\ out' = <<E("CIBegin")>>
           /\ UNCHANGED <<m, hc, pc, calls, nexth, ncl, gen, tk, ticks, nci, nreap>>
Decs(h, from, k) == [i \in 1 .. k |-> [E("Cnt") EXCEPT !.hc = h, !.n = from - i]]
CIVisit(h) == /\ ci.at = "in" /\ h \in ci.todo
              /\ hc' = [hc EXCEPT ![h].cnt = @ - hc[h].idle, ![h].idle = 0]
              /\ ci' = [ci EXCEPT !.todo = @ \ {h}, !.seen = @ \cup {h}]
              /\ out' = <<[E("CIVisit") EXCEPT !.hc = h]>> \o Decs(h, hc[h].cnt, hc[h].idle)
              /\ UNCHANGED <<m, pc, calls, nexth, ncl, gen, tk, ticks, nci, nreap>>
CIEnd == /\ ci.at = "in" /\ ci.todo = {}
         /\ ci' = [ci EXCEPT !.at = "idle"] /\ nci' = nci + 1 /\ out' = <<E("CIEnd")>>
         /\ UNCHANGED <<m, hc, pc, calls, nexth, ncl, gen, tk, ticks, nreap>>

CallerStep(c) == Lookup(c) \/ Enter(c) \/ Acquire(c) \/ Finish(c) \/ Exit(c)
Next == \/ \E c \in Callers : (\E k \in Keys : Call(c, k)) \/ CallerStep(c)
        \/ \E f \in BOOLEAN : Tick(f)
        \/ \E h \in HC : Reap(h) \/ CIVisit(h)
        \/ CIBegin \/ CIEnd
Spec == Init /\ [][Next]_vars
FairSpec == /\ Spec /\ \A c \in Callers : WF_vars(CallerStep(c)) /\ \A f \in BOOLEAN : WF_vars(Tick(f))
            /\ \A h \in HC : WF_vars(Reap(h)) /\ WF_vars(CIVisit(h))
            /\ WF_vars(CIEnd)

---------------------------------------------------------------------------------------------------------------
TypeOK == /\ \A k \in Keys : m[k] \in HC \cup {0}
          /\ \A h \in HC : /\ hc[h].st \in {"free", "live", "removed"} /\ hc[h].cnt \in 0 .. 2 * MaxConns
                           /\ hc[h].idle \in 0 .. hc[h].cnt /\ hc[h].pend >= 0 /\ hc[h].hold >= hc[h].pend
          /\ nexth \in 1 .. NH + 1
IdsSuffice == \A c \in Callers : (pc[c].at = "begun" /\ m[pc[c].k] = 0) => nexth \in HC
MapSound == \A k \in Keys : m[k] # 0 => hc[m[k]].st = "live" /\ hc[m[k]].k = k

\* clause 1
Engaged(h) == hc[h].st = "live" \/ hc[h].cnt > 0 \/ hc[h].pend > 0 \/ Held(h)
OnePerKey == \A k \in Keys : Cardinality({h \in HC : hc[h].k = k /\ Engaged(h)}) <= 1
OrphanFree == \A h \in HC : hc[h].st = "removed" => hc[h].cnt = 0 /\ hc[h].pend = 0 /\ ~Held(h)
ConnsOfKey(k) == LET f[i \in 0 .. NH] == IF i = 0 THEN 0 ELSE f[i - 1] + (IF hc[i].k = k THEN hc[i].cnt ELSE 0) IN f[NH]
BoundedPerKey == \A k \in Keys : ConnsOfKey(k) <= MaxConns

\* clause 3
CleanerCount == \A f \in BOOLEAN : ncl[f] = IF MapOf(f) # {} THEN 1 ELSE 0
RemoveOnlyIdle == [][\A h \in HC : (hc[h].st = "live" /\ hc'[h].st = "removed")
                                   => hc[h].cnt = 0 /\ hc[h].pend = 0 /\ ~Held(h)]_vars
Quiet(h) == hc[h].st = "live" /\ hc[h].cnt = 0 /\ hc[h].pend = 0 /\ ~Held(h)
IdleRemoved == \A h \in HC : Quiet(h) ~> ~Quiet(h)
AllDone == \A c \in Callers : pc[c].at = "idle" /\ calls[c] = MaxCalls
Drains == AllDone ~> (\A k \in Keys : m[k] = 0) /\ (\A f \in BOOLEAN : ncl[f] = 0)

\* clause 5
CloseIdleAll == [][(ci.at = "in" /\ ci'.at = "idle") => ci.seen = ci.all]_vars
CloseIdleKeepsBusy == [][\A h \in HC : (ci.at = "in" /\ h \in ci.todo /\ h \notin ci'.todo)
                                       => hc'[h].idle = 0 /\ hc'[h].cnt = hc[h].cnt - hc[h].idle]_vars
LockExcludes == ci.at = "in" => \A k \in Keys : m[k] # 0 => m[k] \in ci.all
=============================================================================
