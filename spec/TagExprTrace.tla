--------------------------- MODULE TagExprTrace ---------------------------
(* Trace validation for C20.  Lines of the ndjson trace recorded by harness/drivers/c20:               *)
(*   Case{tree, expr, ps, sp, val, verdict, welltyped, haz}   the generated case, echoed by the driver *)
(*   Validated{expr, kind, outcome, msg}   what the REAL validator did with a fresh struct type whose   *)
(*                                         field carries the tag vd:"<expr>" and the value `val`        *)
(*   End                                                                                               *)
(* Obligations (everything is recomputed here from `tree` and `val`; the echoed verdict is not trusted):*)
(*   - the expression that was compiled is this specification's printing of the tree in the style;     *)
(*   - outcome is never "panic";                                                                       *)
(*   - if the documented result of the tree on the value is a boolean (the expression is well typed,    *)
(*     exact and of boolean kind - in particular every well-typed expression whose top-level operator   *)
(*     is a comparison, equality or logical operator), outcome = "ok" iff the result is TRUE and        *)
(*     "invalid" iff it is FALSE ("error" - e.g. a compile error - is a rejection of the trace);        *)
(*   - otherwise (ill-typed, inexact, or a numeric / string / nil result) nothing but `no panic`.       *)
(* Deliberately unconstrained: see TagExpr.tla; error texts; `msg`.                                     *)
EXTENDS TagExpr, Json, IOUtils

Trace == ndJsonDeserialize(IOEnv.VERIF_TRACE)

VARIABLES l,      \* next line to consume
          bad,    \* lines at which a case was rejected
          pend    \* the case whose Validated event is awaited: [st |-> "idle"|"case"|"done", expr, kind, want]
tvars == <<vars, l, bad, pend>>

IdleP == [st |-> "idle", expr |-> "", kind |-> "", want |-> ""]
TraceInit == Parked /\ l = 1 /\ bad = << >> /\ pend = IdleP

Line == Trace[l]

TraceCase == /\ l <= Len(Trace) /\ Line.ev = "Case" /\ pend.st = "idle"
             /\ Line.ps \in ParenStyles /\ Line.sp \in SpaceStyles
             /\ Line.expr = PrintExpr(Line.tree, Line.ps, Line.sp)
             /\ LET w == Verdict(Line.tree, Line.val) IN
                /\ Line.verdict = w
                /\ Line.haz = Hazard(Line.tree, Line.val)
                /\ pend' = [st |-> "case", expr |-> Line.expr, kind |-> Line.val.kind, want |-> w]
             /\ l' = l + 1 /\ UNCHANGED <<vars, bad>>

TraceValidated == /\ l <= Len(Trace) /\ Line.ev = "Validated" /\ pend.st = "case"
                  /\ Line.expr = pend.expr /\ Line.kind = pend.kind
                  /\ Line.outcome \in {"ok", "invalid", "error"}                      \* never "panic"
                  /\ pend.want # "any" => Line.outcome = pend.want
                  /\ pend' = [pend EXCEPT !.st = "done"]
                  /\ l' = l + 1 /\ UNCHANGED <<vars, bad>>

TraceEnd == /\ l <= Len(Trace) /\ Line.ev = "End" /\ pend.st = "done"
            /\ pend' = IdleP /\ l' = l + 1 /\ UNCHANGED <<vars, bad>>

Normal == TraceCase \/ TraceValidated \/ TraceEnd

NextCase(k) == IF \E j \in k + 1 .. Len(Trace) : Trace[j].ev = "Case"
               THEN CHOOSE j \in k + 1 .. Len(Trace) : Trace[j].ev = "Case" /\ \A i \in k + 1 .. j - 1 : Trace[i].ev # "Case"
               ELSE Len(Trace) + 1

Mismatch == /\ l <= Len(Trace) /\ ~ENABLED Normal
            /\ bad' = Append(bad, l)
            /\ l' = IF Len(bad) >= 200 THEN Len(Trace) + 1 ELSE NextCase(l)
            /\ pend' = IdleP /\ UNCHANGED vars

\* the trace ends in the middle of a case
MismatchEOF == /\ l = Len(Trace) + 1 /\ pend.st # "idle"
               /\ bad' = Append(bad, l) /\ l' = l /\ pend' = IdleP /\ UNCHANGED vars

TraceNext == Normal \/ Mismatch \/ MismatchEOF

Report == (l = Len(Trace) + 1 /\ pend.st = "idle") => PrintT(<<"@@BAD", bad, l - 1, Len(Trace)>>)
=============================================================================
