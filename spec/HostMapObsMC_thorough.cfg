\* the observer accepts every behaviour of the corrected HostMap: 2 keys in one map, 2 callers x 2 calls, MaxConns 1, 1 tick, 1 CloseIdleConnections
CONSTANTS
  Keys = {"a", "b"}
  TLSKeys = {}
  Callers = {1, 2}
  MaxCalls = 2
  NH = 4
  MaxConns = 1
  MaxTicks = 1
  MaxCI = 1
  MaxReap = 0
  Retries = 0
  HoldCounted = TRUE
  CIAll = TRUE
INIT OInitMC
NEXT ONextMC
VIEW OView
INVARIANTS Accepts Agree
