---------------------------- MODULE ParserCallsMC ----------------------------
(* Exhaustive check of ParserCalls on small bounds; prints the number of states the walk must have. *)
EXTENDS ParserCalls
ASSUME PrintT(<<"@@EXPECT", ExpectedStates>>)
=============================================================================
