------------------------------ MODULE Binding ------------------------------
(***************************************************************************)
(* C15 -- request binding fills each field from the highest-priority       *)
(* source that carries it; the per-type decoder cache never changes the    *)
(* result.                                                                 *)
(*                                                                         *)
(* Models pkg/app/server/binding:                                          *)
(*   defaultBinder.bindTag / bindTagWithValidate   (default.go)            *)
(*       Load / CompileStep / Store / Run  -- typeID-keyed sync.Map cache  *)
(*   decoder.GetReqDecoder, lookupFieldTags        (decoder.go, tag.go)    *)
(*       Compile(T): per field the tag infos in the FIXED source order     *)
(*       path, form, query, cookie, header, json  + the struct field index *)
(*   baseTypeFieldTextDecoder.Decode / sliceTypeFieldTextDecoder.Decode    *)
(*       ExecField(d, rq): the getter loop (first present source wins,     *)
(*       `required` error survives only if nothing is present), default,   *)
(*       strconv conversion                                                *)
(*   getter.go: postForm falls back to the query string (scalars)          *)
(*   defaultBinder.preBindBody: the JSON body is unmarshalled into the     *)
(*       struct first and then overlaid => JSON is the lowest priority     *)
(*                                                                         *)
(* The PROPERTY is written a second time, declaratively (Outcomes /        *)
(* Acceptable), straight from the property text; TLC checks that the       *)
(* code-shaped interpreter refines it (ExecRefinesProperty) and that the   *)
(* cache protocol keeps results independent of history.                    *)
(*                                                                         *)
(* `required`: the property says "a missing required value is an error      *)
(* rather than a silent zero"; as in the code, a flag on ANY tag makes the  *)
(* field required and a value in ANY tagged source satisfies it.  The code  *)
(* deviates in one corner (known finding C15-required-cleared-by-json-tag:  *)
(* an optional json tag wipes a pending required error); the specification  *)
(* follows the property, not the code.                                      *)
(*                                                                         *)
(* Deliberately unconstrained (Unconstrained(f, rq) / outcome sets):       *)
(*   - float64 fields reading one of the big integer boundary texts        *)
(*   - error texts, and which error is reported when several apply         *)
(*   - an empty text "" in a path parameter or a JSON value (for header,  *)
(*     cookie, query and form "" is PRESENT, see EmptyCapable) and texts   *)
(*     outside the conversion table                                        *)
(*   - a JSON body whose value is not a well-typed JSON literal of the     *)
(*     field's kind (sonic rejects the whole body)                         *)
(*   - which of several repeated values a scalar field takes               *)
(*   - whether `form` falls back to the query string for SLICE kinds       *)
(*     (scalars do, postFormSlice does not; the property does not settle   *)
(*     it)                                                                 *)
(*   - nil slice vs empty slice                                            *)
(*   - field values when Bind returns an error                             *)
(***************************************************************************)
EXTENDS Integers, Sequences, FiniteSets, TLC

CONSTANTS Procs,        \* binder goroutines of the bounded exhaustive configuration
          MaxBinds      \* binds per goroutine there

Priority == <<"path", "form", "query", "cookie", "header", "json">>
Sources  == {Priority[i] : i \in 1 .. 6}
Rank(s)  == CASE s = "path" -> 1 [] s = "form" -> 2 [] s = "query" -> 3 [] s = "cookie" -> 4 [] s = "header" -> 5 [] s = "json" -> 6

SignedKinds   == {"int8", "int16", "int32", "int"}
UnsignedKinds == {"uint8", "uint16", "uint32", "uint"}
IntKinds      == SignedKinds \cup UnsignedKinds
BaseKinds == {"bool", "float64", "string"} \cup IntKinds
PtrKinds   == {"*int", "*string", "*int8", "*int16", "*int32", "*uint8", "*uint16", "*uint32"}
SliceKinds == {"[]int", "[]string", "[]int8", "[]int16", "[]int32", "[]uint16", "[]uint32"}     \* []uint8 is []byte (raw body / base64): not a number list
Kinds     == BaseKinds \cup PtrKinds \cup SliceKinds
Base(k)   == CASE k \in {"*int", "[]int"} -> "int" [] k \in {"*string", "[]string"} -> "string"
               [] k \in {"*int8", "[]int8"} -> "int8" [] k \in {"*int16", "[]int16"} -> "int16" [] k \in {"*int32", "[]int32"} -> "int32"
               [] k = "*uint8" -> "uint8" [] k \in {"*uint16", "[]uint16"} -> "uint16" [] k \in {"*uint32", "[]uint32"} -> "uint32"
               [] OTHER -> k
IsPtr(k)   == k \in PtrKinds
IsSlice(k) == k \in SliceKinds

(***************************************************************************)
(* Text and the conversion table ("usual Go text rules" = strconv.ParseBool *)
(* / ParseInt(s,10,bits) / ParseUint(s,10,bits) / ParseFloat(s,64) /       *)
(* identity).  Conv[kind][text] is ConvVal if text \in OkText(kind), else  *)
(* an error.  Values are written in Go's canonical text form               *)
(* (FormatBool / FormatInt / FormatFloat 'g').                             *)
(***************************************************************************)
SmallText == {"0", "1", "-1", "300", "1.5", "true", "x", ""}

(* Integer boundary texts: max, max+1, min, min-1, 2^bits of every width, and digit strings beyond 64 bits.  Fits(t) is   *)
(* the set of integer kinds whose strconv.ParseInt/ParseUint(t, 10, bits) succeeds (int/uint are 64 bit: amd64/arm64);  *)
(* every other integer kind gets a range/syntax ERROR -- never a truncated value.  TLC integers are 32 bit, so the     *)
(* table is written out instead of computed.                                                                           *)
S8 == {"int8"}  S16 == {"int8", "int16"}  S32 == {"int8", "int16", "int32"}
U8 == {"uint8"} U16 == {"uint8", "uint16"} U32 == {"uint8", "uint16", "uint32"}
Fits(t) == CASE t \in {"0", "1", "127"}                       -> IntKinds
             [] t \in {"-1", "-128"}                           -> SignedKinds
             [] t \in {"128", "255"}                           -> IntKinds \ S8
             [] t = "-129"                                     -> SignedKinds \ S8
             [] t \in {"256", "300", "32767"}                  -> IntKinds \ (S8 \cup U8)
             [] t = "-32768"                                   -> SignedKinds \ S8
             [] t \in {"32768", "65535"}                       -> IntKinds \ (S16 \cup U8)
             [] t = "-32769"                                   -> SignedKinds \ S16
             [] t \in {"65536", "70000", "2147483647"}         -> IntKinds \ (S16 \cup U16)
             [] t = "-2147483648"                              -> SignedKinds \ S16
             [] t \in {"2147483648", "4294967295"}             -> IntKinds \ (S32 \cup U16)
             [] t = "-2147483649"                              -> {"int"}
             [] t \in {"4294967296", "9223372036854775807"}    -> {"int", "uint"}
             [] t = "-9223372036854775808"                     -> {"int"}
             [] t \in {"9223372036854775808", "18446744073709551615"} -> {"uint"}
             [] t \in {"-9223372036854775809", "18446744073709551616", "99999999999999999999999", "-99999999999999999999999"} -> {}
             [] OTHER                                          -> {}
BoundaryText == {"127", "128", "-128", "-129", "255", "256", "32767", "32768", "-32768", "-32769", "65535", "65536", "70000",
                 "2147483647", "2147483648", "-2147483648", "-2147483649", "4294967295", "4294967296",
                 "9223372036854775807", "9223372036854775808", "-9223372036854775808", "-9223372036854775809",
                 "18446744073709551615", "18446744073709551616", "99999999999999999999999", "-99999999999999999999999"}
Text == SmallText \cup BoundaryText

OkText(b) == CASE b = "bool"    -> {"0", "1", "true"}                      \* every boundary text is a ParseBool error
               [] b = "float64" -> {"0", "1", "-1", "300", "1.5"}          \* boundary texts: see Unconstrained (value rendering)
               [] b = "string"  -> Text
               [] OTHER         -> {t \in Text : b \in Fits(t)}
ConvOk(b, t)  == IF b \in IntKinds THEN b \in Fits(t) ELSE t \in OkText(b)
ConvVal(b, t) == IF b = "bool" THEN (IF t = "0" THEN "false" ELSE "true") ELSE t

\* outcomes of one field
Err      == [k |-> "err", s |-> << >>]
Nil      == [k |-> "nil", s |-> << >>]
Val(v)   == [k |-> "v", s |-> <<v>>]
List(vs) == [k |-> "list", s |-> vs]

ZeroText(b) == CASE b = "bool" -> "false" [] b = "string" -> "" [] OTHER -> "0"
Zero(kind)  == IF IsSlice(kind) THEN List(<< >>) ELSE IF IsPtr(kind) THEN Nil ELSE Val(ZeroText(kind))

(***************************************************************************)
(* Types and requests.                                                     *)
(*   field   = [kind, tags : Seq([src, name, req]), def : << >> or <<t>>]  *)
(*             (each source at most once in tags)                          *)
(*   type    = [fields : Seq(field)]                                       *)
(*   request = [body \in {"none","form","json"},                           *)
(*              vals : Seq([src, name, texts : Seq(Text), lit])]           *)
(*             (one entry per present (src, name); lit = JSON literal for  *)
(*              src = "json", "" otherwise)                                *)
(***************************************************************************)
Vals(rq, s, n) == LET I == {i \in DOMAIN rq.vals : rq.vals[i].src = s /\ rq.vals[i].name = n}
                  IN  IF I = {} THEN << >> ELSE rq.vals[CHOOSE i \in I : TRUE].texts

\* what the source named by tag tg carries; fb: `form` falls back to the query string
Look(tg, rq, fb) == IF tg.src = "form" /\ fb /\ Vals(rq, "form", tg.name) = << >>
                    THEN Vals(rq, "query", tg.name)
                    ELSE Vals(rq, tg.src, tg.name)

Required(f) == \E i \in DOMAIN f.tags : f.tags[i].req

\* Sources that can carry a present-but-EMPTY value ("X-A:", "Cookie: a=", "?a=", form "a="): there the empty text
\* counts as PRESENT (it wins over lower-priority sources and satisfies `required`).  What the field then holds is
\* what the code does: a scalar takes its declared default if it has one, otherwise "" is converted like any text
\* (an error for bool/numbers, "" for strings); a slice converts every element ("" included) and ignores the default.
EmptyCapable == {"form", "query", "cookie", "header"}

\* conversion of the texts found (or of the default: def = << >> then) into the field's kind
ValOf(kind, texts, def) ==
    LET eff(t) == IF t = "" /\ def # << >> /\ ~IsSlice(kind) THEN def[1] ELSE t
    IN  IF IsSlice(kind)
        THEN {IF \A i \in DOMAIN texts : ConvOk(Base(kind), texts[i])
              THEN List([i \in DOMAIN texts |-> ConvVal(Base(kind), texts[i])]) ELSE Err}
        ELSE {IF ConvOk(Base(kind), eff(texts[i])) THEN Val(ConvVal(Base(kind), eff(texts[i]))) ELSE Err : i \in DOMAIN texts}

------------------------------------------------------------------------------
(* The property, declaratively. *)

PresentTags(f, rq, fb) == {i \in DOMAIN f.tags : Look(f.tags[i], rq, fb) # << >>}
Winner(f, rq, fb) == LET P == PresentTags(f, rq, fb)
                     IN  CHOOSE i \in P : \A j \in P : Rank(f.tags[i].src) <= Rank(f.tags[j].src)

\* (written with one evaluation of every lookup: this is the hot spot of trace validation)
Out(f, rq, fb) ==
    LET lk == [i \in DOMAIN f.tags |-> Look(f.tags[i], rq, fb)]
        P  == {i \in DOMAIN f.tags : lk[i] # << >>}
    IN  IF P # {} THEN ValOf(f.kind, lk[CHOOSE i \in P : \A j \in P : Rank(f.tags[i].src) <= Rank(f.tags[j].src)], f.def)
        ELSE IF Required(f)   THEN {Err}
        ELSE IF f.def # << >> THEN ValOf(f.kind, f.def, << >>)
        ELSE {Zero(f.kind)}

Outcomes(f, rq) == IF IsSlice(f.kind) /\ \E i \in DOMAIN f.tags : f.tags[i].src = "form"
                   THEN Out(f, rq, TRUE) \cup Out(f, rq, FALSE) ELSE Out(f, rq, TRUE)

Unconstrained(f, rq) ==
    \E i \in DOMAIN f.tags :
        LET tg == f.tags[i]
            tx == IF tg.src = "form" THEN Vals(rq, "form", tg.name) \o Vals(rq, "query", tg.name) ELSE Vals(rq, tg.src, tg.name)
        IN  \/ \E j \in DOMAIN tx : tx[j] \notin Text \/ (tx[j] = "" /\ tg.src \notin EmptyCapable)
                                       \/ (Base(f.kind) = "float64" /\ tx[j] \in BoundaryText)      \* float rendering of big numbers not modelled
            \/ tg.src = "json" /\ \E j \in DOMAIN tx : ~ConvOk(Base(f.kind), tx[j])
            \/ tg.src = "json" /\ ~IsSlice(f.kind) /\ Len(tx) > 1

\* res = [err : BOOLEAN, fields : Seq(outcome)] as observed after Bind
Acceptable(T, rq, res) ==
    IF res.err
    THEN \E i \in DOMAIN T.fields : Err \in Outcomes(T.fields[i], rq) \/ Unconstrained(T.fields[i], rq)
    ELSE /\ Len(res.fields) = Len(T.fields)
         /\ \A i \in DOMAIN T.fields :
               res.fields[i] \in Outcomes(T.fields[i], rq) \/ Unconstrained(T.fields[i], rq)

------------------------------------------------------------------------------
(* The implementation's shape: compiled decoders and their execution. *)

\* lookupFieldTags walks the fixed tag list, so tag infos come out in priority order
SortedTags(f) == LET n == Len(f.tags)
                     pos(i) == Cardinality({j \in 1 .. n : Rank(f.tags[j].src) < Rank(f.tags[i].src)}) + 1
                 IN  [p \in 1 .. n |-> f.tags[CHOOSE i \in 1 .. n : pos(i) = p]]

Compile(T) == [i \in DOMAIN T.fields |-> [index |-> i, kind |-> T.fields[i].kind,
                                           tags |-> SortedTags(T.fields[i]), def |-> T.fields[i].def]]

\* the getter loop of Decode: st = [found, err]
RECURSIVE Loop(_, _, _, _)
Loop(d, rq, i, err) ==
    IF i > Len(d.tags) THEN [found |-> << >>, err |-> err]
    ELSE LET tx == Look(d.tags[i], rq, ~IsSlice(d.kind))
         IN  IF tx # << >> THEN [found |-> tx, err |-> FALSE]                    \* exist: err = nil; break
             ELSE Loop(d, rq, i + 1, err \/ d.tags[i].req)

ExecField(d, rq) ==
    LET st == Loop(d, rq, 1, FALSE)
    IN  IF st.err THEN Err
        ELSE IF st.found # << >>
             THEN (IF IsSlice(d.kind) THEN CHOOSE o \in ValOf(d.kind, st.found, d.def) : TRUE
                                      ELSE CHOOSE o \in ValOf(d.kind, <<st.found[1]>>, d.def) : TRUE)   \* text == "" && default != "" => default
        ELSE IF d.def # << >> THEN CHOOSE o \in ValOf(d.kind, d.def, << >>) : TRUE
        ELSE Zero(d.kind)

\* the decoder closure returned by GetReqDecoder: field decoders run in order, each writes rv.Field(index)
Exec(dec, rq) ==
    LET outs == [i \in DOMAIN dec |-> ExecField(dec[i], rq)]
    IN  IF \E i \in DOMAIN dec : outs[i] = Err THEN [err |-> TRUE, fields |-> << >>]
        ELSE [err |-> FALSE, fields |-> [i \in DOMAIN dec |-> outs[CHOOSE j \in DOMAIN dec : dec[j].index = i]]]

------------------------------------------------------------------------------
(* Bounded family for the exhaustive check (Binding_mc.cfg). *)

TagName(s, n, fi) == IF s = "json" THEN "j" \o ToString(fi) ELSE IF s = "header" THEN (IF n = "a" THEN "A" ELSE "B") ELSE n

MkTags(S, R, n, fi) == LET q == [i \in 1 .. 6 |-> Priority[7 - i]]          \* declared in reverse: order in the tag string is irrelevant
                       IN  SelectSeq([i \in 1 .. 6 |-> [src |-> q[i], name |-> TagName(q[i], n, fi), req |-> q[i] \in R]],
                                     LAMBDA t : t.src \in S)

MCKinds == {"int", "uint8", "*string", "[]int", "*int8", "[]uint16"}
MCDef(k) == CASE Base(k) = "int" -> "300" [] Base(k) = "uint8" -> "1" [] Base(k) = "bool" -> "true" [] OTHER -> "x"
MCFieldSet == {[kind |-> k, tags |-> MkTags(S, R, "a", 1), def |-> d] :
                  k \in MCKinds, d \in {<< >>, <<"1">>},
                  S \in {X \in SUBSET Sources : Cardinality(X) \in 1 .. 2} \cup {{"path", "form", "header"}, Sources},
                  R \in {{}, {"query"}, {"json"}, Sources}}

\* requests under name a (json: j1): every presence pattern with text "1"; the same with one source carrying "x"
\* (conversion error for numeric kinds) next to all-present / all-absent others; one repeated query value
MCReqOf(v) == [body |-> "none",
               vals |-> SelectSeq([i \in 1 .. 6 |-> [src |-> Priority[i], name |-> TagName(Priority[i], "a", 1),
                                                     texts |-> v[i], lit |-> ""]], LAMBDA e : e.texts # << >>)]
MCReqSet == {MCReqOf(v) : v \in [1 .. 6 -> {<< >>, <<"1">>}]}
            \cup {MCReqOf([i \in 1 .. 6 |-> IF i = k THEN <<"x">> ELSE o]) : k \in 1 .. 6, o \in {<< >>, <<"1">>}}
            \cup {MCReqOf([i \in 1 .. 6 |-> IF i = k THEN <<"">> ELSE o]) : k \in 2 .. 5, o \in {<< >>, <<"1">>}}   \* present but empty
            \cup {MCReqOf([i \in 1 .. 6 |-> IF i = k THEN <<t>> ELSE << >>]) : k \in 1 .. 5, t \in {"127", "128", "65535", "65536"}}    \* width boundaries
            \cup {[body |-> "none", vals |-> <<[src |-> "query", name |-> "a", texts |-> <<"0", "1">>, lit |-> ""]>>]}

\* the code-shaped interpreter is one of the behaviours the property allows (for every field/request of the family)
ExecRefinesProperty ==
    \A f \in MCFieldSet : \A rq \in MCReqSet :
        LET T == [fields |-> <<f>>] IN Acceptable(T, rq, Exec(Compile(T), rq))

\* a small set of types/requests for the cache protocol
MCTypes == << [fields |-> <<[kind |-> "int", tags |-> MkTags({"query", "header"}, {}, "a", 1), def |-> << >>]>>],
              [fields |-> <<[kind |-> "[]int", tags |-> MkTags({"form", "json"}, {"form"}, "a", 1), def |-> << >>],
                            [kind |-> "*string", tags |-> MkTags({"path", "cookie"}, {}, "b", 2), def |-> <<"x">>]>>],
              [fields |-> <<[kind |-> "uint8", tags |-> MkTags({"cookie"}, {"cookie"}, "a", 1), def |-> << >>],
                            [kind |-> "bool", tags |-> MkTags({"query"}, {}, "a", 2), def |-> << >>]>>] >>
MCReqs  == << [body |-> "none", vals |-> <<[src |-> "query", name |-> "a", texts |-> <<"1">>, lit |-> ""],
                                           [src |-> "header", name |-> "A", texts |-> <<"300">>, lit |-> ""]>>],
              [body |-> "none", vals |-> <<[src |-> "cookie", name |-> "a", texts |-> <<"300">>, lit |-> ""],
                                           [src |-> "path", name |-> "b", texts |-> <<"x">>, lit |-> ""]>>] >>

------------------------------------------------------------------------------
(* The cache protocol of defaultBinder.bindTag: several goroutines bind concurrently. *)

VARIABLES cache,   \* [type index -> compiled decoder | NoDec]          (defaultBinder.decoderCache, keyed by typeID)
          pc,      \* per goroutine: "idle" | "load" | "compile" | "store" | "run"
          job,     \* per goroutine: [t, r, cold]
          loc,     \* per goroutine: the decoder it holds (local variable `decoder`)
          cnt,     \* binds started per goroutine
          done     \* completed binds: set of [t, r, res, cold]
vars == <<cache, pc, job, loc, cnt, done>>

NoDec == << >>
NoJob == [t |-> 0, r |-> 0, cold |-> FALSE]
TIdx == DOMAIN MCTypes
RIdx == DOMAIN MCReqs

Init == /\ cache = [t \in TIdx |-> NoDec] /\ pc = [p \in Procs |-> "idle"] /\ job = [p \in Procs |-> NoJob]
        /\ loc = [p \in Procs |-> NoDec] /\ cnt = [p \in Procs |-> 0] /\ done = {}

\* Bind(T, req) is called
Start(p, t, r) == /\ pc[p] = "idle" /\ cnt[p] < MaxBinds
                  /\ pc' = [pc EXCEPT ![p] = "load"] /\ job' = [job EXCEPT ![p] = [t |-> t, r |-> r, cold |-> FALSE]]
                  /\ cnt' = [cnt EXCEPT ![p] = @ + 1] /\ UNCHANGED <<cache, loc, done>>
\* cached, ok := cache.Load(typeID)
Load(p) == /\ pc[p] = "load"
           /\ IF cache[job[p].t] # NoDec
              THEN /\ loc' = [loc EXCEPT ![p] = cache[job[p].t]] /\ pc' = [pc EXCEPT ![p] = "run"] /\ UNCHANGED job
              ELSE /\ pc' = [pc EXCEPT ![p] = "compile"] /\ job' = [job EXCEPT ![p].cold = TRUE] /\ UNCHANGED loc
           /\ UNCHANGED <<cache, cnt, done>>
\* FirstUse(T), part 1: decoder := GetReqDecoder(rv.Type(), ...)
CompileStep(p) == /\ pc[p] = "compile"
                  /\ loc' = [loc EXCEPT ![p] = Compile(MCTypes[job[p].t])] /\ pc' = [pc EXCEPT ![p] = "store"]
                  /\ UNCHANGED <<cache, job, cnt, done>>
\* FirstUse(T), part 2: cache.Store(typeID, decoder)   (two goroutines may both get here; both store equal decoders)
Store(p) == /\ pc[p] = "store"
            /\ cache' = [cache EXCEPT ![job[p].t] = loc[p]] /\ pc' = [pc EXCEPT ![p] = "run"]
            /\ UNCHANGED <<job, loc, cnt, done>>
\* return decoder(req, params, rv.Elem())
Run(p) == /\ pc[p] = "run"
          /\ done' = done \cup {[t |-> job[p].t, r |-> job[p].r, cold |-> job[p].cold, res |-> Exec(loc[p], MCReqs[job[p].r])]}
          /\ pc' = [pc EXCEPT ![p] = "idle"] /\ loc' = [loc EXCEPT ![p] = NoDec] /\ job' = [job EXCEPT ![p] = NoJob]
          /\ UNCHANGED <<cache, cnt>>

Next == \E p \in Procs : \/ \E t \in TIdx, r \in RIdx : Start(p, t, r)
                         \/ Load(p) \/ CompileStep(p) \/ Store(p) \/ Run(p)
Spec == Init /\ [][Next]_vars

TypeOK == /\ \A t \in TIdx : cache[t] = NoDec \/ cache[t] = Compile(MCTypes[t])
          /\ \A p \in Procs : pc[p] \in {"idle", "load", "compile", "store", "run"}
\* a decoder in the cache is the decoder of ITS type (never another type's, never a half-built one)
CacheSound == \A t \in TIdx : cache[t] # NoDec => cache[t] = Compile(MCTypes[t])
\* cold = warm, alone or concurrently
ResultIndependentOfHistory == \A d1, d2 \in done : d1.t = d2.t /\ d1.r = d2.r => d1.res = d2.res
\* and every result is what the property demands
ResultsAcceptable == \A d \in done : Acceptable(MCTypes[d.t], MCReqs[d.r], d.res)
=============================================================================
