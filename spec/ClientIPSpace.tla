--------------------------- MODULE ClientIPSpace ---------------------------
(* X03 part A: the case space of spec/ClientIP.tla (families of cases built from the address table, the CIDR lists *)
(* and the malformed-entry table) and the state machine that makes every case a TLC state, so that the theorems   *)
(* of ClientIP (Impl = Ref, NoSpoof, RightMost, ResultShape, well-formedness) are checked on each of them.         *)
(* ClientIPGen writes the same set as the case file.  (A module of its own: TLC evaluates these constant sets at   *)
(* start-up, which the trace validation runs do not need.)                                                        *)
EXTENDS ClientIP, IOUtils

\* ================================================================ the case space
CONSTANTS MaxToks,    \* longest enumerated X-Forwarded-For list (family "scan")
          Big,        \* FALSE: quick tier (two text forms per address, two spacing patterns); TRUE: all
          NRand,      \* number of pseudo-random cases
          Part        \* "all", or one of "scan" "rand" "rest": the thorough tier computes the space in three TLC processes
Seed == atoi(IOEnv.VERIF_SEED)     \* the run's seed (bin/vcheck --seed), from the environment

Seqs(S, lo, hi) == UNION {[1 .. k -> S] : k \in lo .. hi}
SetSeq(s) == {s[i] : i \in 1 .. Len(s)}
\* spacing patterns applied to a whole list: "a,b" | "a, b" | " a , b " | "\ta  ,\tb  "
Pats == IF Big THEN {"none", "std", "both", "tab"} ELSE {"none", "std"}
Pat(toks, p) == [i \in 1 .. Len(toks) |->
                  [toks[i] EXCEPT !.ls = CASE p = "none" -> "" [] p = "std" -> (IF i > 1 THEN " " ELSE "")
                                           [] p = "both" -> " " [] OTHER -> "\t",
                                  !.rs = CASE p = "both" -> " " [] p = "tab" -> "  " [] OTHER -> ""]]
T(ai, form) == Tok(ai, form, "", "")
B(bi) == Bad(bi, "", "")
FormsQ(i) == IF Big THEN SetSeq(FormsOf(i))
             ELSE IF Addrs[i].fam = 4 THEN {"dot", "map", "maphex"} ELSE {"short", "full"}

Cidrs4 == <<Cidr(Ix(10, 0, 0, 0), 8, "dot"), Cidr(Ix(10, 128, 0, 0), 9, "dot"), Cidr(Ix(10, 0, 0, 0), 15, "dot"),
            Cidr(Ix(1, 2, 3, 4), 32, "dot"), Cidr(Ix(1, 2, 3, 4), 31, "dot"), Cidr(Ix(1, 2, 3, 4), 30, "dot"),
            Cidr(Ix(0, 0, 0, 0), 0, "dot"), Cidr(Ix(127, 0, 0, 1), 8, "dot"), Cidr(Ix(192, 168, 1, 128), 25, "dot"),
            Cidr(Ix(0, 0, 0, 0), 1, "dot"), Cidr(Ix(128, 0, 0, 0), 1, "dot"), Cidr(Ix(10, 0, 0, 1), 7, "dot"),
            Cidr(Ix(255, 255, 255, 255), 32, "dot"), Cidr(Ix(10, 0, 0, 0), 8, "map"), Cidr(Ix(1, 2, 3, 4), 32, "map")>>
Cidrs6 == <<Cidr(Ix6("::"), 0, "short"), Cidr(Ix6("::1"), 128, "short"), Cidr(Ix6("2001:db8::"), 32, "short"),
            Cidr(Ix6("fc00::"), 7, "short"), Cidr(Ix6("fe80::1"), 10, "short"), Cidr(Ix6("::"), 127, "short"),
            Cidr(Ix6("::a00:1"), 96, "short"), Cidr(Ix6("64:ff9b::a00:1"), 96, "short"),
            Cidr(Ix6("2001:db8::1"), 128, "short")>>
AllCidrs == Cidrs4 \o Cidrs6
AnchorC == Cidr(Ix(203, 0, 113, 1), 24, "dot")            \* 203.0.113.0/24, written with host bits set
AnchorR == RemoteIP(Ix(203, 0, 113, 1), "dot", "", FALSE)
C10 == Cidrs4[1]
XFF0 == Name("XFF", 0)
XRI0 == Name("XRI", 0)

\* --- family "scan": the right-to-left scan, every entry list of length <= MaxToks over 9 entry kinds
ScanToks == {T(Ix(10, 0, 0, 0), "dot"), T(Ix(10, 255, 255, 255), "map"), T(Ix(9, 255, 255, 255), "dot"),
             T(Ix(11, 0, 0, 0), "maphex"), T(Ix6("2001:db8::1"), "short"), T(Ix(10, 0, 0, 1), "MAP"),
             B(1), B(3), B(2)}
ScanXRI == {<< >>, <<T(Ix(8, 8, 8, 8), "dot")>>, <<B(5)>>, <<T(Ix(10, 0, 0, 0), "dot")>>}
ScanNames == {<<XFF0, XRI0>>, <<XRI0, XFF0>>, <<XFF0>>}
ScanRemotes == {RemoteIP(Ix(10, 0, 0, 1), "dot", "", FALSE), RemoteIP(Ix(8, 8, 8, 8), "dot", "", FALSE)}
ScanXP == {xp \in Seqs(ScanToks, 0, MaxToks) \X Pats : xp[2] = "std" \/ Len(xp[1]) <= 2 \/ (Big /\ Len(xp[1]) <= 3)}
FamScan == IF Part \notin {"all", "scan"} THEN {} ELSE
  {MkCase("scan", "opt", r, FALSE, <<C10>>, nm,
          (IF xp[1] = << >> THEN << >> ELSE <<Line("XFF", 0, Pat(xp[1], xp[2]))>>) \o
          (IF y = << >> THEN << >> ELSE <<Line("XRI", 0, y)>>)) :
     r \in ScanRemotes, nm \in ScanNames, y \in ScanXRI, xp \in ScanXP}

\* --- family "entry": membership of a list entry at the boundaries of every CIDR, every address, every form
\* (the peer is trusted through the anchor range; the first entry is an untrusted sentinel)
AF == UNION {{<<x, f>> : f \in FormsQ(x)} : x \in 1 .. NA}      \* every address in every text form of the tier
FamEntry == IF Part \notin {"all", "rest"} THEN {} ELSE
  {MkCase("entry", "opt", AnchorR, FALSE, <<AllCidrs[ci], AnchorC>>, <<XFF0>>,
          <<Line("XFF", 0, Pat(<<T(Ix(8, 8, 4, 4), "dot"), T(xf[1], xf[2])>>, "std"))>>) :
     ci \in 1 .. Len(AllCidrs), xf \in AF}
\* --- family "peer": membership of the peer itself (own net.Addr in every form; real *net.TCPAddr for canonical ones)
FamPeer == IF Part \notin {"all", "rest"} THEN {} ELSE
  UNION {{MkCase("peer", "opt", RemoteIP(xf[1], xf[2], pr[1], pr[2]), FALSE, <<AllCidrs[ci]>>, <<XFF0>>,
                 <<Line("XFF", 0, <<T(Ix(8, 8, 8, 8), "dot")>>)>>) :
            ci \in 1 .. Len(AllCidrs),
            pr \in {<<"", FALSE>>, <<" ", FALSE>>} \cup (IF xf[2] \in {"dot", "short"} THEN {<<"", TRUE>>} ELSE {})} :
         xf \in AF}

\* --- family "kinds": peers that are not a plain IP, against the option sets that matter for them
KindRemotes == {RemoteUnix(n, p) : n \in {"unix", "unixgram", "unixpacket"}, p \in {"/tmp/hertz.sock", "@hertz", ""}}
               \cup {RemoteNoPort(NoPortTexts[i]) : i \in 1 .. Len(NoPortTexts)}
               \cup {RemoteHost("localhost", "name"), RemoteHost("fe80::1%eth0", "v6"), RemoteHost("999.1.1.1", "name"),
                     RemoteHost("", "name"), RemoteNoConn,
                     RemoteIP(Ix(127, 0, 0, 1), "dot", " ", FALSE), RemoteIP(Ix6("::1"), "short", "", TRUE)}
KindOpts == {<<TRUE, << >>>>, <<FALSE, << >>>>, <<FALSE, <<Cidrs4[8]>>>>, <<FALSE, <<C10>>>>, <<FALSE, <<Cidrs4[7], Cidrs6[1]>>>>,
             <<FALSE, <<Cidr(Ix(127, 0, 0, 1), 32, "dot")>>>>, <<FALSE, <<Cidrs6[2]>>>>, <<FALSE, <<Cidrs6[5]>>>>,
             <<FALSE, <<Cidr(Ix(0, 0, 0, 0), 32, "dot")>>>>}
KindLines == {<< >>, <<Line("XFF", 0, <<T(Ix(8, 8, 8, 8), "dot")>>)>>,
              <<Line("XFF", 0, <<B(2)>>), Line("XRI", 0, <<T(Ix(1, 2, 3, 4), "dot")>>)>>}
FamKinds == IF Part \notin {"all", "rest"} THEN {} ELSE {MkCase("kinds", "opt", r, o[1], o[2], <<XFF0, XRI0>>, ls) : r \in KindRemotes, o \in KindOpts, ls \in KindLines}

\* --- family "multi": several lines of one name (A6)
MultiToks == {T(Ix(10, 0, 0, 0), "dot"), T(Ix(9, 255, 255, 255), "dot"), T(Ix(11, 0, 0, 0), "dot"), B(2)}
FamMulti == IF Part \notin {"all", "rest"} THEN {} ELSE
  {MkCase("multi", "opt", AnchorR, FALSE, <<C10, AnchorC>>, <<XFF0, XRI0>>,
          <<Line("XFF", 0, Pat(x, "std"))>> \o mid \o <<Line("XFF", v, Pat(y, "std"))>>) :
     x \in Seqs(MultiToks, 1, 2), y \in Seqs(MultiToks, 1, 2), v \in {0, 1},
     mid \in {<< >>, <<Line("XRI", 0, <<T(Ix(8, 8, 8, 8), "dot")>>)>>}}
  \cup
  {MkCase("multi", "opt", AnchorR, FALSE, <<C10, AnchorC>>, <<XRI0, XFF0>>,
          <<Line("XRI", 0, <<x>>), Line("XFF", 0, <<T(Ix(8, 8, 8, 8), "dot")>>), Line("XRI", 2, <<y>>)>>) :
     x \in MultiToks, y \in MultiToks}

\* --- family "default": the package default options (nothing configured)
DefToks == {T(Ix(1, 2, 3, 4), "dot"), T(Ix(10, 0, 0, 1), "map"), T(Ix6("2001:db8::1"), "FULL"), T(Ix6("::a00:1"), "short"), B(2), B(1)}
DefRemotes == {RemoteIP(Ix(10, 0, 0, 1), "dot", "", TRUE), RemoteIP(Ix6("2001:db8::1"), "short", "", TRUE),
               RemoteIP(Ix(1, 2, 3, 4), "map", "", FALSE), RemoteNoConn, RemoteUnix("unix", "/tmp/hertz.sock"),
               RemoteHost("localhost", "name"), RemoteNoPort("10.0.0.1"), RemoteIP(Ix6("::a00:1"), "full", "", FALSE)}
FamDefault == IF Part \notin {"all", "rest"} THEN {} ELSE
  {MkCase("default", "default", r, FALSE, << >>, << >>,
          (IF x = << >> THEN << >> ELSE <<Line("XFF", v, Pat(x, "std"))>>) \o
          (IF y = << >> THEN << >> ELSE <<Line("XRI", v, y)>>)) :
     r \in DefRemotes, x \in Seqs(DefToks, 0, 2), y \in {<< >>, <<T(Ix(8, 8, 8, 8), "dot")>>, <<B(4)>>}, v \in {0, 1}}

\* --- family "names": which headers are consulted, in which order, spelled how
NameLists == {<< >>, <<Name("CIP", 0)>>, <<Name("XRI", 1), Name("XFF", 2)>>, <<XFF0, XFF0>>,
              <<Name("CIP", 2), XFF0, Name("XRI", 2)>>, <<Name("XRI", 0)>>, <<Name("XFF", 1)>>}
FamNames == IF Part \notin {"all", "rest"} THEN {} ELSE
  {MkCase("names", "opt", AnchorR, FALSE, <<AnchorC>>, nm,
          <<Line("XRI", v, <<a>>), Line("CIP", v, <<b>>), Line("XFF", (v + 1) % 3, <<c>>)>>) :
     nm \in NameLists, v \in 0 .. 2, a \in {T(Ix(1, 2, 3, 4), "dot"), B(2)}, b \in {T(Ix(1, 2, 3, 5), "dot"), B(3)},
     c \in {T(Ix(1, 2, 3, 6), "dot"), B(4)}}

\* --- family "rand": NRand pseudo-random cases over everything above; a pure function of (Seed, i), so that a case is
\* reproducible from its number (no RandomElement: TLC may evaluate an expression more than once)
H(x) == LET y == x % 46337 IN (y * y + 7) % 46337
R(i, k) == H(H(H((Seed * 131 + i * 31 + k * 7) % 46337) + k) + (i % 977))
Sp == <<"", " ", "", " ", "  ", "\t">>
PickSp(i, k) == Sp[(R(i, k) % Len(Sp)) + 1]
RandTok(i, k) ==
  IF R(i, k) % 5 = 0 THEN Bad((R(i, k + 1) % Len(BadTexts)) + 1, PickSp(i, k + 2), PickSp(i, k + 3))
  ELSE LET x == (R(i, k + 1) % NA) + 1  fs == FormsOf(x) IN
       Tok(x, fs[(R(i, k + 4) % Len(fs)) + 1], PickSp(i, k + 2), PickSp(i, k + 3))
RandToks(i, k0, max) == [j \in 1 .. (R(i, k0) % (max + 1)) |-> RandTok(i, k0 + 10 * j)]
RandRemote(i) ==
  LET w == R(i, 1) % 12  x == (R(i, 2) % NA) + 1  fs == FormsOf(x)  f == fs[(R(i, 3) % Len(fs)) + 1] IN
  CASE w = 11 -> RemoteUnix(<<"unix", "unixgram", "unixpacket">>[(R(i, 4) % 3) + 1], <<"/tmp/hertz.sock", "@hertz", "">>[(R(i, 5) % 3) + 1])
    [] w = 10 -> RemoteHost(HostTexts[(R(i, 4) % 3) + 1], <<"name", "v6", "name">>[(R(i, 4) % 3) + 1])
    [] w = 9  -> RemoteNoPort(NoPortTexts[(R(i, 4) % Len(NoPortTexts)) + 1])
    [] w = 8  -> RemoteNoConn
    [] OTHER  -> IF f \in {"dot", "short"} /\ R(i, 6) % 2 = 0 THEN RemoteIP(x, f, "", TRUE)
                 ELSE RemoteIP(x, f, IF R(i, 7) % 4 = 0 THEN " " ELSE "", FALSE)
WideCidrs == <<Cidrs4[7], Cidrs6[1], Cidrs4[10], Cidrs4[11], Cidrs6[4]>>      \* ranges that make trust likely
RandCidr(i, k) == IF R(i, k) % 3 = 0 THEN WideCidrs[(R(i, k + 1) % Len(WideCidrs)) + 1]
                  ELSE AllCidrs[(R(i, k + 1) % Len(AllCidrs)) + 1]
NameListSeq == <<<<XFF0, XRI0>>, <<XFF0, XRI0>>, <<XRI0, XFF0>>, <<XFF0>>, << >>, <<Name("CIP", 0)>>,
                 <<Name("XRI", 1), Name("XFF", 2)>>, <<Name("CIP", 2), XFF0, Name("XRI", 2)>>, <<Name("XFF", 1), Name("CIP", 1)>>>>
RandCase(i) ==
  LET nc == R(i, 10) % 4
      xff == RandToks(i, 100, 4)   xff2 == RandToks(i, 200, 2)   xri == RandToks(i, 300, 2)   cip == RandToks(i, 400, 1)
      v == R(i, 11) % 3
      l1 == IF xff = << >> THEN << >> ELSE <<Line("XFF", v, xff)>>
      l2 == IF xri = << >> THEN << >> ELSE <<Line("XRI", (v + 1) % 3, xri)>>
      l3 == IF cip = << >> THEN << >> ELSE <<Line("CIP", v, cip)>>
      l4 == IF xff2 = << >> \/ R(i, 12) % 6 # 0 THEN << >> ELSE <<Line("XFF", 0, xff2)>>     \* a second line, rarely
      ord == R(i, 13) % 3
  IN MkCase("rand", IF R(i, 14) % 7 = 0 THEN "default" ELSE "opt", RandRemote(i),
            nc = 0 /\ R(i, 15) % 2 = 0, [j \in 1 .. nc |-> RandCidr(i, 20 + 3 * j)],
            NameListSeq[(R(i, 16) % Len(NameListSeq)) + 1],
            CASE ord = 0 -> l1 \o l2 \o l3 \o l4 [] ord = 1 -> l2 \o l3 \o l1 \o l4 [] OTHER -> l3 \o l1 \o l4 \o l2)
FamRand == IF Part \notin {"all", "rand"} THEN {} ELSE {RandCase(i) : i \in 1 .. NRand}

Space == FamScan \cup FamEntry \cup FamPeer \cup FamKinds \cup FamMulti \cup FamDefault \cup FamNames \cup FamRand

\* ================================================================ model checking: every case of the space is a state
VARIABLE cur
Init == cur \in Space
Next == UNCHANGED cur
Spec == Init /\ [][Next]_cur
WF == CaseWF(cur)
ImplIsRef == ~MultiLine(cur) => Impl(cur) = Ref(cur)       \* the code as written meets the clauses A1-A5 ...
ImplIsRefAll == Impl(cur) = Ref(cur)                        \* ... and not A6 (ClientIP_multiline.cfg must refute this)
NoSpoofInv == NoSpoof(cur)
RightMostInv == RightMost(cur)
ResultShapeInv == ResultShape(cur)
=============================================================================
