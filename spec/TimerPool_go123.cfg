CONSTANTS
  NT = 2
  NU = 2
  Rounds = 2
  Drain = FALSE
  AtomicFire = FALSE
  Go123 = TRUE
  Misuse = FALSE
  PutOnlyStopped = FALSE
SPECIFICATION Spec
INVARIANTS TypeOK NoStaleTick PoolQuiescent NoTrap Exclusive

