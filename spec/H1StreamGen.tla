---------------------------- MODULE H1StreamGen ----------------------------
(***************************************************************************)
(* Case generator for C14: a request with a streamed body, a consumption   *)
(* program for its handler (sizes of successive stream reads, then stop or *)
(* read on until EOF), followed by a pipelined probe request.              *)
(***************************************************************************)
EXTENDS Wire, Json, IOUtils, SequencesExt

CONSTANTS SmallLens, BigLens

F(lname, style, words) == [lname |-> lname, style |-> style, words |-> words]
T(name, lname, value) == [name |-> name, lname |-> lname, value |-> value, seen |-> value]
\* a trailer whose value is folded over two lines
TF(name, lname, w1, w2) == [name |-> name, lname |-> lname, value |-> w1 \o "\r\n " \o w2, seen |-> w1 \o " " \o w2]
HostField == F("host", "canon", <<"example.com">>)
Ones(n) == [k \in 1 .. n |-> 1]

Req(m, t, fr, n, cs, tr, e) ==
    [method |-> m, target |-> t, ver |-> "1.1", fields |-> <<HostField, F("x-a", "canon", <<"v1">>)>>,
     framing |-> fr, bodyLen |-> n, chunks |-> cs, hexUpper |-> FALSE, chunkExt |-> FALSE,
     trailers |-> tr, expect100 |-> e, close |-> FALSE, clStyle |-> "canon", bodyLit |-> "", raw |-> ""]

Probe == [Req("POST", "/probe?x=1", "cl", 5, << >>, << >>, FALSE) EXCEPT !.fields = <<HostField, F("x-a", "canon", <<"probe">>)>>]
ProbeChunked == [Req("PUT", "/probe", "chunked", 7, <<3, 4>>, << >>, FALSE) EXCEPT !.fields = <<HostField, F("x-a", "canon", <<"probe">>)>>]

\* encodings of a body of length n
Encodings(n) ==
    IF n = 0 THEN {[fr |-> "cl", cs |-> << >>]}
    ELSE {[fr |-> "cl", cs |-> << >>], [fr |-> "chunked", cs |-> <<n>>]}
         \cup (IF n >= 2 THEN {[fr |-> "chunked", cs |-> <<n - 1, 1>>]} ELSE {})
         \cup (IF n >= 3 /\ n <= 17 THEN {[fr |-> "chunked", cs |-> Ones(n)]} ELSE {})
         \cup (IF n > 300 THEN {[fr |-> "chunked", cs |-> <<255, n - 255>>]} ELSE {})

Rep(s, c) == [k \in 1 .. c |-> s]
\* again: after the stream reported EOF the handler reads on (ReadAll followed by a drain, a retrying reader ...):
\* every further read must report EOF again at once, without bytes
P(reads, all) == [reads |-> reads, all |-> all, again |-> IF all \/ Len(reads) % 2 = 1 THEN 2 ELSE 0, body |-> FALSE]

\* consumption programs for a body of length n
Programs(n) ==
    IF n <= 20
    THEN {P(Rep(1, c), FALSE) : c \in 0 .. n + 1}                  \* every stop point, byte by byte (and one past the end)
         \cup {P(Rep(3, c), FALSE) : c \in 1 .. (n \div 3) + 1}
         \cup {P(<<n>>, FALSE), P(<<n + 7>>, FALSE), P(<<n + 7, 1>>, FALSE)} \* exactly at the end without / with the EOF read
         \cup {P(<<1>>, TRUE), P(<<3>>, TRUE), P(<<4096>>, TRUE)}
         \cup (IF n >= 2 THEN {P(<<n - 1>>, FALSE), P(<<1, n - 1>>, FALSE)} ELSE {})
    ELSE {P(<< >>, FALSE), P(<<1>>, FALSE), P(<<4096>>, FALSE), P(<<4096, 4096>>, FALSE), P(<<8192>>, FALSE), P(<<8193>>, FALSE),
          P(<<254>>, FALSE), P(<<255>>, FALSE), P(<<256>>, FALSE), P(<<300, 5>>, FALSE),
          P(<<n - 1>>, FALSE), P(<<n>>, FALSE), P(<<n + 7>>, FALSE), P(<<n, 1>>, FALSE),
          P(<<4096>>, TRUE), P(<<8193>>, TRUE), P(<<32768>>, TRUE), P(<<1000>>, TRUE)}

Lens == SmallLens \cup BigLens
Tuples == {<<n, e, p>> : n \in Lens, e \in UNION {Encodings(m) : m \in Lens}, p \in UNION {Programs(m) : m \in Lens}}
Valid == {x \in Tuples : x[2] \in Encodings(x[1]) /\ x[3] \in Programs(x[1])}
AllSeq == SetToSeq(Valid)

Script(k) == LET x == AllSeq[k] IN
             <<Req(IF k % 2 = 0 THEN "POST" ELSE "PUT", "/up", x[2].fr, x[1], x[2].cs,
                   IF x[2].fr = "chunked" /\ k % 3 = 0 THEN <<T("X-T", "x-t", "tv")>> ELSE << >>, k % 5 = 0 /\ x[1] > 0),
               IF k % 2 = 0 THEN Probe ELSE ProbeChunked>>

\* bodies that imitate chunk framing followed by a request: a handler that stops inside the chunk leaves bytes
\* behind which, read as framing, would end the body early and expose "GET /smuggled" as the next request
Smug == "0\r\n\r\nGET /smuggled HTTP/1.1\r\nHost: example.com\r\n\r\n"
SmugB == "3\r\nabc\r\n0\r\n\r\nGET /smuggled HTTP/1.1\r\nHost: example.com\r\n\r\n"
SmugReq(lit, cs) == [Req("POST", "/up", "chunked", Len(lit), cs, << >>, FALSE) EXCEPT !.bodyLit = lit]
SmugCases == <<
   [script |-> <<SmugReq("ab" \o Smug, <<2 + Len(Smug)>>), Probe>>, prog |-> P(<<2>>, FALSE)],
   [script |-> <<SmugReq("ab" \o Smug, <<2 + Len(Smug)>>), Probe>>, prog |-> P(<<1, 1>>, FALSE)],
   [script |-> <<SmugReq("ab" \o SmugB, <<2 + Len(SmugB)>>), ProbeChunked>>, prog |-> P(<<2>>, FALSE)],
   [script |-> <<SmugReq("abcd" \o Smug, <<3, 1 + Len(Smug)>>), Probe>>, prog |-> P(<<3, 1>>, FALSE)],
   [script |-> <<SmugReq("abcd" \o Smug, <<3, 1 + Len(Smug)>>), Probe>>, prog |-> P(<<4>>, FALSE)],
   [script |-> <<SmugReq("ab" \o Smug, <<2 + Len(Smug)>>), Probe>>, prog |-> P(<<4096>>, TRUE)] >>
\* multipart forms: declared by Content-Length (parsed by the server while it reads the request: the handler's stream
\* is empty and the next request starts behind the form), chunked (streamed as any other body), and without a body
RECURSIVE Fill(_, _)
Fill(c, n) == IF n = 0 THEN "" ELSE c \o Fill(c, n - 1)
MpCT == F("content-type", "canon", <<"multipart/form-data;", "boundary=BB">>)
MpBody(n) == "--BB\r\nContent-Disposition: form-data; name=f\r\n\r\n" \o Fill("m", n) \o "\r\n--BB--\r\n"
MpReq(fr, n, cs) == [Req("POST", "/mp", fr, Len(MpBody(n)), cs, << >>, FALSE) EXCEPT !.bodyLit = MpBody(n), !.fields = <<HostField, MpCT>>]
MpNone == [Req("POST", "/mp0", "none", 0, << >>, << >>, FALSE) EXCEPT !.fields = <<HostField, MpCT>>]
MpCases == <<
   [script |-> <<MpReq("cl", 10, << >>), Probe>>, prog |-> P(<<4096>>, TRUE)],
   [script |-> <<MpReq("cl", 300, << >>), ProbeChunked>>, prog |-> P(<<1>>, FALSE)],
   [script |-> <<MpReq("cl", 9000, << >>), Probe>>, prog |-> P(<< >>, FALSE)],
   [script |-> <<MpReq("chunked", 10, <<Len(MpBody(10))>>), Probe>>, prog |-> P(<<4096>>, TRUE)],
   [script |-> <<MpReq("chunked", 10, <<5, Len(MpBody(10)) - 5>>), ProbeChunked>>, prog |-> P(<<3>>, FALSE)],
   [script |-> <<MpNone, Probe>>, prog |-> P(<<4096>>, TRUE)] >>
MpCase(j) == [id |-> Len(AllSeq) + Len(SmugCases) + j, script |-> MpCases[j].script, wire |-> Encode(MpCases[j].script),
              offs |-> Offsets(MpCases[j].script), progs |-> <<MpCases[j].prog, P(<<4096>>, TRUE)>>]

\* a read time-out inside the body of the second request (the first request makes the server set read deadlines), the
\* rest of the body arrives afterwards: chunked (every read happens in the handler) and a Content-Length body longer
\* than the 8 KiB the server reads ahead
TmoUp(fr, n, cs) == Req("PUT", "/slow", fr, n, cs, << >>, FALSE)
TmoScripts == << <<Probe, TmoUp("chunked", 26, <<10, 11, 5>>), Probe>>,
                 <<Probe, TmoUp("cl", 20000, << >>), ProbeChunked>>,
                 <<ProbeChunked, TmoUp("chunked", 12000, <<6000, 6000>>), Probe>> >>
TmoAt(j, d) == Offsets(TmoScripts[j])[2].headEnd + d
TmoPlan == << <<1, 7>>, <<1, 20>>, <<2, 9000>>, <<2, 15000>>, <<3, 100>>, <<3, 7000>> >>
\* (the last program takes the whole body with Request.BodyE() instead of reading the stream)
TmoProgs == << P(<<4096>>, TRUE), P(<<3>>, FALSE), P(<<4096, 4096, 4096>>, FALSE), [P(<< >>, FALSE) EXCEPT !.body = TRUE] >>
TmoCase(j) == LET pl == TmoPlan[((j - 1) % Len(TmoPlan)) + 1] pr == TmoProgs[((j - 1) \div Len(TmoPlan)) + 1] IN
              [id |-> Len(AllSeq) + Len(SmugCases) + Len(MpCases) + j, script |-> TmoScripts[pl[1]], wire |-> Encode(TmoScripts[pl[1]]),
               offs |-> Offsets(TmoScripts[pl[1]]), progs |-> <<P(<<4096>>, TRUE), pr, P(<<4096>>, TRUE)>>,
               fault |-> [truncate |-> 0, wfail |-> 0, maxBody |-> 0, stall |-> FALSE, tmo |-> TmoAt(pl[1], pl[2])]]
NTmo == Len(TmoPlan) * Len(TmoProgs)

SmugCase(j) == [id |-> Len(AllSeq) + j, script |-> SmugCases[j].script, wire |-> Encode(SmugCases[j].script),
                offs |-> Offsets(SmugCases[j].script), progs |-> <<SmugCases[j].prog, P(<<4096>>, TRUE)>>]

Case(k) == [id |-> k, script |-> Script(k), wire |-> Encode(Script(k)), offs |-> Offsets(Script(k)),
            progs |-> <<AllSeq[k][3], P(<<4096>>, TRUE)>>]

ASSUME \A k \in 1 .. Len(AllSeq) : \A j \in 1 .. 2 : WellFormedReq(Script(k)[j])
ASSUME \A j \in 1 .. Len(SmugCases) : WellFormedReq(SmugCases[j].script[1])
ASSUME \A j \in 1 .. Len(MpCases) : WellFormedReq(MpCases[j].script[1])
ASSUME ndJsonSerialize(IOEnv.VERIF_OUT, [k \in 1 .. Len(AllSeq) |-> Case(k)] \o [j \in 1 .. Len(SmugCases) |-> SmugCase(j)]
                                        \o [j \in 1 .. Len(MpCases) |-> MpCase(j)] \o [j \in 1 .. NTmo |-> TmoCase(j)])

VARIABLE g
GenInit == g = 0
GenNext == UNCHANGED g
=============================================================================
