INIT TraceInit
NEXT TraceNext
INVARIANTS Report
