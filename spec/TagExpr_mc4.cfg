CONSTANTS McDepth = 2
          McLeafMode = "funcs"
SPECIFICATION Spec
INVARIANTS RoundTrip StyleFree EvalTotal SortSound ChainFlat
