CONSTANTS Lens = {0, 2} Nums = {0, 1, 2} MaxSmall = 1 MaxReqs = 2
SPECIFICATION Spec
INVARIANTS TypeOK RespOK LengthOK WindowOK PoolClean ReaderHeld RepeatEqual
