---------------------------- MODULE H1ServerGen ----------------------------
(***************************************************************************)
(* Case generator for C01/C02/C14/C19: concrete request scripts (Wire).    *)
(* Each case: [id, script, wire (segments), offs (start/headEnd/end)].     *)
(* Tier "quick": every single-request shape, plus every shape followed by  *)
(* each probe request (pipelining), plus three-request scripts sampled by  *)
(* a stride.  Tier "thorough": adds all boundary sizes and more triples.   *)
(***************************************************************************)
EXTENDS Wire, Json, IOUtils, SequencesExt

CONSTANTS BigSizes,      \* body lengths around buffer boundaries used in this tier
          TripleStride,  \* take every TripleStride-th triple
          HugeSizes      \* body lengths beyond the preallocation bound of the body reader (4 MiB): a handful of scripts only

F(lname, style, words) == [lname |-> lname, style |-> style, words |-> words]
T(name, lname, value) == [name |-> name, lname |-> lname, value |-> value, seen |-> value]
\* a trailer whose value is folded over two lines
TF(name, lname, w1, w2) == [name |-> name, lname |-> lname, value |-> w1 \o "\r\n " \o w2, seen |-> w1 \o " " \o w2]

HostField == F("host", "canon", <<"example.com">>)

HeaderSets == <<
   \* plain, with the specially stored Cookie and User-Agent (one-byte value)
   <<HostField, F("x-a", "canon", <<"v1">>), F("cookie", "canon", <<"a=1;", "b=2">>), F("user-agent", "canon", <<"u">>)>>,
   \* mixed case, repeated fields, no space after colon, padded
   <<F("host", "lower", <<"example.com">>), F("x-a", "mixed", <<"v1">>), F("x-bb", "upper", <<"b1">>),
     F("x-a", "nospace", <<"v2">>), F("x-bb", "padded", <<"b2", "b3">>), F("content-type", "mixed", <<"text/plain">>)>>,
   \* obs-fold continuation lines and near-miss framing names whose values would move the message end
   <<HostField, F("x-a", "fold", <<"w1", "w2">>), F("content-lengths", "canon", <<"3">>),
     F("x-content-length", "canon", <<"99">>), F("transfer-encodings", "canon", <<"chunked">>),
     F("x-bb", "foldtab", <<"t1", "t2", "t3">>)>>,
   \* more decoys, different spellings
   <<F("host", "upper", <<"h">>), F("cookie", "mixed", <<"k=v">>), F("content_length", "lower", <<"5">>), F("content-lengt", "upper", <<"7">>),
     F("x-transfer-encoding", "mixed", <<"chunked">>), F("x-a", "lower", <<"v1">>)>>
>>

Ones(n) == [k \in 1 .. n |-> 1]

\* body shapes: [framing, bodyLen, chunks]
SmallBodies == {
   [framing |-> "none", bodyLen |-> 0, chunks |-> << >>],
   [framing |-> "cl", bodyLen |-> 0, chunks |-> << >>],
   [framing |-> "cl", bodyLen |-> 1, chunks |-> << >>],
   [framing |-> "cl", bodyLen |-> 17, chunks |-> << >>],
   [framing |-> "chunked", bodyLen |-> 1, chunks |-> <<1>>],
   [framing |-> "chunked", bodyLen |-> 17, chunks |-> <<17>>],
   [framing |-> "chunked", bodyLen |-> 17, chunks |-> Ones(17)],
   [framing |-> "chunked", bodyLen |-> 17, chunks |-> <<16, 1>>],
   [framing |-> "chunked", bodyLen |-> 26, chunks |-> <<10, 11, 5>>] }
BigBodies == UNION {{ [framing |-> "cl", bodyLen |-> b, chunks |-> << >>],
                      [framing |-> "chunked", bodyLen |-> b, chunks |-> <<b>>],
                      [framing |-> "chunked", bodyLen |-> b, chunks |-> <<b - 1, 1>>],
                      [framing |-> "chunked", bodyLen |-> b, chunks |-> <<255, b - 255>>] } : b \in BigSizes}
Bodies == SetToSeq(SmallBodies \cup BigBodies)

Methods == <<"POST", "PUT", "GET", "DELETE", "M">>      \* "M": a one-letter extension method
Targets == <<"/p", "/p/q?x=1&y=2", "/", "/a/b/c?k=v">>
Styles == <<"canon", "lower", "upper", "mixed">>

\* the k-th shape: body shape x header set x expect100; the remaining dimensions cycle with k so that every value
\* of every dimension occurs with many different neighbours
Shape(bi, hi, e, k) ==
    LET b == Bodies[bi] IN
    [method |-> Methods[(k % 5) + 1], target |-> Targets[((k \div 2) % 4) + 1], ver |-> "1.1",
     fields |-> HeaderSets[hi], framing |-> b.framing, bodyLen |-> b.bodyLen, chunks |-> b.chunks,
     hexUpper |-> (k % 2 = 0), chunkExt |-> (b.framing = "chunked" /\ k % 3 = 0),
     trailers |-> IF b.framing = "chunked" /\ k % 4 = 1 THEN <<T("X-T", "x-t", "tv")>>
                  ELSE IF b.framing = "chunked" /\ k % 4 = 3 THEN <<TF("X-T", "x-t", "t1", "t2"), T("X-U", "x-u", "uv")>> ELSE << >>,
     expect100 |-> e, close |-> FALSE, clStyle |-> Styles[(k % 4) + 1], bodyLit |-> "", raw |-> "",
     noAnnounce |-> (k % 8 \in {5, 7})]      \* half of the shapes with trailers do not announce them

ShapeIdx == {<<bi, hi, e>> : bi \in 1 .. Len(Bodies), hi \in 1 .. Len(HeaderSets), e \in BOOLEAN}
ValidIdx == SetToSeq({x \in ShapeIdx : x[3] => Bodies[x[1]].framing # "none"})
Singles == [k \in 1 .. Len(ValidIdx) |-> Shape(ValidIdx[k][1], ValidIdx[k][2], ValidIdx[k][3], k)]

\* probe requests used as pipelined followers
Probe(m, t, fr, n, cs) == [method |-> m, target |-> t, ver |-> "1.1", fields |-> <<HostField, F("x-a", "canon", <<"probe">>)>>,
                           framing |-> fr, bodyLen |-> n, chunks |-> cs, hexUpper |-> FALSE, chunkExt |-> FALSE,
                           trailers |-> << >>, expect100 |-> FALSE, close |-> FALSE, clStyle |-> "canon", bodyLit |-> "", raw |-> ""]
Probes == << Probe("GET", "/probe", "none", 0, << >>),
             Probe("POST", "/probe?x=1", "cl", 5, << >>),
             Probe("PUT", "/probe", "chunked", 7, <<3, 4>>),
             [Probe("GET", "/probe/close", "none", 0, << >>) EXCEPT !.close = TRUE],
             [Probe("GET", "/probe10", "none", 0, << >>) EXCEPT !.ver = "1.0"],
             [Probe("POST", "/probe/fold", "cl", 3, << >>) EXCEPT !.fields = HeaderSets[3]],
             [Probe("GET", "/probe10c", "none", 0, << >>) EXCEPT !.ver = "1.0"] @@ [noKeepAlive |-> TRUE] >>

\* chunked requests that also carry Content-Length (smaller than, equal to and larger than the encoded body)
AmbigBase(n, cs) == [Probe("POST", "/both", "chunked", n, cs) EXCEPT !.fields = <<HostField, F("x-a", "canon", <<"v1">>)>>]
AmbigReqs == <<
   AmbigBase(7, <<3, 4>>) @@ [clBefore |-> "3"],  AmbigBase(7, <<3, 4>>) @@ [clAfter |-> "3"],
   AmbigBase(7, <<7>>) @@ [clBefore |-> "7"],     AmbigBase(7, <<7>>) @@ [clAfter |-> "0"],
   AmbigBase(5, <<5>>) @@ [clAfter |-> "10"],     AmbigBase(5, <<1, 4>>) @@ [clBefore |-> "100"],
   AmbigBase(26, <<10, 11, 5>>) @@ [clBefore |-> "26", clAfter |-> "1"] >>
AmbigScripts == [k \in 1 .. Len(AmbigReqs) |-> <<AmbigReqs[k], Probes[(k % Len(Probes)) + 1]>>]
                \o [k \in 1 .. Len(AmbigReqs) |-> <<Probes[2], AmbigReqs[k], Probes[1]>>]

Pairs == [k \in 1 .. Len(Singles) * Len(Probes) |->
             <<Singles[((k - 1) \div Len(Probes)) + 1], Probes[((k - 1) % Len(Probes)) + 1]>>]
\* probe first, then the shape (the shape must survive what the previous request left in the buffer)
PairsRev == [k \in 1 .. Len(Singles) |-> <<Probes[(k % Len(Probes)) + 1], Singles[k]>>]
TripleIdx == {k \in 1 .. Len(Singles) : k % TripleStride = 0}
Triples == [k \in 1 .. Cardinality(TripleIdx) |->
              LET j == k * TripleStride IN
              <<Singles[j], Singles[((j * 7) % Len(Singles)) + 1], Probes[(k % Len(Probes)) + 1]>>]

HugeReq(fr, n, cs) == [Probe("POST", "/huge", fr, n, cs) EXCEPT !.fields = <<HostField, F("x-a", "canon", <<"v1">>)>>]
HugeSeq == SetToSeq(HugeSizes)
HugeScripts == [k \in 1 .. Len(HugeSeq) |-> <<HugeReq("cl", HugeSeq[k], << >>), Probes[2]>>]
               \o [k \in 1 .. Len(HugeSeq) |-> <<HugeReq("chunked", HugeSeq[k], <<HugeSeq[k]>>), Probes[1]>>]
               \o [k \in 1 .. Len(HugeSeq) |-> <<Probes[3], HugeReq("chunked", HugeSeq[k], <<255, HugeSeq[k] - 255>>)>>]

Scripts == [k \in 1 .. Len(Singles) |-> <<Singles[k]>>] \o Pairs \o PairsRev \o Triples \o AmbigScripts \o HugeScripts

\* (the huge bodies need MaxRequestBodySize above its default of 4 MiB)
IsHuge(k) == k > Len(Scripts) - Len(HugeScripts)
Case(k) == IF IsHuge(k)
           THEN [id |-> k, script |-> Scripts[k], wire |-> Encode(Scripts[k]), offs |-> Offsets(Scripts[k]),
                 fault |-> [truncate |-> 0, wfail |-> 0, maxBody |-> 16777216, stall |-> FALSE]]
           ELSE [id |-> k, script |-> Scripts[k], wire |-> Encode(Scripts[k]), offs |-> Offsets(Scripts[k])]

ASSUME \A k \in 1 .. Len(Scripts) : \A j \in 1 .. Len(Scripts[k]) : WellFormedReq(Scripts[k][j])
ASSUME ndJsonSerialize(IOEnv.VERIF_OUT, [k \in 1 .. Len(Scripts) |-> Case(k)])

VARIABLE g
GenInit == g = 0
GenNext == UNCHANGED g
=============================================================================
