\* corrected; 2 keys, 3 concurrent callers x 1 call, MaxConns 1, 2 ticks
CONSTANTS
  Keys = {"a", "b"}
  TLSKeys = {}
  Callers = {1, 2, 3}
  MaxCalls = 1
  NH = 3
  MaxConns = 1
  MaxTicks = 2
  MaxCI = 1
  MaxReap = 1
  Retries = 1
  HoldCounted = TRUE
  CIAll = TRUE
SPECIFICATION Spec
VIEW View
INVARIANTS TypeOK IdsSuffice MapSound OnePerKey OrphanFree BoundedPerKey CleanerCount LockExcludes
PROPERTIES RemoveOnlyIdle CloseIdleAll CloseIdleKeepsBusy
