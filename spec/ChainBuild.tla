----------------------------- MODULE ChainBuild -----------------------------
(***************************************************************************)
(* C12, second half -- how handler chains are assembled from Use / Group / *)
(* route registration / NoRoute / NoMethod (pkg/route/routergroup.go,      *)
(* engine.go).  The model follows the code: a group holds a *snapshot* of  *)
(* its parent's middleware taken when the group is created                 *)
(* (combineHandlers), Use appends to the group's own list, registering a   *)
(* route snapshots the group's list, Engine.Use/NoRoute/NoMethod rebuild   *)
(* the 404/405 chains.                                                     *)
(*                                                                         *)
(* The property only demands (Obligation below): middleware attached to    *)
(* the engine or to a group on the route's path *before* the next group    *)
(* down the path was created / the route was registered runs before the    *)
(* route's handlers, outermost group first, each at most once, and nothing *)
(* foreign runs; 404/405 run all engine-level middleware.  Whether         *)
(* middleware attached later is included is deliberately not judged.       *)
(***************************************************************************)
EXTENDS Integers, Sequences, FiniteSets, TLC

CONSTANTS MaxOps, MaxGroups, MaxRoutes     \* bounds of the exhaustive configuration

\* An op: [op |-> "Use"|"Group"|"Register"|"NoRoute"|"NoMethod", g |-> group, n |-> count]
Op(o, g, n) == [op |-> o, g |-> g, n |-> n]

VARIABLES prog,      \* the builder program (fixed)
          pcb,       \* next op to execute (1-based)
          gmw,       \* gmw[g+1]: the group's Handlers: sequence of middleware ids (snapshot + own)
          gpar,      \* gpar[g+1]: parent group (-1 for the engine)
          gborn,     \* gborn[g+1]: op index at which the group was created (0 for the engine)
          att,       \* att[g+1]: sequence of [m, t]: middleware attached to group g itself at op index t
          routes,    \* sequence of [g, n, t, chain]: registered routes with the snapshot chain
          noRoute, noMethod,       \* whether NoRoute / NoMethod handlers were installed
          all404, all405,          \* engine.allNoRoute / allNoMethod as middleware-id sequences
          nm         \* middleware ids handed out so far

bvars == <<prog, pcb, gmw, gpar, gborn, att, routes, noRoute, noMethod, all404, all405, nm>>

NG == Len(gmw)

StartBuild(p) == /\ prog = p /\ pcb = 1
                 /\ gmw = << << >> >> /\ gpar = <<-1>> /\ gborn = <<0>> /\ att = << << >> >>
                 /\ routes = << >> /\ noRoute = FALSE /\ noMethod = FALSE
                 /\ all404 = << >> /\ all405 = << >> /\ nm = 0

Fresh(k) == [i \in 1 .. k |-> nm + i - 1]
Stamp(ms, t) == [i \in 1 .. Len(ms) |-> [m |-> ms[i], t |-> t]]

BuildStep ==
  /\ pcb <= Len(prog)
  /\ LET o == prog[pcb] g == o.g IN
     /\ pcb' = pcb + 1
     /\ CASE o.op = "Use" ->
               /\ gmw' = [gmw EXCEPT ![g + 1] = Append(@, nm)]
               /\ att' = [att EXCEPT ![g + 1] = Append(@, [m |-> nm, t |-> pcb])]
               /\ nm' = nm + 1
               /\ IF g = 0 THEN all404' = Append(gmw[1], nm) /\ all405' = Append(gmw[1], nm)
                           ELSE UNCHANGED <<all404, all405>>
               /\ UNCHANGED <<gpar, gborn, routes, noRoute, noMethod>>
          [] o.op = "Group" ->
               /\ gmw' = Append(gmw, gmw[g + 1] \o Fresh(o.n))
               /\ att' = Append(att, Stamp(Fresh(o.n), pcb))
               /\ gpar' = Append(gpar, g)
               /\ gborn' = Append(gborn, pcb)
               /\ nm' = nm + o.n
               /\ UNCHANGED <<routes, noRoute, noMethod, all404, all405>>
          [] o.op = "Register" ->
               /\ routes' = Append(routes, [g |-> g, n |-> o.n, t |-> pcb, chain |-> gmw[g + 1]])
               /\ UNCHANGED <<gmw, att, gpar, gborn, nm, noRoute, noMethod, all404, all405>>
          [] o.op = "NoRoute" ->
               /\ noRoute' = TRUE /\ all404' = gmw[1]
               /\ UNCHANGED <<gmw, att, gpar, gborn, nm, routes, noMethod, all405>>
          [] o.op = "NoMethod" ->
               /\ noMethod' = TRUE /\ all405' = gmw[1]
               /\ UNCHANGED <<gmw, att, gpar, gborn, nm, routes, noRoute, all404>>
  /\ UNCHANGED prog

Built == pcb > Len(prog)

-----------------------------------------------------------------------------
(* What the property demands of the middleware that runs for a request. *)

RECURSIVE PathTo(_)
PathTo(g) == IF g = 0 THEN <<0>> ELSE Append(PathTo(gpar[g + 1]), g)

\* middleware attached to group g itself before op index t
Before(g, t) == LET a == att[g + 1] IN
                LET idx == {i \in DOMAIN a : a[i].t < t} IN
                [i \in 1 .. Cardinality(idx) |-> a[i].m]     \* att is in time order, so idx is a prefix
Ever(g) == {att[g + 1][i].m : i \in DOMAIN att[g + 1]}

RECURSIVE Concat(_)
Concat(ss) == IF ss = << >> THEN << >> ELSE Head(ss) \o Concat(Tail(ss))

\* required middleware for route r, outermost group first
Required(r) == LET p == PathTo(routes[r].g) IN
               Concat([i \in 1 .. Len(p) |->
                         IF i < Len(p) THEN Before(p[i], gborn[p[i + 1] + 1]) ELSE Before(p[i], routes[r].t)])
Allowed(r) == UNION {Ever(g) : g \in {PathTo(routes[r].g)[i] : i \in 1 .. Len(PathTo(routes[r].g))}}
\* rank of a middleware for "outermost first": position of its group on the path, then attach order (= id order)
Rank(r, m) == LET p == PathTo(routes[r].g) IN
              CHOOSE i \in 1 .. Len(p) : m \in Ever(p[i])

RECURSIVE IsSubseq(_, _)
IsSubseq(a, b) == IF a = << >> THEN TRUE
                  ELSE IF b = << >> THEN FALSE
                  ELSE IF Head(a) = Head(b) THEN IsSubseq(Tail(a), Tail(b)) ELSE IsSubseq(a, Tail(b))

NoDup(s) == \A i, j \in DOMAIN s : i # j => s[i] # s[j]

RouteObligation(r, mws) ==
    /\ IsSubseq(Required(r), mws)
    /\ NoDup(mws)
    /\ \A i \in DOMAIN mws : mws[i] \in Allowed(r)
    /\ \A i, j \in DOMAIN mws : i < j =>
          \/ Rank(r, mws[i]) < Rank(r, mws[j])
          \/ (Rank(r, mws[i]) = Rank(r, mws[j]) /\ mws[i] < mws[j])

EngineObligation(mws) ==      \* 404 / 405: every engine-level middleware, in order, nothing else
    /\ IsSubseq(Before(0, Len(prog) + 1), mws)
    /\ NoDup(mws)
    /\ \A i \in DOMAIN mws : mws[i] \in Ever(0)
    /\ \A i, j \in DOMAIN mws : i < j => mws[i] < mws[j]

-----------------------------------------------------------------------------
(* Exhaustive configuration: every well-formed program within the bounds. *)

RECURSIVE Ext(_, _, _, _, _)
\* all programs extending p, given ng groups (incl. engine), depth of each group, nr routes, flags
Ext(p, depths, nr, nrt, nmt) ==
  IF Len(p) = MaxOps THEN {p}
  ELSE {p} \cup UNION (
      {Ext(Append(p, Op("Use", g, 1)), depths, nr, nrt, nmt) : g \in 0 .. Len(depths) - 1}
      \cup {Ext(Append(p, Op("Group", g, n)), Append(depths, depths[g + 1] + 1), nr, nrt, nmt) :
                g \in {h \in 0 .. Len(depths) - 1 : Len(depths) <= MaxGroups /\ depths[h + 1] < 3}, n \in 0 .. 1}
      \cup {Ext(Append(p, Op("Register", g, n)), depths, nr + 1, nrt, nmt) :
                g \in {h \in 0 .. Len(depths) - 1 : nr < MaxRoutes}, n \in 1 .. 2}
      \cup (IF nrt THEN {} ELSE {Ext(Append(p, Op("NoRoute", 0, 1)), depths, nr, TRUE, nmt)})
      \cup (IF nmt THEN {} ELSE {Ext(Append(p, Op("NoMethod", 0, 1)), depths, nr, nrt, TRUE)}))

Programs == {p \in Ext(<< >>, <<0>>, 0, FALSE, FALSE) : \E i \in DOMAIN p : p[i].op = "Register"}

Init == \E p \in Programs : StartBuild(p)
Next == BuildStep
Spec == Init /\ [][Next]_bvars

\* the code's snapshot semantics satisfies what the property demands, for every program and every prefix
SnapshotMeetsObligation ==
    /\ \A r \in DOMAIN routes : RouteObligation(r, routes[r].chain)
    /\ Built => EngineObligation(all404) /\ EngineObligation(all405)
\* and is exactly the required list
SnapshotIsRequired == \A r \in DOMAIN routes : routes[r].chain = Required(r)
=============================================================================
