CONSTANTS
  N = 2
  Readers = {1, 2}
  MaxOps = 2
  Locked = TRUE
SPECIFICATION Spec
INVARIANTS TypeOK Linearizable NoTornRead Snapshot MutexOK
