CONSTANTS
  Callers = {1, 2, 3, 4}
  NC <- TraceNC
  NW <- TraceNW
  MaxReqs = 1000
  MaxConnsSet = {1}
  WaitSet = {FALSE}
  Faults = {"ok", "okclose", "idleclose", "eof0", "eofhdr", "eofbody", "stall", "dialerr", "ctxpre", "ctxpost"}
  IdemSet = {TRUE, FALSE}
  MaxFaults = 1000000
  Strict = FALSE
  AsWritten = FALSE
  SysOn = {1, 2}
INIT TraceInit
NEXT TraceNext
INVARIANTS Report
