CONSTANTS
  Alphabet <- Alphabet7
  MaxLen = 8
  BackslashSep = FALSE
  RandMax = 40
INIT GenInit
NEXT GenNext
