CONSTANTS
  Alphabet <- Alphabet7
  MaxLen = 8
  BackslashSep = FALSE
  RandMax = 40
  PadMax = 0
INIT GenInit
NEXT GenNext
