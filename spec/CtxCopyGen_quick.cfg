CONSTANTS
  MaxSteps = 2
  MaxRecycle = 2
  MultipartFix = TRUE
  PreParsed = {FALSE}
  Variant = "asis"
  PairMod = 50
  NTriple = 900
  FreshMod = 3
  NBg = 1
  BgConns = 4
  BgRounds = 10
  KeysReaders = 4
  KeysRounds = 300
INIT GenInit
NEXT GenNext
