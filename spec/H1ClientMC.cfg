CONSTANTS MaxX = 2
WithReqClose = TRUE
SPECIFICATION MCSpec
INVARIANTS TypeOK NoOverread CleanReuse NoReuseAfterClose OneReplyPerRequest FinalIndependent ClosedNotUsable
