CONSTANTS MaxX = 2
SPECIFICATION MCSpec
INVARIANTS TypeOK NoOverread CleanReuse NoReuseAfterClose OneReplyPerRequest FinalIndependent ClosedNotUsable
