CONSTANTS MaxX = 2
WithReqClose = TRUE
CoreOnly = FALSE
SPECIFICATION MCSpec
INVARIANTS TypeOK NoOverread CleanReuse NoReuseAfterClose OneReplyPerRequest FinalIndependent ClosedNotUsable DirtyIsGivenUp UntilCloseSawEof
