CONSTANTS BigSizes = {4095, 4096, 4097, 8191, 8192, 8193, 65537}
TripleStride = 1
HugeSizes = {4194305}
INIT GenInit
NEXT GenNext
