---------------------------- MODULE ParserCallsGen ----------------------------
(* Writes the case space of C03 part (b) from the constants of ParserCalls: one line per parser with its family,   *)
(* token alphabet (in enumeration order), bound, size of the bounded space and the random-case length limit.       *)
(* The driver enumerates exactly this; ParserCallsTrace re-checks membership, order and completeness.              *)
EXTENDS ParserCalls, Json, IOUtils, SequencesExt
PSeq == SetToSeq(Parsers)
ASSUME ndJsonSerialize(IOEnv.VERIF_OUT,
         [i \in 1 .. Len(PSeq) |-> [parser |-> PSeq[i], family |-> FamilyOf[PSeq[i]], alphabet |-> Alpha[FamilyOf[PSeq[i]]],
                                    maxlen |-> MaxLenOf[PSeq[i]], total |-> TotalOf(PSeq[i]), randMax |-> RandMaxOf[PSeq[i]]]])
GenInit == parser = PSeq[1] /\ cur = << >> /\ phase = "done" /\ class = "none"
GenNext == UNCHANGED vars
=============================================================================
