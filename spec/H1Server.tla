------------------------------ MODULE H1Server ------------------------------
(***************************************************************************)
(* One HTTP/1.1 server connection, at the granularity of the observable    *)
(* steps of http1.Server.Serve (pkg/protocol/http1/server.go): bytes are   *)
(* delivered by the network in arbitrary fragments (Deliver), the server   *)
(* reads a request (head, then body or body prefetch), hands it to the     *)
(* handler (Handle), the handler may read a streamed body (StreamRead),    *)
(* returns (HandleEnd), the response is written (Respond), the body stream *)
(* is released and the loop continues, returns to the poller, or closes.   *)
(* Malformed / oversized requests are rejected with one 4xx + close.       *)
(* The tracer view (C19) records DoStart / DoFinish.                       *)
(*                                                                         *)
(* Requests are abstract here: reqs[i] = [start, headEnd, end, expect100,  *)
(* close, bad, big] gives the byte offsets that framing assigns to request *)
(* i (Wire.tla computes them from a concrete script).                      *)
(*                                                                         *)
(* Properties: C01 (CursorSync, OncePerRequest, ResponsesFIFO, NoOverread),*)
(* C02 (FinalIndependent: the outcome is a function of the script, not of  *)
(* the Deliver steps), C03 (CleanReject), C14 (StreamExact, StreamSync),   *)
(* C19 (TracerAlternates).                                                 *)
(*                                                                         *)
(* Deliberately unconstrained: how many bytes the server buffers ahead     *)
(* (rd is the consumed offset, anything delivered may be buffered); which  *)
(* 4xx code a rejection uses; timing; whether the connection is closed     *)
(* after a streamed body was left unread (closing is always allowed).      *)
(***************************************************************************)
EXTENDS Integers, Sequences, FiniteSets, TLC

VARIABLES reqs,     \* the script (abstract), fixed per behaviour
          cfg,      \* [streaming, idle \in {"inloop","poller"}]
          sent,     \* bytes delivered to the server so far
          eof,      \* the peer has half-closed after the last byte
          rd,       \* bytes consumed from the connection by the server (parser + body reads)
          phase,    \* "idle" | "handle" | "write" | "after" | "closed"
          cur,      \* index of the request being read / handled (1-based)
          cons,     \* streaming: body bytes of request cur handed to the handler so far
          interim,  \* a 100 Continue has been written for request cur
          hlog,     \* requests handed to a handler, in order
          out,      \* responses written: sequence of [i, kind \in {"interim","final","reject"}, close]
          topen,    \* tracer: a DoStart without DoFinish is outstanding
          pairReq,  \* tracer: the request handed to a handler inside the open pair (0: none)
          tlog      \* tracer calls: sequence of [t \in {"start","finish"}, req] (req = 0: no request handled)

vars == <<reqs, cfg, sent, eof, rd, phase, cur, cons, interim, hlog, out, topen, pairReq, tlog>>

N == Len(reqs)
WireLen == IF N = 0 THEN 0 ELSE reqs[N].end
BodyLen(i) == reqs[i].bodyLen

InitWith(rs, c) ==
    /\ reqs = rs /\ cfg = c /\ sent = 0 /\ eof = FALSE /\ rd = 0 /\ phase = "idle" /\ cur = 1 /\ cons = 0 /\ interim = FALSE
    /\ hlog = << >> /\ out = << >> /\ topen = FALSE /\ pairReq = 0 /\ tlog = << >>

-----------------------------------------------------------------------------
(* network *)
Deliver(n) == /\ n >= 1 /\ sent + n <= WireLen /\ ~eof
              /\ sent' = sent + n
              /\ UNCHANGED <<reqs, cfg, eof, rd, phase, cur, cons, interim, hlog, out, topen, pairReq, tlog>>

PeerEOF == /\ sent = WireLen /\ ~eof /\ eof' = TRUE
           /\ UNCHANGED <<reqs, cfg, sent, rd, phase, cur, cons, interim, hlog, out, topen, pairReq, tlog>>

-----------------------------------------------------------------------------
(* server *)

\* the application's ContinueHandler refuses the body of a request that carries Expect: 100-continue: the handler is
\* called without the body having been read, no 100 is sent; afterwards the server must either skip the body or close
Denied(i) == cfg.deny /\ reqs[i].expect100

\* a streamed body over the configured limit is not rejected (the handler gets the stream); the server need not keep
\* its read position inside such a request (hertz's prefetch takes whatever is buffered) but must then close
Over(i) == cfg.streaming /\ reqs[i].big

\* bytes that must have arrived before the handler of request i can be called
\* (pre: a multipart form declared by Content-Length is parsed while the request is read, in both body modes)
Need(i) == IF (cfg.streaming /\ ~reqs[i].pre) \/ Denied(i) THEN reqs[i].headEnd ELSE reqs[i].end

\* requests the server must not hand to a handler: malformed, over the body limit (buffered mode), or cut short by
\* the peer closing the connection before the handler could be called (buffered: anywhere; streaming: inside the head)
MustReject(i) == \/ reqs[i].bad \/ (reqs[i].big /\ ~cfg.streaming)
                 \/ (reqs[i].partial /\ (~cfg.streaming \/ reqs[i].end < reqs[i].headEnd))
\* a request cut short inside its body may, in streaming mode, be handled (its stream then fails) or rejected
\* ... and so may a request that carries both Transfer-Encoding and Content-Length (if it is handled, then as chunked)
Rejectable(i) == MustReject(i) \/ reqs[i].partial \/ reqs[i].ambig

\* tracer (C19): DoStart / DoFinish.  A handler runs inside an open pair, at most one handler per pair; the finish
\* of a pair comes after the response of the request handled in it and carries that request.
TStart == /\ cfg.trace /\ ~topen /\ phase = "idle"
          /\ Len(tlog) <= 2 * N        \* at most one pair per request plus one (keeps the model finite)
          /\ topen' = TRUE /\ pairReq' = 0 /\ tlog' = Append(tlog, [t |-> "start", req |-> 0])
          /\ UNCHANGED <<reqs, cfg, sent, eof, rd, phase, cur, cons, interim, hlog, out>>
TFinish == /\ cfg.trace /\ topen /\ phase \in {"idle", "after", "closed"}
           /\ topen' = FALSE /\ pairReq' = 0 /\ tlog' = Append(tlog, [t |-> "finish", req |-> pairReq])
           /\ UNCHANGED <<reqs, cfg, sent, eof, rd, phase, cur, cons, interim, hlog, out>>
InPair == cfg.trace => topen

\* Expect: 100-continue: an interim response may be written after the head was read and before the body is
\* read (only when the request asked for it; the property does not oblige the server to send it)
\* (the server answers 100 on the strength of the head alone: a body over the limit, or one the peer never completes,
\* is refused / given up afterwards)
SendInterim == /\ phase = "idle" /\ cur <= N /\ ~reqs[cur].bad /\ reqs[cur].end >= reqs[cur].headEnd   \* a complete, well-formed head
               /\ reqs[cur].expect100 /\ ~interim /\ ~Denied(cur)
               /\ sent >= reqs[cur].headEnd
               /\ interim' = TRUE
               /\ out' = Append(out, [i |-> cur, kind |-> "interim", close |-> FALSE])
               /\ InPair
               /\ UNCHANGED <<reqs, cfg, sent, eof, rd, phase, cur, cons, hlog, topen, pairReq, tlog>>

\* read head (+ body, or prefetch part of it) and call the handler
Handle(newrd) ==
    /\ phase = "idle" /\ cur <= N /\ ~MustReject(cur)
    /\ sent >= (IF reqs[cur].partial THEN reqs[cur].headEnd ELSE Need(cur))
    /\ newrd <= sent /\ reqs[cur].headEnd <= newrd /\ (newrd <= reqs[cur].end \/ Over(cur))
    /\ ((~cfg.streaming \/ reqs[cur].pre) /\ ~Denied(cur)) => newrd = reqs[cur].end
    /\ Denied(cur) => newrd = reqs[cur].headEnd
    /\ rd' = newrd /\ cons' = 0
    /\ phase' = "handle"
    /\ hlog' = Append(hlog, cur)
    /\ InPair /\ (cfg.trace => pairReq = 0)
    /\ pairReq' = IF cfg.trace THEN cur ELSE 0
    /\ UNCHANGED <<reqs, cfg, sent, eof, cur, interim, out, topen, tlog>>

\* streaming: the handler reads k more body bytes; needs them delivered, never more than the body
StreamRead(k) ==
    /\ phase = "handle" /\ cfg.streaming /\ ~Denied(cur) /\ ~reqs[cur].pre
    /\ k >= 1 /\ cons + k <= BodyLen(cur)
    /\ cons' = cons + k
    \* the wire position of those bytes must have been delivered (chunk framing included: rd moves at least as far)
    /\ \E newrd \in rd .. (IF Over(cur) THEN sent ELSE reqs[cur].end) : newrd <= sent /\ rd' = newrd
    /\ UNCHANGED <<reqs, cfg, sent, eof, phase, cur, interim, hlog, out, topen, pairReq, tlog>>

HandleEnd == /\ phase = "handle" /\ phase' = "write"
             /\ UNCHANGED <<reqs, cfg, sent, eof, rd, cur, cons, interim, hlog, out, topen, pairReq, tlog>>

\* the final response; `close` tells whether it carries Connection: close (announcing is not obligatory, closing is:
\* see CloseAfter / Continue)
Respond(close) ==
    /\ phase = "write" /\ cfg.wfail # cur
    /\ out' = Append(out, [i |-> cur, kind |-> "final", close |-> close])
    /\ phase' = "after"
    /\ UNCHANGED <<reqs, cfg, sent, eof, rd, cur, cons, interim, hlog, topen, pairReq, tlog>>

LastClose == out[Len(out)].close

\* after the response: close, or skip the unread rest of a streamed body and go on with the next request
\* the connection must be closed after a response when the request or the handler asked for it, or when the
\* response announced it
MustClose == \/ LastClose \/ reqs[cur].close \/ reqs[cur].hclose \/ reqs[cur].partial
             \/ cfg.nokeep                  \* option DisableKeepalive
             \/ rd > reqs[cur].end          \* bytes behind the request were consumed (only possible when Over(cur))
CloseAfter == /\ phase = "after" /\ MustClose
              /\ phase' = "closed"
              /\ UNCHANGED <<reqs, cfg, sent, eof, rd, cur, cons, interim, hlog, out, topen, pairReq, tlog>>

\* a server may always give up on a connection whose streamed body was not read completely
CloseUnread == /\ phase = "after" /\ (cfg.streaming \/ Denied(cur)) /\ rd < reqs[cur].end
               /\ phase' = "closed"
               /\ UNCHANGED <<reqs, cfg, sent, eof, rd, cur, cons, interim, hlog, out, topen, pairReq, tlog>>

Continue == /\ phase = "after" /\ ~MustClose
            /\ sent >= reqs[cur].end            \* skipping the rest of the body needs its bytes
            /\ rd' = reqs[cur].end
            /\ cur' = cur + 1 /\ cons' = 0 /\ interim' = FALSE /\ phase' = "idle"
            /\ UNCHANGED <<reqs, cfg, sent, eof, hlog, out, topen, pairReq, tlog>>

\* malformed request, (buffered mode) body over the limit, or request cut short by the peer: one 4xx with
\* Connection: close, no handler, close
Reject == /\ phase = "idle" /\ cur <= N /\ Rejectable(cur)
          /\ sent >= reqs[cur].start + 1
          /\ (reqs[cur].partial /\ ~reqs[cur].bad /\ ~(reqs[cur].big /\ ~cfg.streaming)) => eof
          /\ out' = Append(out, [i |-> cur, kind |-> "reject", close |-> TRUE])
          /\ phase' = "closed"
          /\ UNCHANGED <<reqs, cfg, sent, eof, rd, cur, cons, interim, hlog, topen, pairReq, tlog>>

\* the peer closed in the middle of a request: the server may also just give up without a response
AbortPartial == /\ phase = "idle" /\ cur <= N /\ reqs[cur].partial /\ eof
                /\ phase' = "closed"
                /\ UNCHANGED <<reqs, cfg, sent, eof, rd, cur, cons, interim, hlog, out, topen, pairReq, tlog>>

\* writing the response of request cfg.wfail fails (connection broken): nothing more is written, close
WriteFail == /\ phase = "write" /\ cfg.wfail = cur
             /\ phase' = "closed"
             /\ UNCHANGED <<reqs, cfg, sent, eof, rd, cur, cons, interim, hlog, out, topen, pairReq, tlog>>

\* the peer closed (or idle time-out) between requests: quiet close, no response, no tracer call
IdleClose == /\ phase = "idle" /\ eof /\ rd = sent /\ sent = WireLen
             /\ phase' = "closed"
             /\ UNCHANGED <<reqs, cfg, sent, eof, rd, cur, cons, interim, hlog, out, topen, pairReq, tlog>>

Server == SendInterim \/ (\E x \in rd .. sent : Handle(x)) \/ (\E k \in 1 .. 3 : StreamRead(k)) \/ HandleEnd
          \/ (\E c \in BOOLEAN : Respond(c)) \/ CloseAfter \/ CloseUnread \/ Continue \/ Reject \/ IdleClose
          \/ AbortPartial \/ WriteFail \/ TStart \/ TFinish
Network == (\E n \in 1 .. 3 : Deliver(n)) \/ PeerEOF
Next == Server \/ Network

-----------------------------------------------------------------------------
(* properties *)

Finals == SelectSeq(out, LAMBDA o : o.kind = "final")
Rejects == SelectSeq(out, LAMBDA o : o.kind = "reject")

TypeOK == /\ sent \in 0 .. WireLen /\ rd \in 0 .. WireLen /\ cur \in 1 .. N + 1
          /\ phase \in {"idle", "handle", "write", "after", "closed"}

\* C01: the parser is exactly at the start of the next request whenever it starts reading one
CursorSync == phase = "idle" => rd = (IF cur <= N THEN reqs[cur].start ELSE WireLen)
\* C01/C14: nothing is consumed that was not delivered, and never beyond the current request
NoOverread == /\ rd <= sent
              /\ phase \in {"handle", "write", "after"} => (reqs[cur].headEnd <= rd /\ (rd <= reqs[cur].end \/ Over(cur)))
\* C01: handlers run once per request, in order
OncePerRequest == hlog = [k \in 1 .. Len(hlog) |-> k]
\* C01: one final response per handled request, same order, written after its handler ran
ResponsesFIFO == /\ \A k \in 1 .. Len(Finals) : Finals[k].i = k
                 /\ Len(Finals) <= Len(hlog) /\ Len(hlog) <= Len(Finals) + 1
\* C03: a rejection is the last thing on the connection, carries close, and its request saw no handler
CleanReject == \A k \in 1 .. Len(out) : out[k].kind = "reject" =>
                   (k = Len(out) /\ out[k].close /\ phase = "closed" /\ out[k].i \notin {hlog[j] : j \in DOMAIN hlog})
\* C14: the handler never gets more than the body
StreamExact == cons <= (IF cur <= N THEN BodyLen(cur) ELSE 0)
\* C19: tracer calls alternate start/finish beginning with start; a finish carries the request handled in its pair
TracerAlternates == /\ \A k \in 1 .. Len(tlog) : tlog[k].t = (IF k % 2 = 1 THEN "start" ELSE "finish")
                    /\ topen = (Len(tlog) % 2 = 1)
\* C19: every finish carries the request handled in its pair; no request is carried by two finishes; a handled
\* request whose pair is closed has been finished
FinishedReqs == {tlog[k].req : k \in {j \in DOMAIN tlog : tlog[j].t = "finish" /\ tlog[j].req # 0}}
PairsBracket == cfg.trace =>
                /\ \A j, k \in DOMAIN tlog : (j # k /\ tlog[j].t = "finish" /\ tlog[k].t = "finish" /\ tlog[j].req # 0) => tlog[j].req # tlog[k].req
                /\ FinishedReqs \subseteq {hlog[j] : j \in DOMAIN hlog}
                /\ {hlog[j] : j \in DOMAIN hlog} \ FinishedReqs \subseteq (IF topen /\ pairReq # 0 THEN {pairReq} ELSE {})
\* nothing is written after a response that announced close
NothingAfterClose == \A k \in 1 .. Len(out) - 1 : ~out[k].close

\* C02: when the connection is over and everything was delivered, the outcome is a function of the script:
\* the handled requests are exactly the prefix up to the first request that closes / is rejected
Stops(i) == reqs[i].close \/ reqs[i].hclose \/ MustReject(i) \/ reqs[i].partial \/ cfg.wfail = i \/ cfg.nokeep
FirstStop == IF \E i \in 1 .. N : Stops(i)
             THEN CHOOSE i \in 1 .. N : Stops(i) /\ \A j \in 1 .. i - 1 : ~Stops(j)
             ELSE N + 1
ExpectedHandled == IF FirstStop <= N /\ MustReject(FirstStop) THEN FirstStop - 1 ELSE IF FirstStop <= N THEN FirstStop ELSE N
\* a request cut short inside its body (streaming) may or may not have reached its handler
HandledOK(n) == \/ n = ExpectedHandled
                \* a request with both Transfer-Encoding and Content-Length may have been refused instead
                \/ \E i \in 1 .. N : reqs[i].ambig /\ i <= FirstStop /\ n = i - 1
                \/ (FirstStop <= N /\ reqs[FirstStop].partial /\ ~MustReject(FirstStop) /\ ~reqs[FirstStop].close
                    /\ ~reqs[FirstStop].hclose /\ cfg.wfail # FirstStop /\ n = FirstStop - 1)
\* a voluntary server close (allowed) can only shorten the outcome; without it the outcome is exact
FinalIndependent == (phase = "closed" /\ \A k \in 1 .. Len(out) : out[k].close => (reqs[out[k].i].close \/ reqs[out[k].i].hclose \/ cfg.nokeep \/ out[k].kind = "reject"))
                        => \/ HandledOK(Len(hlog))
                           \/ ((cfg.streaming \/ cfg.deny) /\ Len(hlog) < ExpectedHandled)   \* CloseUnread
=============================================================================
