CONSTANTS
  Alphabet <- Alphabet7
  MaxLen = 5
  BackslashSep = FALSE
  RandMax = 24
  PadMax = 0
INIT GenInit
NEXT GenNext
