CONSTANTS
  Alphabet <- Alphabet7
  MaxLen = 5
  BackslashSep = FALSE
  RandMax = 24
INIT GenInit
NEXT GenNext
