------------------------------ MODULE FileServe ------------------------------
(***************************************************************************)
(* C08 -- static file responses return exactly the requested bytes of      *)
(* files under the root.                                                    *)
(*                                                                         *)
(* Part 1 (constant level): the vocabulary -- number tokens, Range header   *)
(* values built from a token grammar, RangeSem (RFC 7233 section 2.1 for a  *)
(* single byte range) and the OBLIGATION `Oblig` every response of the file *)
(* handler has to meet.  The trace specification (FileServeTrace) applies   *)
(* Oblig to every response recorded from the real handler.                  *)
(*                                                                         *)
(* Part 2 (state machine): the design of fsHandler.handleRequest           *)
(* (pkg/app/fs.go), one action per step of the code:                        *)
(*   Receive   -- a request arrives (path, method, Range)                   *)
(*   Lookup    -- h.cache lookup / openFSFile (404 when there is no file)   *)
(*   GetReader -- ff.NewReader: fsSmallFileReader from the sync.Pool or a   *)
(*                bigFileReader from ff.bigFiles (len > MaxSmall)           *)
(*   ApplyRange-- ParseByteRange + UpdateByteRange + SetContentRange, 416   *)
(*   Respond   -- HEAD: close the reader, headers only; GET: SetBodyStream  *)
(*   Stream    -- the server drains the body stream and closes it           *)
(*                (reader goes back to its pool, reset)                     *)
(* with the two repairs proposed in notes/C08.md (suffix range on an empty  *)
(* file and "bytes=-0" are unsatisfiable).  TLC checks that this design     *)
(* meets Oblig for every tree/request sequence of FileServe_mc.cfg, that    *)
(* pooled readers are clean, that a 206 window lies inside the file and    *)
(* that a repeated request (cache hit, pooled reader) gives an equal        *)
(* result.                                                                  *)
(*                                                                         *)
(* File contents are by provenance: byte k of file f is Pat(f,k), a fixed   *)
(* pattern known to the driver only; bodies are sequences of runs           *)
(* [f, from, to] ("?" = bytes that belong to no file: error texts, index    *)
(* pages).                                                                  *)
(*                                                                         *)
(* Deliberately unconstrained: status/body/Content-Length of 4xx answers    *)
(* (beyond "404 for a missing file, 416 for an unsatisfiable range, no file *)
(* bytes"), Content-Range on 416, every other header (Content-Type,         *)
(* Last-Modified, Accept-Ranges), the answer to syntactically invalid,      *)
(* multi-range or empty Range values (200 with the whole file or 416), to   *)
(* numbers that do not fit an int64 (the RFC answer, 200-full or 416), to a *)
(* suffix range on an EMPTY file (416 or 200 with the empty body; RFC 7233  *)
(* is not clear), everything about directory requests (index file,          *)
(* generated page, 403) except "no byte from outside the root, no panic",   *)
(* and for non-plain paths (.., %2e, //, backslash, ...) WHICH file under   *)
(* the root is served (C07 judges normalisation): 4xx or a correct answer   *)
(* for some file under the root.  With FS.Compress, "Accept-Encoding: gzip" *)
(* and no Range the whole file may be answered gzip-encoded (then the       *)
(* DECODED body must be the whole file and Content-Length the number of     *)
(* encoded bytes) or plainly; which of the two is not constrained.          *)
(***************************************************************************)
EXTENDS Integers, Sequences, FiniteSets, TLC

CONSTANTS Lens,       \* lengths of the files f<n> in the tree of the model
          Nums,       \* small numbers usable in Range values of the model
          MaxSmall,   \* consts.MaxSmallFileSize (files longer than this use bigFileReader)
          MaxReqs     \* requests per behaviour of the model

-----------------------------------------------------------------------------
(* numbers: token string, value used in comparisons, "does not fit int64" *)
HUGE == 1073741824            \* stands for any value >= 2^62: larger than every file length
Num(n) == [s |-> ToString(n), v |-> n, of |-> FALSE]
NoNum  == [s |-> "", v |-> 0, of |-> FALSE]
BigNums == { [s |-> "9223372036854775807",  v |-> HUGE, of |-> FALSE],     \* 2^63-1 = MaxInt64
             [s |-> "9223372036854775808",  v |-> HUGE, of |-> TRUE],      \* 2^63
             [s |-> "18446744073709551616", v |-> HUGE, of |-> TRUE] }     \* 2^64, 20 digits
NumToks(S) == {Num(n) : n \in S} \cup BigNums

(* Range header values.  kind: none (header absent) | empty (present, "") | ab | a- | -n | invalid *)
Rg(kind, a, b, str) == [kind |-> kind, a |-> a, b |-> b, str |-> str]
NoRange    == Rg("none", NoNum, NoNum, "")
EmptyRange == Rg("empty", NoNum, NoNum, "")
EncodeRange(r) == CASE r.kind = "ab" -> "bytes=" \o r.a.s \o "-" \o r.b.s
                    [] r.kind = "a-" -> "bytes=" \o r.a.s \o "-"
                    [] r.kind = "-n" -> "bytes=-" \o r.b.s
                    [] OTHER -> ""
RangesAB(N) == { Rg("ab", a, b, "bytes=" \o a.s \o "-" \o b.s) : a \in N, b \in N }
RangesA(N)  == { Rg("a-", a, NoNum, "bytes=" \o a.s \o "-") : a \in N }
RangesS(N)  == { Rg("-n", NoNum, n, "bytes=-" \o n.s) : n \in N }
(* syntactically invalid / multiple ranges / other units: a server may ignore them (200) or refuse (416) *)
InvalidStrs == { "bytes=", "bytes=-", "bytes=1", "bytes", "bytes=x-y", "bytes=0-x", "bytes=x-1", "bytes=x-", "bytes=-x",
                 "0-1", "=0-1", "bytes 0-1", "items=0-1", "bytes=0-0,1-1", "bytes=0-1,", "bytes=-1,0-0", "bytes=1-,0-0",
                 "bytes=0--1", "bytes=--1", "bytes=1-+2", "bytes=+1-2", "bytes=-+1", "bytes= 0-1", "bytes=0 -1", "bytes=0- 1",
                 "bytes=0-1 ", "bytes=0x0-1", "bytes=1.0-2", "bytes=-1-", "bytes=0-1-2", "bytes==0-1" }
RangesInv == { Rg("invalid", NoNum, NoNum, s) : s \in InvalidStrs }
AllRanges(N) == RangesAB(N) \cup RangesA(N) \cup RangesS(N) \cup RangesInv \cup {NoRange, EmptyRange}
WellFormedRange(r) ==
    /\ r.kind \in {"none", "empty", "ab", "a-", "-n", "invalid"}
    /\ r.kind \in {"ab", "a-", "-n"} => r.str = EncodeRange(r)
    /\ r.kind = "invalid" => r.str \in InvalidStrs
    /\ r.kind \in {"none", "empty"} => r.str = ""
Overflowing(r) == (r.kind \in {"ab", "a-"} /\ r.a.of) \/ (r.kind \in {"ab", "-n"} /\ r.b.of)

MinOf(x, y) == IF x < y THEN x ELSE y

(* RFC 7233 2.1 / 4.4 for a single byte-range-spec on a representation of `len` bytes *)
Full       == [t |-> "full", a |-> 0, b |-> 0]
Part(a, b) == [t |-> "part", a |-> a, b |-> b]
Unsat      == [t |-> "unsat", a |-> 0, b |-> 0]
Invalid    == [t |-> "invalid", a |-> 0, b |-> 0]
RangeSem(r, len) ==
    CASE r.kind = "none" -> Full
      [] r.kind \in {"empty", "invalid"} -> Invalid
      [] r.kind = "ab" -> IF r.a.v > r.b.v THEN Invalid               \* last-byte-pos < first-byte-pos
                          ELSE IF r.a.v >= len THEN Unsat             \* includes every range on an empty file
                          ELSE Part(r.a.v, MinOf(r.b.v, len - 1))
      [] r.kind = "a-" -> IF r.a.v >= len THEN Unsat ELSE Part(r.a.v, len - 1)
      [] r.kind = "-n" -> IF r.b.v = 0 \/ len = 0 THEN Unsat          \* -0; nothing to select in an empty file
                          ELSE Part(len - MinOf(r.b.v, len), len - 1)

(* sanity of RangeSem itself (checked by TLC as an ASSUME in FileServe_mc / the generator) *)
RangeSemSane(N, L) == \A r \in AllRanges(N), len \in L :
    LET s == RangeSem(r, len) IN s.t = "part" => 0 <= s.a /\ s.a <= s.b /\ s.b < len

-----------------------------------------------------------------------------
(* responses: [status, cl (Content-Length header), cr (Content-Range header or ""), runs (body, decoded when enc = "gzip"), *)
(*             leak (name of the sentinel seen in the body), enc (Content-Encoding or ""), wlen (body bytes before decoding)] *)
FName(n) == "f" \o ToString(n)
IndexFile == "d/index.html"
AIndexFile == "a/index.html"        \* "a" is a directory and, for the virtual-host rewriter, a host name
CRange(a, b, len) == "bytes " \o ToString(a) \o "-" \o ToString(b) \o "/" \o ToString(len)
Slice(f, a, b) == IF a > b THEN << >> ELSE << [f |-> f, from |-> a, to |-> b] >>
NoFileBytes(runs) == \A i \in DOMAIN runs : runs[i].f = "?"
BodyLen(runs) == LET RECURSIVE S(_) S(i) == IF i = 0 THEN 0 ELSE S(i - 1) + runs[i].to - runs[i].from + 1 IN S(Len(runs))

\* gz: a gzip-encoded answer is admissible (FS.Compress, the client accepts gzip, no Range)
FullOK(f, len, m, gz, o) ==
    /\ o.status = 200 /\ o.cr = ""
    /\ \/ o.enc = "" /\ o.cl = len /\ o.runs = IF m = "HEAD" THEN << >> ELSE Slice(f, 0, len - 1)
       \/ gz /\ o.enc = "gzip" /\ IF m = "HEAD" THEN o.runs = << >> /\ o.cl >= 0
                                               ELSE o.cl = o.wlen /\ o.runs = Slice(f, 0, len - 1)
PartOK(f, len, a, b, m, o) == /\ o.status = 206 /\ o.cl = b - a + 1 /\ o.cr = CRange(a, b, len) /\ o.enc = ""
                              /\ o.runs = IF m = "HEAD" THEN << >> ELSE Slice(f, a, b)
UnsatOK(o)    == o.status = 416 /\ NoFileBytes(o.runs)
NotModOK(o)   == o.status = 304 /\ o.runs = << >> /\ o.wlen = 0          \* 304 never carries a body

(* If-Modified-Since: relation of the date sent to the modification time of the file ("" = header not sent).  *)
(* before / bad (unparsable: ignored): the normal answer is due.  equal / after: 304 without body, or the     *)
(* normal answer (RFC 7232 3.3: SHOULD) -- nothing else, in particular never a 200 without the file.          *)
MTime == "Thu, 02 Jan 2020 03:04:05 GMT"
ImsKinds == {"", "before", "equal", "after", "bad"}
ImsStr(k) == CASE k = "before" -> "Wed, 01 Jan 2020 00:00:00 GMT"
               [] k = "equal"  -> MTime
               [] k = "after"  -> "Fri, 01 Jan 2021 00:00:00 GMT"
               [] k = "bad"    -> "yesterday"
               [] OTHER        -> ""
NotFoundOK(o) == o.status = 404 /\ NoFileBytes(o.runs)

(* file f of length len is the target; abr = FS.AcceptByteRange, co = FS.Compress, ae = "Accept-Encoding: gzip" sent *)
FileOblig(f, len, abr, co, ae, ims, m, r, o) ==
    LET sem == IF abr THEN RangeSem(r, len) ELSE Full
        gz  == co /\ ae /\ r.kind \in {"none", "empty"} IN
    \/ sem.t = "full"    /\ FullOK(f, len, m, gz, o)
    \/ sem.t = "part"    /\ PartOK(f, len, sem.a, sem.b, m, o)
    \/ sem.t = "unsat"   /\ UnsatOK(o)
    \/ sem.t = "invalid" /\ (FullOK(f, len, m, gz, o) \/ UnsatOK(o))
    \/ abr /\ Overflowing(r) /\ (FullOK(f, len, m, gz, o) \/ UnsatOK(o))
    \/ abr /\ r.kind = "-n" /\ len = 0 /\ FullOK(f, len, m, gz, o)
    \/ ims \in {"equal", "after"} /\ NotModOK(o)

(* files: function name -> length of the files under the root; tgt: a file name, "none" (plain path of a    *)
(* file that does not exist), "dir" (a directory) or "any" (non-plain path).  For "dir" and "any" the answer   *)
(* is free as long as it carries no file byte; if it carries file bytes (or is a 200/206 without body) it    *)
(* must be a correct answer for SOME file under the root (index file, file the path normalises to).          *)
Oblig(files, abr, co, ae, ims, tgt, m, r, o) ==
    /\ ~o.leak
    /\ \A i \in DOMAIN o.runs : o.runs[i].f \in DOMAIN files \cup {"?"}          \* never a byte from outside the root
    /\ CASE tgt \in {"dir", "any"} -> \/ /\ NoFileBytes(o.runs)          \* 4xx, generated index page, redirect, ...
                                          /\ o.status \in {200, 206} /\ m = "GET" => o.cl = o.wlen       \* CL = body bytes
                                       \/ \E f \in DOMAIN files : FileOblig(f, files[f], abr, co, ae, ims, m, r, o)   \* index file / normalised path
         [] tgt = "none" -> NotFoundOK(o)
         [] OTHER        -> tgt \in DOMAIN files /\ FileOblig(tgt, files[tgt], abr, co, ae, ims, m, r, o)

(* repeated requests: same path, Range and Accept-Encoding => same status / Content-Length / Content-Range / Content-Encoding, *)
(* same body for the same method *)
SameAnswer(m1, o1, m2, o2) == /\ o1.status = o2.status /\ o1.cl = o2.cl /\ o1.cr = o2.cr /\ o1.enc = o2.enc
                              /\ m1 = m2 => o1.runs = o2.runs

-----------------------------------------------------------------------------
(* Part 2: the design *)
VARIABLES files,    \* name -> length (fixed)
          abr,      \* FS.AcceptByteRange
          cache,    \* names of files with an open, cached fsFile (h.cache)
          spool,    \* h.smallFileReaderPool: set of pooled fsSmallFileReader states [s, e]
          bpool,    \* ff.bigFiles per file: set of pooled bigFileReader states [off, lim] (lim = -1: reads to EOF)
          pc, req,  \* control state and the request being served
          rd,       \* the reader of the current request: [k: none|small|big, s, e] (s,e = startPos,endPos / off,lim)
          out,      \* the response being built
          last,     \* previous request and its response
          nreq
vars == <<files, abr, cache, spool, bpool, pc, req, rd, out, last, nreq>>

ModelToks  == NumToks(Nums)
ModelFiles == [name \in {FName(n) : n \in Lens} |-> CHOOSE n \in Lens : FName(n) = name]
\* the model uses two representatives of the invalid class (all of them are one case of DesignParse)
ModelRanges == RangesAB(ModelToks) \cup RangesA(ModelToks) \cup RangesS(ModelToks) \cup {NoRange, EmptyRange}
               \cup {Rg("invalid", NoNum, NoNum, "bytes=0-0,1-1"), Rg("invalid", NoNum, NoNum, "bytes=x-y")}
ModelReqs  == [tgt : DOMAIN ModelFiles \cup {"none"}, method : {"GET", "HEAD"}, range : ModelRanges]
NoReq  == [tgt |-> "none", method |-> "GET", range |-> NoRange]
NoRd   == [k |-> "none", s |-> 0, e |-> 0]
\* the design does not compress (no Accept-Encoding in the model): enc = "", wlen is not used
NoOut  == [status |-> 0, cl |-> 0, cr |-> "", runs |-> << >>, leak |-> FALSE, enc |-> "", wlen |-> 0]
ErrOut(st) == [status |-> st, cl |-> 0, cr |-> "", runs |-> << [f |-> "?", from |-> 0, to |-> 9] >>, leak |-> FALSE, enc |-> "", wlen |-> 0]

Init == /\ files = ModelFiles /\ abr \in BOOLEAN /\ cache = {} /\ spool = {} /\ bpool = [f \in DOMAIN ModelFiles |-> {}]
        /\ pc = "idle" /\ req = NoReq /\ rd = NoRd /\ out = NoOut /\ last = [req |-> NoReq, out |-> NoOut] /\ nreq = 0

Receive == /\ pc = "idle" /\ nreq < MaxReqs
           /\ req' \in ModelReqs /\ pc' = "lookup" /\ out' = NoOut
           /\ UNCHANGED <<files, abr, cache, spool, bpool, rd, last, nreq>>

\* fileCache[path] / openFSFile
Lookup == /\ pc = "lookup"
          /\ IF req.tgt \in DOMAIN files
             THEN cache' = cache \cup {req.tgt} /\ pc' = "reader" /\ out' = out
             ELSE cache' = cache /\ pc' = "done" /\ out' = ErrOut(404)
          /\ UNCHANGED <<files, abr, spool, bpool, req, rd, last, nreq>>

\* ff.NewReader(): smallFileReader() sets r.ff, r.endPos = contentLength (startPos is whatever the pooled object has);
\* bigFileReader() pops ff.bigFiles or opens a new file (offset 0, r.r = f)
GetReader == /\ pc = "reader"
             /\ LET len == files[req.tgt] IN
                IF len > MaxSmall
                THEN \/ \E b \in bpool[req.tgt] : rd' = [k |-> "big", s |-> b.off, e |-> b.lim]
                                                  /\ bpool' = [bpool EXCEPT ![req.tgt] = @ \ {b}] /\ spool' = spool
                     \/ rd' = [k |-> "big", s |-> 0, e |-> -1] /\ UNCHANGED <<bpool, spool>>
                ELSE \/ \E p \in spool : rd' = [k |-> "small", s |-> p.s, e |-> len] /\ spool' = spool \ {p} /\ bpool' = bpool
                     \/ rd' = [k |-> "small", s |-> 0, e |-> len] /\ UNCHANGED <<bpool, spool>>
             /\ pc' = "range"
             /\ UNCHANGED <<files, abr, cache, req, out, last, nreq>>

\* Close(): fsSmallFileReader: startPos = endPos = 0, Put; bigFileReader: r.r = r.f, Seek(0,0), append to ff.bigFiles
Closed == /\ rd' = NoRd
          /\ IF rd.k = "small" THEN spool' = spool \cup {[s |-> 0, e |-> 0]} /\ bpool' = bpool
             ELSE bpool' = [bpool EXCEPT ![req.tgt] = @ \cup {[off |-> 0, lim |-> -1]}] /\ spool' = spool

\* ParseByteRange as designed (= the code, plus: suffix range on an empty file and "-0" are unsatisfiable)
PErr     == [ok |-> FALSE, s |-> 0, e |-> 0]
POk(s,e) == [ok |-> TRUE, s |-> s, e |-> e]
DesignParse(r, len) ==
    CASE r.kind = "-n" -> IF r.b.of THEN PErr                                       \* ParseUint: too long int
                          ELSE IF r.b.v = 0 \/ len = 0 THEN PErr                    \* proposed repair
                          ELSE POk(IF len - r.b.v < 0 THEN 0 ELSE len - r.b.v, len - 1)
      [] r.kind = "a-" -> IF r.a.of \/ r.a.v >= len THEN PErr ELSE POk(r.a.v, len - 1)
      [] r.kind = "ab" -> IF r.a.of \/ r.a.v >= len \/ r.b.of THEN PErr
                          ELSE LET e == IF r.b.v >= len THEN len - 1 ELSE r.b.v IN
                               IF e < r.a.v THEN PErr ELSE POk(r.a.v, e)
      [] OTHER -> PErr

ApplyRange == /\ pc = "range"
              /\ LET len == files[req.tgt]
                     p   == DesignParse(req.range, len) IN
                 IF abr /\ req.range.kind \notin {"none", "empty"}        \* len(byteRange) > 0
                 THEN IF p.ok
                      THEN /\ rd' = IF rd.k = "small" THEN [rd EXCEPT !.s = p.s, !.e = p.e + 1]      \* UpdateByteRange
                                                      ELSE [rd EXCEPT !.s = p.s, !.e = p.e - p.s + 1]
                           /\ out' = [out EXCEPT !.status = 206, !.cl = p.e - p.s + 1, !.cr = CRange(p.s, p.e, len)]
                           /\ pc' = "respond" /\ UNCHANGED <<spool, bpool>>
                      ELSE /\ Closed /\ out' = ErrOut(416) /\ pc' = "done"
                 ELSE /\ out' = [out EXCEPT !.status = 200, !.cl = len] /\ pc' = "respond"
                      /\ UNCHANGED <<rd, spool, bpool>>
              /\ UNCHANGED <<files, abr, cache, req, last, nreq>>

Respond == /\ pc = "respond"
           /\ IF req.method = "HEAD" THEN Closed /\ pc' = "done"
              ELSE pc' = "stream" /\ UNCHANGED <<rd, spool, bpool>>
           /\ UNCHANGED <<files, abr, cache, req, out, last, nreq>>

\* the server reads the stream until EOF: small: bytes startPos .. endPos-1; big: from the file offset, lim bytes or to EOF
Stream == /\ pc = "stream"
          /\ LET len  == files[req.tgt]
                 from == rd.s
                 to   == IF rd.k = "small" THEN rd.e - 1
                         ELSE IF rd.e < 0 THEN len - 1 ELSE MinOf(rd.s + rd.e - 1, len - 1) IN
             out' = [out EXCEPT !.runs = Slice(req.tgt, from, to)]
          /\ Closed /\ pc' = "done"
          /\ UNCHANGED <<files, abr, cache, req, last, nreq>>

Finish == /\ pc = "done" /\ pc' = "idle" /\ last' = [req |-> req, out |-> out] /\ nreq' = nreq + 1
          /\ UNCHANGED <<files, abr, cache, spool, bpool, req, rd, out>>

Next == Receive \/ Lookup \/ GetReader \/ ApplyRange \/ Respond \/ Stream \/ Finish
Spec == Init /\ [][Next]_vars

-----------------------------------------------------------------------------
TypeOK == /\ pc \in {"idle", "lookup", "reader", "range", "respond", "stream", "done"}
          /\ cache \subseteq DOMAIN files /\ nreq \in 0 .. MaxReqs
          /\ rd.k \in {"none", "small", "big"}
(* the response of the design meets the obligation *)
RespOK == pc = "done" => Oblig(files, abr, FALSE, FALSE, "", req.tgt, req.method, req.range, out)
(* Content-Length = number of body bytes (GET); 206 window inside the file, b - a + 1 bytes *)
LengthOK == pc = "done" /\ out.status \in {200, 206} /\ req.method = "GET" => out.cl = BodyLen(out.runs)
WindowOK == pc \in {"respond", "stream"} /\ out.status = 206 =>
                LET len == files[req.tgt] IN
                IF rd.k = "small" THEN 0 <= rd.s /\ rd.s < rd.e /\ rd.e <= len /\ out.cl = rd.e - rd.s
                ELSE 0 <= rd.s /\ rd.e >= 1 /\ rd.s + rd.e <= len /\ out.cl = rd.e
(* readers in the pools are reset (smallFileReader panics on a dirty one; a dirty big reader serves a wrong slice) *)
PoolClean == /\ \A p \in spool : p.s = 0
             /\ \A f \in DOMAIN bpool : \A b \in bpool[f] : b.off = 0 /\ b.lim = -1
(* a reader is held exactly while a file is being served *)
ReaderHeld == (rd.k # "none") <=> pc \in {"range", "respond", "stream"}
(* the same request again (cache hit, pooled reader) gives the same answer *)
RepeatEqual == pc = "done" /\ nreq >= 1 /\ last.req.tgt = req.tgt /\ last.req.range = req.range =>
                   SameAnswer(last.req.method, last.out, req.method, out)
=============================================================================
