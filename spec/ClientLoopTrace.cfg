CONSTANTS AsWritten = FALSE
  MCMaxScript = 0
  MCEntries = {}
  MCApis = {}
  MCRetryIfs = {}
  MCWarms = {}
  MCMethods = {}
  SlackMs = 1500
INIT TraceInit
NEXT TraceNext
INVARIANTS Report AttemptBound NonRepeatableOnce RetryOnlyWhenAllowed NothingSentLate RedirectBound
