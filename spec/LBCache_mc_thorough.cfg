\* thorough: 2 keys, 2 callers x 2 calls
CONSTANTS
  Keys = {"A", "B"}
  Callers = {c1, c2}
  Counts = {0, 1}
  CanFail = TRUE
  MaxRes = 3
  MaxCalls = 2
  MaxWTicks = 2
  MaxRTicks = 1
  RefreshResets = FALSE
SPECIFICATION Spec
SYMMETRY Symm
VIEW View
INVARIANTS TypeOK SingleFlight OwnKey FreshPick EmptyIsError MarkedUnused
PROPERTIES DeleteTwoPhase PublishAfterRebalance FailKeeps RefreshScope
