CONSTANTS
  GetPats = {"/", "/a", "/a/", "/ab", "/:x", "/:y/", "/a:x", "/*w", "/a/*w", "/a/b", "/a/:x", "/a/:y", "/:x/b", "/:y/*v", "/a:y/b", "/ab/:z", "/a/:y/b", "/a*w"}
  PostPats = {}
  Paths = {"/", "/a", "/a/", "/ab", "/b", "/b/", "/aa", "/a/b", "/a/a", "/a/b/", "/b/b", "/ab/b", "/a/b/c", "/b/a/b", "/a/ab", "/aa/b", "/abc", "/a/a/b"}
  MaxRoutes = 3
SPECIFICATION RSpec
INVARIANTS RegistrationRefines Refines WellFormed
