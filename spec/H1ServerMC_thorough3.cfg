CONSTANTS MaxReqs = 3
Configs <- PlainConfig
SPECIFICATION MCSpec
INVARIANTS TypeOK CursorSync NoOverread OncePerRequest ResponsesFIFO CleanReject StreamExact TracerAlternates PairsBracket NothingAfterClose FinalIndependent
