CONSTANTS
  Mode = "exhaustive"
  ExLenRd = 3
  ExLenWr = 4
  ExLenRf = 3
  ExSizes = {1, 4096, 4097}
  ExEnvSel = "quick"
  SimLen = 0
  SimSizes = {0}
INIT ExInit
NEXT ExNext
