CONSTANTS BigSizes = {4097}
TripleStride = 9
INIT GenInit
NEXT GenNext
