CONSTANTS BigSizes = {4097}
TripleStride = 9
HugeSizes = {}
INIT GenInit
NEXT GenNext
