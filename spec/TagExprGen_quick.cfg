CONSTANTS McDepth = 2
          McLeafMode = "small"
          GenMode = "exhaustive"
          GenCfgName = "c1"
          GenDepth = 3
          GenChainCfgName = "c1"
          GenChainOps = 3
          GenFuncCfgName = "c1"
          GenLenOps = 2
          GenProdFull = FALSE
          GenPtr = FALSE
          SimMinDepth = 4
          SimMaxDepth = 4
INIT GenInit
NEXT GenNext
