\* the code AS WRITTEN (Do returns on ctx.Done() without decrementing pendingRequests): TLC must report QuiescentOK
\* violated -- the check requires this counterexample (evidence that the specification sees the defect)
CONSTANTS
  Callers = {g1}
  NC = 1
  NW = 1
  MaxReqs = 1
  MaxConnsSet = {1}
  WaitSet = {FALSE}
  Faults = {"ok", "ctxpre"}
  IdemSet = {TRUE}
  MaxFaults = 1
  Strict = TRUE
  AsWritten = TRUE
  SysOn = {}
SPECIFICATION Spec
INVARIANTS QuiescentOK
