CONSTANTS
  Mode = "simulate"
  ExLenRd = 0
  ExLenWr = 0
  ExLenRf = 0
  ExSizes = {1}
  ExEnvSel = "quick"
  SimLen = 200
  SimSizes = {0, 1, 2, 4095, 4096, 4097, 8191, 8192, 8193, 524289}
INIT GenInit
NEXT GenSpecNext
INVARIANT Emit
