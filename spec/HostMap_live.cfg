\* liveness, corrected, unbounded ticks and reaping: an idle HostClient is removed, the map drains, the cleaner stops
CONSTANTS
  Keys = {"a", "b"}
  TLSKeys = {"b"}
  Callers = {1, 2}
  MaxCalls = 2
  NH = 4
  MaxConns = 1
  MaxTicks = 99
  MaxCI = 0
  MaxReap = 0
  Retries = 0
  HoldCounted = TRUE
  CIAll = TRUE
SPECIFICATION FairSpec
VIEW View
INVARIANTS TypeOK CleanerCount
PROPERTIES IdleRemoved Drains
