------------------------------- MODULE Codec -------------------------------
(***************************************************************************)
(* C17 -- URI, query-string and cookie codecs round-trip.                  *)
(*                                                                         *)
(* The module states LAWS, not escape tables:                              *)
(*   L1  u assembled through the URI setters:                              *)
(*         Parse(String(u)) has the same scheme, host, path, query,        *)
(*         fragment as u, and String(Parse(String(u))) = String(u)         *)
(*   L2  A an ordered list of (key,value):                                 *)
(*         ParseArgs(Encode(A)) = A minus entries with empty key and value *)
(*   L3  s any string: net/url.ParseQuery(s) succeeds =>                   *)
(*         hertz' parse of s is the same ordered multimap (per key;        *)
(*         entries with empty key and empty value ignored on both sides)   *)
(*   L4  c a response cookie: Parse(String(c)) = c on key, value and every *)
(*         attribute                                                       *)
(* and the ENUMERATION over which they are claimed: a state machine that   *)
(* walks, block by block, every input  in = [w, c, v]                      *)
(*     w  token string (indices into a token table), length n, shortlex    *)
(*     c  nondecreasing cut vector splitting w into Len(c)+1 fields        *)
(*        (=> every tuple of slot values whose lengths sum to n)           *)
(*     v  variant (host x scheme x query mode / cookie attribute record)   *)
(* with  cur' = Succ(blk, cur).  For every visited input an observation    *)
(* (what the real setters / formatters / parsers returned) must satisfy    *)
(* Accept(blk, cur, obs) = binding of the observation to the input /\ laws.*)
(*                                                                         *)
(* Implementation sites the observations come from (pkg/protocol):         *)
(*   Uri    : URI.SetScheme/SetHost/SetPath/SetQueryString|QueryArgs().Add *)
(*            /SetHash, URI.String (FullURI/AppendBytes/RequestURI),       *)
(*            URI.Parse (parse/splitHostURI/getScheme/normalizePath)       *)
(*   Args   : Args.Add, Args.QueryString (AppendBytes,                     *)
(*            bytesconv.AppendQuotedArg), Args.ParseBytes                  *)
(*            (argsScanner.next, decodeArgAppend), Args.VisitAll           *)
(*   Cookie : Cookie setters, Cookie.String (AppendBytes), Cookie.Parse    *)
(*            (ParseBytes, cookieScanner.next, decodeCookieArg)            *)
(*                                                                         *)
(* Two representations of byte strings share the laws:                     *)
(*   trace validation : TLA+ strings (printable ASCII except backslash as  *)
(*                      itself, every other byte as \xHH) -- injective, so *)
(*                      equality of recorded fields is equality of bytes   *)
(*   Codec_mc.cfg     : sequences of byte values, on which a REFERENCE     *)
(*                      codec (RefEsc/RefUnesc/..., escapes everything but *)
(*                      a 4 1 G -- its own choice, not hertz' tables) is   *)
(*                      defined; TLC checks that the reference satisfies   *)
(*                      the laws (they are satisfiable, and not by         *)
(*                      accident: a codec that forgets to escape '&' or    *)
(*                      '%' violates them) and that the walk visits every  *)
(*                      element of every block exactly once and the blocks *)
(*                      partition the declared space.                      *)
(* Nil / Render / Lit are the representation-dependent operators.          *)
(*                                                                         *)
(* Deliberately unconstrained (the property does not speak about it):      *)
(*   - the string forms themselves (which bytes are escaped, hex case,     *)
(*     '+' vs %20, attribute order and spelling in a cookie)               *)
(*   - what a setter stores relative to its argument (path decoding and    *)
(*     normalisation, lower-casing of scheme/host, default scheme http,    *)
(*     SameSite=None / Partitioned forcing Secure): the laws compare the   *)
(*     getters of the assembled object with the getters of the re-parsed   *)
(*     one.  Only setters that are the enumeration's slots are bound       *)
(*     verbatim (`set` fields), so that the space explored is the declared *)
(*     one.                                                                *)
(*   - PathOriginal, username/password, DisablePathNormalizing = true      *)
(*   - the cookie's Expires when MaxAge > 0 (documented precedence: only   *)
(*     max-age is written), sub-second part of Expires                     *)
(*   - cookie keys/values outside RFC 6265 cookie-octets (SP, DQUOTE, ';', *)
(*     ',', backslash, CTL, non-ASCII), '=' in or emptiness of a cookie    *)
(*     key, a value wrapped in a pair of double quotes (CookiePre): run    *)
(*     and recorded, not judged (a panic is rejected all the same)         *)
(*   - whether net/url accepts what hertz encodes (L3 is one-directional)  *)
(***************************************************************************)
EXTENDS Integers, Sequences, FiniteSets, TLC

CONSTANTS Nil,            \* the empty byte string
          Render(_, _),   \* Render(table, w): byte string denoted by the token string w
          Lit(_)          \* byte string denoted by a literal of the variant tables

----------------------------------------------------------------------------
(* Token tables.  "gen": the hostile alphabet of the property; "cookie":   *)
(* cookie-octets only ('=' last: legal in values, not in keys).            *)
Tok      == <<"a", "%", "+", "&", "=", ";", "4", "1", "G", " ", "\\x00", "\\xC3">>
TokByte  == <<97, 37, 43, 38, 61, 59, 52, 49, 71, 32, 0, 195>>
CTok     == <<"a", "%", "+", "&", "4", "1", "G", "=", "\"">>
CTokByte == <<97, 37, 43, 38, 52, 49, 71, 61, 34>>
(* "pct": escapes of escapes and of URI syntax (%25, %2F, %2E, %2541, "/../", "//", "/./", '?', '#'): what *)
(* the setters store after decoding can itself look like an escape, a dot segment or a delimiter.          *)
PTok     == <<"%", "2", "5", "F", "E", "4", "1", "/", ".", "a", "?", "#">>
PTokByte == <<37, 50, 53, 70, 69, 52, 49, 47, 46, 97, 63, 35>>
(* "byte": every byte value (token i is byte i-1); used by the random blocks. *)
ByteTok  == <<
             "\\x00", "\\x01", "\\x02", "\\x03", "\\x04", "\\x05", "\\x06", "\\x07", "\\x08", "\\x09", "\\x0A", "\\x0B", "\\x0C", "\\x0D", "\\x0E", "\\x0F",
             "\\x10", "\\x11", "\\x12", "\\x13", "\\x14", "\\x15", "\\x16", "\\x17", "\\x18", "\\x19", "\\x1A", "\\x1B", "\\x1C", "\\x1D", "\\x1E", "\\x1F",
             " ", "!", "\"", "#", "$", "%", "&", "'", "(", ")", "*", "+", ",", "-", ".", "/",
             "0", "1", "2", "3", "4", "5", "6", "7", "8", "9", ":", ";", "<", "=", ">", "?",
             "@", "A", "B", "C", "D", "E", "F", "G", "H", "I", "J", "K", "L", "M", "N", "O",
             "P", "Q", "R", "S", "T", "U", "V", "W", "X", "Y", "Z", "[", "\\x5C", "]", "^", "_",
             "`", "a", "b", "c", "d", "e", "f", "g", "h", "i", "j", "k", "l", "m", "n", "o",
             "p", "q", "r", "s", "t", "u", "v", "w", "x", "y", "z", "{", "|", "}", "~", "\\x7F",
             "\\x80", "\\x81", "\\x82", "\\x83", "\\x84", "\\x85", "\\x86", "\\x87", "\\x88", "\\x89", "\\x8A", "\\x8B", "\\x8C", "\\x8D", "\\x8E", "\\x8F",
             "\\x90", "\\x91", "\\x92", "\\x93", "\\x94", "\\x95", "\\x96", "\\x97", "\\x98", "\\x99", "\\x9A", "\\x9B", "\\x9C", "\\x9D", "\\x9E", "\\x9F",
             "\\xA0", "\\xA1", "\\xA2", "\\xA3", "\\xA4", "\\xA5", "\\xA6", "\\xA7", "\\xA8", "\\xA9", "\\xAA", "\\xAB", "\\xAC", "\\xAD", "\\xAE", "\\xAF",
             "\\xB0", "\\xB1", "\\xB2", "\\xB3", "\\xB4", "\\xB5", "\\xB6", "\\xB7", "\\xB8", "\\xB9", "\\xBA", "\\xBB", "\\xBC", "\\xBD", "\\xBE", "\\xBF",
             "\\xC0", "\\xC1", "\\xC2", "\\xC3", "\\xC4", "\\xC5", "\\xC6", "\\xC7", "\\xC8", "\\xC9", "\\xCA", "\\xCB", "\\xCC", "\\xCD", "\\xCE", "\\xCF",
             "\\xD0", "\\xD1", "\\xD2", "\\xD3", "\\xD4", "\\xD5", "\\xD6", "\\xD7", "\\xD8", "\\xD9", "\\xDA", "\\xDB", "\\xDC", "\\xDD", "\\xDE", "\\xDF",
             "\\xE0", "\\xE1", "\\xE2", "\\xE3", "\\xE4", "\\xE5", "\\xE6", "\\xE7", "\\xE8", "\\xE9", "\\xEA", "\\xEB", "\\xEC", "\\xED", "\\xEE", "\\xEF",
             "\\xF0", "\\xF1", "\\xF2", "\\xF3", "\\xF4", "\\xF5", "\\xF6", "\\xF7", "\\xF8", "\\xF9", "\\xFA", "\\xFB", "\\xFC", "\\xFD", "\\xFE", "\\xFF" >>
CEqTok   == 8             \* index of '=' in CTok
CQuoteTok == 9            \* index of '"' in CTok (lone / unbalanced quotes survive; a value wrapped in a pair of quotes is unquoted by design)

Modes == {"query", "args", "uri", "cookie"}
Tabs  == {"gen", "cookie", "byte", "pct"}
NTab(tab)   == CASE tab = "gen" -> 12 [] tab = "cookie" -> 9 [] tab = "byte" -> 256 [] tab = "pct" -> 12
TabStr(tab) == CASE tab = "gen" -> Tok [] tab = "cookie" -> CTok [] tab = "byte" -> ByteTok [] tab = "pct" -> PTok
\* tokens that denote an ASCII control byte (< 0x20 or 0x7F)
IsCtlTok(tab, t) == CASE tab = "gen" -> t = 11 [] tab = "cookie" -> FALSE [] tab = "byte" -> (t <= 32 \/ t = 128) [] tab = "pct" -> FALSE
EvOf(mode)  == CASE mode = "uri" -> "Uri" [] mode = "cookie" -> "Cookie" [] OTHER -> "Args"

RECURSIVE RenderStr(_, _)
RenderStr(tab, w) == IF w = << >> THEN "" ELSE RenderStr(tab, SubSeq(w, 1, Len(w) - 1)) \o TabStr(tab)[w[Len(w)]]
RenderSeq(tab, w) == [i \in 1 .. Len(w) |-> CASE tab = "gen" -> TokByte[w[i]] [] tab = "cookie" -> CTokByte[w[i]] [] tab = "byte" -> w[i] - 1
                                                [] tab = "pct" -> PTokByte[w[i]]]
NilStr == ""
NilSeq == << >>

(* Variant tables. *)
Hosts    == <<"Example.COM", "example.com:8080", "[FE80::Ab]", "[2001:DB8::Ab]:8443", "">>   \* v6: hex LETTERS after the first colon;   \* "": URI without host (http:///p)
Schemes  == <<"", "HTTPS", "aZ-0.z+9">>      \* default | upper case | every boundary character of the scheme grammar
ParseHost == "Other.Host:81"                 \* Host argument of URI.Parse when the full URI is parsed like an absolute-form target
Expiries == <<"none", "delete", "future">>   \* zero time | CookieExpireDelete | 2033-05-18T03:33:20.999+01:00
MaxAges  == <<0, 3600>>
Domains  == <<"", "Example.com", "d">>
CPaths   == <<"<unset>", "", "/", "a/%41">>  \* <unset>: SetPath is not called
AllLits  == Hosts \o Schemes \o Domains \o CPaths \o <<"http", ParseHost>>
LitStr(s) == s
LitSeq(s) == IF s = "" THEN << >> ELSE <<1000 + (CHOOSE i \in DOMAIN AllLits : AllLits[i] = s)>>   \* opaque pseudo-byte

NV(mode) == CASE mode = "uri" -> 45 [] mode = "cookie" -> 2880 [] mode = "args" -> 4 [] OTHER -> 1

UriVar(v) == LET x == v - 1 IN [host |-> Hosts[(x % 5) + 1], scheme |-> Schemes[((x \div 5) % 3) + 1], qmode |-> x \div 15]
CookieVar(v) == LET x == v - 1 IN
    [httpOnly |-> x % 2 = 1, secure |-> (x \div 2) % 2 = 1, partitioned |-> (x \div 4) % 2 = 1,
     sameSite |-> (x \div 8) % 5, exp |-> Expiries[((x \div 40) % 3) + 1], maxAge |-> MaxAges[((x \div 120) % 2) + 1],
     domain |-> Domains[((x \div 240) % 3) + 1], path |-> CPaths[((x \div 720) % 4) + 1]]

----------------------------------------------------------------------------
(* Inputs, blocks, the enumeration.                                        *)
(* block b = [mode, tab, nc, n, p, cross, rand, count, maxlen]:            *)
(*   all inputs of `mode` with nc cuts whose w has length n and prefix p;  *)
(*   cross: v runs over 1..NV(mode) (fastest digit), else v = VarOf(w,c);  *)
(*   rand: `count` arbitrary inputs with Len(w) <= maxlen (no order).      *)
Max(S) == CHOOSE x \in S : \A y \in S : y <= x
RECURSIVE Pow(_, _)
Pow(a, k) == IF k = 0 THEN 1 ELSE a * Pow(a, k - 1)
RECURSIVE Binom(_, _)
Binom(n, k) == IF k = 0 THEN 1 ELSE (Binom(n, k - 1) * (n - k + 1)) \div k

RECURSIVE HashSeq(_, _)
HashSeq(h, s) == IF s = << >> THEN h ELSE HashSeq((h * 31 + Head(s) + 1) % 65521, Tail(s))
VarOf(mode, w, c) == (HashSeq(HashSeq(7, w), c) % NV(mode)) + 1
\* two more bits derived from the whole input (so that they cost no volume, and every (variant, bits) pair occurs):
\*   api 0: the string setters                      api 1: the []byte setters (Set*Bytes) where they exist
\*   pm  0: URI.Parse(nil, String(u))               pm  1: URI.Parse(ParseHost, String(u)) (absolute-form target + Host)
Aux(in) == HashSeq(HashSeq(HashSeq(11, in.w), in.c), <<in.v>>)
ApiOf(in) == Aux(in) % 2
PmOf(in)  == (Aux(in) \div 2) % 2
\*   ord 0: SetSecure before SetSameSite/SetPartitioned (None / Partitioned then force Secure on)
\*   ord 1: SetSecure last (the caller has the last word: SameSite=None / Partitioned WITHOUT Secure is written and parsed)
OrdOf(in) == (Aux(in) \div 4) % 2

Cut(in, j)   == IF j = 0 THEN 0 ELSE IF j > Len(in.c) THEN Len(in.w) ELSE in.c[j]
Field(in, j) == SubSeq(in.w, Cut(in, j - 1) + 1, Cut(in, j))

Mk(b, w, c) == [w |-> w, c |-> c, v |-> IF b.cross THEN 1 ELSE VarOf(b.mode, w, c)]
BlockFirst(b) == Mk(b, [i \in 1 .. b.n |-> IF i <= Len(b.p) THEN b.p[i] ELSE 1], [j \in 1 .. b.nc |-> 0])
BlockCount(b) == IF b.rand THEN b.count
                 ELSE Pow(NTab(b.tab), b.n - Len(b.p)) * Binom(b.n + b.nc, b.nc) * (IF b.cross THEN NV(b.mode) ELSE 1)

HasNextCut(c, n) == \E j \in DOMAIN c : c[j] < n
NextCut(c, n)    == LET j == Max({k \in DOMAIN c : c[k] < n}) IN [k \in DOMAIN c |-> IF k < j THEN c[k] ELSE c[j] + 1]
HasNextW(b, w)   == \E i \in Len(b.p) + 1 .. Len(w) : w[i] < NTab(b.tab)
NextW(b, w)      == LET i == Max({k \in Len(b.p) + 1 .. Len(w) : w[k] < NTab(b.tab)})
                    IN  [k \in DOMAIN w |-> IF k < i THEN w[k] ELSE IF k = i THEN w[k] + 1 ELSE 1]
Done == [w |-> << >>, c |-> << >>, v |-> 0]
Succ(b, in) == IF b.cross /\ in.v < NV(b.mode) THEN [in EXCEPT !.v = @ + 1]
               ELSE IF HasNextCut(in.c, Len(in.w)) THEN Mk(b, in.w, NextCut(in.c, Len(in.w)))
               ELSE IF HasNextW(b, in.w) THEN Mk(b, NextW(b, in.w), [j \in 1 .. b.nc |-> 0])
               ELSE Done

NonDecreasing(c, n) == /\ \A j \in DOMAIN c : c[j] \in 0 .. n
                       /\ \A j \in DOMAIN c : j > 1 => c[j - 1] <= c[j]
\* membership in the declared space of a random block
InSpace(b, in) == /\ Len(in.w) <= b.maxlen /\ \A i \in DOMAIN in.w : in.w[i] \in 1 .. NTab(b.tab)
                  /\ Len(in.c) = b.nc /\ NonDecreasing(in.c, Len(in.w))
                  /\ in.v \in 1 .. NV(b.mode)

\* the elements of a block as a set, defined without Succ (Codec_mc.cfg: the walk must produce exactly this)
CutsOf(nc, n) == {c \in [1 .. nc -> 0 .. n] : NonDecreasing(c, n)}
WordsOf(b) == {x \in [1 .. b.n -> 1 .. NTab(b.tab)] : \A i \in DOMAIN b.p : x[i] = b.p[i]}
BlockSet(b) == IF b.cross THEN {[w |-> w, c |-> c, v |-> v] : w \in WordsOf(b), c \in CutsOf(b.nc, b.n), v \in 1 .. NV(b.mode)}
               ELSE {Mk(b, w, c) : w \in WordsOf(b), c \in CutsOf(b.nc, b.n)}
\* the same as a predicate
InBlockPred(b, in) == /\ Len(in.w) = b.n /\ \A i \in DOMAIN in.w : in.w[i] \in 1 .. NTab(b.tab)
                      /\ \A i \in DOMAIN b.p : in.w[i] = b.p[i]
                      /\ Len(in.c) = b.nc /\ NonDecreasing(in.c, b.n)
                      /\ IF b.cross THEN in.v \in 1 .. NV(b.mode) ELSE in.v = VarOf(b.mode, in.w, in.c)

\* a family [mode, tab, nc, cross, maxlen] is cut into blocks of at most `target` inputs (a single w if need be)
PrefLen(f, n, target) ==
    LET fits(k) == Pow(NTab(f.tab), n - k) * Binom(n + f.nc, f.nc) * (IF f.cross THEN NV(f.mode) ELSE 1) <= target
    IN  IF \E k \in 0 .. n : fits(k) THEN CHOOSE k \in 0 .. n : fits(k) /\ \A j \in 0 .. k - 1 : ~fits(j) ELSE n
Blocks(f, target) ==
    UNION {{[mode |-> f.mode, tab |-> f.tab, nc |-> f.nc, n |-> n, p |-> p, cross |-> f.cross, rand |-> FALSE, count |-> 0, maxlen |-> f.maxlen] :
               p \in [1 .. PrefLen(f, n, target) -> 1 .. NTab(f.tab)]} : n \in 0 .. f.maxlen}

----------------------------------------------------------------------------
(* The laws.  Lists are sequences of <<key, value>>.                       *)
NonEmpty(P) == SelectSeq(P, LAMBDA e : ~(e[1] = Nil /\ e[2] = Nil))

\* L2
LawArgs(list, parsed) == parsed = NonEmpty(list)

\* L3.  neturl = [ok, m] with m a sequence of [k, vs] (one entry per key of url.Values, any order)
ValsOf(P, K) == LET Q == SelectSeq(NonEmpty(P), LAMBDA e : e[1] = K) IN [i \in 1 .. Len(Q) |-> Q[i][2]]
NetVals(m, K) == IF \E i \in DOMAIN m : m[i].k = K
                 THEN LET vs == m[CHOOSE i \in DOMAIN m : m[i].k = K].vs
                      IN  IF K = Nil THEN SelectSeq(vs, LAMBDA x : x # Nil) ELSE vs
                 ELSE << >>
LawNetUrl(parsed, neturl) ==
    neturl.ok => \A K \in {parsed[i][1] : i \in DOMAIN parsed} \cup {neturl.m[i].k : i \in DOMAIN neturl.m} :
                     ValsOf(parsed, K) = NetVals(neturl.m, K)

\* L1.  parts / reparsed = [scheme, host, path, qs, query, frag] read through the getters
\* qmode 0: query set with SetQueryString(<encoded args>), the raw query string is compared too;
\* qmode 1: query set with QueryArgs().Add, the URI has no raw query string of its own: argument lists are compared;
\* qmode 2: no query is set at all (key and value slots are not used).
LawUri(o, qmode) == /\ o.reparsed.scheme = o.parts.scheme
                    /\ o.reparsed.host = o.parts.host
                    /\ o.reparsed.path = o.parts.path
                    /\ NonEmpty(o.reparsed.query) = NonEmpty(o.parts.query)
                    /\ qmode # 1 => o.reparsed.qs = o.parts.qs
                    /\ o.reparsed.frag = o.parts.frag
                    /\ o.restr = o.str

\* L4.  rec / parsed = [key, value, domain, path, httpOnly, secure, partitioned, sameSite, maxAge, expSet, exp]
\* (exp in Unix seconds, expSet = Expire() is not the zero time)
LawCookie(o) == /\ o.ok
                /\ o.parsed.key = o.rec.key /\ o.parsed.value = o.rec.value
                /\ o.parsed.domain = o.rec.domain /\ o.parsed.path = o.rec.path
                /\ o.parsed.httpOnly = o.rec.httpOnly /\ o.parsed.secure = o.rec.secure
                /\ o.parsed.partitioned = o.rec.partitioned /\ o.parsed.sameSite = o.rec.sameSite
                /\ o.parsed.maxAge = o.rec.maxAge
                /\ o.rec.maxAge = 0 => (o.parsed.expSet = o.rec.expSet /\ o.parsed.exp = o.rec.exp)
CookiePre(in) == /\ Field(in, 1) # << >> /\ \A i \in DOMAIN Field(in, 1) : Field(in, 1)[i] # CEqTok
                 /\ LET f == Field(in, 2) IN ~(Len(f) >= 2 /\ f[1] = CQuoteTok /\ f[Len(f)] = CQuoteTok)

----------------------------------------------------------------------------
(* Binding of an observation to the input + the laws, per mode.            *)
R(b, in, j) == Render(b.tab, Field(in, j))

\* mode "query" (nc = 0): s = Render(w) is parsed raw.            L3, and L2 for A = the parsed list
\* mode "args"  (nc odd): pairs (F1,F2),(F3,F4),... are put into a (reused) Args object in one of four ways (variant v):
\*    1  Add(k, v) for each pair                 2  Set(k, v) for each pair
\*    3  ParseBytes("k1&k2&..") -- the keys without values -- first, then Set(k, v) for each pair
\*    4  the same pre-parse, then Add(k, v) for each pair
\* A = `list` = what the object then holds (VisitAll).  L2, L3 for s = Encode(A), L2 for A = the parsed list.
\* `pairs` echoes what was passed and is bound to the enumeration; for variant 1 the object must hold exactly the pairs;
\* for the others what Set / the pre-parse leave in the object is not modelled (replace-first semantics of Set).
Pairs(b, in) == [i \in 1 .. (b.nc + 1) \div 2 |-> <<R(b, in, 2 * i - 1), R(b, in, 2 * i)>>]
AcceptArgs(b, in, o) ==
    /\ IF b.mode = "query" THEN o.pairs = << >> /\ o.list = << >> /\ o.enc = R(b, in, 1) /\ o.api = 0
       ELSE o.pairs = Pairs(b, in) /\ o.api = in.v /\ (in.v = 1 => o.list = o.pairs)
    /\ b.mode = "args" => LawArgs(o.list, o.parsed)
    /\ LawNetUrl(o.parsed, o.neturl)
    /\ LawArgs(o.parsed, o.reparsed)

\* mode "uri" (nc = 3): path = F1, query = one argument (F2, F3), fragment = F4; host, scheme, qmode from the variant
AcceptUri(b, in, o) ==
    LET var == UriVar(in.v) IN
    /\ o.set = [scheme |-> Lit(var.scheme), host |-> Lit(var.host), path |-> R(b, in, 1), key |-> R(b, in, 2),
                value |-> R(b, in, 3), frag |-> R(b, in, 4), qmode |-> var.qmode, api |-> ApiOf(in),
                phost |-> IF PmOf(in) = 1 THEN Lit(ParseHost) ELSE Nil]
    /\ o.fragCtl = (\E i \in DOMAIN Field(in, 4) : IsCtlTok(b.tab, Field(in, 4)[i]))
    /\ LawUri(o, var.qmode)

\* mode "cookie" (nc = 1): key = F1, value = F2, attributes from the variant
AcceptCookie(b, in, o) ==
    LET var == CookieVar(in.v) IN
    /\ o.set = [key |-> R(b, in, 1), value |-> R(b, in, 2), httpOnly |-> var.httpOnly, secure |-> var.secure,
                partitioned |-> var.partitioned, sameSite |-> var.sameSite, exp |-> var.exp, maxAge |-> var.maxAge,
                domain |-> Lit(var.domain), path |-> Lit(var.path), api |-> ApiOf(in), ord |-> OrdOf(in)]
    /\ CookiePre(in) => LawCookie(o)

Accept(b, in, o) == /\ o.ev = EvOf(b.mode)
                    /\ CASE b.mode = "uri"    -> AcceptUri(b, in, o)
                         [] b.mode = "cookie" -> AcceptCookie(b, in, o)
                         [] OTHER             -> AcceptArgs(b, in, o)

----------------------------------------------------------------------------
(* Reference codec on sequences of byte values (Codec_mc.cfg only).        *)
Plain(x)  == x \in {97, 52, 49, 71} \/ x >= 1000
HexDig(k) == IF k < 10 THEN 48 + k ELSE 55 + k
HexVal(d) == IF d >= 48 /\ d <= 57 THEN d - 48 ELSE IF d >= 65 /\ d <= 70 THEN d - 55
             ELSE IF d >= 97 /\ d <= 102 THEN d - 87 ELSE 16
RECURSIVE RefEsc(_, _)
RefEsc(s, plus) == IF s = << >> THEN << >>
                   ELSE LET x == Head(s) IN
                        (IF Plain(x) THEN <<x>> ELSE IF plus /\ x = 32 THEN <<43>> ELSE <<37, HexDig(x \div 16), HexDig(x % 16)>>)
                        \o RefEsc(Tail(s), plus)
\* lenient decoder: an escape that is not % HEX HEX stands for itself
RECURSIVE RefUnesc(_, _)
RefUnesc(s, plus) ==
    IF s = << >> THEN << >>
    ELSE IF s[1] = 37 /\ Len(s) >= 3 /\ HexVal(s[2]) < 16 /\ HexVal(s[3]) < 16
         THEN <<HexVal(s[2]) * 16 + HexVal(s[3])>> \o RefUnesc(SubSeq(s, 4, Len(s)), plus)
         ELSE <<IF plus /\ s[1] = 43 THEN 32 ELSE s[1]>> \o RefUnesc(Tail(s), plus)
RECURSIVE StrictOK(_)
StrictOK(s) == IF s = << >> THEN TRUE
               ELSE IF s[1] = 37 THEN Len(s) >= 3 /\ HexVal(s[2]) < 16 /\ HexVal(s[3]) < 16 /\ StrictOK(SubSeq(s, 4, Len(s)))
               ELSE StrictOK(Tail(s))
IndexOf(s, x) == IF \E i \in DOMAIN s : s[i] = x THEN CHOOSE i \in DOMAIN s : s[i] = x /\ \A j \in 1 .. i - 1 : s[j] # x ELSE 0
RECURSIVE Split(_, _)
Split(s, x) == LET i == IndexOf(s, x) IN IF i = 0 THEN <<s>> ELSE <<SubSeq(s, 1, i - 1)>> \o Split(SubSeq(s, i + 1, Len(s)), x)
RECURSIVE Join(_, _)
Join(ss, x) == IF ss = << >> THEN << >> ELSE IF Len(ss) = 1 THEN ss[1] ELSE ss[1] \o <<x>> \o Join(Tail(ss), x)
RefPair(piece) == LET i == IndexOf(piece, 61) IN
                  IF i = 0 THEN <<RefUnesc(piece, TRUE), << >> >>
                  ELSE <<RefUnesc(SubSeq(piece, 1, i - 1), TRUE), RefUnesc(SubSeq(piece, i + 1, Len(piece)), TRUE)>>
RefEncode(A) == Join([i \in DOMAIN A |-> RefEsc(A[i][1], TRUE) \o <<61>> \o RefEsc(A[i][2], TRUE)], 38)
RefParse(s)  == LET ps == Split(s, 38) IN NonEmpty([i \in DOMAIN ps |-> RefPair(ps[i])])
\* a second, strict reader in the style of net/url.ParseQuery: rejects ';' and malformed escapes, groups by key
RefNetUrl(s) == LET ps == SelectSeq(Split(s, 38), LAMBDA x : x # << >>)
                    P  == [i \in DOMAIN ps |-> RefPair(ps[i])]
                    ks == {P[i][1] : i \in DOMAIN P}
                    kseq == CHOOSE q \in [1 .. Cardinality(ks) -> ks] : \A i, j \in DOMAIN q : i # j => q[i] # q[j]
                IN  [ok |-> IndexOf(s, 59) = 0 /\ StrictOK(s),
                     m  |-> [i \in DOMAIN kseq |->
                               [k |-> kseq[i],
                                vs |-> LET Q == SelectSeq(P, LAMBDA e : e[1] = kseq[i]) IN [j \in DOMAIN Q |-> Q[j][2]]]]]

RefArgsObs(b, in) ==
    LET list == IF b.mode = "query" THEN << >> ELSE Pairs(b, in)     \* the reference's Set behaves like Add
        enc == IF b.mode = "query" THEN R(b, in, 1) ELSE RefEncode(list)
        parsed == RefParse(enc)
        reenc == RefEncode(parsed)
    IN  [ev |-> "Args", api |-> IF b.mode = "query" THEN 0 ELSE in.v, pairs |-> list, list |-> list, enc |-> enc, parsed |-> parsed, neturl |-> RefNetUrl(enc),
         reenc |-> reenc, reparsed |-> RefParse(reenc)]

\* reference URI: everything in path, query arguments and fragment is escaped, so '/', '?', '#' only occur as delimiters
RefUriFormat(p) == p.scheme \o <<58, 47, 47>> \o p.host \o <<47>> \o RefEsc(SubSeq(p.path, 2, Len(p.path)), FALSE)
                   \o (IF p.qs = << >> THEN << >> ELSE <<63>> \o p.qs)
                   \o (IF p.frag = << >> THEN << >> ELSE <<35>> \o RefEsc(p.frag, FALSE))
RefUriParse(s) ==
    LET i  == IndexOf(s, 58)
        r1 == SubSeq(s, i + 3, Len(s))                     \* after "://"
        j  == IndexOf(r1, 47)
        r2 == SubSeq(r1, j + 1, Len(r1))                   \* after the '/' that ends the host
        h  == IndexOf(r2, 35)
        r3 == IF h = 0 THEN r2 ELSE SubSeq(r2, 1, h - 1)
        q  == IndexOf(r3, 63)
        qs == IF q = 0 THEN << >> ELSE SubSeq(r3, q + 1, Len(r3))
    IN  [scheme |-> SubSeq(s, 1, i - 1), host |-> SubSeq(r1, 1, j - 1),
         path |-> <<47>> \o RefUnesc(IF q = 0 THEN r3 ELSE SubSeq(r3, 1, q - 1), FALSE),
         qs |-> qs, query |-> RefParse(qs),
         frag |-> IF h = 0 THEN << >> ELSE RefUnesc(SubSeq(r2, h + 1, Len(r2)), FALSE)]
RefUriObs(b, in) ==
    LET var == UriVar(in.v)
        set == [scheme |-> Lit(var.scheme), host |-> Lit(var.host), path |-> R(b, in, 1), key |-> R(b, in, 2),
                value |-> R(b, in, 3), frag |-> R(b, in, 4), qmode |-> var.qmode, api |-> ApiOf(in),
                phost |-> IF PmOf(in) = 1 THEN Lit(ParseHost) ELSE Nil]
        qs  == IF var.qmode = 2 THEN << >> ELSE RefEncode(<<<<set.key, set.value>>>>)
        parts == [scheme |-> IF set.scheme = Nil THEN Lit("http") ELSE set.scheme, host |-> set.host,
                  path |-> <<47>> \o set.path, qs |-> qs, query |-> RefParse(qs), frag |-> set.frag]
        str == RefUriFormat(parts)
        re  == RefUriParse(str)
    IN  [ev |-> "Uri", set |-> set, fragCtl |-> (\E i \in DOMAIN Field(in, 4) : IsCtlTok(b.tab, Field(in, 4)[i])),
         parts |-> parts, str |-> str, reparsed |-> re, restr |-> RefUriFormat(re)]

\* reference cookie codec: the string form is not modelled (the laws do not look into it); the reference parser
\* returns the record it was given.  Only the attribute decoding and the binding are exercised by Codec_mc.cfg.
RefCookieObs(b, in) ==
    LET var == CookieVar(in.v)
        rec == [key |-> R(b, in, 1), value |-> R(b, in, 2), domain |-> Lit(var.domain),
                path |-> IF var.path = "<unset>" THEN Nil ELSE Lit(var.path),
                httpOnly |-> var.httpOnly, secure |-> var.secure \/ (OrdOf(in) = 0 /\ (var.partitioned \/ var.sameSite = 4)),
                partitioned |-> var.partitioned, sameSite |-> var.sameSite, maxAge |-> var.maxAge,
                expSet |-> var.exp # "none", exp |-> IF var.exp = "none" THEN 0 ELSE IF var.exp = "delete" THEN 1257894000 ELSE 2000000000]
    IN  [ev |-> "Cookie", ok |-> TRUE, str |-> Nil, rec |-> rec, parsed |-> rec,
         set |-> [key |-> R(b, in, 1), value |-> R(b, in, 2), httpOnly |-> var.httpOnly, secure |-> var.secure,
                  partitioned |-> var.partitioned, sameSite |-> var.sameSite, exp |-> var.exp, maxAge |-> var.maxAge,
                  domain |-> Lit(var.domain), path |-> Lit(var.path), api |-> ApiOf(in), ord |-> OrdOf(in)]]

RefObs(b, in) == CASE b.mode = "uri" -> RefUriObs(b, in) [] b.mode = "cookie" -> RefCookieObs(b, in) [] OTHER -> RefArgsObs(b, in)

\* broken codecs, used to show that the laws discriminate
RECURSIVE BadEscNoAmp(_)
BadEscNoAmp(s) == IF s = << >> THEN << >>
                  ELSE LET x == Head(s) IN
                       (IF Plain(x) \/ x = 38 THEN <<x>> ELSE <<37, HexDig(x \div 16), HexDig(x % 16)>>) \o BadEscNoAmp(Tail(s))
RECURSIVE BadEscNoPct(_)
BadEscNoPct(s) == IF s = << >> THEN << >>
                  ELSE LET x == Head(s) IN
                       (IF Plain(x) \/ x = 37 THEN <<x>> ELSE <<37, HexDig(x \div 16), HexDig(x % 16)>>) \o BadEscNoPct(Tail(s))

----------------------------------------------------------------------------
(* The enumerator as a state machine.  Codec_mc.cfg walks it with the      *)
(* reference codec's observations; CodecTrace walks it with the recorded   *)
(* observations of the real code.                                          *)
CONSTANTS McFamilies,     \* families walked exhaustively by TLC on the specification itself
          McTarget        \* block size used there
VARIABLES blk,   \* block being walked
          cur,   \* next input to visit (Done after the last one)
          left,  \* inputs of the block not yet visited
          seen,  \* history: inputs visited (Codec_mc.cfg only)
          obs    \* history: last visited input and its observation (Codec_mc.cfg only)
vars == <<blk, cur, left, seen, obs>>

NoObs == [tag |-> "none"]
McBlocks == UNION {Blocks(f, McTarget) : f \in McFamilies}

StartBlock(b) == /\ blk' = b /\ cur' = (IF b.rand THEN Done ELSE BlockFirst(b)) /\ left' = BlockCount(b)
\* visit cur: the only way the enumeration advances
Walk == /\ left > 0
        /\ left' = left - 1
        /\ cur' = IF blk.rand THEN Done ELSE Succ(blk, cur)
        /\ UNCHANGED blk

Init == \E b \in McBlocks : /\ blk = b /\ cur = BlockFirst(b) /\ left = BlockCount(b) /\ seen = {} /\ obs = NoObs
Visit == /\ Walk
         /\ seen' = seen \cup {cur}
         /\ obs' = [tag |-> "some", in |-> cur, o |-> RefObs(blk, cur)]
Next == Visit
Spec == Init /\ [][Next]_vars

InBlock   == left > 0 => InBlockPred(blk, cur)
NoRepeat  == left > 0 => cur \notin seen
Complete  == left = 0 => (seen = BlockSet(blk) /\ cur = Done)
NotEarly  == left > 0 => cur # Done
LawsHold  == obs.tag = "some" => Accept(blk, obs.in, obs.o)

\* blocks partition every family (constant level; ASSUMEd in CodecMC)
AllInputs(f) == UNION {BlockSet([mode |-> f.mode, tab |-> f.tab, nc |-> f.nc, n |-> n, p |-> << >>, cross |-> f.cross, rand |-> FALSE,
                                 count |-> 0, maxlen |-> f.maxlen]) : n \in 0 .. f.maxlen}
RECURSIVE SumCounts(_)
SumCounts(S) == IF S = {} THEN 0 ELSE LET b == CHOOSE x \in S : TRUE IN BlockCount(b) + SumCounts(S \ {b})
Partition(f) == LET B == Blocks(f, McTarget) IN
                /\ UNION {BlockSet(b) : b \in B} = AllInputs(f)
                /\ SumCounts(B) = Cardinality(AllInputs(f))
                /\ \A b \in B : BlockCount(b) = Cardinality(BlockSet(b)) /\ (BlockCount(b) <= McTarget \/ Len(b.p) = b.n)
McAssumptions ==
    /\ \A f \in McFamilies : Partition(f)
    \* the laws discriminate: an encoder that leaves '&' or '%' alone violates L2 on some list
    /\ ~LawArgs(<<<<<<97, 38>>, <<97>>>>>>, RefParse(BadEscNoAmp(<<97, 38>>) \o <<61>> \o BadEscNoAmp(<<97>>)))
    /\ ~LawArgs(<<<<<<37, 52, 49>>, << >>>>>>, RefParse(BadEscNoPct(<<37, 52, 49>>) \o <<61>>))
    \* ... and a reader that drops the second of two equal keys violates L3
    /\ ~LawNetUrl(<<<<<<97>>, <<52>>>>>>, [ok |-> TRUE, m |-> <<[k |-> <<97>>, vs |-> <<<<52>>, <<49>>>>]>>])
=============================================================================
