---------------------------- MODULE HostMapTrace ----------------------------
(***************************************************************************************************************)
(* Trace validation for X05: the events recorded by harness/drivers/x05 from the real client.Client must be    *)
(* accepted by the observer of HostMap (spec/HostMapObs.tla, shown by HostMapObsMC to accept every behaviour of *)
(* the corrected HostMap).  One successor per state: the observer is a function.                               *)
(* Lines: Case{id, kind, mode, maxConns, waitMs, idleMs, obsMs, hookErr, facErr, retryMs, steps}, the events    *)
(* listed in HostMapObs, End.                                                                                   *)
(***************************************************************************************************************)
EXTENDS HostMapObs, Json, IOUtils

Trace == ndJsonDeserialize(IOEnv.VERIF_TRACE)

VARIABLES l, bad, active, o
tvars == <<l, bad, active, o>>

Blank == OInit(OBlankCase)
Line == Trace[l]
HasLine == l <= Len(Trace)

TraceInit == l = 1 /\ bad = << >> /\ active = FALSE /\ o = Blank

TraceCase == /\ HasLine /\ ~active /\ Line.ev = "Case"
             /\ Line.mode \in {"wrap", "plain"} /\ Line.maxConns >= 1
             /\ o' = OInit(Line)
             /\ active' = TRUE /\ l' = l + 1 /\ UNCHANGED bad

\* the end of a case is the line End without a call number
IsCaseEnd(r) == r.ev = "End" /\ "p" \notin DOMAIN r

TraceEvent == /\ HasLine /\ active /\ Line.ev # "Case" /\ ~IsCaseEnd(Line)
              /\ LET n == OStep(o, Line) IN n.ok /\ o' = n
              /\ l' = l + 1 /\ UNCHANGED <<bad, active>>

TraceEnd == /\ HasLine /\ active /\ IsCaseEnd(Line)
            /\ OEnd(o)
            /\ o' = Blank /\ active' = FALSE /\ l' = l + 1 /\ UNCHANGED bad

Normal == TraceCase \/ TraceEvent \/ TraceEnd

NextCase(k) == IF \E j \in k + 1 .. Len(Trace) : Trace[j].ev = "Case"
               THEN CHOOSE j \in k + 1 .. Len(Trace) : Trace[j].ev = "Case" /\ \A i \in k + 1 .. j - 1 : Trace[i].ev # "Case"
               ELSE Len(Trace) + 1

Mismatch == /\ HasLine /\ ~ENABLED Normal
            /\ bad' = Append(bad, l)
            /\ l' = NextCase(l)
            /\ o' = Blank /\ active' = FALSE

MismatchEOF == /\ l = Len(Trace) + 1 /\ active
               /\ bad' = Append(bad, l) /\ l' = l /\ o' = Blank /\ active' = FALSE

TraceNext == Normal \/ Mismatch \/ MismatchEOF

Report == (l = Len(Trace) + 1 /\ ~active) => PrintT(<<"@@BAD", bad, l - 1, Len(Trace)>>)
=============================================================================
