CONSTANTS MaxK = 3
INIT GenInit
NEXT GenNext
