---------------------------- MODULE HeaderWriteGen ----------------------------
(* Case generator for C05.  TLC enumerates API programs as a constant-level set and writes one ndjson line   *)
(* per case:  [id, tgt, body, calls |-> <<[e |-> entry, a |-> <<byte strings>>]>>, rawsink, emptytrailer].     *)
(*   Singles  : every entry point x every argument slot x every string of length <= MaxLen over the slot's   *)
(*              alphabet ({x|v, ':', SP, CR, LF, NUL}) and one 67-byte hostile string, the other slots        *)
(*              holding a benign letter;                                                                      *)
(*   Letters  : every name-like slot x every name string <= LetterLen (+ hostile names) starting with the     *)
(*              letter, with that first letter replaced by each of a c d e h k m p r s t u w (the arms of the   *)
(*              first-byte dispatch in setSpecialHeader / IsBadTrailer / Cookie.ParseBytes);                    *)
(*   Specials : every key/value entry point x every field name the library treats specially x every value    *)
(*              string of length <= SpecLen (this is how Set("Cookie", ...) / Set("Trailer", ...) etc. reach   *)
(*              their dedicated stores);                                                                      *)
(*   NoBody   : singles with strings <= NoneLen plus the hostile set, serialised without a body stream        *)
(*              (the other code path of req.Write / resp.Write);                                              *)
(*   Pairs    : (hostile call, benign call) in both orders for every entry point x every partner entry point  *)
(*              of the same object (quick: one partner per kind of store), hostile x hostile for the same     *)
(*              entry point (thorough: for every two entry points).                                           *)
(*   Dups     : every specially stored field (Content-Length, Transfer-Encoding, Host, Server, Date,           *)
(*              Content-Type, User-Agent, Content-Encoding, Connection) set through each generic entry point   *)
(*              and through each dedicated setter (incl. SetContentLength(n), SetConnectionClose), every       *)
(*              ordered pair of such calls on the same field, with and without a body stream.                  *)
(* rawsink = "reqcookie" marks programs that route a CR/LF-bearing argument into the request cookie store    *)
(* (known finding C05-reqcookie-raw; computed here so that the signature is part of the case).                *)
EXTENDS HeaderWrite, Json, IOUtils, SequencesExt

CONSTANTS MaxLen, SpecLen, NoneLen, PairAll, PairHostile, PartnerAll, LetterLen

Roles(e) == EntryTable[e].roles
\* SubSeq(f, 1, n) turns the function into a plain tuple (cheap to compare and to serialise)
Tup(f) == SubSeq(f, 1, Len(f))
Alpha(r) == IF r = "n" THEN AlphaN ELSE AlphaV
Benign(r) == CASE r = "n" -> <<LetterN>> [] r = "d" -> <<51>> [] OTHER -> <<LetterV>>
BenignArgs(e) == Tup([i \in DOMAIN Roles(e) |-> Benign(Roles(e)[i])])
WithArg(e, s, x) == [e |-> e, a |-> Tup([i \in DOMAIN Roles(e) |-> IF i = s THEN x ELSE Benign(Roles(e)[i])])]
BenignCall(e) == [e |-> e, a |-> BenignArgs(e)]

StrN == [r \in {"n", "v"} |-> [k \in 0 .. MaxLen |-> StrsUpTo(Alpha(r), k)]]
\* one long hostile string per role (64 letters, then a line break): buffer growth / length-dependent paths
Long(r) == IF r = "n" THEN [i \in 1 .. 64 |-> LetterN] \o <<LF, LetterN>>
           ELSE [i \in 1 .. 64 |-> LetterV] \o <<LF, LetterV, COLON>>
Hostile(r) == (IF r = "n" THEN HostileN ELSE HostileV) \cup {Tup(Long(r))}

KVEntries == {e \in Entries : EntryTable[e].cls \in {"kvset", "kvadd"}}
SpecialNames(tgt) == IF tgt = "req"
    THEN {NCookie, NHost, NUserAgent, NContentType, NContentLength, NConnection, NTrailer, NTransferEncoding}
    ELSE {NSetCookie, NContentType, NContentEncoding, NServer, NContentLength, NConnection, NTrailer,
          NTransferEncoding, NDate, NLocation}

\* NB: TLC's UNION and \cup deduplicate quadratically on big sets; the case sets are therefore built as flat set
\* comprehensions over (entry, slot) pairs, turned into sequences piece by piece and concatenated (a program
\* occurring in two pieces is simply run twice).
Targets == {"req", "resp", "ctx"}
Slots(r) == {<<e, s>> \in Entries \X (1 .. 4) : s <= Len(Roles(e)) /\ Roles(e)[s] = r}
SlotsOf(tgt, r) == {sl \in Slots(r) : EntryTable[sl[1]].tgt = tgt}
RoleSet == {"n", "v"}

SinglesOf(r) == {<<WithArg(sl[1], sl[2], x)>> : sl \in Slots(r), x \in StrN[r][MaxLen] \cup {Tup(Long(r))}}
Benigns == {<<BenignCall(e)>> : e \in Entries}
\* First-letter variants of name-like arguments.  The code dispatches on the first byte of a field name
\* (`switch key[0] | 0x20` in header.go:setSpecialHeader, trailer.go:IsBadTrailer, cookie.go:ParseBytes), so a
\* single name letter reaches only the arm-less default path.  Every name string (<= LetterLen, + the hostile
\* names) that starts with the letter is repeated with its first byte replaced by each letter that has an arm:
\* a c d e h k m p r s t u w  (x, the default letter, has none).  The value letter v stays disjoint from all.
FirstLetters == {97, 99, 100, 101, 104, 107, 109, 112, 114, 115, 116, 117, 119}
LetterFirst == {y \in StrN["n"][LetterLen] \cup Hostile("n") : y # << >> /\ y[1] = LetterN}
Relettered == {Tup([i \in DOMAIN y |-> IF i = 1 THEN c ELSE y[i]]) : y \in LetterFirst, c \in FirstLetters}
LetterSingles == {<<WithArg(sl[1], sl[2], x)>> : sl \in Slots("n"), x \in Relettered}
SpecialsOf(tgt) == {<<[e |-> e, a |-> <<nm, x>>]>> : e \in {f \in KVEntries : EntryTable[f].tgt = tgt},
                                                  nm \in SpecialNames(tgt), x \in StrN["v"][SpecLen] \cup Hostile("v")}
NoBodyOf(r) == {<<WithArg(sl[1], sl[2], x)>> : sl \in Slots(r), x \in StrN[r][NoneLen] \cup Hostile(r)}

\* quick tier: one hostile string per slot in pairs
PHostile(r) == IF PairHostile = 1 THEN (IF r = "n" THEN {<<LetterN, LF, LetterN>>} ELSE {<<LF, LetterV, COLON>>}) ELSE Hostile(r)
HostileCalls(tgt) == {WithArg(sl[1], sl[2], x) : sl \in SlotsOf(tgt, "n"), x \in PHostile("n")}
               \cup {WithArg(sl[1], sl[2], x) : sl \in SlotsOf(tgt, "v"), x \in PHostile("v")}
\* the benign partner of a pair: every entry point of the object (thorough) or one per kind of store (quick)
Reps == {"ReqHeader.Set", "ReqHeader.Add", "ReqHeader.SetArgBytes", "ReqHeader.SetHost", "Request.SetHost",
         "ReqHeader.SetCookie", "ReqTrailer.Set", "ReqTrailer.SetTrailers", "ReqHeader.Del", "ReqHeader.DisableNormalizing",
         "RespHeader.Set", "RespHeader.Add", "RespHeader.SetArgBytes", "RespHeader.SetServerBytes", "RespHeader.SetCookie",
         "RespHeader.ParseSetCookie", "RespTrailer.Set", "RespTrailer.SetTrailers", "RespHeader.Del",
         "RespHeader.DisableNormalizing"} \cup {e \in Entries : EntryTable[e].tgt = "ctx"}
Partners(tgt) == {f \in Entries : EntryTable[f].tgt = tgt /\ (PartnerAll \/ f \in Reps)}
BenignCalls(tgt) == {BenignCall(e) : e \in Partners(tgt)}
               \cup {[e |-> e, a |-> <<nm, <<LetterV>>>>] : e \in KVEntries \cap Partners(tgt),
                                                           nm \in {NCookie, NTrailer, NSetCookie} \cap SpecialNames(tgt)}
PairsHB(tgt) == {<<h, b>> : h \in HostileCalls(tgt), b \in BenignCalls(tgt)}
PairsBH(tgt) == {<<b, h>> : h \in HostileCalls(tgt), b \in BenignCalls(tgt)}
PairsHH(tgt) == {hg \in HostileCalls(tgt) \X HostileCalls(tgt) : PairAll \/ hg[1].e = hg[2].e}

\* ---- Dups: a specially stored field set through the generic API and through its dedicated setter, in both
\* orders (and generic x generic, dedicated x dedicated), with realistic values; serialised with and without a
\* body stream.  What must hold is SingleValuedOK: the field appears once.
B5 == <<53>>
BChunkedV == <<99, 104, 117, 110, 107, 101, 100>>
GenericOf(tgt) == {e \in KVEntries \ RawKV : EntryTable[e].tgt = tgt}
DupNV(tgt) == {<<NContentLength, B5>>, <<NTransferEncoding, BChunkedV>>, <<NContentType, <<LetterV>>>>,
               <<NConnection, BClose>>, <<NConnection, BKeepAlive>>}
              \cup (IF tgt = "req" THEN {<<NHost, <<LetterV>>>>, <<NUserAgent, <<LetterV>>>>}
                    ELSE {<<NServer, <<LetterV>>>>, <<NDate, <<LetterV>>>>, <<NContentEncoding, <<LetterV>>>>})
Dedicated(tgt) ==
    CASE tgt = "req" ->
           {[e |-> "ReqHeader.SetContentLength", a |-> <<x>>] : x \in {<<51>>, <<45, 49>>}}
           \cup {[e |-> e, a |-> << <<LetterV, LetterV>> >>] : e \in {"ReqHeader.SetContentLengthBytes", "ReqHeader.SetHost",
                    "ReqHeader.SetHostBytes", "Request.SetHost", "ReqHeader.SetContentTypeBytes",
                    "ReqHeader.SetMultipartFormBoundary", "ReqHeader.SetUserAgentBytes"}}
           \cup {[e |-> e, a |-> << >>] : e \in {"ReqHeader.SetConnectionClose", "Request.SetConnectionClose"}}
      [] tgt = "resp" ->
           {[e |-> "RespHeader.SetContentLength", a |-> <<x>>] : x \in {<<51>>, <<45, 49>>}}
           \cup {[e |-> e, a |-> << <<LetterV, LetterV>> >>] : e \in {"RespHeader.SetContentLengthBytes", "RespHeader.SetServerBytes",
                    "RespHeader.SetContentType", "RespHeader.SetContentTypeBytes", "RespHeader.SetContentEncoding",
                    "RespHeader.SetContentEncodingBytes"}}
           \cup {[e |-> e, a |-> << >>] : e \in {"RespHeader.SetConnectionClose", "Response.SetConnectionClose"}}
      [] OTHER ->
           {[e |-> e, a |-> << <<LetterV, LetterV>> >>] : e \in {"Ctx.SetContentType", "Ctx.SetContentTypeBytes", "Ctx.Data"}}
           \cup {[e |-> "Ctx.SetConnectionClose", a |-> << >>]}
DupCalls(tgt) == {[e |-> e, a |-> <<nv[1], nv[2]>>] : e \in GenericOf(tgt), nv \in DupNV(tgt)} \cup Dedicated(tgt)
\* calls that concern the same single-valued field (Content-Length and Transfer-Encoding are one group: framing)
Grp(c) == LET n == Canon(HNames(c)[1]) IN IF n = Canon(NTransferEncoding) THEN Canon(NContentLength) ELSE n
DupPairs(tgt) == {cd \in DupCalls(tgt) \X DupCalls(tgt) : Grp(cd[1]) = Grp(cd[2])}

\* connconflict = "yes": a generic call stores `Connection: keep-alive` and a LATER call asks for close (dedicated
\* setter, or generic `Connection: close`): known finding C05-connection-keepalive-and-close.
NonRawKV(c) == IsKV(c) /\ c.e \notin RawKV
StoresKeepAlive(c) == NonRawKV(c) /\ c.a[1] = NConnection /\ c.a[2] = BKeepAlive
SetsClose(c) == \/ NonRawKV(c) /\ c.a[1] = NConnection /\ c.a[2] = BClose
                \/ (EntryTable[c.e].cls = "fixed" /\ EntryTable[c.e].fx = NConnection)
ConnConflict(calls) == IF \E i, j \in DOMAIN calls : i < j /\ StoresKeepAlive(calls[i]) /\ SetsClose(calls[j]) THEN "yes" ELSE "no"

\* framingconflict = "yes": SetContentLength(negative) selected chunked framing and a LATER call stores a
\* Content-Length (generic Set/Add/...): known finding C05-contentlength-after-chunked.
NegLen(c) == c.e \in {"ReqHeader.SetContentLength", "RespHeader.SetContentLength"} /\ c.a[1] # << >> /\ c.a[1][1] = 45
StoresCL(c) == NonRawKV(c) /\ c.a[1] = NContentLength
FramingConflict(calls) == IF \E i, j \in DOMAIN calls : i < j /\ NegLen(calls[i]) /\ StoresCL(calls[j]) THEN "yes" ELSE "no"

RawCookie(c) == /\ EntryTable[c.e].tgt = "req"
                /\ \/ Cls(c) = "reqcookie" /\ \E j \in DOMAIN c.a : HasCRLF(c.a[j])
                   \/ IsKV(c) /\ c.a[1] = NCookie /\ HasCRLF(c.a[2])
RawSink(calls) == IF \E i \in DOMAIN calls : RawCookie(calls[i]) THEN "reqcookie" ELSE "none"

\* emptytrailer = "yes" marks programs that hand an empty trailer name to trailer.go:IsBadTrailer (which indexes
\* key[0]): Trailer.Set/Add/UpdateArgBytes("", v), or a Trailer name list with an element that is empty after
\* trimming spaces (SetTrailers, or Set/Add("Trailer", list) through setSpecialHeader).  Known finding
\* C05-trailer-emptyname-panic.
NoSP(s) == SelectSeq(s, LAMBDA b : b # SP)
EmptyElem(list) == list # << >> /\ \E i \in DOMAIN Pieces(list, COMMA) : NoSP(Pieces(list, COMMA)[i]) = << >>
EmptyTrailerName(c) == \/ Cls(c) = "trailer" /\ c.a[1] = << >>
                       \/ Cls(c) = "trailers" /\ EmptyElem(c.a[1])
                       \/ IsKV(c) /\ c.e \notin RawKV /\ c.a[1] = NTrailer /\ EmptyElem(c.a[2])
EmptyTrailer(calls) == IF \E i \in DOMAIN calls : EmptyTrailerName(calls[i]) THEN "yes" ELSE "no"

Progs(S, body) == SetToSeq({[tgt |-> EntryTable[p[1].e].tgt, body |-> body, calls |-> p, rawsink |-> RawSink(p),
                            emptytrailer |-> EmptyTrailer(p), connconflict |-> ConnConflict(p),
                            framingconflict |-> FramingConflict(p)] : p \in S})
TgtSeq == <<"req", "resp", "ctx">>
RECURSIVE Cat(_)
Cat(ss) == IF ss = << >> THEN << >> ELSE ss[1] \o Cat(Tail(ss))
SeqSingles  == Progs(Benigns, "stream") \o Progs(SinglesOf("n"), "stream") \o Progs(SinglesOf("v"), "stream")
               \o Progs(LetterSingles, "stream")
SeqSpecials == Cat([k \in 1 .. 3 |-> Progs(SpecialsOf(TgtSeq[k]), "stream")])
SeqPairs    == Cat([k \in 1 .. 3 |-> Progs(PairsHB(TgtSeq[k]), "stream") \o Progs(PairsBH(TgtSeq[k]), "stream")
                                      \o Progs(PairsHH(TgtSeq[k]), "stream")])
SeqNoBody   == Progs(NoBodyOf("n"), "none") \o Progs(NoBodyOf("v"), "none")
SeqDups     == Cat([k \in 1 .. 3 |-> Progs(DupPairs(TgtSeq[k]), "stream") \o Progs(DupPairs(TgtSeq[k]), "none")])
AllProgs == SeqSingles \o SeqSpecials \o SeqPairs \o SeqNoBody \o SeqDups
Cases == [i \in DOMAIN AllProgs |-> [id |-> i, tgt |-> AllProgs[i].tgt, body |-> AllProgs[i].body,
                                     calls |-> AllProgs[i].calls, rawsink |-> AllProgs[i].rawsink,
                                     emptytrailer |-> AllProgs[i].emptytrailer, connconflict |-> AllProgs[i].connconflict,
                                     framingconflict |-> AllProgs[i].framingconflict]]

ASSUME \A i \in DOMAIN AllProgs : \A j \in DOMAIN AllProgs[i].calls : WellFormedCall(AllProgs[i].calls[j])
ASSUME ndJsonSerialize(IOEnv.VERIF_OUT, Cases)
ASSUME PrintT(<<"@@GEN", Len(SeqSingles), Len(SeqSpecials), Len(SeqPairs), Len(SeqNoBody), Len(SeqDups)>>)

GenInit == side = "req" /\ prog = << >> /\ store = << >> /\ tstore = << >> /\ phase = "done" /\ obs = "none" /\ out = << >>
GenNext == UNCHANGED vars
=============================================================================
