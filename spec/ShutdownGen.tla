---------------------------- MODULE ShutdownGen ----------------------------
(***************************************************************************)
(* Case generator for C18: the SCHEDULE CLASSES the driver forces on a     *)
(* real server.Hertz over loopback TCP, one ndjson line per schedule.      *)
(*                                                                         *)
(*  cls "run"    a server is run; conns[i] is the kind of connection i     *)
(*               (Shutdown!ConnKinds: which phase of a request meets the   *)
(*               status flip / the listener close / the return), hooks the *)
(*               OnShutdown hooks (hook 1 is the driver's fast signal      *)
(*               hook; "slow" = 2/3 wait, "beyond" = wait + Slack(wait) +  *)
(*               500 ms, ignoring its context: well beyond the bound on    *)
(*               the return; such schedules use the short BeyondWait;      *)
(*               schedules with slow hooks use SlowWait so that a slow     *)
(*               hook lasts 200 ms: two of them do not fit into the exit   *)
(*               wait time one after the other; slow / beyond hooks are    *)
(*               also registered BEFORE fast ones),                        *)
(*               second =                                                  *)
(*               when a second Shutdown call is made ("during": after the  *)
(*               first is known to have begun; "after": after it returned; *)
(*               "closed": after Run returned; "race": together with the   *)
(*               first), waitMs = ExitWaitTimeout, idleMs = IdleTimeout    *)
(*               (0 = default), jit = 1: seeded random delays (0..8 ms)    *)
(*               before every driver action and kind "rR" connections      *)
(*               (requests in a loop with seeded random handler times,     *)
(*               no gates)                                                 *)
(*  cls "notRun" Shutdown (twice) of a server that was never run           *)
(*  cls "raceN"  `trials` rounds of 4 Shutdown calls released together by  *)
(*               a spin barrier on an engine that is running (every CAS    *)
(*               loser must report an error)                               *)
(*                                                                         *)
(* Families (every transport): all single kinds; unordered pairs (all when *)
(* PairMod = 1, else the seeded 1/PairMod sample); NTriple seeded triples  *)
(* plus the canonical busy / idle keep-alive / mid-request triple; hook    *)
(* sets x {no connection, bA, bL, iK, cL}; second caller x {bA, bL, iK+bA}; *)
(* NRand seeded random-timing schedules.  Seed = IOEnv.VERIF_SEED.         *)
(***************************************************************************)
EXTENDS Shutdown, Json, IOUtils, SequencesExt

CONSTANTS PairMod, NTriple, HookMod, SecondMod, NRand, Waits, LongWaits, Idles, Trials, BeyondWait, SlowWait

Seed == atoi(IOEnv.VERIF_SEED)

\* values for the sequence-valued constants (a cfg file cannot write tuples): Waits <- WaitsQuick etc.
WaitsQuick == <<150, 300>>
WaitsThorough == <<200, 500, 300>>
LongNone == << >>
LongThorough == <<2000, 2000, 3000, 2500, 2000, 3000>>
IdlesQuick == <<0, 0, 0, 60>>
IdlesThorough == <<0, 0, 60, 0>>

K == <<"sB", "iK", "iR", "bA", "bL", "mR", "fR", "bW", "dD", "aL", "cL", "bH", "rR">>
ASSUME {K[i] : i \in DOMAIN K} = ConnKinds
NF == 12
Forced == 1 .. NF                       \* index of the gate-forced kinds (everything but rR)
TP == <<"standard", "netpoll">>

H(x) == (x * 75 + 74) % 65537           \* small integer hash (every intermediate < 2^31)
Pick(s, x) == s[(x % Len(s)) + 1]

Blank == [id |-> 0, cls |-> "run", tp |-> "standard", waitMs |-> 0, idleMs |-> 0, conns |-> << >>,
          hooks |-> <<"fast">>, second |-> "none", jit |-> 0, seed |-> 0, trials |-> 0]

\* the OnAccept callback of the netpoll transport runs inside the poller: it is gated on the standard transport only
ForTransport(tp, conns) == [i \in DOMAIN conns |-> IF tp = "netpoll" /\ conns[i] = "aL" THEN "cL" ELSE conns[i]]
HasBeyond(hooks) == \E i \in DOMAIN hooks : hooks[i] = "beyond"
HasSlow(hooks) == \E i \in DOMAIN hooks : hooks[i] = "slow"
RunCase(tp, conns, hooks, second, x) ==
    [Blank EXCEPT !.tp = tp, !.conns = ForTransport(tp, conns), !.hooks = hooks, !.second = second,
                  !.waitMs = IF HasBeyond(hooks) THEN BeyondWait ELSE IF HasSlow(hooks) THEN SlowWait ELSE Pick(Waits, H(x + Seed)), !.idleMs = Pick(Idles, H(x + 3 * Seed + 1) \div 7), !.seed = H(x + Seed * 131)]

Singles(tp) == [i \in 1 .. Len(K) |-> [RunCase(tp, <<K[i]>>, <<"fast">>, "none", i) EXCEPT !.jit = IF K[i] = "rR" THEN 1 ELSE 0]]

PairIdx == {p \in Forced \X Forced : p[1] <= p[2] /\ (p[1] * 31 + p[2] * 17 + Seed * 7) % PairMod = 0}
Pairs(tp) == SetToSeq({RunCase(tp, <<K[p[1]], K[p[2]]>>, <<"fast">>, "none", p[1] * 11 + p[2]) : p \in PairIdx})

Triples(tp) ==
    <<RunCase(tp, <<"bA", "iK", "mR">>, <<"fast">>, "none", 1), RunCase(tp, <<"bL", "iR", "mR">>, <<"fast", "slow">>, "none", 2)>> \o
    [t \in 1 .. NTriple |->
       LET a == H(t + Seed * 131) b == H(a + t) c == H(b + 3 * t)
       IN  RunCase(tp, <<K[(a % NF) + 1], K[(b % NF) + 1], K[(c % NF) + 1]>>, <<"fast">>, "none", a + b + c)]

HookSets == <<<<"fast", "slow">>, <<"fast", "beyond">>, <<"fast", "slow", "beyond">>, <<"fast", "fast", "slow">>,
              <<"fast", "beyond", "fast">>, <<"fast", "slow", "slow", "fast">>, <<"fast", "beyond", "slow", "fast">>>>
HookConns == << << >>, <<"bA">>, <<"bL">>, <<"iK">>, <<"cL">> >>
HookCases(tp) ==
    LET idx == {p \in (1 .. Len(HookSets)) \X (1 .. Len(HookConns)) :
                  (p[1] * 5 + p[2] * 3 + Seed) % HookMod = 0 \/ p = <<2, 2>> \/ p = <<3, 1>> \/ p = <<2, 3>> \/ p = <<2, 1>>
                  \/ p = <<5, 1>> \/ p = <<5, 2>> \/ p = <<6, 1>> \/ p = <<6, 4>> \/ p = <<7, 2>>}
    IN  SetToSeq({RunCase(tp, HookConns[p[2]], HookSets[p[1]], "none", p[1] * 7 + p[2]) : p \in idx})

Seconds == <<"during", "after", "closed", "race">>
SecondConns == << <<"bA">>, <<"bL">>, <<"iK", "bA">> >>
SecondCases(tp) ==
    LET idx == {p \in (1 .. Len(Seconds)) \X (1 .. Len(SecondConns)) : p[2] = 1 \/ (p[1] * 5 + p[2] * 3 + Seed) % SecondMod = 0}
    IN  SetToSeq({RunCase(tp, SecondConns[p[2]], IF p[1] = 2 THEN <<"fast", "slow">> ELSE <<"fast">>, Seconds[p[1]], p[1] * 13 + p[2]) : p \in idx})

\* seeded random timings: 1..3 connections, mostly rR, sometimes mixed with a forced kind; random delays everywhere
RandCases(tp) ==
    [t \in 1 .. NRand |->
       LET a == H(t * 7 + Seed * 977) b == H(a + 1) c == H(b + 1)
           n == (a % 3) + 1
           kind(x) == IF x % 4 = 0 THEN K[(((x \div 4) % NF)) + 1] ELSE "rR"
       IN  [RunCase(tp, [i \in 1 .. n |-> kind(H(a + i * 19))], Pick(HookSets, b \div 5), Pick(<<"none", "none", "during", "race">>, c \div 3), a)
              EXCEPT !.jit = 1]]

\* the same schedules with a long exit wait time
LongCases(tp) ==
    [i \in 1 .. Len(LongWaits) |->
       [RunCase(tp, Pick(<< <<"bL">>, <<"iK", "bA">>, <<"mR">>, <<"bA", "fR">> >>, i + Seed), <<"fast", "slow">>, "none", i) EXCEPT !.waitMs = LongWaits[i]]]

Special(tp) == << [Blank EXCEPT !.cls = "notRun", !.tp = tp, !.waitMs = Waits[1], !.second = "after"],
                  [Blank EXCEPT !.cls = "raceN", !.tp = tp, !.waitMs = 50, !.trials = Trials, !.second = "race"] >>

ForTp(tp) == Singles(tp) \o Pairs(tp) \o Triples(tp) \o HookCases(tp) \o SecondCases(tp) \o RandCases(tp) \o LongCases(tp) \o Special(tp)
All == ForTp("standard") \o ForTp("netpoll")

ASSUME \A i \in DOMAIN All : /\ All[i].tp \in Transports /\ All[i].second \in SecondKinds
                             /\ \A j \in DOMAIN All[i].conns : All[i].conns[j] \in ConnKinds
                             /\ \A j \in DOMAIN All[i].hooks : All[i].hooks[j] \in HookKinds
                             /\ Len(All[i].conns) <= 3 /\ All[i].hooks[1] = "fast"
ASSUME ndJsonSerialize(IOEnv.VERIF_OUT, [i \in 1 .. Len(All) |-> [All[i] EXCEPT !.id = i]])

GenInit == Init
GenNext == UNCHANGED vars
=============================================================================
