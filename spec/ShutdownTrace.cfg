CONSTANTS
  Conns = {c1}
  Callers = {k1}
  Hooks = {h1}
  BeyondHooks = {}
  MaxReq = 1
  Transport = "standard"
  ServerRun = TRUE
  CasLoserErrors = TRUE
  ExitCheckAfterHandler = TRUE
  HooksConcurrent = TRUE
  CountAtAccept = TRUE
INIT TraceInit
NEXT TraceNext
INVARIANTS Report
