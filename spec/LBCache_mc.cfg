\* exhaustive: 2 keys, 2 callers x 2 calls, results with 0..2 instances or an error, 3 versions, 2 watcher ticks,
\* 2 refresh ticks, every interleaving at the granularity of the code
CONSTANTS
  Keys = {"A", "B"}
  Callers = {c1, c2}
  Counts = {0, 2}
  CanFail = TRUE
  MaxRes = 3
  MaxCalls = 2
  MaxWTicks = 2
  MaxRTicks = 1
  RefreshResets = FALSE
SPECIFICATION Spec
SYMMETRY Symm
INVARIANTS TypeOK SingleFlight OwnKey FreshPick EmptyIsError MarkedUnused
PROPERTIES DeleteTwoPhase PublishAfterRebalance FailKeeps RefreshScope
