\* quick exhaustive configuration: 2 keys, 2 callers x 1 call, results with 0 or 2 instances or an error, 3 result
\* versions, 2 watcher ticks, 1 refresh tick, every interleaving (out is a function of the step: hidden by VIEW)
CONSTANTS
  Keys = {"A", "B"}
  Callers = {c1, c2}
  Counts = {0, 2}
  CanFail = TRUE
  MaxRes = 3
  MaxCalls = 1
  MaxWTicks = 2
  MaxRTicks = 1
  RefreshResets = FALSE
SPECIFICATION Spec
SYMMETRY Symm
VIEW View
INVARIANTS TypeOK SingleFlight OwnKey FreshPick EmptyIsError MarkedUnused
PROPERTIES DeleteTwoPhase PublishAfterRebalance FailKeeps RefreshScope
