CONSTANTS
  GetPats = {"/", "/a", "/a/", "/:x", "/:y/", "/a:x", "/*w", "/a/*w", "/a/:x", "/a/:y", "/:x/b", "/a:y/b", "/a/:"}
  PostPats = {"/a", "/:z"}
  Paths = {"/", "/a", "/a/", "/ab", "/b/", "/a/b", "/a/a", "/a/b/", "/b/b", "/ab/b", "/a/b/c", "/b/a/b", "/a//b", "/a/%41"}
  MaxRoutes = 4
SPECIFICATION Spec
INVARIANTS TypeOK AcceptedSetsOnly PriorityRule ParamsAreSubstrings NoMatchNoHandler OrderIndependent
