---------------------------- MODULE CtxLifecycle ----------------------------
(***************************************************************************)
(* C09 -- a recycled context, request or response is indistinguishable     *)
(* from a fresh one.                                                       *)
(*                                                                         *)
(* Pooled objects: Ctx (app.RequestContext with its embedded Request and   *)
(* Response, engine.ctxPool) and the stand-alone Request, Response, URI,   *)
(* Cookie (protocol.AcquireX / ReleaseX) and Args (no pool: Reset()).       *)
(*                                                                         *)
(* The observable state of an object is abstracted to, per component of    *)
(* the explicit list Obs (what harness/drivers/c09/dump.go reads through   *)
(* public getters), whether the component may still carry data of an       *)
(* EARLIER use of the object:                                              *)
(*    cur   components written during the current request / use            *)
(*    stale components written during an earlier request / use and not     *)
(*          reset since                                                    *)
(* A mutator m adds Touch(m) to cur (CtxLifecycleTable: one entry per      *)
(* exported mutator of the nine types); the end of a request moves cur to  *)
(* stale and removes what the reset function clears.  The reset sets below *)
(* transcribe, function by function,                                       *)
(*   pkg/app/context.go       RequestContext.ResetWithoutConn / Reset      *)
(*   pkg/protocol/request.go  Request.ResetWithoutConn / Reset /           *)
(*                            ResetSkipHeader / resetSkipHeaderAndConn /   *)
(*                            ResetBody / RemoveMultipartFormFiles         *)
(*   pkg/protocol/response.go Response.Reset / ResetBody                   *)
(*   pkg/protocol/header.go   RequestHeader.Reset / ResetSkipNormalize,    *)
(*                            ResponseHeader.Reset / ResetSkipNormalize    *)
(*   pkg/protocol/uri.go URI.Reset, args.go Args.Reset, cookie.go          *)
(*   Cookie.Reset, trailer.go Trailer.Reset / ResetSkipNormalize           *)
(* and the per-connection / per-request assignments of                     *)
(*   pkg/protocol/http1/server.go Server.Serve (get/putRequestContext,     *)
(*   HTMLRender/conn/isTLS/enableTrace at the start of a connection,       *)
(*   noDefaultDate/noDefaultContentType before every request,              *)
(*   SetHijackHandler(nil) after every handler, IsExiled before Put).      *)
(*                                                                         *)
(* Property: FreshAtProbe -- whenever a request (or a caller of AcquireX)  *)
(* looks at the object, every component that is not in Kept is fresh.      *)
(* Kept = what the property lists as deliberately connection / pool        *)
(* scoped: conn, isTLS, HTMLRender, enableTrace, the trace-info object and *)
(* its level, client-IP and form-value functions, and the exile mark       *)
(* (an exiled context is never pooled; its only reader is the end of the   *)
(* connection).                                                            *)
(*                                                                         *)
(* HeaderLengthFix: the unchanged tree does not clear                      *)
(* ResponseHeader.headerLength in any reset function (genuine defect,      *)
(* known/C09.json).  TRUE models the proposed one-line repair              *)
(* (h.headerLength = 0 in ResponseHeader.ResetSkipNormalize); with FALSE   *)
(* TLC finds the violation (CtxLifecycle_asis.cfg, expected to fail).      *)
(* Drop: components removed from every reset set (negative configuration,  *)
(* CtxLifecycle_neg.cfg, expected to fail): the invariant is not vacuous.  *)
(*                                                                         *)
(* Deliberately unconstrained: capacities of retained buffers, pointer     *)
(* identity, unexported scratch space (bufKV, mulHeader, Args.buf,         *)
(* fullURI/requestURI scratch), which pooled object a Get returns, whether *)
(* sync.Pool returns a released object at all.                             *)
(***************************************************************************)
EXTENDS Integers, Sequences, FiniteSets, TLC, CtxLifecycleTable

CONSTANTS Slots,            \* connection slots / callers that hold at most one object at a time
          Objs,             \* object identities
          MaxReq,           \* requests served per Serve call (keep-alive)
          MaxMut,           \* mutator steps per behaviour
          Drop,             \* components removed from every reset set ({} = the code as designed)
          HeaderLengthFix   \* TRUE: ResponseHeader.ResetSkipNormalize also clears headerLength (proposed repair)

P(p, S) == {p \o s : s \in S}

-----------------------------------------------------------------------------
(* Observable components (names = keys of the driver's dump) *)

ReqHFields == P("req.h.", {"method", "requestURI", "host", "contentType", "userAgent", "contentLength", "protocol",
                           "connectionClose", "disableNormalizing", "rawHeaders", "cookies", "custom", "trailer",
                           "noDefaultContentType"})
ReqHViews  == {"req.h.all", "req.h.bytes"}                 \* VisitAll / serialised form: views of the fields
URIFields  == P("req.uri.", {"scheme", "host", "path", "pathOriginal", "queryString", "hash", "username", "password",
                             "disablePathNormalizing", "queryArgs"})
URIViews   == {"req.uri.full"}
ReqMP      == P("req.mp.", {"boundary", "files", "fields", "flags", "form"})
ReqBody    == {"req.body", "req.bodyBytes", "req.bodyStream.is"}
ReqPost    == {"req.postArgs", "req.postArgString"}
ReqOther   == {"req.options", "req.isTLS", "req.parsedURI"}
ReqViews   == {"req.derived", "req.basicAuth"}
ReqObs     == ReqHFields \cup ReqHViews \cup URIFields \cup URIViews \cup ReqMP \cup ReqBody \cup ReqPost \cup ReqOther \cup ReqViews

RespHFields == P("resp.h.", {"status", "contentType", "contentLength", "contentEncoding", "server", "connectionClose",
                             "protocol", "noDefaultContentType", "noDefaultDate", "disableNormalizing", "headerLength",
                             "cookies", "custom", "trailer"})
RespHViews  == {"resp.h.all", "resp.h.bytes"}
RespBody    == {"resp.body", "resp.bodyBytes", "resp.bodyStream.is", "resp.hijack"}
RespFlags   == {"resp.skipBody", "resp.immediateHeaderFlush", "resp.hijackWriter", "resp.addrs"}
RespViews   == {"resp.derived"}
RespObs     == RespHFields \cup RespHViews \cup RespBody \cup RespFlags \cup RespViews

CtxOwn     == P("ctx.", {"params", "keys", "errors", "handlers", "index", "fullPath", "finished", "hijackHandler"})
CtxScoped  == P("ctx.", {"conn", "htmlRender", "enableTrace", "exiled", "traceInfo", "clientIPFunc", "formValueFunc"})
CtxViews   == {"ctx.derived", "wire"}                      \* shortcut getters; the probe's response on the wire
TraceStats == P("trace.", {"sendSize", "recvSize", "error", "panicked", "events"})
CtxObs     == CtxOwn \cup CtxScoped \cup CtxViews \cup TraceStats \cup {"trace.level"} \cup ReqObs \cup RespObs

CookieObs  == P("cookie.", {"key", "value", "expire", "maxAge", "domain", "path", "flags", "bytes"})
ArgsObs    == {"args.all", "args.str"}

Kinds == {"Ctx", "Request", "Response", "URI", "Cookie", "Args"}
ObsOf(k) == CASE k = "Ctx" -> CtxObs [] k = "Request" -> ReqObs [] k = "Response" -> RespObs
              [] k = "URI" -> URIFields \cup URIViews [] k = "Cookie" -> CookieObs [] k = "Args" -> ArgsObs
Obs == UNION {ObsOf(k) : k \in Kinds}

(* connection- / pool-scoped components the property lists as deliberately kept *)
Kept == CtxScoped \cup {"req.isTLS", "trace.level"}
(* views that legitimately differ when a kept component differs *)
DependsOn(c) == IF c = "req.isTLS" THEN {"req.uri.scheme", "req.uri.full"} ELSE {}

-----------------------------------------------------------------------------
(* Families: the granularity of the Touch table *)

FamilyTable ==
     "req.h"     :> (ReqHFields \cup ReqHViews \cup ReqViews \cup {"req.parsedURI", "ctx.derived"})
  @@ "req.uri"   :> (URIFields \cup URIViews \cup {"req.derived", "req.parsedURI", "ctx.derived"})
  @@ "req.body"  :> (ReqBody \cup {"req.parsedURI", "ctx.derived"})
  @@ "req.mp"    :> (ReqMP \cup {"req.parsedURI", "req.body", "ctx.derived"})
  @@ "req.post"  :> (ReqPost \cup {"req.parsedURI", "ctx.derived"})
  @@ "req.options" :> {"req.options", "req.parsedURI"}
  @@ "req.isTLS" :> {"req.isTLS", "req.parsedURI"}
  @@ "resp.h"    :> (RespHFields \cup RespHViews \cup RespViews \cup {"wire"})
  @@ "resp.body" :> (RespBody \cup {"wire"})
  @@ "trace"     :> TraceStats
  @@ "cookie"    :> CookieObs
  @@ "args"      :> ArgsObs
Fam(f) == IF f \in DOMAIN FamilyTable THEN FamilyTable[f] ELSE {f}

Mutators == DOMAIN MutTable
Touch(m) == UNION {Fam(f) : f \in MutTable[m].fam}
MutsOf(k) == {m \in Mutators : k \in MutTable[m].kinds}

ASSUME \A m \in Mutators : Touch(m) \subseteq Obs /\ MutTable[m].kinds \subseteq Kinds
ASSUME \A m \in Mutators : \A k \in MutTable[m].kinds : Touch(m) \cap ObsOf(k) # {} \/ Touch(m) = {}

-----------------------------------------------------------------------------
(* Reset sets, one operator per reset function of the code.  "views" are recomputed from the fields that were reset. *)

R_Trailer(p)            == {p \o "trailer"}                                     \* Trailer.ResetSkipNormalize: t.h
R_ReqHeader_SkipNorm    == P("req.h.", {"connectionClose", "protocol", "noDefaultContentType", "contentLength", "method",
                                        "requestURI", "host", "contentType", "userAgent", "custom", "cookies", "rawHeaders"})
                           \cup R_Trailer("req.h.")                             \* RequestHeader.ResetSkipNormalize
R_ReqHeader             == {"req.h.disableNormalizing"} \cup R_ReqHeader_SkipNorm \cup ReqHViews   \* RequestHeader.Reset
R_URI                   == URIFields \cup URIViews                              \* URI.Reset (every part, queryArgs.Reset, flags)
R_PostArgs              == ReqPost                                              \* Args.Reset + parsedPostArgs
R_Req_RemoveMultipart   == ReqMP                                                \* Request.RemoveMultipartFormFiles
R_Req_ResetBody         == ReqBody \cup R_Req_RemoveMultipart                   \* Request.ResetBody (+CloseBodyStream)
R_Req_SkipHeaderAndConn == R_Req_ResetBody \cup R_URI \cup {"req.parsedURI"} \cup R_PostArgs   \* resetSkipHeaderAndConn
R_Req_WithoutConn       == R_ReqHeader \cup R_Req_SkipHeaderAndConn \cup {"req.bodyStream.is", "req.options"} \cup ReqViews
R_Req                   == R_Req_WithoutConn \cup {"req.isTLS"}                 \* Request.Reset (ResetSkipHeader clears isTLS)

R_RespHeader_SkipNorm   == P("resp.h.", {"protocol", "connectionClose", "status", "contentLength", "contentEncoding",
                                         "contentType", "server", "custom", "cookies"}) \cup R_Trailer("resp.h.")
                           \cup (IF HeaderLengthFix THEN {"resp.h.headerLength"} ELSE {})     \* ResponseHeader.ResetSkipNormalize
R_RespHeader            == P("resp.h.", {"disableNormalizing", "noDefaultContentType", "noDefaultDate"})
                           \cup R_RespHeader_SkipNorm \cup RespHViews           \* ResponseHeader.Reset
R_Resp_ResetBody        == RespBody                                             \* Response.ResetBody (+CloseBodyStream)
R_Resp                  == R_RespHeader \cup R_Resp_ResetBody \cup RespFlags \cup RespViews   \* Response.Reset

R_TraceInfo             == TraceStats                                           \* traceInfo.Reset (only when tracing is enabled)
R_Ctx_WithoutConn       == P("ctx.", {"params", "errors", "handlers", "index", "fullPath", "keys", "finished"})
                           \cup R_Req_WithoutConn \cup R_Resp \cup R_TraceInfo \cup CtxViews    \* RequestContext.ResetWithoutConn
R_Ctx                   == R_Ctx_WithoutConn \cup {"ctx.conn"}                  \* RequestContext.Reset

R_Cookie                == CookieObs                                            \* Cookie.Reset
R_Args                  == ArgsObs                                              \* Args.Reset

(* what handing the object back clears: ReleaseRequest/ReleaseResponse/ReleaseURI/ReleaseCookie/Args.Reset, putRequestContext *)
ReleaseSetOf == [k \in Kinds |-> (CASE k = "Ctx" -> R_Ctx [] k = "Request" -> R_Req [] k = "Response" -> R_Resp
                                     [] k = "URI" -> R_URI [] k = "Cookie" -> R_Cookie [] k = "Args" -> R_Args) \ Drop]
ReleaseSet(k) == ReleaseSetOf[k]
EndRequestSet == R_Ctx_WithoutConn \ Drop

(* the server's own assignments (http1.Server.Serve, Engine.ServeHTTP) *)
PerConnSet    == {"ctx.conn", "ctx.htmlRender", "req.isTLS", "ctx.enableTrace"}   \* at the start of Serve
PerRequestSet == {"resp.h.noDefaultDate", "resp.h.noDefaultContentType"}           \* before every ReadHeader
AfterHandlerClear == {"ctx.hijackHandler"}                                          \* ctx.SetHijackHandler(nil)
ReadTouch  == Fam("req.h") \cup Fam("req.uri") \cup Fam("req.body") \cup Fam("req.mp") \cup Fam("req.post")
              \cup P("ctx.", {"params", "handlers", "index", "fullPath"}) \cup {"trace.events", "trace.recvSize", "resp.h.server"}
WriteTouch == Fam("resp.h") \cup Fam("resp.body") \cup {"resp.skipBody", "trace.events", "trace.sendSize", "trace.error"}
(* the probe handler's dump calls lazy getters, its setter program (harness/drivers/c09/reuse.go) writes request, response
   and keys, and it writes a small response: anything that is not connection scoped *)
ProbeTouch == CtxObs \ Kept
AbortTouch == Touch("Ctx.Abort")
PanicTouch == Touch("Ctx.AbortWithStatus") \cup {"trace.panicked", "trace.error"}   \* recovery middleware: AbortWithStatus(500)

-----------------------------------------------------------------------------
VARIABLES kind,     \* object kind explored in this behaviour
          obj,      \* obj[o] = [st, stale, cur]      st: "new" | "pooled" | "held" | "gone"
          slot,     \* slot[s] = [st, o, nreq]        st: "idle" | "handler" | "done"
          nmut,     \* mutator steps so far
          seen      \* what the last Probe found stale outside Kept (history variable)
vars == <<kind, obj, slot, nmut, seen>>

FreshObj == [st |-> "new", stale |-> {}, cur |-> {}]
IdleSlot == [st |-> "idle", o |-> 0, nreq |-> 0]

Init == /\ kind \in Kinds
        /\ obj = [o \in Objs |-> FreshObj]
        /\ slot = [s \in Slots |-> IdleSlot]
        /\ nmut = 0
        /\ seen = {}

(* ---- effects on one object of kind k (shared with the trace specification) ---- *)

(* pool Get (or AcquireX): for a context the server then prepares the connection (conn, HTMLRender, isTLS,
   enableTrace) and reads the first request *)
AcqObj(k, ob) == IF k = "Ctx" THEN [st |-> "held", stale |-> ob.stale \ (PerConnSet \cup PerRequestSet), cur |-> ReadTouch]
                              ELSE [st |-> "held", stale |-> ob.stale, cur |-> {}]
(* a mutator with touch set T *)
MutObj(k, ob, T) == [ob EXCEPT !.cur = @ \cup (T \cap ObsOf(k))]
(* what a look at the object can see of earlier uses, outside Kept *)
SeenAt(ob) == ob.stale \ Kept
(* the probe handler's dump calls lazy getters *)
ProbeObj(k, ob) == [ob EXCEPT !.cur = @ \cup (IF k = "Ctx" THEN ProbeTouch ELSE {})]
(* the handler ends (extra: Abort / recovery middleware); the server clears the hijack handler and writes the response *)
FinObj(k, ob, extra) == IF k = "Ctx" THEN [ob EXCEPT !.cur = (@ \cup extra \cup WriteTouch) \ AfterHandlerClear,
                                                   !.stale = @ \ AfterHandlerClear]
                                    ELSE ob
(* keep-alive: ResetWithoutConn, then the next request is read into the same context *)
NextReqObj(ob) == [ob EXCEPT !.stale = ((@ \cup ob.cur) \ EndRequestSet) \ PerRequestSet, !.cur = ReadTouch]
(* end of the connection (Reset + Put unless exiled) / ReleaseX of a stand-alone object *)
RelObj(k, ob) == LET all == ob.stale \cup ob.cur IN
                 [st |-> IF k = "Ctx" /\ "ctx.exiled" \in all THEN "gone" ELSE "pooled", stale |-> all \ ReleaseSet(k), cur |-> {}]

(* ---- the state machine ---- *)
IsCtx == kind = "Ctx"
O(s) == obj[slot[s].o]
SetObj(s, r) == obj' = [obj EXCEPT ![slot[s].o] = r]

(* pool Get: any released object or a new one *)
Acquire(s, o) ==
  /\ slot[s].st = "idle" /\ obj[o].st \in {"new", "pooled"}
  /\ obj' = [obj EXCEPT ![o] = AcqObj(kind, obj[o])]
  /\ slot' = [slot EXCEPT ![s] = [st |-> "handler", o |-> o, nreq |-> 1]]
  /\ UNCHANGED <<kind, nmut, seen>>

(* a handler (or the caller holding a stand-alone object) applies a mutator whose touch set is T *)
Mutate(s, T) ==
  /\ slot[s].st = "handler" /\ nmut < MaxMut
  /\ SetObj(s, MutObj(kind, O(s), T))
  /\ nmut' = nmut + 1
  /\ UNCHANGED <<kind, slot, seen>>

(* the handler looks at the object: everything not in Kept must be fresh *)
Probe(s) ==
  /\ slot[s].st = "handler"
  /\ seen' = SeenAt(O(s))
  /\ SetObj(s, ProbeObj(kind, O(s)))
  /\ UNCHANGED <<kind, slot, nmut>>

(* the handler ends: returns, aborts, or panics under the recovery middleware *)
FinishHandler(s, extra) ==
  /\ slot[s].st = "handler"
  /\ SetObj(s, FinObj(kind, O(s), extra))
  /\ slot' = [slot EXCEPT ![s].st = "done"]
  /\ UNCHANGED <<kind, nmut, seen>>
Return(s)         == FinishHandler(s, {})
Abort(s)          == IsCtx /\ FinishHandler(s, AbortTouch)
PanicRecovered(s) == IsCtx /\ FinishHandler(s, PanicTouch)

EndRequest(s) ==
  /\ IsCtx /\ slot[s].st = "done" /\ slot[s].nreq < MaxReq
  /\ SetObj(s, NextReqObj(O(s)))
  /\ slot' = [slot EXCEPT ![s].st = "handler", ![s].nreq = @ + 1]
  /\ UNCHANGED <<kind, nmut, seen>>

EndConn(s) ==
  /\ slot[s].st = "done"
  /\ SetObj(s, RelObj(kind, O(s)))
  /\ slot' = [slot EXCEPT ![s] = IdleSlot]
  /\ UNCHANGED <<kind, nmut, seen>>
Release(s) == ~IsCtx /\ EndConn(s)

(* distinct touch sets per kind (constant, evaluated once): the state only records sets of components *)
TouchSetsOf == [k \in Kinds |-> {Touch(m) : m \in MutsOf(k)}]
TouchSets == TouchSetsOf[kind]

Next == \E s \in Slots :
           \/ \E o \in Objs : Acquire(s, o)
           \/ \E T \in TouchSets : Mutate(s, T)
           \/ Probe(s) \/ Return(s) \/ Abort(s) \/ PanicRecovered(s) \/ EndRequest(s) \/ EndConn(s)
Spec == Init /\ [][Next]_vars

-----------------------------------------------------------------------------
TypeOK == /\ kind \in Kinds /\ nmut \in 0 .. MaxMut
          /\ \A o \in Objs : obj[o].st \in {"new", "pooled", "held", "gone"} /\ obj[o].stale \subseteq Obs /\ obj[o].cur \subseteq Obs
          /\ \A s \in Slots : slot[s].st \in {"idle", "handler", "done"}

(* THE PROPERTY: what a request (or a caller of AcquireX) can observe of an earlier use is confined to Kept *)
FreshAtProbe == seen = {}

(* an object in a pool carries nothing of its past but Kept, and nothing at all for the stand-alone kinds *)
PoolClean == \A o \in Objs : obj[o].st = "pooled" =>
                /\ obj[o].cur = {}
                /\ obj[o].stale \subseteq (IF IsCtx THEN Kept \ {"ctx.conn", "ctx.exiled"} ELSE {})
(* exclusive use *)
Exclusive == \A s, t \in Slots : s # t /\ slot[s].o # 0 => slot[s].o # slot[t].o
ExiledNeverPooled == \A o \in Objs : obj[o].st = "pooled" => "ctx.exiled" \notin obj[o].stale

(* static form of the design argument (a constant formula, asserted below for the repaired design): every component a mutator can touch is cleared by the release of every kind it applies to, or is Kept *)
Covered == \A m \in Mutators : \A k \in MutTable[m].kinds :
              (Touch(m) \cap ObsOf(k)) \subseteq (ReleaseSet(k) \cup Kept \cup (IF k = "Ctx" THEN AfterHandlerClear ELSE {}))
ASSUME CoveredAsDesigned == Covered \/ ~HeaderLengthFix \/ Drop # {}
=============================================================================
