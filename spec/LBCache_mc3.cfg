\* quick exhaustive configuration, singleflight focus: 1 key, 3 callers x 1 call
CONSTANTS
  Keys = {"A"}
  Callers = {c1, c2, c3}
  Counts = {0, 1}
  CanFail = TRUE
  MaxRes = 2
  MaxCalls = 1
  MaxWTicks = 2
  MaxRTicks = 1
  RefreshResets = FALSE
SPECIFICATION Spec
SYMMETRY Symm
VIEW View
INVARIANTS TypeOK SingleFlight OwnKey FreshPick EmptyIsError MarkedUnused
PROPERTIES DeleteTwoPhase PublishAfterRebalance FailKeeps RefreshScope
