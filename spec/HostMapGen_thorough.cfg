CONSTANTS
  Thorough = TRUE
INIT GenInit
NEXT GenNext
