---------------------------- MODULE CtxCopyKeys ----------------------------
(***************************************************************************)
(* X06 clause 3 -- the key/value store of a RequestContext under           *)
(* concurrent use.  pkg/app/context.go: Set (mu.Lock; lazily make the map; *)
(* write; Unlock), Get (mu.RLock; read; RUnlock) and what is built on Get  *)
(* (MustGet, GetString, GetInt64, ..., Value), ForEachKey (RLock; call fn  *)
(* for every entry; RUnlock), Copy (RLock; copy every entry; RUnlock).     *)
(*                                                                         *)
(* One writer performs, for n = 1 .. N:   Set(a, n); Set(b, n)             *)
(* publishing  started = n  before and  completed = n  after the pair (the *)
(* driver's atomic counters).  A map write is two steps (the map is        *)
(* inconsistent in between: value -1).  Readers perform Get(a), Get(b) or  *)
(* a snapshot (ForEachKey / Copy: read a, then b, in two steps), noting    *)
(* lo = completed before and hi = started after the operation.             *)
(*                                                                         *)
(* Properties (checked on every finished read; the same predicates judge   *)
(* the recorded events KGet / KSnap / KFinal in CtxCopyTrace.tla):         *)
(*   Linearizable   lo <= value <= hi: the value read is one the key held  *)
(*                  at some moment between invocation and response         *)
(*   NoTornRead     no read meets the map in the middle of a write         *)
(*   Snapshot       a snapshot shows a state the store was in at one       *)
(*                  moment: b <= a <= b + 1                                *)
(* Locked = FALSE (CtxCopyKeys_neg.cfg, expected to fail) drops the        *)
(* RWMutex: the properties are not vacuous.                                *)
(***************************************************************************)
EXTENDS Integers, FiniteSets, TLC, CtxCopyKeysPred

CONSTANTS N, Readers, MaxOps, Locked

VARIABLES ka, kb,             \* values under the two keys (0: absent, -1: being written)
          wpc, wn,            \* writer: program counter, current n
          started, completed, \* the writer's published counters
          wlock, rlock,       \* RWMutex: writer holds it / set of readers holding it
          rpc, rop, nops,     \* reader: program counter, operation, operations done
          lo, hi, va, vb      \* reader: noted counters and values read
vars == <<ka, kb, wpc, wn, started, completed, wlock, rlock, rpc, rop, nops, lo, hi, va, vb>>

Ops == {"getA", "getB", "snap"}

Init == /\ ka = 0 /\ kb = 0 /\ wpc = "begin" /\ wn = 1 /\ started = 0 /\ completed = 0
        /\ wlock = FALSE /\ rlock = {}
        /\ rpc = [r \in Readers |-> "idle"] /\ rop = [r \in Readers |-> "getA"] /\ nops = [r \in Readers |-> 0]
        /\ lo = [r \in Readers |-> 0] /\ hi = [r \in Readers |-> 0] /\ va = [r \in Readers |-> 0] /\ vb = [r \in Readers |-> 0]

CanLock  == ~Locked \/ (~wlock /\ rlock = {})
CanRLock == ~Locked \/ ~wlock

WStep(from, to) == wpc = from /\ wpc' = to
RUnch == UNCHANGED <<rpc, rop, nops, lo, hi, va, vb>>

Writer ==
  \/ WStep("begin", "lockA") /\ wn <= N /\ started' = wn /\ UNCHANGED <<ka, kb, wn, completed, wlock, rlock>> /\ RUnch
  \/ WStep("lockA", "tearA") /\ CanLock /\ wlock' = TRUE /\ UNCHANGED <<ka, kb, wn, started, completed, rlock>> /\ RUnch
  \/ WStep("tearA", "writeA") /\ ka' = -1 /\ UNCHANGED <<kb, wn, started, completed, wlock, rlock>> /\ RUnch
  \/ WStep("writeA", "unlockA") /\ ka' = wn /\ UNCHANGED <<kb, wn, started, completed, wlock, rlock>> /\ RUnch
  \/ WStep("unlockA", "lockB") /\ wlock' = FALSE /\ UNCHANGED <<ka, kb, wn, started, completed, rlock>> /\ RUnch
  \/ WStep("lockB", "tearB") /\ CanLock /\ wlock' = TRUE /\ UNCHANGED <<ka, kb, wn, started, completed, rlock>> /\ RUnch
  \/ WStep("tearB", "writeB") /\ kb' = -1 /\ UNCHANGED <<ka, wn, started, completed, wlock, rlock>> /\ RUnch
  \/ WStep("writeB", "unlockB") /\ kb' = wn /\ UNCHANGED <<ka, wn, started, completed, wlock, rlock>> /\ RUnch
  \/ WStep("unlockB", "publish") /\ wlock' = FALSE /\ UNCHANGED <<ka, kb, wn, started, completed, rlock>> /\ RUnch
  \/ WStep("publish", "begin") /\ completed' = wn /\ wn' = wn + 1 /\ UNCHANGED <<ka, kb, started, wlock, rlock>> /\ RUnch

RStep(r, from, to) == rpc[r] = from /\ rpc' = [rpc EXCEPT ![r] = to]
WUnch == UNCHANGED <<ka, kb, wpc, wn, started, completed, wlock>>

Reader(r) ==
  \/ /\ RStep(r, "idle", "rlock") /\ nops[r] < MaxOps
     /\ \E o \in Ops : rop' = [rop EXCEPT ![r] = o]
     /\ lo' = [lo EXCEPT ![r] = completed] /\ nops' = [nops EXCEPT ![r] = @ + 1]
     /\ UNCHANGED <<rlock, hi, va, vb>> /\ WUnch
  \/ /\ RStep(r, "rlock", "read1") /\ CanRLock /\ rlock' = rlock \cup {r}
     /\ UNCHANGED <<rop, nops, lo, hi, va, vb>> /\ WUnch
  \/ /\ RStep(r, "read1", IF rop[r] = "snap" THEN "read2" ELSE "runlock")
     /\ IF rop[r] = "getB" THEN vb' = [vb EXCEPT ![r] = kb] /\ va' = va ELSE va' = [va EXCEPT ![r] = ka] /\ vb' = vb
     /\ UNCHANGED <<rop, nops, lo, hi, rlock>> /\ WUnch
  \/ /\ RStep(r, "read2", "runlock") /\ vb' = [vb EXCEPT ![r] = kb]
     /\ UNCHANGED <<rop, nops, lo, hi, va, rlock>> /\ WUnch
  \/ /\ RStep(r, "runlock", "response") /\ rlock' = rlock \ {r}
     /\ UNCHANGED <<rop, nops, lo, hi, va, vb>> /\ WUnch
  \/ /\ RStep(r, "response", "check") /\ hi' = [hi EXCEPT ![r] = started]
     /\ UNCHANGED <<rop, nops, lo, va, vb, rlock>> /\ WUnch
  \/ /\ RStep(r, "check", "idle")
     /\ UNCHANGED <<rop, nops, lo, hi, va, vb, rlock>> /\ WUnch

Next == Writer \/ \E r \in Readers : Reader(r)
Spec == Init /\ [][Next]_vars

-----------------------------------------------------------------------------
(* the predicates InInterval / PairOK: CtxCopyKeysPred.tla (shared with the trace specification) *)
Done(r) == rpc[r] = "check"
Linearizable == \A r \in Readers : Done(r) =>
                   /\ rop[r] = "getA" => InInterval(va[r], lo[r], hi[r])
                   /\ rop[r] = "getB" => InInterval(vb[r], lo[r], hi[r])
NoTornRead   == \A r \in Readers : Done(r) => va[r] # -1 /\ vb[r] # -1
Snapshot     == \A r \in Readers : (Done(r) /\ rop[r] = "snap") => PairOK(va[r], vb[r], lo[r], hi[r])
MutexOK      == Locked => (wlock => rlock = {})
TypeOK       == ka \in -1 .. N /\ kb \in -1 .. N /\ wn \in 1 .. N + 1 /\ started \in 0 .. N /\ completed \in 0 .. N
=============================================================================
