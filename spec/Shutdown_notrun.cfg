\* Shutdown of a server that is never run
CONSTANTS
  Conns = {c1, c2}
  Callers = {k1, k2}
  Hooks = {h1}
  BeyondHooks = {h1}
  MaxReq = 1
  Transport = "standard"
  ServerRun = FALSE
  CasLoserErrors = TRUE
  ExitCheckAfterHandler = TRUE
  HooksConcurrent = TRUE
  CountAtAccept = TRUE
SYMMETRY Sym
SPECIFICATION Spec
INVARIANTS TypeOK ActiveCount ObligationsHold SecondShutdownErrors NotRunningErrors NoAcceptAfterClose HooksStartedAtReturn HooksAwaited InFlightAwaited AcceptedAwaited CloseAnnounced InFlightCompleted EndOK
