-------------------------- MODULE HzRouterGenTrace --------------------------
(***************************************************************************)
(* Trace validation for C16.  One recorded case =                          *)
(*   Case{id, opts, methods, feat}                                         *)
(*   Direct{outcome}      the DECLARED set registered directly on a real   *)
(*                        hertz engine (reference; "panic" = hertz itself  *)
(*                        refuses the set => nothing is demanded)          *)
(*   Generated{outcome}   generator.HttpPackageGenerator.Generate + format *)
(*   Compiled{outcome}    go vet + go build of the generated packages      *)
(*   Registered{outcome}  GeneratedRegister(h) on a server.Hertz           *)
(*   Route{verb, path, served, direct, log}   one per Engine.Routes()      *)
(*                        entry, with the functions that ran for one       *)
(*                        request to that route, in order                  *)
(*   End                                                                   *)
(* For a declaration hertz accepts, the only behaviour of the              *)
(* specification is: generated ok, compiled ok, registered ok, then Route  *)
(* events in ANY order, each meeting RouteOK, together covering            *)
(* Expected(decl) exactly.                                                 *)
(***************************************************************************)
EXTENDS HzRouterGen, Json, IOUtils

Trace == ndJsonDeserialize(IOEnv.VERIF_TRACE)

VARIABLES l, bad,
          active,    \* a case is being validated
          c,         \* the Case record
          judged,    \* the reference engine accepted the declared set
          step,      \* "direct" | "generated" | "compiled" | "registered" | "routes" | "end"
          seen,      \* (verb, path) pairs registered so far
          fn         \* (middleware function name, slot) pairs observed so far
tvars == <<vars, l, bad, active, c, judged, step, seen, fn>>

Line == Trace[l]
NoCase == [id |-> 0]

\* the model variables of HzRouterGen are not used by trace validation
Idle == UNCHANGED vars

TraceInit == /\ decl = << >> /\ opts = [sort |-> FALSE, snake |-> FALSE, byMethod |-> FALSE]
             /\ nodes = << >> /\ done = 0 /\ phase = "trace" /\ reg = {}
             /\ l = 1 /\ bad = << >> /\ active = FALSE /\ c = NoCase /\ judged = FALSE /\ step = "end"
             /\ seen = {} /\ fn = {}

At(ev) == active /\ l <= Len(Trace) /\ Line.ev = ev
Adv == l' = l + 1 /\ UNCHANGED bad /\ Idle

TraceCase == /\ ~active /\ l <= Len(Trace) /\ Line.ev = "Case"
             /\ WellFormed(Line.methods)
             /\ \A i \in DOMAIN Line.methods : Line.methods[i].verb \in AnyVerbs \cup {"Any"}
             /\ active' = TRUE /\ c' = Line /\ judged' = FALSE /\ step' = "direct" /\ seen' = {} /\ fn' = {}
             /\ Adv

\* the reference: hertz accepts the declared set iff the specification calls it Legal
TraceDirect == /\ At("Direct") /\ step = "direct"
               /\ Line.outcome \in {"ok", "panic"}
               /\ Line.outcome = "ok" => Legal(c.methods)
               /\ judged' = (Line.outcome = "ok") /\ step' = "generated"
               /\ Adv /\ UNCHANGED <<active, c, seen, fn>>

\* a pipeline stage: must succeed for a judged declaration; after a failure only End can follow
Stage(ev, from, to) == /\ At(ev) /\ step = from
                       /\ judged => Line.outcome = "ok"
                       /\ step' = IF Line.outcome = "ok" THEN to ELSE "end"
                       /\ Adv /\ UNCHANGED <<active, c, judged, seen, fn>>
TraceGenerated == Stage("Generated", "generated", "compiled")
TraceCompiled == Stage("Compiled", "compiled", "registered")
TraceRegistered == Stage("Registered", "registered", "routes")

MwNames(log) == [k \in 1 .. Len(log) - 1 |-> log[k].n]
TraceRoute ==
    /\ At("Route") /\ step = "routes"
    /\ LET r == [verb |-> Line.verb, path |-> Line.path] IN
       /\ r \notin seen
       /\ seen' = seen \cup {r}
       /\ IF ~judged THEN fn' = fn
          ELSE IF Line.direct # Line.path
          THEN \* the reference engine itself dispatches the probe elsewhere: the route's binding cannot be observed
               \* by a request; only "registered as declared" is judged
               /\ r \in Expected(c.methods) /\ fn' = fn
          ELSE /\ Line.served = Line.path
               /\ Len(Line.log) >= 1
               /\ Line.log[Len(Line.log)].k = "H"
               /\ \A k \in 1 .. Len(Line.log) - 1 : Line.log[k].k = "M"
               /\ RouteOK(c.methods, c.opts, Expected(c.methods), Line.verb, Line.path,
                          Line.log[Len(Line.log)].n, MwNames(Line.log), fn)
               /\ fn' = fn \cup Pairs(c.methods[Owner(c.methods, Line.verb, Line.path)].path,
                                      Line.log[Len(Line.log)].n, MwNames(Line.log))
    /\ Adv /\ UNCHANGED <<active, c, judged, step>>

TraceEnd == /\ At("End") /\ step \in {"routes", "end"}
            /\ (judged /\ step = "routes") => seen = Expected(c.methods)
            /\ judged => step = "routes"
            /\ active' = FALSE /\ c' = NoCase /\ judged' = FALSE /\ step' = "end" /\ seen' = {} /\ fn' = {}
            /\ Adv

Normal == TraceCase \/ TraceDirect \/ TraceGenerated \/ TraceCompiled \/ TraceRegistered \/ TraceRoute \/ TraceEnd

NextCase(k) == IF \E j \in k + 1 .. Len(Trace) : Trace[j].ev = "Case"
               THEN CHOOSE j \in k + 1 .. Len(Trace) : Trace[j].ev = "Case" /\ \A i \in k + 1 .. j - 1 : Trace[i].ev # "Case"
               ELSE Len(Trace) + 1

Reset == active' = FALSE /\ c' = NoCase /\ judged' = FALSE /\ step' = "end" /\ seen' = {} /\ fn' = {}

Mismatch == /\ l <= Len(Trace) /\ ~ENABLED Normal
            /\ bad' = Append(bad, l)
            /\ l' = IF Len(bad) >= 200 THEN Len(Trace) + 1 ELSE NextCase(l)
            /\ Reset /\ Idle

MismatchEOF == /\ l = Len(Trace) + 1 /\ active
               /\ bad' = Append(bad, l) /\ l' = l
               /\ Reset /\ Idle

TraceNext == Normal \/ Mismatch \/ MismatchEOF

Report == (l = Len(Trace) + 1 /\ ~active) => PrintT(<<"@@BAD", bad, l - 1, Len(Trace)>>)
=============================================================================
