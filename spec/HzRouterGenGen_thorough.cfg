CONSTANTS
  McInner = {"a"}
  McLast = {"a"}
  McVerbs = {"GET"}
  McMaxDepth = 1
  McMaxMethods = 1
  MaxMethods = 6
  MaxDepth = 3
  SingleDepth = 3
  NSample = 4000
  WithPairs = TRUE
INIT GenInit
NEXT GenNext
