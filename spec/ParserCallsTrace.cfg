CONSTANTS
  MaxLenOf <- QuickLen
  RandMax = 12
INIT TraceInit
NEXT TraceNext
INVARIANTS Report TraceTypeOK
