CONSTANTS Lens = {0, 1, 3, 4} Nums = {0, 1, 2, 3, 4} MaxSmall = 3 MaxReqs = 2
SPECIFICATION Spec
INVARIANTS TypeOK RespOK LengthOK WindowOK PoolClean ReaderHeld RepeatEqual
