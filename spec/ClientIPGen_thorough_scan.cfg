CONSTANTS
  MaxToks = 4
  Big = TRUE
  NRand = 120000
  Part = "scan"
INIT GenInit
NEXT GenNext
