\* the observer accepts: two maps, 2 callers x 1 call, 1 tick, 1 CloseIdleConnections
CONSTANTS
  Keys = {"a", "b"}
  TLSKeys = {"b"}
  Callers = {1, 2}
  MaxCalls = 1
  NH = 2
  MaxConns = 1
  MaxTicks = 1
  MaxCI = 1
  MaxReap = 0
  Retries = 0
  HoldCounted = TRUE
  CIAll = TRUE
INIT OInitMC
NEXT ONextMC
VIEW OView
INVARIANTS Accepts Agree
