------------------------------ MODULE ChainGen ------------------------------
(* Case generator for C12: writes every chain of length 1..MaxLen as one ndjson line. *)
EXTENDS Chain, Json, IOUtils, SequencesExt
AllChains == SetToSeq(Chains(MaxLen))
ASSUME ndJsonSerialize(IOEnv.VERIF_OUT, [i \in 1 .. Len(AllChains) |-> [id |-> i, kind |-> "chain", chain |-> AllChains[i]]])
GenInit == StartWith(<<"Ret">>)
GenNext == UNCHANGED vars
=============================================================================
