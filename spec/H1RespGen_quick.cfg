CONSTANTS Sizes = {0, 1, 4096, 4097, 8193}
Statuses = {200, 204, 304, 404, 100}
SeqStride = 3
INIT GenInit
NEXT GenNext
