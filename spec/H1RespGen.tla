------------------------------ MODULE H1RespGen ------------------------------
(***************************************************************************)
(* Case generator for C04: response programs run by the handler of each    *)
(* request of a script: status x application headers x body program        *)
(* (SetBody, AppendBody+Write, SetBodyStream with known / unknown length / *)
(* LimitedReader, hijacked chunked writer with write+flush patterns,       *)
(* ctx.File, no body) x body sizes around buffer boundaries x request      *)
(* method incl. HEAD x HTTP/1.1 and 1.0 keep-alive x close asked by the    *)
(* request / by the handler; singles and sequences on one connection.      *)
(* Documented exclusion: the hijacked chunked writer is not combined with  *)
(* responses that may not have a body.                                     *)
(***************************************************************************)
EXTENDS Wire, Json, IOUtils, SequencesExt

CONSTANTS Sizes, Statuses, SeqStride

F(lname, style, words) == [lname |-> lname, style |-> style, words |-> words]
HostField == F("host", "canon", <<"example.com">>)

Req(m, t, ver, close) ==
    [method |-> m, target |-> t, ver |-> ver, fields |-> <<HostField>>,
     framing |-> "none", bodyLen |-> 0, chunks |-> << >>, hexUpper |-> FALSE, chunkExt |-> FALSE,
     trailers |-> << >>, expect100 |-> FALSE, close |-> close, clStyle |-> "canon", bodyLit |-> "", raw |-> ""]

B(kind, n, n2, declared, ops) == [kind |-> kind, n |-> n, n2 |-> n2, declared |-> declared, ops |-> ops]

\* ("none" with declared > 0: no body, but the handler states the Content-Length itself -- the answer to a HEAD request)
Bodies == {B("none", 0, 0, 0, << >>), B("none", 0, 0, 1234, << >>), B("none", 0, 0, 7, << >>)}
          \cup {B("bytes", n, 0, 0, << >>) : n \in Sizes}
          \cup {B("resetbytes", n, 0, 0, << >>) : n \in {0, 1, 4097}}   \* Response.Reset() first, as AbortWithMsg / NotFound do
          \cup {B("append", n, 3, 0, << >>) : n \in Sizes}
          \cup {B("stream", n, 0, n, << >>) : n \in Sizes}          \* declared length = n
          \cup {B("stream", n, 0, -1, << >>) : n \in Sizes}         \* unknown length
          \cup {B("limited", n, 0, -1, << >>) : n \in Sizes}         \* io.LimitedReader (also one that is empty)
          \cup {B("file", n, 0, 0, << >>) : n \in Sizes \ {0}}
          \cup {B("chunkedWriter", 0, 0, 0, ops) : ops \in {<< >>, <<5>>, <<5, 0, 7>>, <<1, 1, 0, 1, 0>>, <<0, 4096, 1>>, <<4097, 0>>}}

H(name, value) == [name |-> name, value |-> value]
HeaderSets == << << >>, <<H("x-r1", "v1")>>, <<H("x-r1", "v1"), H("x-r2", "a b"), H("x-r1", "v2")>> >>

Bodiless(m, st) == m = "HEAD" \/ (st >= 100 /\ st <= 199) \/ st = 204 \/ st = 304

\* request shapes: [method, ver, close]
ReqShapes == {<<"GET", "1.1", FALSE>>, <<"HEAD", "1.1", FALSE>>, <<"POST", "1.1", FALSE>>, <<"GET", "1.1", TRUE>>, <<"GET", "1.0", FALSE>>}

Combos == {<<rs, st, b, hc>> : rs \in ReqShapes, st \in Statuses, b \in Bodies, hc \in BOOLEAN}
Valid == {x \in Combos : /\ ~(x[3].kind = "chunkedWriter" /\ Bodiless(x[1][1], x[2]))     \* documented exclusion
                         /\ (x[4] => x[1][3] = FALSE /\ x[2] = 200)
                         /\ (x[3].kind = "file" => x[2] = 200)
                         /\ ((x[3].kind = "none" /\ x[3].declared > 0) => (x[1][1] = "HEAD" /\ x[2] = 200))}          \* ctx.File decides the status itself                        \* handler-requested close: one status is enough
AllSeq == SetToSeq(Valid)

ReqOf(x, k) == Req(x[1][1], "/r" \o ToDec(k), x[1][2], x[1][3])
ProgOf(x, k) == [status |-> x[2], hdrs |-> HeaderSets[(k % 3) + 1], body |-> x[3], close |-> x[4]]

Single(k) == [id |-> k, script |-> <<ReqOf(AllSeq[k], k)>>, resps |-> <<ProgOf(AllSeq[k], k)>>]
\* sequences: the k-th combination followed by two others (the next response must start exactly where this one ends)
SeqIdx == {k \in 1 .. Len(AllSeq) : k % SeqStride = 0}
Triple(k) == LET a == AllSeq[k] b == AllSeq[((k * 7) % Len(AllSeq)) + 1] c == AllSeq[((k * 13) % Len(AllSeq)) + 1] IN
             [id |-> Len(AllSeq) + k,
              script |-> <<ReqOf(a, 1), ReqOf(b, 2), ReqOf(c, 3)>>,
              resps |-> <<ProgOf(a, k), ProgOf(b, k + 1), ProgOf(c, k + 2)>>]

WithWire(c) == [id |-> c.id, script |-> c.script, resps |-> c.resps, wire |-> Encode(c.script), offs |-> Offsets(c.script)]

Cases == [k \in 1 .. Len(AllSeq) |-> WithWire(Single(k))] \o [j \in 1 .. Cardinality(SeqIdx) |-> WithWire(Triple(j * SeqStride))]

ASSUME ndJsonSerialize(IOEnv.VERIF_OUT, Cases)

VARIABLE g
GenInit == g = 0
GenNext == UNCHANGED g
=============================================================================
