--------------------------- MODULE HeaderWriteTrace ---------------------------
(* Trace validation for C05.  The trace (harness/drivers/c05) is, per case:                                    *)
(*   Case{id, tgt, body, calls, rawsink, emptytrailer}   the program the driver executed (echo of the case)     *)
(*   Serialized{obs, err, bytes, msg} x 3                obs = "header" | "trailer" | "message": what the real  *)
(*                                                       object serialised, bytes as small integers             *)
(*   End                                                                                                        *)
(* Every Serialized line is accepted only if HeaderWrite!MessageOK holds for (obs, program, recorded bytes):    *)
(* the strict line reader Lines is run on the recorded bytes here, in TLC.  A message the library refused to    *)
(* write (err) is accepted only if nothing at all was written.  A Panic line, a missing observation or an       *)
(* unknown entry point has no action => the case is rejected (Mismatch records the line and skips to the next   *)
(* Case).  Report prints the rejected lines for checks/lib.py.                                                  *)
EXTENDS HeaderWrite, Json, IOUtils

Trace == ndJsonDeserialize(IOEnv.VERIF_TRACE)

VARIABLES l,      \* next line to consume
          bad,    \* lines at which a case was rejected
          cur,    \* the current case (record) or NoCase
          seen    \* observations recorded so far for the current case
tvars == <<l, bad, cur, seen>>

NoCase == [id |-> 0]
AllObs == {"header", "trailer", "message"}
Line == Trace[l]

TraceInit == l = 1 /\ bad = << >> /\ cur = NoCase /\ seen = {}
             /\ side = "req" /\ prog = << >> /\ store = << >> /\ tstore = << >> /\ phase = "done" /\ obs = "none" /\ out = << >>

NextCase(k) == IF \E j \in k + 1 .. Len(Trace) : Trace[j].ev = "Case"
               THEN CHOOSE j \in k + 1 .. Len(Trace) : Trace[j].ev = "Case" /\ \A i \in k + 1 .. j - 1 : Trace[i].ev # "Case"
               ELSE Len(Trace) + 1

CaseGuard == /\ l <= Len(Trace) /\ Line.ev = "Case" /\ cur = NoCase
             /\ Line.id > 0
             /\ Line.tgt \in {"req", "resp", "ctx"} /\ Line.body \in {"none", "stream"}
             /\ \A i \in DOMAIN Line.calls : /\ WellFormedCall(Line.calls[i])
                                             /\ EntryTable[Line.calls[i].e].tgt = Line.tgt
TraceCase == /\ CaseGuard
             /\ cur' = Line /\ seen' = {} /\ l' = l + 1 /\ UNCHANGED bad

\* The obligation is evaluated once per recorded line: a Serialized line that does not meet it is consumed by the
\* same action, which records the line in `bad` and skips to the next case (same effect as Mismatch, without
\* evaluating MessageOK a second time under ENABLED).
SerGuard == l <= Len(Trace) /\ Line.ev = "Serialized" /\ cur # NoCase /\ Line.obs \in AllObs \ seen
TraceSerialized ==
    /\ SerGuard
    /\ LET ok == IF Line.err THEN Line.bytes = << >>
                 ELSE MessageOK(Line.obs, cur.tgt, cur.body, cur.calls, Line.bytes)
       IN IF ok THEN seen' = seen \cup {Line.obs} /\ l' = l + 1 /\ UNCHANGED <<bad, cur>>
          ELSE bad' = Append(bad, l) /\ l' = NextCase(l) /\ cur' = NoCase /\ seen' = {}

EndGuard == l <= Len(Trace) /\ Line.ev = "End" /\ cur # NoCase /\ seen = AllObs
TraceEnd == /\ EndGuard
            /\ cur' = NoCase /\ seen' = {} /\ l' = l + 1 /\ UNCHANGED bad

Normal == TraceCase \/ TraceSerialized \/ TraceEnd

\* structural mismatch: no action accepts the line (Panic, unknown event, malformed Case, missing or repeated
\* observation, End before all observations)
Mismatch == /\ l <= Len(Trace) /\ ~CaseGuard /\ ~SerGuard /\ ~EndGuard
            /\ bad' = Append(bad, l)
            /\ l' = NextCase(l)
            /\ cur' = NoCase /\ seen' = {}

\* the trace ends inside a case
MismatchEOF == /\ l = Len(Trace) + 1 /\ cur # NoCase
               /\ bad' = Append(bad, l) /\ l' = l /\ cur' = NoCase /\ seen' = {}

TraceNext == (Normal \/ Mismatch \/ MismatchEOF) /\ UNCHANGED vars

Report == (l = Len(Trace) + 1 /\ cur = NoCase) => PrintT(<<"@@BAD", bad, l - 1, Len(Trace)>>)
=============================================================================
