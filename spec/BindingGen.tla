----------------------------- MODULE BindingGen -----------------------------
(***************************************************************************)
(* Case generator for C15.  Writes one ndjson line per case:               *)
(*   [id, kind, shadow, conc, types : Seq(type), reqs : Seq(request),      *)
(*    prog : Seq([op \in {"first","again"}, t, r])]                        *)
(* "first" = bind request r into a FRESH identity of type t (cold decoder  *)
(* cache); "again" = bind r into the current identity of t (warm cache).   *)
(*                                                                         *)
(* single : EVERY single-field type  kind(11) x tag subset (size <=        *)
(*          MaxTagSet) x required variant (none / one tag / all tags) x    *)
(*          default (none / one)  x  EVERY presence pattern over the       *)
(*          tagged sources (+ the query string under the form name, for    *)
(*          the documented form->query fallback)  x  (1 systematic text    *)
(*          assignment "E" in which the winning source is PRESENT BUT      *)
(*          EMPTY (header/cookie/query/form only)  +  1 systematic text    *)
(*          assignment in which neighbouring present sources carry         *)
(*          different values + NRand seeded random assignments, which      *)
(*          also put values into sources the field does NOT name)          *)
(* bounds : every integer kind (plain/pointer/slice, 8..64 bit) x every    *)
(*          source x every width-boundary text (max, max+1, min, min-1,    *)
(*          2^bits, digit strings beyond 64 bit, negative for unsigned)    *)
(* multi  : NMulti seeded types with 2..6 fields sharing names a/b         *)
(* order  : NOrder seeded cases: 2..3 types, random first/again programs   *)
(* conc   : NConc  seeded cases: 3..4 types bound concurrently             *)
(* Seed = IOEnv.VERIF_SEED; all pseudo-random choices are hashes of        *)
(* (Seed, indices), so a run is reproducible from its seed alone.          *)
(***************************************************************************)
EXTENDS Binding, Json, IOUtils, SequencesExt

CONSTANTS MaxTagSet, NKindsSingle, NRand, NMulti, NReqMulti, NOrder, NConc, Bounds

Seed == atoi(IOEnv.VERIF_SEED)
\* small integer hash (TLC integers are 32 bit): an LCG step H and a squaring step M; every intermediate < 2^31
H(x) == (x * 75 + 74) % 65537
M(x) == LET y == x % 46337 IN H(((y * y) % 46337) + (x % 65537))
R3(a, b, c) == M(H(H(H(Seed % 65537) + (a % 65537)) + b) + c)
R4(a, b, c, d) == M(M(R3(a, b, c) + d) + d * 7)
Pick(seq, h) == seq[(h % Len(seq)) + 1]

\* the first 11 kinds are enumerated exhaustively in every tier (NKindsSingle = 11); the sized-integer kinds behind it
\* take part in the full enumeration of the thorough tier, and in every tier in the boundary sweep and the sampled types
KindSeq == <<"bool", "int8", "int", "uint8", "uint", "float64", "string", "*int", "*string", "[]int", "[]string",
             "int16", "int32", "uint16", "uint32", "*int8", "*int16", "*int32", "*uint8", "*uint16", "*uint32",
             "[]int8", "[]int16", "[]int32", "[]uint16", "[]uint32">>
IntKindSeq == SelectSeq(KindSeq, LAMBDA k : Base(k) \in IntKinds)
BoundarySeq == SetToSeq(BoundaryText)
\* boundary texts that matter most for the narrow widths, mixed into the random pools of integer fields
EdgeSeq == <<"127", "128", "-128", "-129", "255", "256", "32767", "32768", "-32769", "65535", "65536", "2147483648", "4294967296", "99999999999999999999999">>
TextSeq == <<"0", "1", "-1", "300", "1.5", "true", "x">>
TextSeqE == TextSeq \o <<"">>       \* form, query, cookie, header can carry a present-but-empty value; path / json never do (unconstrained)
EmptyOK(i) == i \in 2 .. 5
\* ok texts per base kind as a rotation; neighbours convert to different values
Rot(b) == CASE b = "bool"    -> <<"0", "1">>
            [] b = "int8"    -> <<"1", "0", "-1">>
            [] b = "int"     -> <<"1", "-1", "0", "300">>
            [] b = "uint8"   -> <<"0", "1">>
            [] b = "uint"    -> <<"1", "300", "0">>
            [] b = "float64" -> <<"1.5", "-1", "0", "300", "1">>
            [] b = "string"  -> <<"x", "1", "true", "-1">>
            [] b = "int16"   -> <<"1", "-32768", "0", "32767">>
            [] b = "int32"   -> <<"1", "-2147483648", "0", "2147483647">>
            [] b = "uint16"  -> <<"1", "65535", "0">>
            [] b = "uint32"  -> <<"1", "4294967295", "0">>
DefText(b) == CASE b = "bool" -> "true" [] b = "int8" -> "-1" [] b = "int" -> "300" [] b = "uint8" -> "1"
                [] b = "uint" -> "300" [] b = "float64" -> "1.5" [] b = "string" -> "x"
                [] b = "int16" -> "32767" [] b = "int32" -> "-1" [] b = "uint16" -> "65535" [] b = "uint32" -> "300"

InMask(m, i) == (m \div (2 ^ (i - 1))) % 2 = 1
Bits(m) == Cardinality({i \in 1 .. 6 : InMask(m, i)})
MultiOK(i) == i \in {2, 3, 5}                                    \* form, query, header can repeat a key

Lit1(b, t) == IF b = "string" THEN "\"" \o t \o "\"" ELSE ConvVal(b, t)
JsonLit(kind, texts) == IF IsSlice(kind)
                        THEN "[" \o FoldLeft(LAMBDA acc, t : IF acc = "" THEN Lit1(Base(kind), t) ELSE acc \o "," \o Lit1(Base(kind), t), "", texts) \o "]"
                        ELSE Lit1(Base(kind), texts[1])

Entry(i, name, texts, lit) == [src |-> Priority[i], name |-> name, texts |-> texts, lit |-> lit]

------------------------------------------------------------------------------
(* single-field types *)

\* spec = <<kind index, tag mask, required variant (0 none, 1..6 that source, 7 all), default 0/1>>
SingleSpecs == {<<k, m, rv, d>> \in (1 .. NKindsSingle) \X (1 .. 63) \X (0 .. 7) \X (0 .. 1) :
                   /\ Bits(m) <= MaxTagSet
                   /\ rv \in 1 .. 6 => InMask(m, rv)}
SingleSeq == SetToSeq(SingleSpecs)

FieldOf(sp) == LET kind == KindSeq[sp[1]]
               IN  [kind |-> kind,
                    tags |-> SelectSeq([j \in 1 .. 6 |-> [src |-> Priority[7 - j], name |-> TagName(Priority[7 - j], "a", 1),
                                                         req |-> sp[3] = 7 \/ sp[3] = 7 - j]],
                                       LAMBDA t : InMask(sp[2], Rank(t.src))),
                    def |-> IF sp[4] = 1 THEN <<DefText(Base(kind))>> ELSE << >>]

\* sources whose presence matters for the field: its tags, plus query under the form name
Relevant(m) == IF InMask(m, 2) /\ ~InMask(m, 3) THEN m + 4 ELSE m
Patterns(m) == {p \in 0 .. 63 : /\ \A i \in 1 .. 6 : InMask(p, i) => InMask(Relevant(m), i)
                                /\ ~(InMask(p, 2) /\ InMask(p, 6))}          \* one body: form XOR json

\* request number v (0 = systematic) for type number n with field f, presence pattern p
SingleReq(n, f, m, p, v) ==
    LET b    == Base(f.kind)
        rot  == Rot(b)
        ord(i) == Cardinality({j \in 1 .. i : InMask(p, j)})                \* i is the ord(i)-th present source
        extra(i) == v > 0 /\ v <= NRand /\ i \in {1, 3, 4, 5} /\ ~InMask(Relevant(m), i) /\ R4(n, p, v, 10 + i) % 4 = 0
        sysv == v = 0 \/ v = NRand + 1                                       \* systematic variants (0, and E = NRand + 1)
        one(i) == IF v = NRand + 1 /\ ord(i) = 1 THEN ""                     \* E: the highest-priority present source is EMPTY
                  ELSE IF sysv THEN rot[((ord(i) + p) % Len(rot)) + 1]
                  ELSE IF i = 6 THEN Pick(rot, R4(n, p, v, 21))
                  ELSE IF b \in IntKinds /\ R4(n, p, v, 60 + i) % 3 = 0 THEN Pick(EdgeSeq, R4(n, p, v, 30 + i))
                  ELSE IF EmptyOK(i) THEN Pick(TextSeqE, R4(n, p, v, 30 + i))
                  ELSE Pick(TextSeq, R4(n, p, v, 30 + i))
        two(i) == IF ~sysv /\ IsSlice(f.kind) /\ (MultiOK(i) \/ i = 6) /\ R4(n, p, v, 40 + i) % 3 = 0
                  THEN <<one(i), IF i = 6 THEN Pick(rot, R4(n, p, v, 50)) ELSE Pick(TextSeqE, R4(n, p, v, 50 + i))>>
                  ELSE <<one(i)>>
        ent(i) == Entry(i, TagName(Priority[i], "a", 1), two(i), IF i = 6 THEN JsonLit(f.kind, two(i)) ELSE "")
    IN  [body |-> IF InMask(p, 6) THEN "json" ELSE IF InMask(p, 2) THEN "form"
                  ELSE IF v = 0 \/ v = NRand + 1 THEN "none"
                  ELSE IF R3(n, 0, 3) % 4 = 0 THEN Pick(<<"none", "form", "json", "none">>, R4(n, p, v, 1))   \* a JSON body costs a sonic
                  ELSE Pick(<<"none", "form", "none", "none">>, R4(n, p, v, 1)),                               \* compilation per fresh type
         vals |-> SelectSeq([i \in 1 .. 6 |-> ent(i)], LAMBDA e : InMask(p, Rank(e.src)) \/ extra(Rank(e.src)))]

\* the known deviation C15-required-cleared-by-json-tag is confined to cases of their own (shadow = TRUE)
Shadow(f, rq) == /\ \E i \in DOMAIN f.tags : f.tags[i].src # "json" /\ f.tags[i].req
                 /\ \E i \in DOMAIN f.tags : f.tags[i].src = "json" /\ ~f.tags[i].req
                 /\ PresentTags(f, rq, ~IsSlice(f.kind)) = {}      \* Err \in Outcomes(f, rq) because nothing is present

ProgAll(n, nreq) == <<[op |-> "first", t |-> 1, r |-> (R3(n, 0, 7) % nreq) + 1]>> \o [r \in 1 .. nreq |-> [op |-> "again", t |-> 1, r |-> r]]

SingleCases(n) ==
    LET sp   == SingleSeq[n]
        f    == FieldOf(sp)
        ps   == SetToSeq(Patterns(sp[2]))
        nv   == NRand + 2                                                   \* variants per pattern: 0, 1..NRand, E
        pat(k) == ps[((k - 1) \div nv) + 1]
        var(k) == (k - 1) % nv
        \* E applies when the first present source is one that can be empty
        eok(p) == p # 0 /\ EmptyOK(CHOOSE i \in 1 .. 6 : InMask(p, i) /\ \A j \in 1 .. i - 1 : ~InMask(p, j))
        idx  == SelectSeq([k \in 1 .. Len(ps) * nv |-> k], LAMBDA k : var(k) <= NRand \/ eok(pat(k)))
        all  == [x \in 1 .. Len(idx) |-> SingleReq(n, f, sp[2], pat(idx[x]), var(idx[x]))]
        norm == SelectSeq(all, LAMBDA rq : ~Shadow(f, rq))
        shad == SelectSeq(all, LAMBDA rq : Shadow(f, rq))
        mk(reqs, sh) == [kind |-> "single", shadow |-> sh, conc |-> FALSE, types |-> <<[fields |-> <<f>>]>>,
                         reqs |-> reqs, prog |-> ProgAll(n, Len(reqs))]
    IN  (IF norm = << >> THEN << >> ELSE <<mk(norm, FALSE)>>) \o (IF shad = << >> THEN << >> ELSE <<mk(shad, TRUE)>>)

------------------------------------------------------------------------------
(* sampled multi-field types; c = case number (seed of everything below), ti = type number inside the case *)

RandField(c, ti, i) ==
    LET kind == Pick(KindSeq, R3(c, 100 * ti + i, 2))
        m    == 1 + (R3(c, 100 * ti + i, 3) % 63)
        rvar == R3(c, 100 * ti + i, 5) % 5
        rq0(j) == InMask(m, j) /\ (rvar = 4 \/ (rvar = 3 /\ R4(c, 100 * ti + i, 6, j) % 2 = 0))
        anyReq == \E j \in 1 .. 6 : rq0(j)
        rq(j) == rq0(j) \/ (j = 6 /\ InMask(m, 6) /\ anyReq)              \* like hz-generated code: json carries required too
        nm(j) == IF R4(c, 100 * ti + i, 4, j) % 2 = 0 THEN "a" ELSE "b"
    IN  [kind |-> kind,
         tags |-> SelectSeq([j \in 1 .. 6 |-> [src |-> Priority[j], name |-> TagName(Priority[j], nm(j), 10 * ti + i), req |-> rq(j)]],
                            LAMBDA t : InMask(m, Rank(t.src))),
         def |-> IF R3(c, 100 * ti + i, 7) % 3 = 0 THEN <<DefText(Base(kind))>> ELSE << >>]

RandType(c, ti, nf) == [fields |-> [i \in 1 .. nf |-> RandField(c, ti, i)]]

BiasText(h) == IF h % 10 < 6 THEN Pick(<<"0", "1">>, h \div 10) ELSE IF h % 10 = 6 THEN Pick(EdgeSeq, h \div 10) ELSE Pick(TextSeq, h \div 10)
BiasTextE(h, i) == IF EmptyOK(i) /\ h % 10 = 9 THEN "" ELSE BiasText(h)

\* request q of case c over the names a/b (header A/B) and the json names of the given types
RandReq(c, q, types) ==
    LET body == Pick(<<"none", "form", "json", "none", "json">>, R3(c, 1000 + q, 1))
        nmOf(i, k) == TagName(Priority[i], IF k = 1 THEN "a" ELSE "b", 0)
        pres(i, k) == (i # 2 \/ body = "form") /\ R4(c, 1000 + q, 2, 2 * i + k) % 2 = 0
        tx(i, k) == IF MultiOK(i) /\ R4(c, 1000 + q, 3, 2 * i + k) % 4 = 0
                    THEN <<BiasTextE(R4(c, 1000 + q, 4, 2 * i + k), i), BiasTextE(R4(c, 1000 + q, 5, 2 * i + k), i)>>
                    ELSE <<BiasTextE(R4(c, 1000 + q, 4, 2 * i + k), i)>>
        plain == SelectSeq([x \in 1 .. 10 |-> LET i == ((x - 1) \div 2) + 1 k == ((x - 1) % 2) + 1
                                              IN [e |-> Entry(i, nmOf(i, k), tx(i, k), ""), on |-> pres(i, k)]],
                           LAMBDA y : y.on)
        jf == IF body # "json" THEN << >>
              ELSE SelectSeq(FlattenSeq([ti \in DOMAIN types |->
                       [i \in DOMAIN types[ti].fields |->
                          LET f == types[ti].fields[i]
                              jt == SelectSeq(f.tags, LAMBDA t : t.src = "json")
                              rot == Rot(Base(f.kind))
                              txs == IF IsSlice(f.kind) /\ R4(c, 1000 + q, 6, 10 * ti + i) % 2 = 0
                                     THEN <<Pick(rot, R4(c, 1000 + q, 7, 10 * ti + i)), Pick(rot, R4(c, 1000 + q, 8, 10 * ti + i))>>
                                     ELSE <<Pick(rot, R4(c, 1000 + q, 7, 10 * ti + i))>>
                          IN  [e |-> Entry(6, IF jt = << >> THEN "" ELSE jt[1].name, txs, JsonLit(f.kind, txs)),
                               on |-> jt # << >> /\ R4(c, 1000 + q, 9, 10 * ti + i) % 3 # 0]]]),
                             LAMBDA y : y.on)
    IN  [body |-> body, vals |-> [x \in 1 .. Len(plain) |-> plain[x].e] \o [x \in 1 .. Len(jf) |-> jf[x].e]]

EmptyReq == [body |-> "none", vals |-> << >>]

MultiCase(c) ==
    LET nf == 2 + (R3(c, 0, 1) % 5)
        T  == RandType(c, 1, nf)
        reqs == <<EmptyReq>> \o [q \in 1 .. NReqMulti - 1 |-> RandReq(c, q, <<T>>)]
        r1 == (R3(c, 0, 8) % NReqMulti) + 1
    IN  [kind |-> "multi", shadow |-> FALSE, conc |-> FALSE, types |-> <<T>>, reqs |-> reqs,
         prog |-> ProgAll(c, NReqMulti) \o <<[op |-> "first", t |-> 1, r |-> r1], [op |-> "again", t |-> 1, r |-> r1]>>]

\* orders of first use across several types
OrderCase(c) ==
    LET nt == 2 + (R3(c, 0, 1) % 2)
        types == [ti \in 1 .. nt |-> RandType(c, ti, 1 + (R3(c, ti, 9) % 3))]
        nr == 3
        reqs == [q \in 1 .. nr |-> RandReq(c, q, types)]
        len == 6 + (R3(c, 0, 2) % 7)
        tsel(k) == (R3(c, 2000 + k, 1) % nt) + 1
        used(k) == \E k2 \in 1 .. k - 1 : tsel(k2) = tsel(k)
    IN  [kind |-> "order", shadow |-> FALSE, conc |-> FALSE, types |-> types, reqs |-> reqs,
         prog |-> [k \in 1 .. len |-> [op |-> IF ~used(k) \/ R3(c, 2000 + k, 2) % 5 = 0 THEN "first" ELSE "again",
                                       t |-> tsel(k), r |-> (R3(c, 2000 + k, 3) % nr) + 1]]]

\* concurrent binding: one goroutine per type runs that type's ops; all goroutines start together
ConcCase(c) ==
    LET nt == 3 + (R3(c, 0, 1) % 2)
        types == [ti \in 1 .. nt |-> RandType(c, ti, 1 + (R3(c, ti, 9) % 3))]
        nr == 3
        reqs == [q \in 1 .. nr |-> RandReq(c, q, types)]
        per == 4
    IN  [kind |-> "conc", shadow |-> FALSE, conc |-> TRUE, types |-> types, reqs |-> reqs,
         prog |-> [k \in 1 .. nt * per |->
                     LET ti == ((k - 1) \div per) + 1 j == ((k - 1) % per) + 1
                     IN  [op |-> IF j = 1 \/ (j = 3 /\ R3(c, 3000 + k, 2) % 2 = 0) THEN "first" ELSE "again",
                          t |-> ti, r |-> (R3(c, 3000 + k, 3) % nr) + 1]]]

------------------------------------------------------------------------------
(* boundary sweep: EVERY integer kind (plain, pointer, slice; 8..64 bit) x EVERY source x EVERY boundary text.     *)
(* One case per (kind, source): a single-field type tagged with that source only; one request per text           *)
(* (json: only the texts that fit the kind -- an ill-typed JSON literal is unconstrained), for slices in addition *)
(* the text as SECOND element after a valid first one (form/query/header).                                        *)
SweepTexts == <<"0", "1", "-1", "300">> \o BoundarySeq
BoundCase(ki, i) ==
    LET kind == IntKindSeq[ki]
        b    == Base(kind)
        nm   == TagName(Priority[i], "a", 1)
        f    == [kind |-> kind, tags |-> <<[src |-> Priority[i], name |-> nm, req |-> FALSE]>>, def |-> << >>]
        txs  == IF i = 6 THEN SelectSeq(SweepTexts, LAMBDA t : ConvOk(b, t)) ELSE SweepTexts
        rq(tx) == [body |-> IF i = 6 THEN "json" ELSE IF i = 2 THEN "form" ELSE "none",
                   vals |-> <<Entry(i, nm, tx, IF i = 6 THEN JsonLit(kind, tx) ELSE "")>>]
        reqs == [x \in 1 .. Len(txs) |-> rq(<<txs[x]>>)]
                \o (IF IsSlice(kind) /\ MultiOK(i) THEN [x \in 1 .. Len(txs) |-> rq(<<"1", txs[x]>>)] ELSE << >>)
    IN  [kind |-> "bounds", shadow |-> FALSE, conc |-> FALSE, types |-> <<[fields |-> <<f>>]>>, reqs |-> reqs,
         prog |-> ProgAll(1000 * ki + i, Len(reqs))]
BoundCases == IF Bounds THEN [x \in 1 .. Len(IntKindSeq) * 6 |-> BoundCase(((x - 1) \div 6) + 1, ((x - 1) % 6) + 1)] ELSE << >>

NS == Len(SingleSeq)
AllCases == FlattenSeq([n \in 1 .. NS |-> SingleCases(n)])
            \o BoundCases
            \o [c \in 1 .. NMulti |-> MultiCase(10000 + c)]
            \o [c \in 1 .. NOrder |-> OrderCase(20000 + c)]
            \o [c \in 1 .. NConc |-> ConcCase(30000 + c)]

WithId(c, i) == [id |-> i, kind |-> c.kind, shadow |-> c.shadow, conc |-> c.conc, types |-> c.types, reqs |-> c.reqs, prog |-> c.prog]

ASSUME ndJsonSerialize(IOEnv.VERIF_OUT, [i \in 1 .. Len(AllCases) |-> WithId(AllCases[i], i)])

GenInit == Init
GenNext == UNCHANGED vars
=============================================================================
