-------------------------------- MODULE Wire --------------------------------
(***************************************************************************)
(* HTTP/1.1 request scripts and their wire form (RFC 7230 framing).        *)
(*                                                                         *)
(* A script is a sequence of request records.  Encode gives the wire as a  *)
(* sequence of segments -- lit(string) for head/framing bytes, run(i,a,b)  *)
(* for body bytes a..b-1 of request i (bodies are never materialised: byte *)
(* k of the body of request i is the fixed pattern Pat(i,k) known to the   *)
(* harness, DESIGN section 3) -- and Offsets gives, per request, where it  *)
(* starts, where its head ends and where it ends.  Framing is therefore    *)
(* true *by construction*: request i owns [start_i, end_i).                *)
(*                                                                         *)
(* Expected(req) is what a handler must observe for the request.           *)
(***************************************************************************)
EXTENDS Integers, Sequences, FiniteSets, TLC

CRLF == "\r\n"

Lit(s) == [t |-> "lit", s |-> s, i |-> 0, a |-> 0, b |-> 0]
Run(i, a, b) == [t |-> "run", s |-> "", i |-> i, a |-> a, b |-> b]
SegLen(g) == IF g.t = "lit" THEN Len(g.s) ELSE g.b - g.a

RECURSIVE SumLen(_)
SumLen(gs) == IF gs = << >> THEN 0 ELSE SegLen(Head(gs)) + SumLen(Tail(gs))

Digit(d) == SubSeq("0123456789", d + 1, d + 1)
RECURSIVE ToDec(_)
ToDec(n) == IF n < 10 THEN Digit(n) ELSE ToDec(n \div 10) \o Digit(n % 10)
HexDigit(d, upper) == IF upper THEN SubSeq("0123456789ABCDEF", d + 1, d + 1) ELSE SubSeq("0123456789abcdef", d + 1, d + 1)
RECURSIVE ToHex(_, _)
ToHex(n, upper) == IF n < 16 THEN HexDigit(n, upper) ELSE ToHex(n \div 16, upper) \o HexDigit(n % 16, upper)

RECURSIVE Sum(_)
Sum(s) == IF s = << >> THEN 0 ELSE Head(s) + Sum(Tail(s))

RECURSIVE ConcatStr(_)
ConcatStr(ss) == IF ss = << >> THEN "" ELSE Head(ss) \o ConcatStr(Tail(ss))

-----------------------------------------------------------------------------
(* Header fields.  A field is [lname, style, words]: lname is the lower-case name, words the value as a     *)
(* sequence of words (joined by one SP; an obs-fold style puts a line break between them).                 *)

\* spelling of a field name on the wire
Spell(lname, style) ==
    LET forms == CASE lname = "x-a"  -> [canon |-> "X-A", lower |-> "x-a", upper |-> "X-A", mixed |-> "x-A"]
                   [] lname = "x-bb" -> [canon |-> "X-Bb", lower |-> "x-bb", upper |-> "X-BB", mixed |-> "x-bB"]
                   [] lname = "host" -> [canon |-> "Host", lower |-> "host", upper |-> "HOST", mixed |-> "hOsT"]
                   [] lname = "content-type" -> [canon |-> "Content-Type", lower |-> "content-type", upper |-> "CONTENT-TYPE", mixed |-> "content-Type"]
                   [] lname = "content-length" -> [canon |-> "Content-Length", lower |-> "content-length", upper |-> "CONTENT-LENGTH", mixed |-> "cOnTeNt-LeNgTh"]
                   [] lname = "transfer-encoding" -> [canon |-> "Transfer-Encoding", lower |-> "transfer-encoding", upper |-> "TRANSFER-ENCODING", mixed |-> "tRaNsFeR-eNcOdInG"]
                   \* near-miss framing names (decoys): ordinary fields that must not influence framing
                   [] lname = "content-lengths" -> [canon |-> "Content-Lengths", lower |-> "content-lengths", upper |-> "CONTENT-LENGTHS", mixed |-> "Content-lengths"]
                   [] lname = "x-content-length" -> [canon |-> "X-Content-Length", lower |-> "x-content-length", upper |-> "X-CONTENT-LENGTH", mixed |-> "X-content-Length"]
                   [] lname = "content_length" -> [canon |-> "Content_Length", lower |-> "content_length", upper |-> "CONTENT_LENGTH", mixed |-> "Content_length"]
                   [] lname = "content-lengt" -> [canon |-> "Content-Lengt", lower |-> "content-lengt", upper |-> "CONTENT-LENGT", mixed |-> "Content-lengt"]
                   [] lname = "transfer-encodings" -> [canon |-> "Transfer-Encodings", lower |-> "transfer-encodings", upper |-> "TRANSFER-ENCODINGS", mixed |-> "Transfer-encodings"]
                   [] lname = "x-transfer-encoding" -> [canon |-> "X-Transfer-Encoding", lower |-> "x-transfer-encoding", upper |-> "X-TRANSFER-ENCODING", mixed |-> "X-transfer-Encoding"]
                   [] lname = "x-t" -> [canon |-> "X-T", lower |-> "x-t", upper |-> "X-T", mixed |-> "x-T"]
                   \* names the header parser stores specially
                   [] lname = "cookie" -> [canon |-> "Cookie", lower |-> "cookie", upper |-> "COOKIE", mixed |-> "cOOkie"]
                   [] lname = "user-agent" -> [canon |-> "User-Agent", lower |-> "user-agent", upper |-> "USER-AGENT", mixed |-> "user-Agent"]
    IN CASE style \in {"canon", "nospace", "fold", "foldtab", "padded"} -> forms.canon
         [] style = "lower" -> forms.lower
         [] style = "upper" -> forms.upper
         [] style = "mixed" -> forms.mixed

RECURSIVE JoinWith(_, _)
JoinWith(ws, sep) == IF ws = << >> THEN "" ELSE IF Len(ws) = 1 THEN ws[1] ELSE ws[1] \o sep \o JoinWith(Tail(ws), sep)

FieldLine(f) ==
    Spell(f.lname, f.style) \o
    (CASE f.style = "nospace" -> ":" \o JoinWith(f.words, " ")
       [] f.style = "padded"  -> ":  " \o JoinWith(f.words, " ") \o " "
       [] f.style = "fold"    -> ": " \o JoinWith(f.words, "\r\n ")
       [] f.style = "foldtab" -> ": " \o JoinWith(f.words, "\r\n\t")
       [] OTHER               -> ": " \o JoinWith(f.words, " ")) \o CRLF

\* what the handler must see for the field: lower-cased name and the words joined by single spaces
\* (the amount of whitespace an obs-fold leaves behind is deliberately unconstrained: the harness collapses runs)
FieldSeen(f) == [name |-> f.lname, value |-> JoinWith(f.words, " ")]

-----------------------------------------------------------------------------
(* A request: [method, target, ver, fields, framing, bodyLen, chunks, hexUpper, chunkExt, trailers,        *)
(*             expect100, close, clStyle]                                                                  *)

FramingFields(r) ==
    CASE r.framing = "none"    -> << >>
      [] r.framing = "cl"      -> <<[lname |-> "content-length", style |-> r.clStyle, words |-> <<ToDec(r.bodyLen)>>]>>
      [] r.framing = "chunked" -> <<[lname |-> "transfer-encoding", style |-> r.clStyle, words |-> <<"chunked">>]>>

\* optional field noAnnounce: the trailer fields are sent without a "Trailer:" header announcing them (still well-formed)
Announced(r) == ~("noAnnounce" \in DOMAIN r /\ r.noAnnounce)
TrailerNames(r) == JoinWith([k \in 1 .. Len(r.trailers) |-> r.trailers[k].name], ", ")

\* a multipart form declared by Content-Length: the server parses it while reading the request, also in streaming mode
IsMultipart(r) == r.raw = "" /\ \E k \in DOMAIN r.fields : r.fields[k].lname = "content-type" /\ Len(r.fields[k].words) >= 1
                                                        /\ r.fields[k].words[1] = "multipart/form-data;"
PreParsed(r) == IsMultipart(r) /\ r.framing = "cl" /\ r.bodyLen > 0
\* optional field noKeepAlive: an HTTP/1.0 request without "Connection: keep-alive" (the connection ends with its response)
NoKeepAlive(r) == "noKeepAlive" \in DOMAIN r /\ r.noKeepAlive
\* optional fields clBefore / clAfter (decimal strings): a chunked request that ALSO carries a Content-Length field,
\* in front of / behind Transfer-Encoding.  Transfer-Encoding overrides it (RFC 7230 3.3.3 (3)); such a request may be
\* refused, but Content-Length must never decide where it ends
OptStr(r, f) == IF f \in DOMAIN r THEN r[f] ELSE ""
Ambiguous(r) == r.raw = "" /\ r.framing = "chunked" /\ (OptStr(r, "clBefore") # "" \/ OptStr(r, "clAfter") # "")
ClLine(v) == IF v = "" THEN "" ELSE "Content-Length: " \o v \o CRLF

Head_(r) ==
    IF r.raw # "" THEN r.raw ELSE      \* a literal (malformed) request: these bytes, no body
    r.method \o " " \o r.target \o " HTTP/" \o r.ver \o CRLF
    \o ConcatStr([k \in 1 .. Len(r.fields) |-> FieldLine(r.fields[k])])
    \o ClLine(OptStr(r, "clBefore"))
    \o ConcatStr([k \in 1 .. Len(FramingFields(r)) |-> FieldLine(FramingFields(r)[k])])
    \o ClLine(OptStr(r, "clAfter"))
    \o (IF r.trailers # << >> /\ Announced(r) THEN "Trailer: " \o TrailerNames(r) \o CRLF ELSE "")
    \o (IF r.expect100 THEN "Expect: 100-continue" \o CRLF ELSE "")
    \o (IF r.close THEN "Connection: close" \o CRLF ELSE IF r.ver = "1.0" /\ ~NoKeepAlive(r) THEN "Connection: keep-alive" \o CRLF ELSE "")
    \o CRLF

\* body bytes a..b-1 of request i: the provenance pattern, or -- when the request carries a literal body
\* (bodyLit, used for bodies that imitate HTTP framing) -- those characters
BodyPiece(r, i, a, b) == IF r.bodyLit = "" THEN Run(i, a, b) ELSE Lit(SubSeq(r.bodyLit, a + 1, b))

RECURSIVE ChunkSegs(_, _, _, _)
\* chunks cs of request i starting at body offset a
ChunkSegs(r, i, cs, a) ==
    IF cs = << >> THEN << >>
    ELSE <<Lit(ToHex(Head(cs), r.hexUpper) \o (IF r.chunkExt THEN ";x=y" ELSE "") \o CRLF), BodyPiece(r, i, a, a + Head(cs)), Lit(CRLF)>>
         \o ChunkSegs(r, i, Tail(cs), a + Head(cs))

BodySegs(r, i) ==
    CASE r.raw # "" -> << >>
      [] r.framing = "none" -> << >>
      [] r.framing = "cl"   -> IF r.bodyLen = 0 THEN << >> ELSE <<BodyPiece(r, i, 0, r.bodyLen)>>
      [] r.framing = "chunked" ->
           ChunkSegs(r, i, r.chunks, 0)
           \o <<Lit("0" \o CRLF
                    \o ConcatStr([k \in 1 .. Len(r.trailers) |-> r.trailers[k].name \o ": " \o r.trailers[k].value \o CRLF])
                    \o CRLF)>>

WellFormedReq(r) ==
    r.raw # "" \/
    (/\ r.framing \in {"none", "cl", "chunked"}
     /\ r.framing = "none" => r.bodyLen = 0
     /\ r.framing = "chunked" => (Sum(r.chunks) = r.bodyLen /\ \A k \in DOMAIN r.chunks : r.chunks[k] > 0)
     /\ r.framing # "chunked" => (r.chunks = << >> /\ r.trailers = << >>)
     /\ r.expect100 => r.framing # "none"
     /\ r.bodyLit # "" => Len(r.bodyLit) = r.bodyLen)

EncodeReq(r, i) == <<Lit(Head_(r))>> \o BodySegs(r, i)

RECURSIVE EncodeFrom(_, _)
EncodeFrom(script, i) == IF i > Len(script) THEN << >> ELSE EncodeReq(script[i], i) \o EncodeFrom(script, i + 1)
Encode(script) == EncodeFrom(script, 1)

\* per request: [start, headEnd, end]  (byte offsets on the connection)
RECURSIVE OffsetsFrom(_, _, _)
OffsetsFrom(script, i, at) ==
    IF i > Len(script) THEN << >>
    ELSE LET hl == Len(Head_(script[i])) bl == SumLen(BodySegs(script[i], i)) IN
         <<[start |-> at, headEnd |-> at + hl, end |-> at + hl + bl]>> \o OffsetsFrom(script, i + 1, at + hl + bl)
Offsets(script) == OffsetsFrom(script, 1, 0)

\* what the handler of request i must observe
Expected(r, i) ==
    [method |-> r.method, target |-> r.target, ver |-> r.ver,
     fields |-> [k \in 1 .. Len(r.fields) |-> FieldSeen(r.fields[k])],
     body |-> IF r.bodyLen = 0 THEN << >> ELSE <<<<i, 0, r.bodyLen>>>>,
     trailers |-> [k \in 1 .. Len(r.trailers) |-> [name |-> r.trailers[k].lname, value |-> r.trailers[k].seen]]]

\* the request asks to close the connection after its response
AsksClose(r) == r.close \/ (r.raw = "" /\ r.ver = "1.0" /\ NoKeepAlive(r))
=============================================================================
