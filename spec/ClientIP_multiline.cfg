CONSTANTS
  MaxToks = 1
  Big = FALSE
  NRand = 0
  Seed = 1
SPECIFICATION Spec
INVARIANTS ImplIsRefAll
