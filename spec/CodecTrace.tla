----------------------------- MODULE CodecTrace -----------------------------
(* Trace validation for C17.  Lines of the ndjson trace recorded by harness/drivers/c17 from the real code:     *)
(*   Case{id, mode, tab, nc, n, p, cross, rand, count, maxlen}     a block of the enumeration (echo of the plan)     *)
(*   Uri{in, set, fragCtl, parts, str, reparsed, restr}                                                         *)
(*   Args{in, list, enc, parsed, neturl, reenc, reparsed}                                                       *)
(*   Cookie{in, set, rec, str, ok, parsed}                                                                      *)
(*   Panic{in, msg}                                         the code under test panicked: never accepted        *)
(*   End                                                                                                         *)
(* Every observation line is one Walk step of Codec: the recorded input must be the input the enumeration is at *)
(* (`in = cur`, then cur' = Succ(blk, cur); a random block: `in` inside the declared space) and the recorded    *)
(* fields must satisfy Accept(blk, cur, line) = binding /\ laws.  `End` is only accepted when the block has     *)
(* been walked completely (left = 0).  The check is a guard per line (pure input -> output property), so a      *)
(* rejected line is recorded in `bad` and the walk goes on with the next line: one pass reports every rejected  *)
(* input.                                                                                                        *)
EXTENDS Codec, Json, IOUtils

Trace == ndJsonDeserialize(IOEnv.VERIF_TRACE)

VARIABLES l,      \* next line to consume
          bad     \* rejected lines
tvars == <<vars, l, bad>>

NoBlock == [mode |-> "none", tab |-> "gen", nc |-> 0, n |-> 0, p |-> << >>, cross |-> FALSE, rand |-> FALSE, count |-> 0, maxlen |-> 0]

TraceInit == /\ blk = NoBlock /\ cur = Done /\ left = 0 /\ seen = {} /\ obs = NoObs
             /\ l = 1 /\ bad = << >>

Line == Trace[l]

BlockOf(L) == [mode |-> L.mode, tab |-> L.tab, nc |-> L.nc, n |-> L.n, p |-> L.p, cross |-> L.cross, rand |-> L.rand,
               count |-> L.count, maxlen |-> L.maxlen]
WellFormed(b) == /\ b.mode \in Modes /\ b.tab \in Tabs /\ (b.tab = "cookie") = (b.mode = "cookie") /\ b.nc \in 0 .. 5 /\ b.n \in 0 .. 8 /\ Len(b.p) <= b.n
                 /\ \A i \in DOMAIN b.p : b.p[i] \in 1 .. NTab(b.tab)
                 /\ b.rand => (~b.cross /\ b.count \in 1 .. 100000 /\ b.maxlen \in 0 .. 64)

\* a new block may only start when the previous one has been walked completely
TraceCase == /\ l <= Len(Trace) /\ Line.ev = "Case"
             /\ IF WellFormed(BlockOf(Line))
                THEN StartBlock(BlockOf(Line)) /\ bad' = IF left = 0 THEN bad ELSE Append(bad, l)
                ELSE blk' = NoBlock /\ cur' = Done /\ left' = 0 /\ bad' = Append(bad, l)
             /\ l' = l + 1 /\ UNCHANGED <<seen, obs>>

Good(L) == /\ L.ev \in {"Uri", "Args", "Cookie"}
           /\ IF blk.rand THEN InSpace(blk, L.in) ELSE L.in = cur
           /\ Accept(blk, L.in, L)

TraceObs == /\ l <= Len(Trace) /\ Line.ev \notin {"Case", "End"}
            /\ IF left > 0
               THEN Walk /\ bad' = IF Good(Line) THEN bad ELSE Append(bad, l)
               ELSE bad' = Append(bad, l) /\ UNCHANGED <<blk, cur, left>>      \* more lines than the block has inputs
            /\ l' = l + 1 /\ UNCHANGED <<seen, obs>>

TraceEnd == /\ l <= Len(Trace) /\ Line.ev = "End"
            /\ bad' = IF left = 0 /\ blk.mode # "none" THEN bad ELSE Append(bad, l)   \* inputs missing
            /\ blk' = NoBlock /\ cur' = Done /\ left' = 0
            /\ l' = l + 1 /\ UNCHANGED <<seen, obs>>

\* the trace ends inside a block
TraceEOF == /\ l = Len(Trace) + 1 /\ blk.mode # "none"
            /\ bad' = Append(bad, l) /\ blk' = NoBlock /\ cur' = Done /\ left' = 0
            /\ UNCHANGED <<l, seen, obs>>

TraceNext == TraceCase \/ TraceObs \/ TraceEnd \/ TraceEOF

Report == (l = Len(Trace) + 1 /\ blk.mode = "none") => PrintT(<<"@@BAD", bad, l - 1, Len(Trace)>>)
=============================================================================
