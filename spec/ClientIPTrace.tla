--------------------------- MODULE ClientIPTrace ---------------------------
(* Trace validation for X03 part A.  Lines recorded by harness/drivers/x03 -part ip:                              *)
(*   Case{...}            one case of ClientIP!Space, echoed: must be well-formed (every text the driver used is  *)
(*                        the rendering of the structure next to it) and carry the right fl tag                   *)
(*   Out{modes, outs}     what ClientIP() returned, per way of installing the options: "ctx" (SetClientIPFunc on  *)
(*                        the context, the package default set to a decoy), "global" (app.SetClientIPFunc, nothing *)
(*                        on the context), "wire" (engine.SetClientIPFunc, request parsed from bytes by the real  *)
(*                        server loop; not without a connection); for via = "default": "ctx" and "wire" with      *)
(*                        nothing installed.  Every one must equal Ref(case).                                     *)
(*   End                  end of file                                                                             *)
(* A Panic line (or anything else) has no action: the case is rejected.                                           *)
EXTENDS ClientIP, Json, IOUtils

Trace == ndJsonDeserialize(IOEnv.VERIF_TRACE)

VARIABLES cur, l, bad, owed
tvars == <<cur, l, bad, owed>>

TraceInit == cur = 0 /\ l = 1 /\ bad = << >> /\ owed = FALSE
Ln == Trace[l]

ModesOf(c) == IF c.via = "default" THEN (IF c.remote.k = "noconn" THEN <<"ctx">> ELSE <<"ctx", "wire">>)
              ELSE IF c.remote.k = "noconn" THEN <<"ctx", "global">> ELSE <<"ctx", "global", "wire">>

CaseOK == /\ Ln.ev = "Case" /\ ~owed
          /\ CaseWF(Ln)
          /\ Ln.fl = FirstLineDiffers(Ln)
OutOK == /\ Ln.ev = "Out" /\ owed
         /\ Ln.modes = ModesOf(cur)
         /\ Len(Ln.outs) = Len(Ln.modes)
         /\ \E x \in {Ref(cur)} : \A i \in 1 .. Len(Ln.outs) : Ln.outs[i] = x
EndOK == Ln.ev = "End" /\ ~owed
Admitted == CaseOK \/ OutOK \/ EndOK

Apply == /\ l' = l + 1 /\ UNCHANGED bad
         /\ CASE Ln.ev = "Case" -> cur' = Ln /\ owed' = TRUE
              [] Ln.ev = "Out"  -> owed' = FALSE /\ UNCHANGED cur
              [] OTHER            -> UNCHANGED <<cur, owed>>

NextCase(j) == IF \E i \in j + 1 .. Len(Trace) : Trace[i].ev \in {"Case", "End"}
               THEN CHOOSE i \in j + 1 .. Len(Trace) : Trace[i].ev \in {"Case", "End"} /\ \A m \in j + 1 .. i - 1 : Trace[m].ev \notin {"Case", "End"}
               ELSE Len(Trace) + 1
Reject == /\ bad' = Append(bad, l)
          /\ l' = IF Len(bad) >= 20000 THEN Len(Trace) + 1 ELSE NextCase(l)
          /\ owed' = FALSE /\ UNCHANGED cur

Step == l <= Len(Trace) /\ IF Admitted THEN Apply ELSE Reject
MismatchEOF == l = Len(Trace) + 1 /\ owed /\ bad' = Append(bad, l) /\ owed' = FALSE /\ UNCHANGED <<cur, l>>
TraceNext == Step \/ MismatchEOF

Report == (l = Len(Trace) + 1 /\ ~owed) => PrintT(<<"@@BAD", bad, l - 1, Len(Trace)>>)
=============================================================================
