--------------------------- MODULE ByteQueueTrace ---------------------------
(***************************************************************************)
(* Trace validation for C13.  Every line recorded by harness/drivers/c13   *)
(* from the REAL standard.Conn / network.NewWriter must be a step of       *)
(* ByteQueue:                                                              *)
(*   Case{id,part,target,size,frag,eofAt,eofMode,endCls,tmoAt,ncp,arena,ops} *)
(*   SrcRead{n,calls,cls}  socket reads of the following op (aggregated)   *)
(*   Sink{f,t,nr,n}        what the peer received during the following op  *)
(*   Op{i,k,n,cnt,f,t,nr,cls,len,pk,ab}                                    *)
(*   End{cp}                                                               *)
(* (a Panic line has no action => the case is rejected).                   *)
(* Per Op line: the operation is operation i of the case's program, its    *)
(* result (cnt, error class) is legal in the current state, the returned   *)
(* bytes are exactly the run the model returns, Len() after the op is      *)
(* rcv - rd, and every outstanding peeked slice, re-read after the op,     *)
(* still shows its original run (pk = peeks').                             *)
(***************************************************************************)
EXTENDS ByteQueue, Json, IOUtils

Trace == ndJsonDeserialize(IOEnv.VERIF_TRACE)

VARIABLES l,       \* next line to consume
          bad,     \* lines at which a case was rejected
          prog,    \* the operations of the current case
          ncp,     \* how many ReadBinary results the driver keeps until End
          active   \* inside a case

tvars == <<vars, l, bad, prog, ncp, active>>

IdleVals == /\ eofAt' = 0 /\ rcv' = 0 /\ rd' = 0 /\ perr' = "none" /\ term' = FALSE
            /\ peeks' = << >> /\ rel' = 0 /\ copies' = << >> /\ wr' = 0 /\ flushed' = 0 /\ wip' = 0
            /\ res' = NoRes /\ hEnd' = 0 /\ hOK' = TRUE /\ steps' = 0
            /\ prog' = << >> /\ ncp' = 0 /\ active' = FALSE

TraceInit == /\ InitWith(0) /\ l = 1 /\ bad = << >> /\ prog = << >> /\ ncp = 0 /\ active = FALSE

Line == Trace[l]
IsEv(e) == l <= Len(Trace) /\ Line.ev = e /\ l' = l + 1 /\ UNCHANGED bad

Kinds == {"Peek", "Skip", "ReadByte", "ReadBinary", "Read", "Release", "Len", "Malloc", "WriteBinary", "Flush", "Write",
          "ReadFrom"}

TraceCase == /\ IsEv("Case") /\ ~active
             /\ Line.eofAt >= 0
             /\ \A i \in DOMAIN Line.ops : Line.ops[i].k \in Kinds /\ Line.ops[i].n >= 0
             /\ eofAt' = Line.eofAt /\ rcv' = 0 /\ rd' = 0 /\ perr' = "none" /\ term' = FALSE
             /\ peeks' = << >> /\ rel' = 0 /\ copies' = << >> /\ wr' = 0 /\ flushed' = 0 /\ wip' = 0
             /\ res' = NoRes /\ hEnd' = 0 /\ hOK' = TRUE /\ steps' = 0
             /\ prog' = Line.ops /\ ncp' = Line.ncp /\ active' = TRUE

\* all socket reads the connection issued during the next operation: Deliver* followed by at most one error
TraceSrc == /\ IsEv("SrcRead") /\ active
            /\ Line.n >= 0 /\ rcv + Line.n <= eofAt
            /\ (term => Line.n = 0 /\ Line.cls = perr)
            /\ rcv' = rcv + Line.n
            /\ \/ Line.cls = "none" /\ Line.n > 0 /\ UNCHANGED <<perr, term>>
               \/ Line.cls \in Terminal /\ rcv' = eofAt /\ perr' = Line.cls /\ term' = TRUE
               \/ Line.cls = "timeout" /\ ~term /\ perr' = "timeout" /\ UNCHANGED term
            /\ UNCHANGED <<eofAt, rd, peeks, rel, copies, hEnd, hOK, wr, flushed, wip, res, steps, prog, ncp, active>>

\* bytes the peer received during the next operation: one run continuing the received prefix, nothing unwritten.
\* A Write(b) hands b to the socket itself: its bytes arrive before the Op line that reports its return, so the
\* Sink line in front of a Write op is WriteBegin(n) followed by SinkRecv.  The same holds for ReadFrom(r), which flushes
\* whenever its buffer is full.
NextOpIsWrite == l + 1 <= Len(Trace) /\ Trace[l + 1].ev = "Op" /\ Trace[l + 1].k \in {"Write", "ReadFrom"} /\ Trace[l + 1].n > 0
TraceSink == /\ IsEv("Sink") /\ active
             /\ Line.nr = 1 /\ Line.f = flushed /\ Line.t = flushed + Line.n /\ Line.n > 0
             /\ IF NextOpIsWrite
                THEN /\ wip = 0 /\ wr' = wr + Trace[l + 1].n /\ wip' = Trace[l + 1].n
                ELSE UNCHANGED <<wr, wip>>
             /\ Line.t <= wr'
             /\ flushed' = Line.t
             /\ UNCHANGED <<eofAt, rcv, term, rd, perr, peeks, rel, copies, hEnd, hOK, res, steps, prog, ncp, active>>

ObsRun == [f |-> Line.f, t |-> Line.t, nr |-> Line.nr]

TraceOp ==
    /\ IsEv("Op") /\ active
    /\ steps < Len(prog) /\ Line.i = steps + 1 /\ Line.k = prog[steps + 1].k /\ Line.n = prog[steps + 1].n
    /\ steps' = steps + 1
    /\ \/ RdOp(Line.k, Line.n, Line.cnt, Line.cls, (rcv - Line.len) - rd) /\ UNCHANGED wvars
       \/ /\ Line.k = "Write" => wip = Line.n      \* its bytes have reached the peer (the Sink line before it)
          /\ WrOp(Line.k, Line.n, Line.cnt, Line.cls) /\ UNCHANGED rvars
    \* what was observed is what the model returns
    /\ res'.run = ObsRun
    /\ res'.cnt = Line.cnt
    /\ res'.ab = Line.ab          \* the caller's backing array still holds exactly what the caller wrote
    /\ Line.len = rcv - rd'
    /\ Line.pk = peeks'
    /\ UNCHANGED <<eofAt, rcv, term, prog, ncp, active>>

TraceEnd == /\ IsEv("End") /\ active /\ steps = Len(prog) /\ Line.ab = 0
            /\ Line.cp = SubSeq(copies, 1, Min2(ncp, Len(copies)))
            /\ IdleVals

Normal == TraceCase \/ TraceSrc \/ TraceSink \/ TraceOp \/ TraceEnd

NextCase(k) == IF \E j \in k + 1 .. Len(Trace) : Trace[j].ev = "Case"
               THEN CHOOSE j \in k + 1 .. Len(Trace) : Trace[j].ev = "Case" /\ \A i \in k + 1 .. j - 1 : Trace[i].ev # "Case"
               ELSE Len(Trace) + 1

Mismatch == /\ l <= Len(Trace) /\ ~ENABLED Normal
            /\ bad' = Append(bad, l)
            /\ l' = IF Len(bad) >= 50 THEN Len(Trace) + 1 ELSE NextCase(l)
            /\ IdleVals

\* the trace ends inside a case (the driver died)
MismatchEOF == /\ l = Len(Trace) + 1 /\ active
               /\ bad' = Append(bad, l) /\ l' = l /\ IdleVals

TraceNext == Normal \/ Mismatch \/ MismatchEOF

Report == (l = Len(Trace) + 1 /\ ~active) => PrintT(<<"@@BAD", bad, l - 1, Len(Trace)>>)
=============================================================================
