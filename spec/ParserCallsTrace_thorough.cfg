CONSTANTS
  MaxLenOf <- ThoroughLen
  RandMax = 16
INIT TraceInit
NEXT TraceNext
INVARIANTS Report TraceTypeOK
