----------------------------- MODULE ChainTrace -----------------------------
(* Trace validation for C12: every line of the ndjson trace recorded from the real engine must be a step of  *)
(* Chain.  Lines: Case{chain}, then Enter/Next/Resume/Abort/Exit{h} as logged by the instrumented handlers, *)
(* then End.  Internal steps of the specification (index++, loop test) are taken silently.                  *)
EXTENDS Chain, Json, IOUtils

Trace == ndJsonDeserialize(IOEnv.VERIF_TRACE)

VARIABLES l,      \* next line to consume
          bad     \* lines at which a case was rejected
tvars == <<vars, l, bad>>

Idle == /\ chain' = << >> /\ index' = -1 /\ stack' = << >> /\ out' = None
        /\ entered' = << >> /\ exited' = << >> /\ aborted' = FALSE

TraceInit == /\ chain = << >> /\ index = -1 /\ stack = << >> /\ out = None
             /\ entered = << >> /\ exited = << >> /\ aborted = FALSE
             /\ l = 1 /\ bad = << >>

Line == Trace[l]

TraceCase == /\ l <= Len(Trace) /\ Line.ev = "Case" /\ Finished
             /\ \A i \in DOMAIN Line.chain : Line.chain[i] \in Behaviours
             /\ chain' = Line.chain /\ index' = -1 /\ stack' = <<LoopFrame>> /\ out' = None
             /\ entered' = << >> /\ exited' = << >> /\ aborted' = FALSE
             /\ l' = l + 1 /\ UNCHANGED bad

\* one step of the specification; an emitting step must be the next recorded event
TraceStep == /\ ~Finished
             /\ Step
             /\ IF out'.ev = "none" THEN l' = l
                ELSE /\ l <= Len(Trace) /\ Line.ev = out'.ev /\ Line.h = out'.h /\ l' = l + 1
             /\ UNCHANGED bad

TraceEnd == /\ l <= Len(Trace) /\ Line.ev = "End" /\ Finished /\ chain # << >>
            /\ Idle /\ l' = l + 1 /\ UNCHANGED bad

Normal == TraceCase \/ TraceStep \/ TraceEnd

NextCase(k) == IF \E j \in k + 1 .. Len(Trace) : Trace[j].ev = "Case"
               THEN CHOOSE j \in k + 1 .. Len(Trace) : Trace[j].ev = "Case" /\ \A i \in k + 1 .. j - 1 : Trace[i].ev # "Case"
               ELSE Len(Trace) + 1

Mismatch == /\ l <= Len(Trace) /\ ~ENABLED Normal
            /\ bad' = Append(bad, l)
            /\ l' = IF Len(bad) >= 50 THEN Len(Trace) + 1 ELSE NextCase(l)
            /\ Idle

\* the trace ends although the specification still owes events
MismatchEOF == /\ l = Len(Trace) + 1 /\ ~Finished /\ ~ENABLED TraceStep
               /\ bad' = Append(bad, l) /\ l' = l /\ Idle

TraceNext == Normal \/ Mismatch \/ MismatchEOF

\* the properties of Chain are evaluated on every state of every recorded execution as well
Report == (l = Len(Trace) + 1 /\ Finished) => PrintT(<<"@@BAD", bad, l - 1, Len(Trace)>>)
=============================================================================
