CONSTANTS SmallLens = {0, 1, 2, 5, 16, 17}
BigLens = {4097, 8191, 8192, 8193, 8194, 16385, 65537, 204801}
INIT GenInit
NEXT GenNext
