CONSTANTS AsWritten = FALSE
  MCMaxScript = 0
  MCEntries = {}
  MCApis = {}
  MCRetryIfs = {}
  MCWarms = {}
  MCMethods = {}
  GMethods = {"GET", "HEAD", "PUT", "DELETE", "OPTIONS", "TRACE", "POST", "PATCH"}
  GRetryIfs = {"default", "always", "never", "err", "s5xx", "cancel"}
  GWarms = {"none", "live", "stale"}
  GFailLen = 3
  GRedirCodes = {301, 302, 303, 307, 308}
  GBases = {1, 2, 3, 4}
  GChainLen = 3
  GDelayKs = {0, 1, 2, 3, 10, 20}
  GDelayDs = {0, 1, 3, 100}
  GFull = TRUE
INIT GenInit
NEXT GenNext
