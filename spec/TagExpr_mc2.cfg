CONSTANTS McDepth = 2
          McLeafMode = "full"
SPECIFICATION Spec
INVARIANTS RoundTrip StyleFree EvalTotal SortSound ChainFlat
