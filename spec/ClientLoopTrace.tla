-------------------------- MODULE ClientLoopTrace --------------------------
(* Trace validation for X02.  Every line recorded by harness/drivers/x02 from the real pkg/app/client must be a   *)
(* step of ClientLoop.  Lines of a loop case: Case{configuration, script}; [Dial, Req (x=0), WarmDone]; per hop    *)
(* MwIn i.., per attempt Stale | Dial [Req] | Req(reused), between attempts RetryIf / Delay, MwOut ..i; Result;    *)
(* End.  Dial/Req/Stale are what the PEER saw.  Lines of a delay case: Case{d}, DelayOut{min,max}, End.            *)
(* Deterministic: ClientLoop has one successor per state once `hint` (the kind of the next line, used only after   *)
(* the deadline has passed) and the emitted event are fixed; silent steps are internal steps of the model.         *)
(* Wall-clock (DESIGN 2.4, generous): a call with a request timeout T returns within T + SlackMs, and not before   *)
(* T - 1 ms when it reports that the peer said nothing until the deadline.                                         *)
EXTENDS ClientLoop, Json, IOUtils

CONSTANTS SlackMs

Trace == ndJsonDeserialize(IOEnv.VERIF_TRACE)

VARIABLES l, bad
tvars == <<vars, l, bad>>

Line == Trace[l]
Hint == IF l <= Len(Trace) /\ Line.ev \in {"Dial", "MwOut"} THEN Line.ev ELSE "x"

IdleCfg == [kind |-> "idle", api |-> "do", rc |-> FALSE, maxAttempts |-> 1, retryIf |-> "default", maxRedirects |-> 0]
Idle == /\ cfg' = IdleCfg /\ pc' = "idle" /\ si' = 0 /\ mwi' = 0 /\ url' = U0 /\ meth' = "" /\ bodyk' = "none"
        /\ hop' = 0 /\ att' = 0 /\ free' = 0 /\ sends' = 0 /\ live' = {} /\ stale' = {} /\ dpass' = FALSE
        /\ cancelled' = FALSE /\ oc' = Fail("none") /\ out' = None /\ hist' = Hist0

TraceInit == /\ cfg = IdleCfg /\ pc = "idle" /\ si = 0 /\ mwi = 0 /\ url = U0 /\ meth = "" /\ bodyk = "none"
             /\ hop = 0 /\ att = 0 /\ free = 0 /\ sends = 0 /\ live = {} /\ stale = {} /\ dpass = FALSE
             /\ cancelled = FALSE /\ oc = Fail("none") /\ out = None /\ hist = Hist0
             /\ l = 1 /\ bad = << >>

\* connection failures: which of the two errors is reported depends on pooling only
ErrMatch(got, want) == IF want \in {"closed", "badpool"} THEN got \in {"closed", "badpool"}
                       ELSE IF want = "late" THEN got \in {"timeout", "canceled"} ELSE got = want

Timed == cfg.timeoutMs > 0 /\ (ReqT \/ TimerApi)
Elapsed(ln) == Timed => /\ ln.elapsedMs <= cfg.timeoutMs + SlackMs
                        /\ (dpass \/ pc = "abandon") => ln.elapsedMs >= cfg.timeoutMs - 1

Match(ln, o) ==
  /\ ln.ev = o.ev
  /\ CASE o.ev = "Dial"     -> ln.x = o.x /\ ln.ok = o.ok /\ ln.addr = o.addr /\ ln.tls = o.tls
       [] o.ev = "Req"      -> /\ ln.x = o.x /\ ln.ok /\ ln.reused = o.reused /\ ln.method = o.method
                               /\ ln.target = o.target /\ ln.host = o.host /\ ln.body = o.body
       [] o.ev = "Stale"    -> ln.method = o.method /\ ln.target = o.target
       [] o.ev = "WarmDone" -> ln.errc = "none" /\ ln.status = 200
       [] o.ev = "MwIn"     -> ln.i = o.i /\ ln.url = o.url /\ ln.method = o.method
       [] o.ev = "MwOut"    -> ln.i = o.i /\ ErrMatch(ln.errc, o.errc) /\ (o.errc = "none" => ln.status = o.status)
       [] o.ev = "RetryIf"  -> /\ ErrMatch(ln.errc, o.errc) /\ (o.errc = "none" => ln.status = o.status)
                               /\ ln.ans = o.ans /\ ln.method = o.method
       [] o.ev = "Delay"    -> ln.k = o.k /\ ErrMatch(ln.errc, o.errc)
       [] o.ev = "Result"   -> /\ ErrMatch(ln.errc, o.errc)
                               /\ (o.errc \in {"none", "toomany", "missingloc"} => ln.code = o.code /\ ln.rbody = o.rbody)
                               /\ (ln.uri # "" => ln.uri = o.uri)
                               /\ Elapsed(ln)

TraceCase == /\ l <= Len(Trace) /\ Line.ev = "Case" /\ pc = "idle" /\ Line.kind = "loop"
             /\ Begin(Line) /\ l' = l + 1 /\ UNCHANGED bad

TraceStep == /\ pc \notin {"idle", "done", "dq"}
             /\ Step(Hint)
             /\ IF out'.ev = "none" THEN l' = l ELSE l <= Len(Trace) /\ Match(Line, out') /\ l' = l + 1
             /\ UNCHANGED bad

TraceEnd == /\ l <= Len(Trace) /\ Line.ev = "End" /\ pc = "done"
            /\ Idle /\ l' = l + 1 /\ UNCHANGED bad

\* ---- the delay functions (pure): one question, one answer
TraceDelayCase == /\ l <= Len(Trace) /\ Line.ev = "Case" /\ pc = "idle" /\ Line.kind = "delay"
                  /\ cfg' = Line /\ pc' = "dq" /\ l' = l + 1
                  /\ UNCHANGED <<si, mwi, url, meth, bodyk, hop, att, free, sends, live, stale, dpass, cancelled, oc, out, hist, bad>>
TraceDelayOut == /\ l <= Len(Trace) /\ Line.ev = "DelayOut" /\ pc = "dq"
                 /\ Line.n = cfg.d.n /\ DelayOK(cfg.d, Line.min, Line.max)
                 /\ pc' = "done" /\ l' = l + 1
                 /\ UNCHANGED <<cfg, si, mwi, url, meth, bodyk, hop, att, free, sends, live, stale, dpass, cancelled, oc, out, hist, bad>>

Normal == TraceCase \/ TraceStep \/ TraceEnd \/ TraceDelayCase \/ TraceDelayOut

NextCase(k) == IF \E j \in k + 1 .. Len(Trace) : Trace[j].ev = "Case"
               THEN CHOOSE j \in k + 1 .. Len(Trace) : Trace[j].ev = "Case" /\ \A i \in k + 1 .. j - 1 : Trace[i].ev # "Case"
               ELSE Len(Trace) + 1

Mismatch == /\ l <= Len(Trace) /\ ~ENABLED Normal
            /\ bad' = Append(bad, l)
            /\ l' = IF Len(bad) >= 100000 THEN Len(Trace) + 1 ELSE NextCase(l)
            /\ Idle

MismatchEOF == /\ l = Len(Trace) + 1 /\ pc # "idle" /\ ~ENABLED TraceStep
               /\ bad' = Append(bad, l) /\ l' = l /\ Idle

TraceNext == Normal \/ Mismatch \/ MismatchEOF

Report == (l = Len(Trace) + 1 /\ pc = "idle") => PrintT(<<"@@BAD", bad, l - 1, Len(Trace)>>)
=============================================================================
