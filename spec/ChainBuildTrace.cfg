CONSTANTS MaxOps = 1 MaxGroups = 1 MaxRoutes = 1
INIT TraceInit
NEXT TraceNext
INVARIANTS Report
