\* InStep is NOT an invariant of the code as modelled: TLC must exhibit the orphan refresh
CONSTANTS
  Keys = {"A"}
  Callers = {c1}
  Counts = {1}
  CanFail = FALSE
  MaxRes = 3
  MaxCalls = 2
  MaxWTicks = 2
  MaxRTicks = 1
  RefreshResets = FALSE
SPECIFICATION Spec
VIEW View
INVARIANTS InStep
