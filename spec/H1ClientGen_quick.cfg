CONSTANTS Mode = "grid"
BigSizes = {4095, 4096, 4097, 8193, 65537}
ScriptStride = 1
CutStride = 1
INIT GenInit
NEXT GenNext
