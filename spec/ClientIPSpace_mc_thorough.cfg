CONSTANTS
  MaxToks = 3
  Big = TRUE
  NRand = 60000
SPECIFICATION Spec
INVARIANTS WF ImplIsRef NoSpoofInv RightMostInv ResultShapeInv
