CONSTANTS Mode = "grid"
BigSizes = {4095, 4096, 4097, 8191, 8192, 8193, 16385, 65537}
ScriptStride = 1
CutStride = 1
INIT GenInit
NEXT GenNext
