CONSTANTS Limit = 64
INIT GenInit
NEXT GenNext
