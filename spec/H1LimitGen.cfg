CONSTANTS Limit = 100
INIT GenInit
NEXT GenNext
