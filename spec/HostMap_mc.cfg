\* corrected behaviour; 2 keys in one map, 2 callers x 2 calls, MaxConns 1, 2 ticks, 1 retry, 1 CloseIdleConnections
CONSTANTS
  Keys = {"a", "b"}
  TLSKeys = {}
  Callers = {1, 2}
  MaxCalls = 2
  NH = 4
  MaxConns = 1
  MaxTicks = 2
  MaxCI = 1
  MaxReap = 2
  Retries = 1
  HoldCounted = TRUE
  CIAll = TRUE
SPECIFICATION Spec
VIEW View
INVARIANTS TypeOK IdsSuffice MapSound OnePerKey OrphanFree BoundedPerKey CleanerCount LockExcludes
PROPERTIES RemoveOnlyIdle CloseIdleAll CloseIdleKeepsBusy
