CONSTANTS
  Thorough = FALSE
INIT GenInit
NEXT GenNext
