CONSTANTS BigSizes = {4096, 8193, 65537}
TripleStride = 5
HugeSizes = {}
INIT GenInit
NEXT GenNext
