---------------------------- MODULE H1ServerTrace ----------------------------
(***************************************************************************)
(* Trace validation of real server connections against H1Server + Wire.    *)
(*                                                                         *)
(* Lines (driver h1srv): Case{cfg, script, ...}; Deliver{n}; Eof;          *)
(* Response{kind, status, close, seq}; Handle{seq, method, target, ver,    *)
(* fields, rd}; Read{p, k, runs, eof, err, rd}; HandleEnd{trailers, rd};   *)
(* ConnClosed; End.  Panic / Garbage / AfterClose / Blocked have no action *)
(* and therefore reject the case.                                          *)
(*                                                                         *)
(* Every trace action is the H1Server action of the same name conjoined   *)
(* with the logged arguments; what the handler saw must equal              *)
(* Wire!Expected of the request framing assigns to it.                     *)
(***************************************************************************)
EXTENDS H1Server, Wire, Json, IOUtils

Trace == ndJsonDeserialize(IOEnv.VERIF_TRACE)

VARIABLES l, bad,
          script,    \* the concrete script of the current case
          active,    \* a case is in progress
          readDone,  \* buffered mode: the handler's single body read has been logged
          eofSeen,   \* streaming: the stream reported EOF to the handler
          unread,    \* the connection was closed because a streamed body was left unread
          behs,      \* handler behaviour per request: "ok" | "panic" (recovered by the recovery middleware)
          level,     \* tracer level of the case: "detailed" | "base" | "off"
          resps      \* C04: the response program of each request's handler (empty: echo handler)
tvars == <<vars, l, bad, script, active, readDone, eofSeen, unread, behs, level, resps>>

Line == Trace[l]
HasLine == l <= Len(Trace)

\* the abstract requests of a case: offsets from Wire; a literal (raw) request is malformed; a body over the
\* configured limit is "big"; when the peer closes at offset cut (> 0) the request containing it is partial and
\* later ones never arrive
HClose(rs, bs, i) == (i \in DOMAIN rs /\ rs[i].close) \/ (i \in DOMAIN bs /\ bs[i] = "hijack")
Abstract(s, rs, bs, maxBody, cut) ==
    LET o == Offsets(s)
        n == IF cut = 0 THEN Len(s) ELSE Cardinality({i \in 1 .. Len(s) : o[i].start < cut})
    IN [i \in 1 .. n |-> [start |-> o[i].start, headEnd |-> o[i].headEnd,
                          end |-> IF cut > 0 /\ cut < o[i].end THEN cut ELSE o[i].end,
                          bodyLen |-> s[i].bodyLen, expect100 |-> s[i].expect100 /\ s[i].raw = "",
                          close |-> AsksClose(s[i]) /\ s[i].raw = "", hclose |-> HClose(rs, bs, i), bad |-> s[i].raw # "",
                          big |-> (maxBody > 0 /\ s[i].bodyLen > maxBody), ambig |-> Ambiguous(s[i]), pre |-> PreParsed(s[i]),
                          partial |-> (cut > 0 /\ o[i].start < cut /\ cut < o[i].end)]]

NoCfg == [streaming |-> FALSE, idle |-> "inloop", trace |-> FALSE, wfail |-> 0, deny |-> FALSE, nokeep |-> FALSE, tmo |-> 0]
Blank == /\ reqs' = << >> /\ cfg' = NoCfg /\ sent' = 0 /\ eof' = FALSE /\ rd' = 0
         /\ phase' = "closed" /\ cur' = 1 /\ cons' = 0 /\ interim' = FALSE /\ hlog' = << >> /\ out' = << >>
         /\ topen' = FALSE /\ pairReq' = 0 /\ tlog' = << >> /\ script' = << >> /\ active' = FALSE
         /\ readDone' = FALSE /\ eofSeen' = FALSE /\ unread' = FALSE /\ behs' = << >> /\ level' = "off" /\ resps' = << >>

TraceInit == /\ reqs = << >> /\ cfg = NoCfg /\ sent = 0 /\ eof = FALSE /\ rd = 0
             /\ phase = "closed" /\ cur = 1 /\ cons = 0 /\ interim = FALSE /\ hlog = << >> /\ out = << >>
             /\ topen = FALSE /\ pairReq = 0 /\ tlog = << >> /\ script = << >> /\ active = FALSE
             /\ readDone = FALSE /\ eofSeen = FALSE /\ unread = FALSE /\ behs = << >> /\ level = "off" /\ resps = << >>
             /\ l = 1 /\ bad = << >>

\* header fields: same number of fields, and for every name the same values in the same order (the relative
\* order of fields with different names carries no meaning, RFC 7230 3.2.2)
ValuesOf(fs, n) == SelectSeq(fs, LAMBDA f : f.name = n)
SameFields(a, b) == /\ Len(a) = Len(b)
                    /\ \A k \in DOMAIN b : ValuesOf(a, b[k].name) = ValuesOf(b, b[k].name)

Consume == l' = l + 1 /\ UNCHANGED bad
KeepAux == UNCHANGED <<script, active, readDone, eofSeen, unread, behs, level, resps>>
Beh(i) == IF i \in DOMAIN behs THEN behs[i] ELSE "ok"

TraceCase == /\ HasLine /\ Line.ev = "Case" /\ ~active
             /\ \A i \in DOMAIN Line.script : WellFormedReq(Line.script[i])
             /\ script' = Line.script /\ active' = TRUE /\ readDone' = FALSE /\ eofSeen' = FALSE /\ unread' = FALSE
             /\ reqs' = Abstract(Line.script, Line.resps, Line.behs, Line.cfg.maxBody, Line.cfg.truncate)
             /\ cfg' = [streaming |-> Line.cfg.streaming, idle |-> Line.cfg.idle, trace |-> Line.cfg.trace # "off", wfail |-> Line.cfg.wfail, deny |-> Line.cfg.deny, nokeep |-> Line.cfg.nokeep, tmo |-> Line.cfg.tmo]
             /\ behs' = Line.behs /\ level' = Line.cfg.trace /\ resps' = Line.resps
             /\ sent' = 0 /\ eof' = FALSE /\ rd' = 0 /\ phase' = "idle" /\ cur' = 1 /\ cons' = 0 /\ interim' = FALSE
             /\ hlog' = << >> /\ out' = << >> /\ topen' = FALSE /\ pairReq' = 0 /\ tlog' = << >>
             /\ Consume

TraceDeliver == /\ active /\ HasLine /\ Line.ev = "Deliver" /\ Deliver(Line.n) /\ Consume /\ KeepAux
TraceEof     == /\ active /\ HasLine /\ Line.ev = "Eof" /\ PeerEOF /\ Consume /\ KeepAux

TraceInterim == /\ active /\ HasLine /\ Line.ev = "Response" /\ Line.kind = "interim" /\ Line.status = 100
                /\ SendInterim /\ Consume /\ KeepAux

\* the handler is entered: what it sees is what framing assigns to request cur
TraceHandle ==
    /\ active /\ HasLine /\ Line.ev = "Handle"
    /\ Handle(IF Line.rd = -1 THEN (IF (cfg.streaming /\ ~reqs[cur].pre) \/ Denied(cur) THEN reqs[cur].headEnd ELSE reqs[cur].end) ELSE Line.rd)   \* -1: real sockets, position unknown
    /\ Line.seq = cur
    /\ LET e == Expected(script[cur], cur) IN
       /\ Line.method = e.method /\ Line.target = e.target /\ Line.ver = e.ver
       /\ SameFields(Line.fields, e.fields)
    /\ readDone' = FALSE /\ eofSeen' = FALSE
    /\ Consume /\ UNCHANGED <<script, active, unread, behs, level, resps>>

\* runs observed by a read that returned k bytes starting at body offset c of request i
OneRun(i, c, k) == IF k = 0 THEN << >> ELSE <<<<i, c, c + k>>>>

\* buffered body: one read returning the whole body
TraceReadBuffered ==
    /\ active /\ HasLine /\ Line.ev = "Read" /\ ~cfg.streaming /\ phase = "handle" /\ ~readDone
    /\ Line.k = (IF Denied(cur) THEN 0 ELSE BodyLen(cur)) /\ Line.runs = OneRun(cur, 0, Line.k) /\ Line.err = ""
    /\ Line.rd = rd \/ Line.rd = -1
    /\ readDone' = TRUE
    /\ Consume /\ UNCHANGED <<vars, script, active, eofSeen, unread, behs, level, resps>>

\* streaming mode, multipart form declared by Content-Length: the form was parsed while the request was read, the
\* handler gets no stream (what Body() returns is re-created from the form)
TraceReadPre ==
    /\ active /\ HasLine /\ Line.ev = "Read" /\ cfg.streaming /\ phase = "handle" /\ reqs[cur].pre /\ ~Denied(cur)
    /\ Line.k >= 0 /\ Line.err = ""      \* Body() re-creates a body from the parsed form: its bytes are not those on the wire
    /\ Line.rd = rd \/ Line.rd = -1
    /\ Consume /\ UNCHANGED <<vars, script, active, readDone, eofSeen, unread, behs, level, resps>>

Slow(i) == cfg.tmo > reqs[i].headEnd /\ cfg.tmo < reqs[i].end     \* see TraceReadTimeout
\* streamed body: a read returns the next k bytes of the body (0 <= k <= p); EOF exactly at the end
TraceReadStream ==
    /\ active /\ HasLine /\ Line.ev = "Read" /\ cfg.streaming /\ phase = "handle" /\ (~reqs[cur].pre \/ Denied(cur))
    /\ Line.err = "" \/ ((reqs[cur].partial \/ Slow(cur)) /\ ~Line.eof)      \* a body cut short by the peer, or one read of which timed out, fails the read
    /\ Line.k >= 0 /\ Line.k <= Line.p
    /\ Line.runs = OneRun(cur, cons, Line.k)
    /\ Line.eof => (cons + Line.k = BodyLen(cur) \/ Denied(cur))   \* EOF is not reported early (a refused body is never read)
    /\ (cons = BodyLen(cur) /\ Line.p > 0) => (Line.eof \/ reqs[cur].partial \/ Slow(cur))   \* nor late: a read at the end reports EOF (or fails when the peer cut the message short)
    /\ Denied(cur) => Line.k = 0
    /\ ~eofSeen \/ Line.k = 0
    /\ Line.rd = -1 \/ (rd <= Line.rd /\ (Line.rd <= reqs[cur].end \/ Over(cur)) /\ Line.rd <= sent)   \* never consumes beyond the body
    /\ IF Line.k = 0 THEN UNCHANGED cons ELSE cons' = cons + Line.k
    /\ cons + Line.k <= BodyLen(cur)
    /\ rd' = (IF Line.rd = -1 THEN rd ELSE Line.rd)
    /\ eofSeen' = (eofSeen \/ Line.eof)
    /\ Consume
    /\ UNCHANGED <<reqs, cfg, sent, eof, phase, cur, interim, hlog, out, topen, pairReq, tlog, script, active, readDone, unread, behs, level, resps>>

\* one read of the connection timed out inside the body of request cur (the peer was slow, the rest of the body
\* follows): the handler's read fails; afterwards the server still has to skip exactly the rest of the body, or close
TraceReadTimeout ==
    /\ active /\ HasLine /\ Line.ev = "ReadTimeout" /\ cfg.tmo > 0 /\ cur <= N /\ Slow(cur) /\ cfg.streaming
    /\ Consume /\ UNCHANGED <<vars, script, active, readDone, eofSeen, unread, behs, level, resps>>

\* the chunked body writer behaves as an io.Writer: every Write reports all its bytes written, no error (C04)
TraceWrote ==
    /\ active /\ HasLine /\ Line.ev = "Wrote" /\ phase = "handle"
    /\ Line.n = Line.len /\ ~Line.err
    /\ Consume /\ UNCHANGED <<vars, script, active, readDone, eofSeen, unread, behs, level, resps>>

TraceHandleEnd ==
    /\ active /\ HasLine /\ Line.ev = "HandleEnd"
    /\ HandleEnd
    /\ cfg.streaming \/ readDone \/ Beh(cur) = "panic"
    \* trailers are visible once the whole chunked body was read
    \* (fields that no Trailer header announced may be discarded: RFC 7230 4.1.2)
    /\ (~cfg.streaming \/ eofSeen) => \/ Line.trailers = Expected(script[cur], cur).trailers
                                       \/ (~Announced(script[cur]) /\ Line.trailers = << >>)
                                       \/ (reqs[cur].partial /\ Line.trailers = << >>)    \* the peer closed inside the trailer section
    /\ Consume /\ KeepAux

\* C04: what a response program must look like on the wire.  A program is
\* [status, hdrs, body |-> [kind, n, n2, declared, ops], close]; body bytes of response i are pattern origin 32+i.
RECURSIVE SumPos(_)
SumPos(ops) == IF ops = << >> THEN 0 ELSE (IF Head(ops) > 0 THEN Head(ops) ELSE 0) + SumPos(Tail(ops))
ProgBodyLen(b) == CASE b.kind = "none" -> 0
                    [] b.kind = "append" -> b.n + b.n2
                    [] b.kind = "chunkedWriter" -> SumPos(b.ops)
                    [] OTHER -> b.n
NoBody(method, status) == method = "HEAD" \/ (status >= 100 /\ status <= 199) \/ status = 204 \/ status = 304
ProgResponseOK(p, i) ==
    LET nb == NoBody(script[i].method, p.status) len == ProgBodyLen(p.body) IN
    /\ Line.status = p.status
    /\ Line.runs = (IF nb \/ len = 0 THEN << >> ELSE <<<<32 + i, 0, len>>>>)      \* exactly that body, or none
    /\ \A k \in DOMAIN p.hdrs : ValuesOf(Line.hdrs, p.hdrs[k].name) = ValuesOf(p.hdrs, p.hdrs[k].name)
    /\ Len(Line.hdrs) = Len(p.hdrs)
    /\ (Line.cl >= 0 /\ ~nb) => Line.cl = Line.bodyLen                      \* Content-Length matches the bytes sent
    /\ nb => Line.bodyLen = 0
    \* a 1xx or 204 response carries no Content-Length at all (RFC 7230 3.3.2); a bodiless answer whose program has
    \* no body either declares nothing or zero (never the length of an earlier response)
    /\ ((p.status >= 100 /\ p.status <= 199) \/ p.status = 204) => Line.ncl = 0
    /\ Line.ncl <= 1
    /\ (nb /\ len = 0 /\ ~(p.body.kind = "none" /\ p.body.declared > 0)) => Line.cl \in {-1, 0}
    /\ (p.body.kind = "none" /\ p.body.declared > 0) => Line.cl = p.body.declared     \* the declared length of a HEAD answer is kept
    /\ ((p.status >= 100 /\ p.status <= 199) \/ p.status = 204) => ~Line.chunked

\* the handler's response: the echo handler answers 200 with the sequence number of the request; a handler that
\* panicked under the recovery middleware yields a 500; a response program (C04) yields exactly its response
TraceRespond ==
    /\ active /\ HasLine /\ Line.ev = "Response" /\ phase = "write"
    \* an HTTP/1.0 client takes a response without "Connection: keep-alive" as the end of the connection
    \* (judged for the echo handler's responses; response programs that take over the writer are C04's business)
    /\ Respond(Line.close \/ (script[cur].raw = "" /\ script[cur].ver = "1.0" /\ ~Line.keepalive /\ cur \notin DOMAIN resps))
    /\ IF cur \in DOMAIN resps THEN ProgResponseOK(resps[cur], cur)
       ELSE /\ Line.kind = "final"
            /\ IF Beh(cur) = "panic" THEN Line.status = 500
               ELSE Line.seq = cur /\ Line.body = "ok-" \o ToDec(cur) /\ (Line.status = 200 \/ Denied(cur))
    /\ Consume /\ KeepAux

\* a malformed / oversized / cut-short request is answered with one 4xx carrying Connection: close (C03)
TraceReject ==
    /\ active /\ HasLine /\ Line.ev = "Response" /\ Line.kind = "final" /\ phase = "idle"
    /\ Reject
    /\ Line.status >= 400 /\ Line.status <= 499 /\ Line.close
    /\ Consume /\ KeepAux

\* the injected write fault hit the response of request cfg.wfail
TraceWriteFail == /\ active /\ HasLine /\ Line.ev = "WriteFailed" /\ WriteFail /\ Consume /\ KeepAux

TraceClosed ==
    /\ active /\ HasLine /\ Line.ev = "ConnClosed"
    /\ \/ CloseAfter /\ unread' = (unread \/ Denied(cur) \/ Over(cur))   \* a refused or oversized streamed body ends the connection too
       \/ phase = "after" /\ ~LastClose /\ CloseUnread /\ unread' = TRUE
       \/ IdleClose /\ UNCHANGED unread
       \/ AbortPartial /\ UNCHANGED unread
       \/ phase = "closed" /\ UNCHANGED <<vars, unread>>      \* after a rejection or a failed write
    /\ Consume /\ UNCHANGED <<script, active, readDone, eofSeen, behs, level, resps>>

\* tracer (C19)
TraceTStart == /\ active /\ HasLine /\ Line.ev = "TStart" /\ TStart /\ Consume /\ KeepAux

\* stage times relative to the pair's start, in the order start, read-header start/finish, read-body start/finish,
\* handle start/finish, write start/finish, finish; -1 = not recorded, -2 = recorded before this pair's start
StagesOK(st) ==
    /\ Len(st) = 10
    /\ IF level = "disabled" THEN \A i \in 1 .. 10 : st[i] = -1       \* tracers run, nothing is recorded
       ELSE st[1] >= 0 /\ st[10] >= 0
    /\ \A i \in 1 .. 10 : st[i] # -2
    /\ \A p \in {<<2, 3>>, <<4, 5>>, <<6, 7>>, <<8, 9>>} : st[p[1]] >= 0 => st[p[2]] >= 0   \* a started stage is finished
    /\ \A i, j \in 1 .. 10 : (i < j /\ st[i] >= 0 /\ st[j] >= 0) => st[i] <= st[j]

TraceTFinish ==
    /\ active /\ HasLine /\ Line.ev = "TFinish"
    /\ TFinish
    /\ pairReq # 0 => (Line.target = script[pairReq].target /\ Line.method = script[pairReq].method)
    /\ StagesOK(Line.stages)
    /\ (level = "detailed" /\ pairReq # 0 /\ cfg.wfail # pairReq) => \A i \in 1 .. 10 : Line.stages[i] >= 0
    \* the finish carries this pair's outcome, at every level: no error and no panic for a request that was handled
    \* and answered (a recovered handler panic is an ordinary 500); nothing of an earlier exchange (the context is
    \* recycled) in a pair in which not one byte of a request arrived
    /\ ~Line.panicked
    /\ (pairReq # 0 /\ cfg.wfail # pairReq /\ ~reqs[pairReq].partial) => ~Line.err
    /\ (pairReq = 0 /\ sent = rd /\ (out = << >> \/ out[Len(out)].kind # "reject")) => (Line.send = 0 /\ Line.recv = 0 /\ ~Line.err)
    \* sizes of this exchange: a handled request declared by Content-Length counts at least its body and at most its
    \* bytes on the wire; the answered echo response ("ok-<n>") counts at least its body
    /\ (pairReq # 0 /\ cfg.wfail # pairReq /\ ~reqs[pairReq].partial /\ ~reqs[pairReq].big /\ Beh(pairReq) = "ok"
           /\ script[pairReq].framing = "cl" /\ ~Denied(pairReq))
         => (Line.recv >= 1 /\ Line.recv >= reqs[pairReq].bodyLen /\ Line.recv <= reqs[pairReq].end - reqs[pairReq].start)
    /\ (pairReq # 0 /\ cfg.wfail # pairReq /\ ~reqs[pairReq].partial /\ Beh(pairReq) = "ok" /\ pairReq \notin DOMAIN resps)
         => Line.send >= 4
    /\ Consume /\ KeepAux

\* between requests (nothing logged): skip the rest of a streamed body, finish the tracer pair, next request.
\* The trace specification must stay deterministic (one successor per state), otherwise Mismatch would fire on a
\* branch that merely guessed wrong: the silent step is therefore taken exactly when the next recorded event is
\* one that only the idle phase of the next request can produce.
NeedsIdle == /\ HasLine
             /\ \/ Line.ev = "Handle"
                \/ Line.ev = "Response" \/ Line.ev = "TStart"
                \/ (Line.ev = "ConnClosed" /\ ~((cfg.streaming \/ Denied(cur)) /\ rd < reqs[cur].end))
TraceContinue == /\ active /\ phase = "after" /\ NeedsIdle /\ Continue /\ UNCHANGED <<l, bad>> /\ KeepAux

\* the connection is over: every request up to the first that closes was handled, unless the server gave up on
\* a connection whose streamed body was left unread
TraceEnd == /\ active /\ HasLine /\ Line.ev = "End" /\ phase = "closed"
            /\ unread \/ HandledOK(Len(hlog))
            /\ ~(topen /\ pairReq # 0)         \* the pair of a handled request has been finished
            \* C02: the digest of everything handlers saw and clients received (raw header values, bodies, trailers,
            \* responses) equals the digest of the same case delivered unfragmented (equal by definition when the
            \* case is not a fragmented re-run)
            /\ Line.digest = Line.ref
            /\ Blank /\ Consume

Normal == TraceCase \/ TraceDeliver \/ TraceEof \/ TraceInterim \/ TraceHandle \/ TraceReadBuffered \/ TraceReadStream
          \/ TraceHandleEnd \/ TraceRespond \/ TraceClosed \/ TraceContinue \/ TraceEnd
          \/ TraceReject \/ TraceWriteFail \/ TraceTStart \/ TraceTFinish \/ TraceWrote \/ TraceReadPre \/ TraceReadTimeout

NextCase(k) == IF \E j \in k + 1 .. Len(Trace) : Trace[j].ev = "Case"
               THEN CHOOSE j \in k + 1 .. Len(Trace) : Trace[j].ev = "Case" /\ \A i \in k + 1 .. j - 1 : Trace[i].ev # "Case"
               ELSE Len(Trace) + 1

Mismatch == /\ HasLine /\ ~ENABLED Normal
            /\ bad' = Append(bad, l)
            /\ l' = IF Len(bad) >= 50 THEN Len(Trace) + 1 ELSE NextCase(l)
            /\ Blank

MismatchEOF == /\ l = Len(Trace) + 1 /\ active /\ ~ENABLED TraceContinue
               /\ bad' = Append(bad, l) /\ l' = l /\ Blank

TraceNext == Normal \/ Mismatch \/ MismatchEOF

Report == (l = Len(Trace) + 1 /\ ~active) => PrintT(<<"@@BAD", bad, l - 1, Len(Trace)>>)
=============================================================================
