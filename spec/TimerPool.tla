----------------------------- MODULE TimerPool -----------------------------
(***************************************************************************)
(* X03 part B -- the timer pool, pkg/common/timer/timer.go:                *)
(*   AcquireTimer(d) = timerPool.Get; nil -> time.NewTimer(d), else        *)
(*                     initTimer: t.Reset(d), panic if Reset reports the   *)
(*                     timer was still active                              *)
(*   ReleaseTimer(t) = stopTimer: if !t.Stop() { non-blocking receive }    *)
(*                     then timerPool.Put(t)                               *)
(* (the classic stop-and-drain protocol for time.Timer with the buffered   *)
(* channel of Go < 1.23 / GODEBUG asynctimerchan=1, which is what a module *)
(* with "go 1.19" in go.mod -- hertz itself, the harness -- gets).         *)
(*                                                                         *)
(* Clauses (users that release every acquired timer once and do not touch  *)
(* it afterwards):                                                         *)
(*  B1 NoStaleTick   when AcquireTimer(d) returns, and as long as the      *)
(*                   caller holds the timer, the channel holds no tick of  *)
(*                   an earlier arming: whatever is received from t.C was   *)
(*                   sent by the arming made in this AcquireTimer (hence    *)
(*                   not earlier than d after the call).                   *)
(*  B2 PoolQuiescent a pooled timer is stopped and its channel is empty.   *)
(*  B3 NoTrap        initTimer never finds an active timer (no panic).      *)
(*  B4 (misuse)      releasing a timer twice is detected: a later Acquire   *)
(*                   that is handed a timer somebody else holds armed       *)
(*                   panics instead of silently sharing it.                 *)
(*                                                                         *)
(* State of a timer object t: armed[t] (in the runtime's heap), ep[t]      *)
(* (number of armings so far = identity of the current arming), ch[t] (0 = *)
(* channel empty, e = holds the tick sent by arming e), pend[t] (e = the   *)
(* runtime has taken arming e off the heap and has not executed sendTime   *)
(* yet; 0 = nothing in flight), cnt[t] (how often t sits in the pool).     *)
(* The operators Do.. are the steps as pure functions on that record, so   *)
(* that the trace specification replays exactly these steps.               *)
(*                                                                         *)
(* Constants: Drain (ReleaseTimer drains after a failed Stop: the code),   *)
(* AtomicFire (expiry and channel send are one step), Go123 (channel       *)
(* semantics of Go 1.23 modules: Stop/Reset discard a tick that was not    *)
(* received and a send in flight), Misuse (a user may release its last     *)
(* timer a second time).                                                   *)
(*   TimerPool_mc.cfg       Drain, AtomicFire             B1 B2 B3 hold     *)
(*   TimerPool_nodrain.cfg  ~Drain                        must violate B1   *)
(*   TimerPool_window.cfg   Drain, ~AtomicFire            VIOLATES B1: the  *)
(*        runtime removes the timer, Stop reports false, the drain finds    *)
(*        nothing, the send lands after Put/Get/Reset.  A limit of the      *)
(*        protocol under the old channel semantics (not reproducible at    *)
(*        will; recorded in notes/X03.md, not claimed).                     *)
(*   TimerPool_go123.cfg    Go123, ~AtomicFire, ~Drain    B1 B2 B3 hold     *)
(*   TimerPool_fix.cfg      Drain, ~AtomicFire, PutOnlyStopped  B1 B2 B3 hold: *)
(*        the proposed patch (a timer whose Stop failed is not pooled)      *)
(*   TimerPool_misuse.cfg   Misuse                        B4 (ActiveNeverShared)  *)
(*                                                                         *)
(* Deliberately unconstrained: which pooled object Get returns and whether *)
(* the pool has dropped its content (sync.Pool may, at any GC); when a     *)
(* timer fires relative to everything else; real time (the binding adds    *)
(* one axiom: an arming with duration d does not fire earlier than d).     *)
(***************************************************************************)
EXTENDS Integers, Sequences, FiniteSets, TLC

CONSTANTS NT,          \* timer objects that may be created
          NU,          \* users
          Rounds,      \* acquire/release cycles per user
          Drain, AtomicFire, Go123, Misuse,
          PutOnlyStopped   \* the proposed fix: ReleaseTimer pools the timer only when Stop reported it active

TIDs == 1 .. NT
Users == 1 .. NU

\* ---------------------------------------------------------------- the steps, as functions on the timer record
S0 == [armed |-> [t \in TIDs |-> FALSE], ep |-> [t \in TIDs |-> 0], ch |-> [t \in TIDs |-> 0],
       pend |-> [t \in TIDs |-> 0], cnt |-> [t \in TIDs |-> 0]]

DoNew(s, t) == [s EXCEPT !.armed[t] = TRUE, !.ep[t] = 1]                      \* time.NewTimer(d)
DoGet(s, t) == [s EXCEPT !.cnt[t] = @ - 1]                                    \* timerPool.Get returns t
DoPut(s, t) == [s EXCEPT !.cnt[t] = @ + 1]                                    \* timerPool.Put(t)
\* t.Reset(d): (re)arms; reports whether the timer was active.  Go 1.23 channels: also discards an unreceived tick
\* and a send in flight
WasActive(s, t) == s.armed[t]
DoReset(s, t) == [s EXCEPT !.armed[t] = TRUE, !.ep[t] = @ + 1,
                           !.ch[t] = IF Go123 THEN 0 ELSE @, !.pend[t] = IF Go123 THEN 0 ELSE @]
\* t.Stop()
DoStop(s, t) == [s EXCEPT !.armed[t] = FALSE,
                          !.ch[t] = IF Go123 THEN 0 ELSE @, !.pend[t] = IF Go123 THEN 0 ELSE @]
\* select { case <-t.C: default: }
DoDrain(s, t) == [s EXCEPT !.ch[t] = 0]
\* the runtime: expiry (off the heap) and sendTime (non-blocking send into the 1-buffered channel)
Send(s, t, e) == IF s.ch[t] = 0 THEN [s EXCEPT !.ch[t] = e] ELSE s
DoFireBegin(s, t) == [s EXCEPT !.armed[t] = FALSE, !.pend[t] = s.ep[t]]
DoFireSend(s, t) == [Send(s, t, s.pend[t]) EXCEPT !.pend[t] = 0]
DoFire(s, t) == DoFireSend(DoFireBegin(s, t), t)                              \* both at once
DoRecv(s, t) == [s EXCEPT !.ch[t] = 0]                                        \* <-t.C by the holder
\* ReleaseTimer as a whole, given what Stop reported
DoRelease(s, t) == LET a == WasActive(s, t)  s1 == DoStop(s, t)
                       s2 == IF Drain /\ ~a THEN DoDrain(s1, t) ELSE s1
                   IN IF PutOnlyStopped /\ ~a THEN s2 ELSE DoPut(s2, t)

\* ---------------------------------------------------------------- the state machine (code granularity)
VARIABLES s,       \* the timer record
          made,    \* timer objects created so far
          pc,      \* per user: "idle" "reset" "hold" "stopped" "drained" "panic"
          tm,      \* per user: the timer it works on (0: none)
          act,     \* per user: what Stop reported
          left,    \* per user: cycles left
          rcv,     \* per user: <<arming of the last received tick, arming current at that moment>> or <<0,0>>
          again    \* per user: the timer it may wrongly release once more (0: none)
vars == <<s, made, pc, tm, act, left, rcv, again>>

Init == /\ s = S0 /\ made = 0
        /\ pc = [u \in Users |-> "idle"] /\ tm = [u \in Users |-> 0] /\ act = [u \in Users |-> FALSE]
        /\ left = [u \in Users |-> Rounds] /\ rcv = [u \in Users |-> <<0, 0>>] /\ again = [u \in Users |-> 0]

\* AcquireTimer: Get returned nil (empty pool, or the pool dropped what it had) -> NewTimer
AcqNew(u) == /\ pc[u] = "idle" /\ left[u] > 0 /\ made < NT
             /\ made' = made + 1 /\ s' = DoNew(s, made + 1)
             /\ tm' = [tm EXCEPT ![u] = made + 1] /\ pc' = [pc EXCEPT ![u] = "hold"]
             /\ left' = [left EXCEPT ![u] = @ - 1] /\ again' = [again EXCEPT ![u] = 0]
             /\ UNCHANGED <<act, rcv>>
\* AcquireTimer: Get returned t
AcqGet(u, t) == /\ pc[u] = "idle" /\ left[u] > 0 /\ s.cnt[t] > 0
                /\ s' = DoGet(s, t) /\ tm' = [tm EXCEPT ![u] = t] /\ pc' = [pc EXCEPT ![u] = "reset"]
                /\ left' = [left EXCEPT ![u] = @ - 1] /\ again' = [again EXCEPT ![u] = 0]
                /\ UNCHANGED <<made, act, rcv>>
\* initTimer: Reset, panic when it reports an active timer
AcqReset(u) == /\ pc[u] = "reset"
               /\ s' = DoReset(s, tm[u])
               /\ pc' = [pc EXCEPT ![u] = IF WasActive(s, tm[u]) THEN "panic" ELSE "hold"]
               /\ UNCHANGED <<made, tm, act, left, rcv, again>>
\* the holder receives from t.C
Recv(u) == /\ pc[u] = "hold" /\ s.ch[tm[u]] # 0
           /\ rcv' = [rcv EXCEPT ![u] = <<s.ch[tm[u]], s.ep[tm[u]]>>]
           /\ s' = DoRecv(s, tm[u])
           /\ UNCHANGED <<made, pc, tm, act, left, again>>
\* ReleaseTimer: Stop / conditional drain / Put
RelStop(u) == /\ pc[u] = "hold"
              /\ act' = [act EXCEPT ![u] = WasActive(s, tm[u])]
              /\ s' = DoStop(s, tm[u]) /\ pc' = [pc EXCEPT ![u] = "stopped"]
              /\ UNCHANGED <<made, tm, left, rcv, again>>
RelDrain(u) == /\ pc[u] = "stopped"
               /\ s' = IF Drain /\ ~act[u] THEN DoDrain(s, tm[u]) ELSE s
               /\ pc' = [pc EXCEPT ![u] = "drained"]
               /\ UNCHANGED <<made, tm, act, left, rcv, again>>
RelPut(u) == /\ pc[u] = "drained"
             /\ s' = (IF PutOnlyStopped /\ ~act[u] THEN s ELSE DoPut(s, tm[u])) /\ pc' = [pc EXCEPT ![u] = "idle"]
             /\ again' = [again EXCEPT ![u] = IF again[u] = -1 THEN 0 ELSE tm[u]]
             /\ tm' = [tm EXCEPT ![u] = 0]
             /\ UNCHANGED <<made, act, left, rcv>>
\* misuse: the user releases the timer it has just released once more (again = -1: this was the second time)
RelAgain(u) == /\ Misuse /\ pc[u] = "idle" /\ again[u] > 0
               /\ tm' = [tm EXCEPT ![u] = again[u]] /\ again' = [again EXCEPT ![u] = -1]
               /\ act' = [act EXCEPT ![u] = WasActive(s, again[u])]
               /\ s' = DoStop(s, again[u]) /\ pc' = [pc EXCEPT ![u] = "stopped"]
               /\ UNCHANGED <<made, left, rcv>>
\* the runtime
FireBegin(t) == /\ s.armed[t]
                /\ s' = IF AtomicFire THEN DoFire(s, t) ELSE DoFireBegin(s, t)
                /\ UNCHANGED <<made, pc, tm, act, left, rcv, again>>
FireSend(t) == /\ s.pend[t] # 0
               /\ s' = DoFireSend(s, t)
               /\ UNCHANGED <<made, pc, tm, act, left, rcv, again>>

Next == \/ \E u \in Users : AcqNew(u) \/ AcqReset(u) \/ Recv(u) \/ RelStop(u) \/ RelDrain(u) \/ RelPut(u) \/ RelAgain(u)
        \/ \E u \in Users, t \in TIDs : AcqGet(u, t)
        \/ \E t \in TIDs : FireBegin(t) \/ FireSend(t)
Spec == Init /\ [][Next]_vars

\* ---------------------------------------------------------------- properties
TypeOK == /\ made \in 0 .. NT
          /\ \A t \in TIDs : s.cnt[t] \in 0 .. 2 * NU * Rounds /\ s.ch[t] \in 0 .. s.ep[t] /\ s.pend[t] \in 0 .. s.ep[t]
          /\ \A u \in Users : tm[u] \in 0 .. NT /\ left[u] \in 0 .. Rounds
Holds(u) == pc[u] \in {"hold"}
\* B1: what the holder finds in / receives from the channel was sent by its own arming
NoStaleTick == /\ \A u \in Users : Holds(u) => s.ch[tm[u]] \in {0, s.ep[tm[u]]}
               /\ \A u \in Users : rcv[u][1] = rcv[u][2]
\* B2
PoolQuiescent == \A t \in TIDs : s.cnt[t] > 0 => ~s.armed[t] /\ s.ch[t] = 0
\* B3
NoTrap == \A u \in Users : pc[u] # "panic"
\* nobody shares a timer, and no timer sits in the pool while somebody holds it
Exclusive == /\ \A u, v \in Users : (u # v /\ tm[u] # 0 /\ pc[u] # "idle" /\ pc[v] # "idle") => tm[u] # tm[v]
             /\ \A u \in Users : (pc[u] # "idle" /\ tm[u] # 0) => s.cnt[tm[u]] = 0
\* B4 (Misuse = TRUE): an ACTIVE timer is never handed out: AcquireTimer returns a pooled timer only if its previous
\* arming had fired or was stopped, otherwise it panics (two users can still end up sharing an expired timer)
ActiveNeverShared ==
  [][\A u \in Users : (pc[u] = "reset" /\ pc'[u] = "hold") => ~s.armed[tm[u]]]_vars
=============================================================================
