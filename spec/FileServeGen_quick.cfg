CONSTANTS Lens = {0, 1, 2, 3, 4} Nums = {0, 1, 2, 3, 4, 5} MaxSmall = 8192 MaxReqs = 0
  Tier = "quick" BigLens = {8192, 8193} BigNumSet = {0, 1, 8191, 8192, 8193} OptLens = {} OptNums = {}
INIT GenInit
NEXT GenNext
