------------------------------ MODULE CodecMC ------------------------------
(* Root module of Codec_mc.cfg: Codec with byte strings as sequences of byte values, plus the constant-level     *)
(* obligations (blocks partition the declared space; the laws reject broken codecs).                             *)
EXTENDS Codec
McFamiliesDef == {[mode |-> "query",  tab |-> "gen",     nc |-> 0, cross |-> FALSE, maxlen |-> 3],
                  [mode |-> "args",   tab |-> "gen",     nc |-> 1, cross |-> FALSE, maxlen |-> 2],
                  [mode |-> "args",   tab |-> "gen",     nc |-> 3, cross |-> FALSE, maxlen |-> 2],
                  [mode |-> "args",   tab |-> "gen",     nc |-> 5, cross |-> FALSE, maxlen |-> 1],
                  [mode |-> "uri",    tab |-> "gen",     nc |-> 3, cross |-> TRUE,  maxlen |-> 1],
                  [mode |-> "uri",    tab |-> "gen",     nc |-> 3, cross |-> FALSE, maxlen |-> 2],
                  [mode |-> "uri",    tab |-> "pct",    nc |-> 3, cross |-> FALSE, maxlen |-> 2],
                  [mode |-> "cookie", tab |-> "cookie", nc |-> 1, cross |-> TRUE,  maxlen |-> 0],
                  [mode |-> "cookie", tab |-> "cookie", nc |-> 1, cross |-> FALSE, maxlen |-> 2]}
ASSUME McAssumptions
=============================================================================
