----------------------------- MODULE LBCacheObs -----------------------------
(***************************************************************************************************************)
(* The deterministic OBSERVER of LBCache: what can be said about a history of the balancer cache from the       *)
(* callbacks alone (Target / Resolve begin+end / Rebalance / Delete / Pick, call and return), without seeing    *)
(* the silent steps (cache load, singleflight join, lease flag, ticks).  It is the subset construction of       *)
(* LBCache over its silent steps, written by hand as a pure function  OStep(o, e) : state x event -> state;     *)
(* o.ok = FALSE means "no behaviour of LBCache produces this history" (rejected).                              *)
(*   - spec/LBCacheObsMC.tla checks exhaustively that the observer accepts EVERY behaviour of LBCache (no      *)
(*     false alarm with respect to the model, including the orphan-refresh and late-Pick races);               *)
(*   - spec/LBCacheTrace.tla runs it over the events recorded from the real code.                              *)
(*                                                                                                             *)
(* Abstract state per key k:  cst = "no" | "maybe" | "yes"  (an entry is published: no / between the leader's   *)
(* Rebalance and its next event / certainly), stored = versions that may be the entry's current result,        *)
(* bal = what the balancer holds (positive-weight instances last rebalanced or lazily computed), bk = balancer  *)
(* key, since = "present at some moment since refresh last visited k", lastUse = start time of the latest call  *)
(* known to have reset the lease flag.  Per caller: miss = "the entry was absent at some moment of this call",   *)
(* cand = versions the call may legitimately hand to Pick, errok = a first resolution it may have joined failed.*)
(*                                                                                                             *)
(* What a history is REJECTED for (clauses of X01, see LBCache.tla):                                            *)
(*  (1) Pick hands over a result that was never current for that key during the call, or with another balancer *)
(*      key; the instance picked is not a positive-weight member of what the balancer holds; Rebalance differs  *)
(*      from the successful Resolve just made by the same process or uses a key other than <resolver>:<CacheKey>*)
(*  (2) a caller starts Resolve while another caller's Resolve of the key is in flight, or although the entry   *)
(*      was present during its whole call (unless the watcher's Delete line follows: pend); refresh resolves a  *)
(*      key that had no entry since its last visit, or visits one key three times without visiting another key  *)
(*      that had an entry all the while (a Range skipped it)                                                    *)
(*  (3) Delete for a key without entry (twice / never created) or under a key the balancer does not know the    *)
(*      entry by; Delete sooner than ExpireInterval/2 after a call that used the entry began (only judged when  *)
(*      the driver measured no scheduling stall > 10 ms around it); Quiesce (the driver waited >= 15 expire     *)
(*      intervals after the last call) with an entry left                                                      *)
(*  (4) anything but "nothing" after a failed Resolve (a Rebalance, a later miss without Delete, ...)           *)
(*  (5) Return that is not (instance picked, no error) / (no instance, error); an error without a failed        *)
(*      resolution; Panic, Hang.                                                                               *)
(***************************************************************************************************************)
EXTENDS Integers, Sequences, FiniteSets

OKeys == {"a", "b", "c"}
OCallers == 1 .. 3
OStallOK == 10
ORange(s) == {s[i] : i \in DOMAIN s}
OMax(a, b) == IF a > b THEN a ELSE b
ONoCs == [at |-> "idle", k |-> "-", miss |-> FALSE, cand |-> {}, errok |-> FALSE, x |-> 0, t0 |-> 0, v |-> 0]
ONoRf == [at |-> "idle", k |-> "-", v |-> 0, orph |-> FALSE]
OZero == [a \in OKeys |-> 0]

OInit(rname, expireMs) ==
    [ok |-> TRUE, rname |-> rname, exp |-> expireMs, nv |-> 0, vers |-> << >>,
     cst |-> [k \in OKeys |-> "no"], stored |-> [k \in OKeys |-> {}], bk |-> [k \in OKeys |-> ""],
     tkey |-> [k \in OKeys |-> ""], bal |-> [k \in OKeys |-> [has |-> FALSE, pos |-> << >>]],
     since |-> [k \in OKeys |-> FALSE], lastUse |-> [k \in OKeys |-> -1000000],
     lead |-> [k \in OKeys |-> 0], pend |-> [k \in OKeys |-> FALSE],
     rcnt |-> [b \in OKeys |-> OZero], cs |-> [p \in OCallers |-> ONoCs], rf |-> ONoRf]

OReject(o) == [o EXCEPT !.ok = FALSE]
\* rcnt[b][a]: refresh visits of key a since b was last visited, while b certainly had an entry all the time.
\* Three visits of a enclose one complete Range (ticks are sequential, Range visits every key that is present
\* throughout): a third one without a visit of b means refresh skipped b  ("refreshes every RefreshInterval").
ORefreshVisit(o, a) ==
    [b \in OKeys |-> IF b = a THEN OZero
                     ELSE [o.rcnt[b] EXCEPT ![a] = IF o.cst[b] = "yes" THEN @ + 1 ELSE @]]
\* callers whose call on k is in progress and has not picked yet
OOn(o, k) == {p \in OCallers : o.cs[p].k = k /\ o.cs[p].at \in {"target", "resolve", "resolved", "picking"}}
OAddCand(o, k, v) == [p \in OCallers |-> IF p \in OOn(o, k) THEN [o.cs[p] EXCEPT !.cand = @ \cup {v}] ELSE o.cs[p]]
OIdsOK(e) == /\ \A i \in DOMAIN e.ins : e.ins[i] = e.v * 10 + i
             /\ ORange(e.pos) \subseteq ORange(e.ins)
OVer(o, e) == [k |-> e.key, ins |-> e.ins, pos |-> e.pos, bck |-> o.rname \o ":" \o e.ck]
OIsCaller(e) == e.p \in OCallers
OIsKey(e) == e.key \in OKeys

OCall(o, e) ==
    IF OIsCaller(e) /\ OIsKey(e) /\ o.cs[e.p].at = "idle"
    THEN [o EXCEPT !.cs[e.p] = [ONoCs EXCEPT !.at = "called", !.k = e.key]]
    ELSE OReject(o)

OTarget(o, e) ==
    IF OIsCaller(e) /\ OIsKey(e)
       /\ (o.cs[e.p].at = "idle" \/ (o.cs[e.p].at = "called" /\ o.cs[e.p].k = e.key))
    THEN [o EXCEPT !.cs[e.p] = [ONoCs EXCEPT !.at = "target", !.k = e.key, !.t0 = e.t,
                                              !.miss = (o.cst[e.key] # "yes"),
                                              \* a failed first resolution whose flight may still be joined
                                              !.errok = (\E q \in OCallers : o.cs[q].at = "failed" /\ o.cs[q].k = e.key),
                                              !.cand = IF o.cst[e.key] = "no" THEN {} ELSE o.stored[e.key]],
                    !.tkey[e.key] = e.tk]
    ELSE OReject(o)

OResolveBegin(o, e) ==
    IF ~OIsKey(e) THEN OReject(o)
    ELSE IF e.p = 0
    THEN IF o.rf.at = "idle" /\ o.since[e.key] /\ \A b \in OKeys : ORefreshVisit(o, e.key)[b][e.key] < 3
         THEN [o EXCEPT !.rf = [at |-> "resolve", k |-> e.key, v |-> 0, orph |-> FALSE],
                        !.since[e.key] = (o.cst[e.key] # "no"),
                        !.rcnt = ORefreshVisit(o, e.key)]
         ELSE OReject(o)
    ELSE IF OIsCaller(e) /\ o.cs[e.p].at = "target" /\ o.cs[e.p].k = e.key /\ o.lead[e.key] = 0
         THEN IF o.cs[e.p].miss
              THEN [o EXCEPT !.cs[e.p].at = "resolve", !.lead[e.key] = e.p]
              \* The entry was there during the whole call as far as the callbacks tell.  The only way this is a
              \* behaviour of LBCache: the watcher has already removed the entry (b.cache.Delete) and its
              \* balancer.Delete callback is still to come.  Taken as such, with the obligation pend[k] that the
              \* Delete line follows (checked at the next Delete / Quiesce / End and by a second such Resolve).
              ELSE IF o.cst[e.key] = "yes" /\ ~o.pend[e.key]
                   THEN [o EXCEPT !.lead[e.key] = e.p, !.pend[e.key] = TRUE, !.cst[e.key] = "no",
                                  !.rcnt[e.key] = OZero,
                                  !.stored[e.key] = {},
                                  !.rf.orph = IF o.rf.k = e.key THEN TRUE ELSE @,
                                  !.cs = [p \in OCallers |->
                                            IF p = e.p THEN [o.cs[p] EXCEPT !.at = "resolve", !.miss = TRUE]
                                            ELSE IF o.cs[p].k = e.key /\ o.cs[p].at = "target"
                                                 THEN [o.cs[p] EXCEPT !.miss = TRUE] ELSE o.cs[p]]]
                   ELSE OReject(o)
         ELSE OReject(o)

OResolveEnd(o, e) ==
    IF ~OIsKey(e) THEN OReject(o)
    ELSE IF e.p = 0
    THEN IF ~(o.rf.at = "resolve" /\ o.rf.k = e.key) THEN OReject(o)
         ELSE IF e.err THEN [o EXCEPT !.rf = ONoRf]
         ELSE IF e.v = o.nv + 1 /\ OIdsOK(e)
              THEN [o EXCEPT !.nv = e.v, !.vers = Append(o.vers, OVer(o, e)), !.rf.at = "ended", !.rf.v = e.v,
                             !.stored[e.key] = IF o.cst[e.key] = "no" THEN @ ELSE @ \cup {e.v},
                             !.cs = OAddCand(o, e.key, e.v)]
              ELSE OReject(o)
    ELSE IF ~(OIsCaller(e) /\ o.cs[e.p].at = "resolve" /\ o.cs[e.p].k = e.key) THEN OReject(o)
         ELSE IF e.err
              THEN [o EXCEPT !.lead[e.key] = 0,
                             !.cs = [p \in OCallers |->
                                       IF p = e.p THEN [o.cs[p] EXCEPT !.at = "failed"]
                                       ELSE IF o.cs[p].k = e.key /\ o.cs[p].at = "target"
                                            THEN [o.cs[p] EXCEPT !.errok = TRUE] ELSE o.cs[p]]]
              ELSE IF e.v = o.nv + 1 /\ OIdsOK(e)
                   THEN [o EXCEPT !.nv = e.v, !.vers = Append(o.vers, OVer(o, e)),
                                  !.cs[e.p].at = "resolved", !.cs[e.p].v = e.v]
                   ELSE OReject(o)

OSame(o, v, e) == o.vers[v].ins = e.ins /\ o.vers[v].pos = e.pos /\ o.vers[v].bck = e.ck

ORebalance(o, e) ==
    IF e.p = 0
    THEN LET k == o.rf.k IN
         IF o.rf.at = "ended" /\ OSame(o, o.rf.v, e)
         THEN [o EXCEPT !.bal[k] = [has |-> TRUE, pos |-> e.pos],
                        !.stored[k] = IF o.cst[k] # "no" /\ ~o.rf.orph THEN {o.rf.v} ELSE @,
                        !.rf = ONoRf]
         ELSE OReject(o)
    ELSE IF OIsCaller(e) /\ o.cs[e.p].at = "resolved" /\ OSame(o, o.cs[e.p].v, e)
         THEN LET k == o.cs[e.p].k
                  v == o.cs[e.p].v
                  cs1 == OAddCand(o, k, v) IN
              [o EXCEPT !.lead[k] = 0, !.cst[k] = "maybe", !.bk[k] = e.ck, !.rcnt[k] = OZero,
                        !.bal[k] = [has |-> TRUE, pos |-> e.pos], !.since[k] = TRUE,
                        \* (an entry a second leader is about to replace can still be loaded until Store)
                        !.stored[k] = IF o.cst[k] = "no" THEN {v} ELSE @ \cup {v},
                        !.lastUse[k] = OMax(@, o.cs[e.p].t0),
                        \* a refresh in progress on k works on the entry this one replaces
                        !.rf.orph = IF o.rf.k = k THEN TRUE ELSE @,
                        !.cs = [cs1 EXCEPT ![e.p].at = "picking"]]
         ELSE OReject(o)

OPick(o, e) ==
    IF ~(OIsCaller(e) /\ o.cs[e.p].at \in {"target", "picking"}) THEN OReject(o)
    ELSE LET k == o.cs[e.p].k
             src == IF o.bal[k].has THEN o.bal[k].pos ELSE e.pos IN
         IF /\ \E v \in o.cs[e.p].cand : OSame(o, v, e)
            /\ IF src = << >> THEN e.x = 0 ELSE e.x \in ORange(src)
         THEN [o EXCEPT !.bal[k] = [has |-> TRUE, pos |-> src],
                        !.cst[k] = IF @ = "maybe" THEN "yes" ELSE @,
                        !.lastUse[k] = OMax(@, o.cs[e.p].t0),
                        !.cs[e.p].at = "picked", !.cs[e.p].x = e.x]
         ELSE OReject(o)

OReturn(o, e) ==
    IF ~(OIsCaller(e) /\ e.key = o.cs[e.p].k) THEN OReject(o)
    ELSE LET c == o.cs[e.p] IN
         IF \/ c.at = "picked" /\ e.x = c.x /\ (e.err <=> c.x = 0)
            \/ c.at = "failed" /\ e.err /\ e.x = 0
            \/ c.at = "target" /\ c.errok /\ e.err /\ e.x = 0
         THEN [o EXCEPT !.cs[e.p] = ONoCs]
         ELSE OReject(o)

ODelete(o, e) ==
    LET K == {k \in OKeys : e.key # "" /\ (o.tkey[k] = e.key \/ o.bk[k] = e.key)} IN
    IF Cardinality(K) # 1 THEN OReject(o)
    ELSE LET k == CHOOSE k \in K : TRUE IN
         IF /\ (o.cst[k] # "no" \/ o.pend[k])
            /\ e.key = o.bk[k]
            /\ e.stall <= OStallOK => e.t - o.lastUse[k] >= o.exp \div 2
         THEN IF o.pend[k]    \* the announced Delete of an entry already accounted for as gone
              THEN [o EXCEPT !.pend[k] = FALSE, !.bal[k] = [has |-> FALSE, pos |-> << >>]]
              ELSE [o EXCEPT !.cst[k] = "no", !.stored[k] = {}, !.bal[k] = [has |-> FALSE, pos |-> << >>],
                             !.rcnt[k] = OZero,
                             !.rf.orph = IF o.rf.k = k THEN TRUE ELSE @,
                             !.cs = [p \in OCallers |-> IF o.cs[p].k = k /\ o.cs[p].at = "target"
                                                        THEN [o.cs[p] EXCEPT !.miss = TRUE] ELSE o.cs[p]]]
         ELSE OReject(o)

OQuiesce(o, e) ==
    IF /\ \A p \in OCallers : o.cs[p].at = "idle"
       /\ \A k \in OKeys : o.cst[k] = "no" /\ ~o.pend[k]
    THEN o ELSE OReject(o)

\* end of a history: every call has returned and no Delete is owed
OEnd(o) == (\A p \in OCallers : o.cs[p].at = "idle") /\ (\A k \in OKeys : ~o.pend[k])

OStep(o, e) ==
    CASE e.ev = "Call" -> OCall(o, e)
      [] e.ev = "Target" -> OTarget(o, e)
      [] e.ev = "ResolveBegin" -> OResolveBegin(o, e)
      [] e.ev = "ResolveEnd" -> OResolveEnd(o, e)
      [] e.ev = "Rebalance" -> ORebalance(o, e)
      [] e.ev = "Pick" -> OPick(o, e)
      [] e.ev = "Return" -> OReturn(o, e)
      [] e.ev = "Delete" -> ODelete(o, e)
      [] e.ev = "Quiesce" -> OQuiesce(o, e)
      [] OTHER -> OReject(o)
=============================================================================
