CONSTANTS SmallLens = {0, 1, 5, 17}
BigLens = {8193, 16385}
INIT GenInit
NEXT GenNext
