CONSTANTS SmallLens = {0, 1, 5, 17}
BigLens = {8193, 16385, 204801}
INIT GenInit
NEXT GenNext
