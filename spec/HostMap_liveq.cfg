\* liveness, corrected, unbounded ticks and reaping: an idle HostClient is removed, the map drains, the cleaner stops (one http and one https key, 2 callers x 1 call)
CONSTANTS
  Keys = {"a", "b"}
  TLSKeys = {"b"}
  Callers = {1, 2}
  MaxCalls = 1
  NH = 2
  MaxConns = 1
  MaxTicks = 99
  MaxCI = 0
  MaxReap = 0
  Retries = 1
  HoldCounted = TRUE
  CIAll = TRUE
SPECIFICATION FairSpec
VIEW View
INVARIANTS TypeOK CleanerCount
PROPERTIES IdleRemoved Drains
