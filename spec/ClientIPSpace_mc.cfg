CONSTANTS
  MaxToks = 2
  Big = FALSE
  NRand = 4000
SPECIFICATION Spec
INVARIANTS WF ImplIsRef NoSpoofInv RightMostInv ResultShapeInv
