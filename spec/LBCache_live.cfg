\* liveness (3c): unbounded ticks, refresh does not clear the lease flag (corrected behaviour): IdleExpires holds
CONSTANTS
  Keys = {"A", "B"}
  Callers = {c1}
  Counts = {1}
  CanFail = TRUE
  MaxRes = 2
  MaxCalls = 2
  MaxWTicks = 0
  MaxRTicks = 0
  RefreshResets = FALSE
SPECIFICATION LiveSpec
INVARIANTS TypeOK MarkedUnused
PROPERTIES IdleExpires
