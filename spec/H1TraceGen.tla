----------------------------- MODULE H1TraceGen -----------------------------
(***************************************************************************)
(* Case generator for C19 (and the error paths of C03): connection         *)
(* histories of 1..MaxK requests, each with an outcome                     *)
(*   ok (GET / POST with Content-Length / PUT chunked), handler panic      *)
(*   recovered by the recovery middleware, malformed head, body over the   *)
(*   limit,                                                                *)
(* optionally ended by the peer closing in the middle of the last request  *)
(* or by a failing response write, closed by Connection: close or by the   *)
(* peer; for every tracer level and idle mode.                             *)
(***************************************************************************)
EXTENDS Wire, Json, IOUtils, SequencesExt

CONSTANTS MaxK

F(lname, style, words) == [lname |-> lname, style |-> style, words |-> words]
HostField == F("host", "canon", <<"example.com">>)

Req(m, t, fr, n, cs) ==
    [method |-> m, target |-> t, ver |-> "1.1", fields |-> <<HostField, F("x-a", "canon", <<"v1">>)>>,
     framing |-> fr, bodyLen |-> n, chunks |-> cs, hexUpper |-> FALSE, chunkExt |-> FALSE,
     trailers |-> << >>, expect100 |-> FALSE, close |-> FALSE, clStyle |-> "canon", bodyLit |-> "", raw |-> ""]

Raw(s) == [Req("GET", "/", "none", 0, << >>) EXCEPT !.raw = s]

\* request kinds: [req, beh]
Kind(k, i) ==
    CASE k = "get"     -> [req |-> Req("GET", "/g" \o ToDec(i), "none", 0, << >>), beh |-> "ok"]
      [] k = "post"    -> [req |-> Req("POST", "/p" \o ToDec(i) \o "?x=1", "cl", 5, << >>), beh |-> "ok"]
      [] k = "chunked" -> [req |-> Req("PUT", "/c" \o ToDec(i), "chunked", 7, <<3, 4>>), beh |-> "ok"]
      [] k = "panic"   -> [req |-> Req("POST", "/boom" \o ToDec(i), "cl", 3, << >>), beh |-> "panic"]
      \* the handler hijacks the connection: the response is written, then the connection belongs to the handler
      [] k = "hijack"  -> [req |-> Req("GET", "/hj" \o ToDec(i), "none", 0, << >>), beh |-> "hijack"]
      \* malformed heads: a header line without a colon; an empty method; a non-numeric Content-Length
      [] k = "bad1"    -> [req |-> Raw("GET /bad HTTP/1.1\r\nHost: example.com\r\nNoColonHere\r\n\r\n"), beh |-> "ok"]
      [] k = "bad2"    -> [req |-> Raw(" /nomethod HTTP/1.1\r\nHost: example.com\r\n\r\n"), beh |-> "ok"]
      [] k = "bad3"    -> [req |-> Raw("POST /badcl HTTP/1.1\r\nHost: example.com\r\nContent-Length: 5x\r\n\r\nhello"), beh |-> "ok"]
      \* body over the limit of 64 bytes configured for the case
      [] k = "big"     -> [req |-> Req("POST", "/big" \o ToDec(i), "cl", 100, << >>), beh |-> "ok"]
      \* ... announced with Expect: 100-continue (the server may answer 100 before it looks at the length)
      [] k = "bigx"    -> [req |-> [Req("POST", "/bigx" \o ToDec(i), "cl", 100, << >>) EXCEPT !.expect100 = TRUE], beh |-> "ok"]
      \* more malformed requests: Content-Length that is not a number (characters next to the digits in ASCII), an
      \* empty request-target, a blank between field name and colon (a malformed trailer line: H1LimitGen, buffered mode)
      [] k = "bad4"    -> [req |-> Raw("POST /badcl2 HTTP/1.1\r\nHost: example.com\r\nContent-Length: :\r\n\r\nhello"), beh |-> "ok"]
      [] k = "bad5"    -> [req |-> Raw("POST /badcl3 HTTP/1.1\r\nHost: example.com\r\nContent-Length: /\r\n\r\nhello"), beh |-> "ok"]
      [] k = "bad7"    -> [req |-> Raw("GET  HTTP/1.1\r\nHost: example.com\r\n\r\n"), beh |-> "ok"]
      [] k = "bad8"    -> [req |-> Raw("GET /ws HTTP/1.1\r\nHost: example.com\r\nX-A : v\r\n\r\n"), beh |-> "ok"]

Good == {"get", "post", "chunked", "panic"}
LastKinds == Good \cup {"bad1", "bad2", "bad3", "big", "hijack"}

RECURSIVE SeqsOfLen(_, _)
SeqsOfLen(S, n) == IF n = 0 THEN {<< >>} ELSE {Append(p, s) : p \in SeqsOfLen(S, n - 1), s \in S}
MoreBad == {"bigx", "bad4", "bad5", "bad7", "bad8"}
Histories == UNION {{Append(p, l) : p \in SeqsOfLen(Good, n - 1), l \in LastKinds} : n \in 1 .. MaxK}
             \cup {<<b>> : b \in MoreBad} \cup {<<"post", b>> : b \in MoreBad} \cup {<<"chunked", b>> : b \in MoreBad}

\* variants of a history h: end of connection / faults
Variants(h) ==
    LET n == Len(h) lastGood == h[n] \in Good lastBody == h[n] \in {"post", "chunked", "panic", "big", "bigx"} IN
    {[close |-> FALSE, cut |-> 0, wfail |-> 0, stall |-> FALSE]}
    \cup (IF lastGood THEN {[close |-> FALSE, cut |-> 0, wfail |-> 0, stall |-> TRUE]} ELSE {})   \* the peer goes silent: idle time-out
    \cup (IF lastGood THEN {[close |-> TRUE, cut |-> 0, wfail |-> 0, stall |-> FALSE]} ELSE {})
    \cup (IF lastBody THEN {[close |-> FALSE, cut |-> -2, wfail |-> 0, stall |-> FALSE]} ELSE {})      \* peer closes after the first byte behind the last head
    \cup {[close |-> FALSE, cut |-> -1000, wfail |-> 0, stall |-> FALSE]}                                \* peer closes in the middle of the last head
    \cup {[close |-> FALSE, cut |-> 0, wfail |-> w, stall |-> FALSE] : w \in {x \in 1 .. n : h[x] \in Good}}

AllPairs == SetToSeq({<<h, v>> : h \in Histories, v \in UNION {Variants(g) : g \in Histories}})
Valid == SelectSeq(AllPairs, LAMBDA x : x[2] \in Variants(x[1]))

ScriptOf(h, v) == [i \in 1 .. Len(h) |-> IF i = Len(h) /\ v.close THEN [Kind(h[i], i).req EXCEPT !.close = TRUE] ELSE Kind(h[i], i).req]
CutAt(h, v) == LET o == Offsets(ScriptOf(h, v)) n == Len(h) IN
               IF v.cut = 0 THEN 0
               ELSE IF v.cut = -1000 THEN o[n].start + 9
               ELSE o[n].headEnd + 1

Case(k) == LET h == Valid[k][1] v == Valid[k][2] s == ScriptOf(h, v) IN
           [id |-> k, script |-> s, wire |-> Encode(s), offs |-> Offsets(s),
            behs |-> [i \in 1 .. Len(h) |-> Kind(h[i], i).beh], hist |-> h,
            fault |-> [truncate |-> CutAt(h, v), wfail |-> v.wfail, maxBody |-> 64, stall |-> v.stall]]

ASSUME ndJsonSerialize(IOEnv.VERIF_OUT, [k \in 1 .. Len(Valid) |-> Case(k)])

VARIABLE g
GenInit == g = 0
GenNext == UNCHANGED g
=============================================================================
