----------------------------- MODULE ClientLoop -----------------------------
(***************************************************************************)
(* X02 (extension) -- the client request loop: retries and redirects.      *)
(*                                                                         *)
(* What a user of pkg/app/client relies on (clauses):                      *)
(*  1 AttemptBound   one hop performs at most max(1,MaxAttemptTimes)       *)
(*      counted attempts; besides them only a request DefaultRetryIf       *)
(*      accepts (idempotent method, body not a stream) is re-sent, once    *)
(*      per idle connection the peer had closed; under the default         *)
(*      RetryIf a request that is not repeatable reaches the peer once.    *)
(*  2 RetryWhenAllowed   a further attempt happens iff the previous one    *)
(*      counted, attempts remain and RetryIf accepts (request, response,   *)
(*      error): the configured function (consulted after EVERY counted     *)
(*      attempt, success included), or DefaultRetryIf after a failure when *)
(*      none is configured (doc of Client.RetryIfFunc); no attempt starts  *)
(*      once the context is done (result ctx.Err()).                       *)
(*  3 DelayPolicy    before attempt k+1 the delay policy is asked with k;  *)
(*      retry.Delay and the policies as functions: see DelayLo/DelayHi.    *)
(*  4 DeadlineBound  with a request timeout (DoTimeout, DoDeadline,        *)
(*      WithRequestTimeout) nothing is sent after the deadline, the result *)
(*      is a timeout error and the call returns by deadline + slack        *)
(*      (judged in ClientLoopTrace); an expired deadline sends nothing.    *)
(*  5 RedirectBound  DoRedirects/Get/Post follow at most maxRedirectsCount *)
(*      (16) redirects, then ErrTooManyRedirects; a redirect without       *)
(*      Location gives ErrMissingLocation; every hop requests Location     *)
(*      resolved against the previous URL (RFC 3986 5.2) -- host, port,    *)
(*      scheme, path, query as seen by the peer.                           *)
(*  6 RedirectMethodBody  307/308 keep method and body; 303 turns every    *)
(*      method but HEAD into GET without body (RFC 7231 6.4.4); 301/302    *)
(*      keep them, or turn POST into GET (both allowed by 6.4.2/6.4.3).    *)
(*  7 ResultIsLast   status, body and error returned are those of the last *)
(*      attempt of the last hop; the Request is left pointing at the last  *)
(*      URL requested (as the code does; the documentation is silent).     *)
(*                                                                         *)
(* Structure = the code: HostClient.Do (pkg/protocol/http1/client.go): Att *)
(* (acquireConn: idle connection or dial; deadline check; write; read),    *)
(* Decide (the tail of the for loop), AskRetry (RetryIfFunc), Wait         *)
(* (retry.Delay + Sleep); DoRequestFollowRedirects (pkg/protocol/client):  *)
(* After (redirect test, limit, Location, getRedirectURL); Client.Do       *)
(* (pkg/app/client): MwIn/MwOut (middleware chain around every hop).       *)
(* The peer is scripted: entry i says what happens to the i-th exchange.   *)
(* Every step emits at most one observable event in `out`.                 *)
(*                                                                         *)
(* Deliberately unconstrained: error texts (classes only), the response    *)
(* object after an error, header sets, which connection object is used,    *)
(* what happens after the deadline besides "nothing is sent" (hint).       *)
(* AsWritten = TRUE is HostClient.Do as it is in the tree (the default     *)
(* RetryIf never retries): ClientLoop_asis.cfg must violate DefaultApplied.*)
(***************************************************************************)
EXTENDS Integers, Sequences, FiniteSets, TLC

CONSTANTS AsWritten, MCMaxScript

None == [ev |-> "none"]
Idem == {"GET", "HEAD", "PUT", "DELETE", "OPTIONS", "TRACE"}
RedirectCodes == {301, 302, 303, 307, 308}
NoLoc == [k |-> "none", sch |-> "", host |-> "", port |-> "", path |-> << >>, q |-> "", up |-> 0]
Min(a, b) == IF a < b THEN a ELSE b
Max(a, b) == IF a > b THEN a ELSE b

VARIABLES cfg,      \* the case: client configuration, call, peer script
          pc,       \* control point
          si,       \* script entries consumed
          mwi,      \* middleware index of the MwIn / MwOut in progress
          url,      \* URL of the current hop
          meth, bodyk,   \* method and body kind of the current hop
          hop,      \* redirects followed
          att,      \* counted attempts of the current hop
          free,     \* uncounted re-sends of the current hop
          sends,    \* requests of the current hop that may have reached the peer
          live, stale,   \* addresses with an idle connection: open / silently closed by the peer
          dpass,    \* the request deadline has passed
          cancelled,
          oc,       \* outcome of the last attempt
          out,      \* event emitted by this step
          hist      \* history for the invariants
vars == <<cfg, pc, si, mwi, url, meth, bodyk, hop, att, free, sends, live, stale, dpass, cancelled, oc, out, hist>>

RECURSIVE JoinSeg(_)
JoinSeg(p) == IF p = << >> THEN "" ELSE IF Len(p) = 1 THEN p[1] ELSE p[1] \o "/" \o JoinSeg(Tail(p))
PathStr(p) == "/" \o JoinSeg(p)
Target(u) == PathStr(u.path) \o (IF u.q = "" THEN "" ELSE "?" \o u.q)
HostHdr(u) == u.host \o (IF u.port = "" THEN "" ELSE ":" \o u.port)
Addr(u) == u.host \o ":" \o (IF u.port # "" THEN u.port ELSE IF u.sch = "https" THEN "443" ELSE "80")
UrlStr(u) == u.sch \o "://" \o HostHdr(u) \o Target(u)

\* RFC 3986 5.2 for the reference forms a Location header takes
Resolve(b, lc) ==
  CASE lc.k = "abs"    -> [sch |-> lc.sch, host |-> lc.host, port |-> lc.port, path |-> lc.path, q |-> lc.q]
    [] lc.k = "schrel" -> [sch |-> b.sch, host |-> lc.host, port |-> lc.port, path |-> lc.path, q |-> lc.q]
    [] lc.k = "path"   -> [b EXCEPT !.path = lc.path, !.q = lc.q]
    [] lc.k = "rel"    -> LET dir == IF b.path = << >> THEN << >> ELSE SubSeq(b.path, 1, Len(b.path) - 1)
                              kept == SubSeq(dir, 1, Max(0, Len(dir) - lc.up))
                          IN [b EXCEPT !.path = kept \o lc.path, !.q = lc.q]
    [] lc.k = "query"  -> [b EXCEPT !.q = lc.q]
    [] lc.k = "frag"   -> b

BodyStr(k) == CASE k = "none" -> "" [] k = "bytes" -> "B1" [] k = "stream" -> "S1" [] k = "form" -> "k=v"
MaxAtt == IF cfg.rc /\ cfg.maxAttempts > 1 THEN cfg.maxAttempts ELSE 1
Custom == cfg.retryIf # "default"
DefaultRetryable == bodyk # "stream" /\ meth \in Idem            \* client.DefaultRetryIf
RedirApi == cfg.api \in {"redirects", "get", "post", "gettimeout", "getdeadline"}
TimerApi == cfg.api \in {"gettimeout", "getdeadline"}            \* GetURLDeadline: goroutine + timer
ReqT == cfg.api \in {"reqtimeout", "dotimeout", "dodeadline"} /\ cfg.timeoutMs > 0
Expired == cfg.api \in {"dotimeout", "dodeadline", "gettimeout", "getdeadline"} /\ cfg.timeoutMs < 0
MaxRedir == IF cfg.api = "redirects" THEN cfg.maxRedirects ELSE 16
TKind == IF cfg.readTimeoutMs > 0 THEN "read" ELSE IF ReqT THEN "req" ELSE "none"
Ok(status, body) == [ok |-> TRUE, errc |-> "none", status |-> status, body |-> body, loc |-> NoLoc]
Fail(c) == [ok |-> FALSE, errc |-> c, status |-> 0, body |-> "", loc |-> NoLoc]
Answer(o) == CASE cfg.retryIf = "always" -> TRUE [] cfg.retryIf = "never" -> FALSE [] cfg.retryIf = "err" -> ~o.ok
               [] cfg.retryIf = "s5xx" -> ~o.ok \/ o.status >= 500 [] cfg.retryIf = "cancel" -> TRUE

Hist0 == [sentLate |-> FALSE, causeless |-> FALSE, dfltSkipped |-> FALSE, maxAtt |-> 0, maxSends |-> 0]

TimerApiOf(c) == c.api \in {"gettimeout", "getdeadline"}
Meth0(c) == IF c.api = "get" \/ TimerApiOf(c) THEN "GET" ELSE IF c.api = "post" THEN "POST" ELSE c.method
Body0(c) == IF c.api = "get" \/ TimerApiOf(c) THEN "none" ELSE IF c.api = "post" THEN "form" ELSE c.body
StartWith(c) ==
  /\ cfg = c /\ pc = "start" /\ si = 0 /\ mwi = 0 /\ url = c.u /\ meth = Meth0(c) /\ bodyk = Body0(c)
  /\ hop = 0 /\ att = 0 /\ free = 0 /\ sends = 0 /\ live = {} /\ stale = {} /\ dpass = FALSE
  /\ cancelled = (c.ctx = "pre") /\ oc = Fail("none") /\ out = None /\ hist = Hist0
\* the same as an action (trace validation starts every case with it)
Begin(c) ==
  /\ cfg' = c /\ pc' = "start" /\ si' = 0 /\ mwi' = 0 /\ url' = c.u /\ meth' = Meth0(c) /\ bodyk' = Body0(c)
  /\ hop' = 0 /\ att' = 0 /\ free' = 0 /\ sends' = 0 /\ live' = {} /\ stale' = {} /\ dpass' = FALSE
  /\ cancelled' = (c.ctx = "pre") /\ oc' = Fail("none") /\ out' = None /\ hist' = Hist0

Entry == cfg.script[si + 1]
HasEntry == si < Len(cfg.script)

\* ---------------------------------------------------------------- warm-up call (leaves an idle connection)
WarmDial == /\ pc = "start" /\ cfg.warm # "none"
            /\ out' = [ev |-> "Dial", x |-> 0, ok |-> TRUE, addr |-> Addr(cfg.u), tls |-> cfg.u.sch = "https"]
            /\ pc' = "warmReq"
            /\ UNCHANGED <<cfg, si, mwi, url, meth, bodyk, hop, att, free, sends, live, stale, dpass, cancelled, oc, hist>>
WarmReq == /\ pc = "warmReq"
           /\ out' = [ev |-> "Req", x |-> 0, reused |-> FALSE, method |-> "GET", target |-> "/warm", host |-> HostHdr(cfg.u), body |-> ""]
           /\ pc' = "warmDone"
           /\ UNCHANGED <<cfg, si, mwi, url, meth, bodyk, hop, att, free, sends, live, stale, dpass, cancelled, oc, hist>>
WarmDone == /\ pc = "warmDone"
            /\ out' = [ev |-> "WarmDone", errc |-> "none", status |-> 200]
            /\ live' = IF cfg.warm = "live" THEN {Addr(cfg.u)} ELSE {}
            /\ stale' = IF cfg.warm = "stale" THEN {Addr(cfg.u)} ELSE {}
            /\ pc' = "call"
            /\ UNCHANGED <<cfg, si, mwi, url, meth, bodyk, hop, att, free, sends, dpass, cancelled, oc, hist>>
NoWarm == /\ pc = "start" /\ cfg.warm = "none" /\ pc' = "call" /\ out' = None
          /\ UNCHANGED <<cfg, si, mwi, url, meth, bodyk, hop, att, free, sends, live, stale, dpass, cancelled, oc, hist>>

\* ---------------------------------------------------------------- the call
\* client.DoTimeout / DoDeadline / GetURLDeadline with a deadline that has expired: errTimeout, nothing is sent
ResultRec(o) == [ev |-> "Result", errc |-> o.errc, code |-> o.status, rbody |-> o.body, uri |-> UrlStr(url)]
CallExpired == /\ pc = "call" /\ Expired
               /\ oc' = Fail("timeout") /\ out' = ResultRec(Fail("timeout")) /\ pc' = "done"
               /\ UNCHANGED <<cfg, si, mwi, url, meth, bodyk, hop, att, free, sends, live, stale, dpass, cancelled, hist>>
\* Client.Do: the middleware chain is entered, outermost first
MwIn == /\ pc \in {"call", "mwin"} /\ ~(pc = "call" /\ Expired)
        /\ LET i == IF pc = "call" THEN 1 ELSE mwi + 1
           IN /\ out' = [ev |-> "MwIn", i |-> i, url |-> UrlStr(url), method |-> meth]
              /\ mwi' = i
              /\ pc' = IF i = cfg.mw THEN "att" ELSE "mwin"
        /\ att' = 0 /\ free' = 0 /\ sends' = 0
        /\ UNCHANGED <<cfg, si, url, meth, bodyk, hop, live, stale, dpass, cancelled, oc, hist>>

\* ---------------------------------------------------------------- one attempt (HostClient.doNonNilReqResp)
\* hint: what is observed next ("Dial", "MwOut", anything else); only consulted once the deadline has passed, where
\* the property says "nothing is sent, the result is a timeout" and leaves the rest (dial or not, ask RetryIf or not) open
LateGiveUp(hint) == dpass /\ hint = "MwOut"
EndHop(o) == /\ oc' = o /\ pc' = "mwout" /\ mwi' = cfg.mw

GiveUp(hint) == /\ pc \in {"decide", "ask", "wait"} /\ LateGiveUp(hint)
                /\ ~oc.ok /\ out' = None      \* a timeout, or the error of a dial made after the deadline
                /\ EndHop(IF cancelled THEN Fail("late") ELSE oc)      \* "late": deadline passed and context done, either error
                /\ UNCHANGED <<cfg, si, url, meth, bodyk, hop, att, free, sends, live, stale, dpass, cancelled, hist>>

\* for { select { case <-ctx.Done(): return ctx.Err() ...
AttCancelled(hint) == /\ pc = "att" /\ cancelled
                      /\ EndHop(Fail(IF dpass THEN "late" ELSE "canceled")) /\ out' = None
                      /\ UNCHANGED <<cfg, si, url, meth, bodyk, hop, att, free, sends, live, stale, dpass, cancelled, hist>>

ReqRec(reused) == [ev |-> "Req", x |-> 1, reused |-> reused, method |-> meth, target |-> Target(url), host |-> HostHdr(url),
                   body |-> BodyStr(bodyk)]

\* the peer answers (or not) as the script says; what the client makes of it (doNonNilReqResp's return values)
Exchange(reused, idleLive, idleStale) ==
  LET e == Entry
      a == Addr(url)
  IN /\ HasEntry /\ e.b # "dialerr"
     /\ si' = si + 1
     /\ sends' = sends + 1
     /\ out' = ReqRec(reused)
     /\ hist' = [hist EXCEPT !.sentLate = @ \/ dpass, !.maxSends = Max(@, sends + 1)]
     /\ UNCHANGED <<cfg, mwi, url, meth, bodyk, hop, att, cancelled>>
     /\ CASE e.b = "resp" ->
               /\ oc' = [ok |-> TRUE, errc |-> "none", status |-> e.status, loc |-> e.loc,
                         body |-> IF meth = "HEAD" THEN "" ELSE "r" \o ToString(si + 1)]
               /\ live' = IF e.ka = "live" THEN idleLive \cup {a} ELSE idleLive
               /\ stale' = IF e.ka = "stale" THEN idleStale \cup {a} ELSE idleStale
               /\ pc' = "decide" /\ UNCHANGED <<free, dpass>>
          [] e.b = "closeBefore" ->      \* EOF at the first byte: ErrBadPoolConn on a pooled connection
               /\ live' = idleLive /\ stale' = idleStale /\ UNCHANGED dpass
               /\ IF reused /\ DefaultRetryable
                  THEN /\ free' = free + 1 /\ pc' = "att" /\ UNCHANGED oc      \* connAttempts++; continue
                  ELSE /\ oc' = Fail(IF reused THEN "badpool" ELSE "closed") /\ pc' = "decide" /\ UNCHANGED free
          [] e.b = "closePartial" ->
               /\ live' = idleLive /\ stale' = idleStale /\ oc' = Fail("closed") /\ pc' = "decide" /\ UNCHANGED <<free, dpass>>
          [] e.b = "stall" ->
               /\ live' = idleLive /\ stale' = idleStale /\ UNCHANGED free
               /\ IF TKind = "none"
                  THEN TimerApi /\ pc' = "abandon" /\ UNCHANGED <<oc, dpass>>   \* otherwise the call hangs: no step
                  ELSE /\ oc' = Fail("timeout") /\ pc' = "decide" /\ dpass' = (dpass \/ TKind = "req")

\* acquireConn hands out the idle connection the peer has closed: the request is written, the first read is EOF
AttStale(hint) ==
  LET a == Addr(url) IN
  /\ pc = "att" /\ ~cancelled /\ a \in stale
  /\ stale' = stale \ {a}
  /\ UNCHANGED <<cfg, si, mwi, url, meth, bodyk, hop, att, sends, live, dpass, cancelled>>
  /\ IF dpass THEN /\ oc' = Fail("timeout") /\ pc' = "decide" /\ out' = None /\ UNCHANGED <<free, hist>>
     ELSE /\ out' = [ev |-> "Stale", method |-> meth, target |-> Target(url)]
          /\ IF DefaultRetryable
             THEN /\ free' = free + 1 /\ pc' = "att" /\ UNCHANGED <<oc, hist>>
             ELSE /\ oc' = Fail("badpool") /\ pc' = "decide" /\ UNCHANGED <<free, hist>>

AttLive(hint) ==
  LET a == Addr(url) IN
  /\ pc = "att" /\ ~cancelled /\ a \in live
  /\ IF dpass THEN /\ live' = live \ {a} /\ oc' = Fail("timeout") /\ pc' = "decide" /\ out' = None
                   /\ UNCHANGED <<cfg, si, mwi, url, meth, bodyk, hop, att, free, sends, stale, dpass, cancelled, hist>>
     ELSE Exchange(TRUE, live \ {a}, stale)

AttDial(hint) ==
  LET a == Addr(url)
      refuse == HasEntry /\ Entry.b = "dialerr"
  IN
  /\ pc = "att" /\ ~cancelled /\ a \notin live \cup stale
  /\ UNCHANGED <<cfg, mwi, url, meth, bodyk, hop, att, free, sends, live, stale, dpass, cancelled, hist>>
  /\ IF dpass /\ hint # "Dial"
     THEN /\ oc' = Fail("timeout") /\ pc' = "decide" /\ out' = None /\ UNCHANGED si     \* errTimeout without a connection
     ELSE /\ (dpass \/ HasEntry)
          /\ out' = [ev |-> "Dial", x |-> 1, ok |-> ~refuse, addr |-> a, tls |-> url.sch = "https"]
          /\ IF refuse THEN /\ si' = si + 1 /\ oc' = Fail("dial") /\ pc' = "decide"
                       ELSE /\ pc' = "dialed" /\ UNCHANGED <<si, oc>>

Dialed(hint) ==
  /\ pc = "dialed"
  /\ IF dpass THEN /\ oc' = Fail("timeout") /\ pc' = "decide" /\ out' = None   \* updateReqTimeout: shouldClose
                   /\ UNCHANGED <<cfg, si, mwi, url, meth, bodyk, hop, att, free, sends, live, stale, dpass, cancelled, hist>>
     ELSE Exchange(FALSE, live, stale)

\* ---------------------------------------------------------------- the tail of the loop in HostClient.Do
Decide(hint) ==
  LET a1 == att + 1 IN
  /\ pc = "decide" /\ ~LateGiveUp(hint) /\ out' = None
  /\ UNCHANGED <<cfg, si, url, meth, bodyk, hop, free, sends, live, stale, dpass, cancelled>>
  /\ IF ~Custom /\ oc.ok THEN EndHop(oc) /\ UNCHANGED <<att, hist>>
     ELSE /\ att' = a1
          /\ IF a1 >= MaxAtt THEN EndHop(oc) /\ hist' = [hist EXCEPT !.maxAtt = Max(@, a1)]
             ELSE IF Custom THEN pc' = "ask" /\ UNCHANGED <<oc, mwi>> /\ hist' = [hist EXCEPT !.maxAtt = Max(@, a1)]
             ELSE IF DefaultRetryable /\ ~AsWritten THEN pc' = "wait" /\ UNCHANGED <<oc, mwi>> /\ hist' = [hist EXCEPT !.maxAtt = Max(@, a1)]
             ELSE EndHop(oc) /\ hist' = [hist EXCEPT !.maxAtt = Max(@, a1), !.dfltSkipped = @ \/ DefaultRetryable]

AskRetry(hint) ==
  /\ pc = "ask" /\ ~LateGiveUp(hint)
  /\ out' = [ev |-> "RetryIf", errc |-> oc.errc, status |-> oc.status, ans |-> Answer(oc), method |-> meth]
  /\ IF Answer(oc) THEN /\ pc' = "wait" /\ cancelled' = (cancelled \/ cfg.retryIf = "cancel") /\ UNCHANGED <<oc, mwi>>
                   ELSE /\ EndHop(oc) /\ UNCHANGED cancelled
  /\ UNCHANGED <<cfg, si, url, meth, bodyk, hop, att, free, sends, live, stale, dpass, hist>>

\* wait := retry.Delay(attempts, err, retryCfg); time.Sleep(wait)
Wait(hint) ==
  /\ pc = "wait" /\ ~LateGiveUp(hint)
  /\ out' = IF cfg.policy = "rec" THEN [ev |-> "Delay", k |-> att, errc |-> oc.errc] ELSE None
  /\ pc' = "att"
  /\ dpass' = (dpass \/ (ReqT /\ cfg.policy = "rec" /\ cfg.delayMs >= cfg.timeoutMs))   \* the wait itself outlasts the deadline
  /\ hist' = [hist EXCEPT !.causeless = @ \/ ~(att < MaxAtt /\ (IF Custom THEN Answer(oc) ELSE ~oc.ok /\ DefaultRetryable))]
  /\ UNCHANGED <<cfg, si, mwi, url, meth, bodyk, hop, att, free, sends, live, stale, cancelled, oc>>

\* ---------------------------------------------------------------- leaving the hop; DoRequestFollowRedirects
MwOut == /\ pc = "mwout"
         /\ out' = [ev |-> "MwOut", i |-> mwi, errc |-> oc.errc, status |-> oc.status]
         /\ IF mwi = 1 THEN pc' = "after" /\ UNCHANGED mwi ELSE pc' = "mwout" /\ mwi' = mwi - 1
         /\ UNCHANGED <<cfg, si, url, meth, bodyk, hop, att, free, sends, live, stale, dpass, cancelled, oc, hist>>

NextReq(st) == IF st \in {307, 308} THEN {<<meth, bodyk>>}
               ELSE IF st = 303 THEN {IF meth \in {"GET", "HEAD"} THEN <<meth, bodyk>> ELSE <<"GET", "none">>}
               ELSE IF meth = "POST" THEN {<<meth, bodyk>>, <<"GET", "none">>} ELSE {<<meth, bodyk>>}

Redirected == RedirApi /\ oc.ok /\ oc.status \in RedirectCodes
Return(o) == /\ oc' = o /\ out' = ResultRec(o) /\ pc' = "done"
             /\ UNCHANGED <<cfg, si, mwi, url, meth, bodyk, hop, att, free, sends, live, stale, dpass, cancelled, hist>>
After ==
  /\ pc = "after"
  /\ IF ~Redirected THEN Return(oc)
     ELSE IF hop + 1 > MaxRedir THEN Return([oc EXCEPT !.ok = FALSE, !.errc = "toomany"])
     ELSE IF oc.loc.k = "none" THEN Return([oc EXCEPT !.ok = FALSE, !.errc = "missingloc"])
     ELSE \E mb \in NextReq(oc.status) :
            /\ url' = Resolve(url, oc.loc) /\ hop' = hop + 1 /\ meth' = mb[1] /\ bodyk' = mb[2]
            /\ out' = [ev |-> "MwIn", i |-> 1, url |-> UrlStr(url'), method |-> mb[1]]
            /\ mwi' = 1 /\ pc' = (IF cfg.mw = 1 THEN "att" ELSE "mwin")
            /\ att' = 0 /\ free' = 0 /\ sends' = 0
            /\ UNCHANGED <<cfg, si, live, stale, dpass, cancelled, oc, hist>>

\* GetURLDeadline: the timer fires while the request goroutine still waits for the peer
Abandon == /\ pc = "abandon" /\ Return(Fail("timeout"))

Finished == pc = "done"

Step(hint) == \/ WarmDial \/ WarmReq \/ WarmDone \/ NoWarm \/ CallExpired \/ MwIn
              \/ GiveUp(hint) \/ AttCancelled(hint) \/ AttStale(hint) \/ AttLive(hint) \/ AttDial(hint) \/ Dialed(hint)
              \/ Decide(hint) \/ AskRetry(hint) \/ Wait(hint) \/ MwOut \/ After \/ Abandon

\* ---------------------------------------------------------------- the clauses as invariants
\* every uncounted re-send uses up an idle connection: the one left before the hop or one left by a counted attempt
AttemptBound == att <= MaxAtt /\ free <= att + 1 /\ sends <= Min(att + 1, MaxAtt) + free
NonRepeatableOnce == (~Custom /\ ~DefaultRetryable) => sends <= 1
RetryOnlyWhenAllowed == ~hist.causeless
NothingSentLate == ~hist.sentLate
RedirectBound == hop <= MaxRedir
DefaultApplied == ~hist.dfltSkipped       \* violated by AsWritten = TRUE (HostClient.Do as it is)
ResultIsLast == pc = "done" => out.ev = "Result" /\ out.errc = oc.errc /\ out.code = oc.status /\ out.rbody = oc.body

\* ---------------------------------------------------------------- retry.Delay and the delay policies (clause 3)
\* q: [pol: sequence of policy names, via: "delay" (retry.Delay: MaxDelay applies) | "policy", delay, maxDelay, maxJitter, k]
\* in whole units; Big stands for "more than any cap" (Delay << k for large k)
Big == 2000000000
RECURSIVE Pow2(_)
Pow2(n) == IF n = 0 THEN 1 ELSE 2 * Pow2(n - 1)
DCap(q) == IF q.via = "delay" /\ q.maxDelay > 0 THEN q.maxDelay ELSE Big
TermLo(q, p) == CASE p = "fixed" -> q.delay
                  [] p = "backoff" -> IF q.delay <= 0 THEN 0 ELSE IF q.k > 20 THEN Big ELSE q.delay * Pow2(q.k)
                  [] OTHER -> 0
\* "picks a random delay up to MaxJitter": the bound itself is allowed (the code stays below it)
TermHi(q, p) == IF p = "random" THEN (IF q.maxJitter <= 0 THEN 0 ELSE q.maxJitter) ELSE TermLo(q, p)
RECURSIVE SumCapped(_, _, _, _)
SumCapped(q, i, hi, acc) == IF i > Len(q.pol) THEN acc
                            ELSE SumCapped(q, i + 1, hi, Min(DCap(q), acc + Min(DCap(q), IF hi THEN TermHi(q, q.pol[i]) ELSE TermLo(q, q.pol[i]))))
DelayLo(q) == SumCapped(q, 1, FALSE, 0)
DelayHi(q) == SumCapped(q, 1, TRUE, 0)
DelayOK(q, mn, mx) == /\ DelayLo(q) <= mn /\ mn <= mx /\ mx <= DelayHi(q)
                      /\ (q.n >= 64 /\ DelayHi(q) - DelayLo(q) >= 999) => mx > mn     \* "picks a random delay"

\* ---------------------------------------------------------------- bounded exhaustive configuration
U0 == [sch |-> "http", host |-> "a.test", port |-> "", path |-> <<"d", "f">>, q |-> "x=1"]
L(k, sch, host, port, path, q, up) == [k |-> k, sch |-> sch, host |-> host, port |-> port, path |-> path, q |-> q, up |-> up]
R(status, ka, loc) == [b |-> "resp", status |-> status, ka |-> ka, loc |-> loc]
B(b) == [b |-> b, status |-> 0, ka |-> "close", loc |-> NoLoc]
E(name) == CASE name = "dialerr" -> B("dialerr") [] name = "closeBefore" -> B("closeBefore")
             [] name = "closePartial" -> B("closePartial") [] name = "stall" -> B("stall")
             [] name = "ok" -> R(200, "close", NoLoc) [] name = "okLive" -> R(200, "live", NoLoc)
             [] name = "okStale" -> R(200, "stale", NoLoc) [] name = "s502" -> R(502, "close", NoLoc)
             [] name = "r302path" -> R(302, "close", L("path", "", "", "", <<"p">>, "z=3", 0))
             [] name = "r301relStale" -> R(301, "stale", L("rel", "", "", "", <<"r">>, "", 1))
             [] name = "r303queryLive" -> R(303, "live", L("query", "", "", "", << >>, "y=2", 0))
             [] name = "r307abs" -> R(307, "close", L("abs", "https", "b.test", "8443", <<"p", "">>, "", 0))
             [] name = "r308schrel" -> R(308, "live", L("schrel", "", "b.test", "", << >>, "", 0))
             [] name = "r302none" -> R(302, "close", NoLoc)

RECURSIVE SeqsUpTo(_, _)
SeqsUpTo(S, n) == IF n = 0 THEN {<< >>}
                  ELSE LET P == SeqsUpTo(S, n - 1) IN P \cup {Append(p, s) : p \in {x \in P : Len(x) = n - 1}, s \in S}

CONSTANTS MCEntries, MCApis, MCRetryIfs, MCWarms, MCMethods
\* the peer chooses its behaviour when an exchange begins (scripts of length <= MCMaxScript, all prefixes shared)
MCCase(api, m, ma, rif, mr, w) ==
  [api |-> api, method |-> m, body |-> (IF m \in {"GET", "HEAD"} THEN "none" ELSE "bytes"), u |-> U0, rc |-> TRUE,
   maxAttempts |-> ma, policy |-> "rec", retryIf |-> rif, ctx |-> "live", maxRedirects |-> mr,
   timeoutMs |-> (IF api = "reqtimeout" THEN 250 ELSE 0), readTimeoutMs |-> 0, delayMs |-> 0, warm |-> w, mw |-> 2, script |-> << >>]
MCCases == UNION {{MCCase(api, m, ma, rif, mr, w) :
                     m \in MCMethods, ma \in 1 .. 3, rif \in MCRetryIfs, w \in MCWarms,
                     mr \in (IF api = "redirects" THEN 0 .. 2 ELSE {0})} : api \in MCApis}
PeerChoose == /\ pc \in {"att", "dialed"} /\ ~cancelled /\ ~HasEntry /\ Len(cfg.script) < MCMaxScript
              /\ \E n \in MCEntries : /\ (n = "stall" => TKind # "none")
                                       /\ cfg' = [cfg EXCEPT !.script = Append(@, E(n))]
              /\ UNCHANGED <<pc, si, mwi, url, meth, bodyk, hop, att, free, sends, live, stale, dpass, cancelled, oc, out, hist>>

Init == \E c \in MCCases : StartWith(c)
Next == PeerChoose \/ \E hint \in {"Dial", "MwOut", "x"} : Step(hint)
Spec == Init /\ [][Next]_vars
=============================================================================
