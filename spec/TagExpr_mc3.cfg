CONSTANTS McDepth = 3
          McLeafMode = "chain"
SPECIFICATION Spec
INVARIANTS RoundTrip StyleFree EvalTotal SortSound ChainFlat
