---------------------------- MODULE H1ClientTrace ----------------------------
(***************************************************************************)
(* Trace validation of real client exchanges (driver c11) against          *)
(* H1Client + RespWire.                                                    *)
(*                                                                         *)
(* Lines: Case{id, tag, cfg, xs, cuts}; per exchange Dial{conn, addr}?,    *)
(* Sent{x, conn, start, lines}, OnWire{x, by: nethttp | hertz, method,     *)
(* target, host, fields, bodyLen, bodyRuns, form, parts, close, extra},    *)
(* PeerReply{x, conn, n, close}, Deliver{conn, n}*, Eof{conn}?,            *)
(* ConnClosed{conn}?, Returned{x, err, status, fields, names, bodyLen,     *)
(* bodyRuns, trailers, readErr, buffered}; End.                            *)
(* OnWireError, BlockedRead, ReuseAfterClose, Panic have no action and     *)
(* therefore reject the case.                                              *)
(*                                                                         *)
(* Every trace action is the H1Client action of the same name conjoined    *)
(* with the logged arguments and the data obligation (OnWireOK, RawOK,     *)
(* ReturnedOK); every line has exactly one candidate action, so the trace  *)
(* specification is deterministic.  The expectation of a Returned line is  *)
(* a function of the script and the configuration only: it does not        *)
(* mention the Deliver lines between PeerReply and Returned (C02).         *)
(***************************************************************************)
EXTENDS H1Client, Json, IOUtils

Trace == ndJsonDeserialize(IOEnv.VERIF_TRACE)

VARIABLES l, bad,
          cl,       \* line of the Case record of the case in progress (0: none)
          seen      \* decoders that have reported the request of the exchange in progress
tvars == <<vars, l, bad, cl, seen>>

Line == Trace[l]
HasLine == l <= Len(Trace)
active == cl # 0
Cfg == Trace[cl].cfg
Prog(i) == Trace[cl].xs[i].prog
Script(i) == Trace[cl].xs[i].script

\* the abstract exchange of a concrete one
Abstract(e, cfg) ==
    [headEnd |-> RHeadLen(e.script), end |-> RWireLen(e.script),
     closeAfter |-> (RClosesAfter(e.script) \/ EffClose(e.prog) \/ e.early), reqClose |-> EffClose(e.prog), early |-> e.early,
     untilClose |-> (RHasBody(e.script) /\ e.script.framing = "close"),
     big |-> Big(e.script, cfg)]

Blank == /\ xs' = << >> /\ stream' = FALSE /\ xn' = 1 /\ phase' = "idle" /\ conns' = << >> /\ cur' = 0 /\ ret' = << >>
         /\ cl' = 0 /\ seen' = {}

TraceInit == /\ xs = << >> /\ stream = FALSE /\ xn = 1 /\ phase = "idle" /\ conns = << >> /\ cur = 0 /\ ret = << >>
             /\ cl = 0 /\ seen = {} /\ l = 1 /\ bad = << >>

Consume == l' = l + 1 /\ UNCHANGED bad

TraceCase ==
    /\ HasLine /\ Line.ev = "Case" /\ ~active
    /\ \A i \in DOMAIN Line.xs : /\ WellFormedResp(Line.xs[i].script) /\ WellFormedProg(Line.xs[i].prog)
                                 /\ (Line.xs[i].script.head <=> Line.xs[i].prog.method = "HEAD")
    /\ LET ab == [i \in DOMAIN Line.xs |-> Abstract(Line.xs[i], Line.cfg)] IN
       \* the driver replied with the wire the script encodes to
       /\ \A i \in DOMAIN ab : /\ Line.xs[i].wireLen = ab[i].end /\ Line.xs[i].headEnd = ab[i].headEnd
                               /\ Line.xs[i].peerClose = ab[i].closeAfter
       /\ xs' = ab
    /\ stream' = Line.cfg.stream /\ xn' = 1 /\ phase' = "idle" /\ conns' = << >> /\ cur' = 0 /\ ret' = << >>
    /\ cl' = l /\ seen' = {}
    /\ Consume

TraceDial == /\ active /\ HasLine /\ Line.ev = "Dial"
             /\ Dial
             /\ Line.conn = Len(conns) + 1
             /\ Line.addr = ExpectedRequest(Prog(xn), Cfg).addr
             /\ Consume /\ UNCHANGED <<cl, seen>>

\* the client has written its request on connection Line.conn: the start line, the Host line and the spelling of
\* the application header names are as the program and the configuration say
TraceSent == /\ active /\ HasLine /\ Line.ev = "Sent"
             /\ Send(Line.conn)
             /\ Line.x = xn
             /\ RawOK(Line, ExpectedRequest(Prog(xn), Cfg))
             /\ seen' = {}
             /\ Consume /\ UNCHANGED cl

\* one decoder's view of the bytes on the wire
TraceOnWire == /\ active /\ HasLine /\ Line.ev = "OnWire"
               /\ phase = "sent" /\ Line.x = xn /\ Line.by \in {"nethttp", "hertz"} /\ Line.by \notin seen
               /\ OnWireOK(Line, ExpectedRequest(Prog(xn), Cfg))
               /\ seen' = seen \cup {Line.by}
               /\ Consume /\ UNCHANGED <<vars, cl>>

\* the peer answers only a request that BOTH decoders have read as the expected one
TracePeerReply == /\ active /\ HasLine /\ Line.ev = "PeerReply"
                  /\ seen = {"nethttp", "hertz"}
                  /\ PeerReply
                  /\ Line.x = xn /\ Line.conn = cur /\ Line.n = xs[xn].end /\ Line.close = xs[xn].closeAfter
                  /\ Consume /\ UNCHANGED <<cl, seen>>

\* the peer answered early and closed: the client's write on Line.conn failed (no decoder sees a complete request)
TraceEarly == /\ active /\ HasLine /\ Line.ev = "EarlyReply"
              /\ EarlyReply(Line.conn)
              /\ Line.x = xn /\ Line.n = xs[xn].end
              /\ Consume /\ UNCHANGED <<cl, seen>>

TraceDeliver == /\ active /\ HasLine /\ Line.ev = "Deliver" /\ Deliver(Line.conn, Line.n) /\ Consume /\ UNCHANGED <<cl, seen>>
TraceEof     == /\ active /\ HasLine /\ Line.ev = "Eof" /\ PeerEof(Line.conn) /\ Consume /\ UNCHANGED <<cl, seen>>
TraceClosed  == /\ active /\ HasLine /\ Line.ev = "ConnClosed" /\ Close(Line.conn) /\ Consume /\ UNCHANGED <<cl, seen>>

\* Do has returned (streaming mode: and the body stream was read to its end and closed)
TraceReturned ==
    /\ active /\ HasLine /\ Line.ev = "Returned"
    /\ phase = "replied" /\ Line.x = xn
    /\ ReturnedOK(Line, Script(xn), Cfg, xs[xn].early)
    /\ Return(IF Line.err = "tooLarge" THEN "tooLarge" ELSE IF Line.err # "" THEN "closed" ELSE "ok")
    \* a connection that stays usable holds no unread bytes (buffered = bytes read from the socket but not consumed)
    /\ (conns'[cur].open /\ ~conns'[cur].mustClose) => Line.buffered = 0
    /\ Consume /\ UNCHANGED <<cl, seen>>

TraceEnd == /\ active /\ HasLine /\ Line.ev = "End"
            /\ phase = "idle" /\ xn = N + 1
            /\ Blank /\ Consume

Normal == TraceCase \/ TraceDial \/ TraceEarly \/ TraceSent \/ TraceOnWire \/ TracePeerReply \/ TraceDeliver \/ TraceEof \/ TraceClosed
          \/ TraceReturned \/ TraceEnd

NextCase(j) == IF \E i \in j + 1 .. Len(Trace) : Trace[i].ev = "Case"
               THEN CHOOSE i \in j + 1 .. Len(Trace) : Trace[i].ev = "Case" /\ \A m \in j + 1 .. i - 1 : Trace[m].ev # "Case"
               ELSE Len(Trace) + 1

Mismatch == /\ HasLine /\ ~ENABLED Normal
            /\ bad' = Append(bad, l)
            /\ l' = IF Len(bad) >= 50 THEN Len(Trace) + 1 ELSE NextCase(l)
            /\ Blank

MismatchEOF == /\ l = Len(Trace) + 1 /\ active
               /\ bad' = Append(bad, l) /\ l' = l /\ Blank

TraceNext == Normal \/ Mismatch \/ MismatchEOF

Report == (l = Len(Trace) + 1 /\ ~active) => PrintT(<<"@@BAD", bad, l - 1, Len(Trace)>>)
=============================================================================
