CONSTANTS
  MaxSteps = 1
  MaxRecycle = 1
  MultipartFix = FALSE
  PreParsed = {TRUE}
  Variant = "asis"
SPECIFICATION Spec
INVARIANTS TypeOK IndependentCopy IndependentOrig Complete Detached NoNextInCopy
