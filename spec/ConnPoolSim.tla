---------------------------- MODULE ConnPoolSim ----------------------------
(***************************************************************************************************************)
(* Schedule generator for C10 (thorough tier, spec -> impl direction).  ConnPool with a history variable: every *)
(* step appends what the real client must be made to do to follow the behaviour -- the gate(s) of hook H2 the   *)
(* process has to pass (k = process kind, p = process, a = gate labels) and the decision of the environment     *)
(* that the step consumes (x: kind of request, cancellation, dial result, behaviour of the peer).  TLC          *)
(* -simulate walks random behaviours; when all callers have finished and nothing is outstanding the history is  *)
(* printed ("@@H" + JSON); checks/c10.py turns it into a case {sched, scripts} that the driver replays by       *)
(* releasing the goroutines one gate at a time in that order.                                                   *)
(***************************************************************************************************************)
EXTENDS ConnPool, Json

VARIABLE hist
svars == <<vars, hist>>

H(k, p, a, x) == hist' = Append(hist, [k |-> k, p |-> p, a |-> a, x |-> x])

\* the first element carries the configuration of the client: p = MaxConns, x = wait | nowait
SimInit == Init /\ hist = <<[k |-> "cfg", p |-> cf.max, a |-> << >>, x |-> IF cf.wait THEN "wait" ELSE "nowait"]>>

CallerSim(g) ==
    \/ \E im \in IdemSet : DoEnter(g, g, im) /\ H("c", g, << >>, IF im THEN "get" ELSE "post")
    \/ CtxCancel(g) /\ H("c", g, << >>, IF pc[g].at = "idle" THEN "ctxpre" ELSE "ctxpost")
    \/ CtxDone(g) /\ H("c", g, <<"do.top">>, "")
    \/ \E c \in C : AcquirePopIdle(g, c) /\ H("c", g, <<"do.top", "acq.lock">>, "")
    \/ AcquireCreate(g) /\ H("c", g, <<"do.top", "acq.lock">>, "")
    \/ AcquireNone(g) /\ H("c", g, <<"do.top", "acq.lock">>, "")
    \/ (FreeConns # {} /\ DialOk(g, Lowest(FreeConns))) /\ H("c", g, <<"dial">>, "dialok")
    \/ DialFail(g) /\ H("c", g, <<"dial">>, "dialfail")
    \/ (FreeWaiters # {} /\ \E k \in Ks : QueueForIdle(g, Lowest(FreeWaiters), k)) /\ H("c", g, <<"queue.lock">>, "")
    \/ WaitReady(g) /\ H("c", g, <<"wait.select">>, "")
    \/ WaitTimeout(g) /\ H("c", g, <<"wait.select">>, "timer")
    \/ Cancel(g) /\ H("c", g, <<"cancel.lock">>, "")
    \/ \E c \in C :
         \/ WriteOk(g, c, cur[g]) /\ H("c", g, << >>, "sent")
         \/ BodyOk(g, c, TRUE, FALSE) /\ H("c", g, << >>, "ok")
         \/ "idleclose" \in Faults /\ BodyOk(g, c, TRUE, TRUE) /\ H("c", g, << >>, "okdead")
         \/ BodyOk(g, c, FALSE, FALSE) /\ H("c", g, << >>, "okclose")
         \/ ReadFail(g, c, "first") /\ H("c", g, << >>, IF conn[c].peerClosed THEN "" ELSE "eof0")
         \/ ReadFail(g, c, "header") /\ H("c", g, << >>, "eofhdr")
         \/ ReadFail(g, c, "body") /\ H("c", g, << >>, "eofbody")
         \/ ReadFail(g, c, "timeout") /\ H("c", g, << >>, "stall0")
         \/ CloseConn(g, c) /\ H("c", g, << >>, "")
         \/ \E k \in Ks : \/ ReleasePushIdle(g, c, k) /\ H("c", g, <<"rel.lock">>, "")
                          \/ \E w \in W : ReleaseDeliver(g, c, w, k) /\ H("c", g, <<"rel.lock">>, "")
    \/ \E k \in Ks : \/ DecCount(g, k) /\ H("c", g, <<"dec.lock">>, "")
                     \/ \E w \in W : DecHandOff(g, w, k) /\ H("c", g, <<"dec.lock">>, "handoff")
    \/ Retry(g) /\ H("c", g, << >>, "")
    \/ DoExit(g) /\ H("c", g, << >>, "")
    \/ \E ok \in BOOLEAN : Return(g, ok) /\ H("c", g, << >>, "")

DialerSim(w) ==
    \/ (FreeConns # {} /\ BgDialOk(w, Lowest(FreeConns))) /\ H("d", w, <<"bg.dial">>, "dialok")
    \/ BgDialFail(w) /\ H("d", w, <<"bg.dial">>, "dialfail")
    \/ \E c \in C : BgDeliver(w, c) /\ H("d", w, << >>, "end")
    \/ BgDeliverErr(w) /\ H("d", w, << >>, "")
    \/ \E c \in C, k \in Ks : \/ BgReleasePushIdle(w, c, k) /\ H("d", w, <<"rel.lock">>, "")
                              \/ \E w2 \in W : BgReleaseDeliver(w, c, w2, k) /\ H("d", w, <<"rel.lock">>, "")
    \/ \E k \in Ks : \/ BgDecCount(w, k) /\ H("d", w, <<"dec.lock">>, "end")
                     \/ \E w2 \in W : BgDecHandOff(w, w2, k) /\ H("d", w, <<"dec.lock">>, "handoff")

SimNext == \/ \E g \in Callers : CallerSim(g)
           \/ \E w \in W : DialerSim(w)

SimSpec == SimInit /\ [][SimNext]_svars

Finished == /\ \A g \in Callers : pc[g].at = "idle" /\ left[g] = 0
            /\ Quiescent
Emit == Finished => PrintT("@@H" \o ToJson(hist))
=============================================================================
