------------------------------ MODULE Adaptor ------------------------------
(***************************************************************************************************************)
(* X04 (extension) -- the net/http adaptor, pkg/common/adaptor/{request.go,response.go}:                       *)
(*   GetCompatRequest(req) -> http.Request, error                       hertz request  -> net/http request     *)
(*   CopyToHertzRequest(httpReq, hertzReq) -> error                     net/http request -> hertz request     *)
(*   GetCompatResponseWriter(resp) -> http.ResponseWriter               net/http writer over a hertz response *)
(* the layer that lets unmodified net/http handlers and middlewares run inside hertz (and hertz inside a      *)
(* net/http server).  What a user relies on, as checkable clauses:                                             *)
(*                                                                                                             *)
(* 1 RequestFidelity (FwdOK).  The http.Request shows  what the hertz request shows: method, decoded path, raw *)
(*   query, host and scheme of URI(), every header name with all its values in order, the cookie pairs, the    *)
(*   body bytes; ContentLength is -1 or the number of body bytes (doc of http.Request.ContentLength).  A       *)
(*   conversion error is allowed only where http.NewRequest documents one (method not a token, host not        *)
(*   parseable); a body that cannot be read must surface as an error, not as an empty body.                    *)
(* 2 ReverseFidelity (CopyOK, WireOK, FwdOK again).  "CopyToHertzRequest copy uri, host, method, protocol,     *)
(*   header, but share body reader": for a server-side http.Request (as http.ReadRequest yields it) the hertz  *)
(*   request shows the same request-target, Host, method, protocol, header values, cookie pairs and body       *)
(*   bytes; its declared Content-Length is unknown (< 0) or the number of body bytes (doc of SetBodyStream),   *)
(*   so that the request, written to a wire by hertz, carries the same body; converted back with               *)
(*   GetCompatRequest it satisfies clause 1 (round trip http -> hertz -> http).                                *)
(* 3 ResponseWriter (the http.ResponseWriter contract; actions below).  Header() may be changed until the      *)
(*   first WriteHeader/Write; the first Write implies WriteHeader(200); the status and the header of the       *)
(*   response are those of that moment: a later WriteHeader is ignored, later changes of Header() do not       *)
(*   appear; Write appends in order and returns len(p), nil.  The hertz Response then shows exactly that       *)
(*   status, that header multimap (per name: all values, in order; Set-Cookie lines compared as parsed cookies *)
(*   -- name, value, Path, Domain, Max-Age, Secure, HttpOnly, SameSite) and that body.                         *)
(* 4 Isolation.  Header() first shows the headers the hertz Response already had; a handler that never         *)
(*   writes leaves the Response with its former headers (or with Header() flushed, as a net/http server does   *)
(*   when the handler returns) -- never with fewer.  Header values of a converted request are copies: changing *)
(*   either side afterwards does not change the other (the body bytes are shared; documented for Copy).        *)
(* 5 NoPanic.  No call panics (a Panic line has no action).                                                    *)
(*                                                                                                             *)
(* The ResponseWriter is an explicit state machine, one action per API call; `calls` is the history and        *)
(* RefAgrees states the machine against a functional reading of the contract (snapshot at the first            *)
(* WriteHeader/Write).  AsWritten = TRUE transcribes response.go as it is in the tree (SetStatusCode outside   *)
(* the `if !c.writeHeader`): HeaderOnce must then fail (Adaptor_asis.cfg).  The same machine validates the     *)
(* recording of net/http's own httptest.ResponseRecorder (the reference implementation) and of the adaptor.    *)
(*                                                                                                             *)
(* Deliberately unconstrained: Content-Type when the handler set none (net/http sniffs, the adaptor sends none:*)
(* "only support basic function"), Content-Length / Transfer-Encoding / Date / Connection (framing, owned by   *)
(* the server), unknown cookie attributes, attribute order and spelling inside a Set-Cookie line, status codes *)
(* outside 200..599 and 1xx (net/http panics / sends interim responses), http.Flusher & co. (optional          *)
(* interfaces), Proto / RequestURI / RemoteAddr of the converted request (GetCompatRequest "only support basic *)
(* function"; recorded as observations), header order between different names, error texts.                    *)
(***************************************************************************************************************)
EXTENDS Integers, Sequences, FiniteSets, TLC

CONSTANTS MaxCalls,    \* longest call sequence in the exhaustive configuration
          AsWritten,   \* TRUE: WriteHeader as written in response.go (status set on every call)
          OpSet        \* "small" | "full": alphabet of the exhaustive configuration

-----------------------------------------------------------------------------
(* header alphabet of the response side *)
CT == "Content-Type"
SC == "Set-Cookie"
XA == "X-A"
Names == {CT, SC, XA}

\* Set-Cookie lines and what net/http's cookie parser reads in them (the driver renders a parsed cookie as
\* name=value|path|domain|max-age|secure|httponly|samesite)
Cookies == {
  [line |-> "pc=1",                                                        name |-> "pc", canon |-> "pc=1|||0|false|false|"],
  [line |-> "a=1; Path=/x; HttpOnly",                                      name |-> "a",  canon |-> "a=1|/x||0|false|true|"],
  [line |-> "b=2; Max-Age=3600; Secure; SameSite=Lax; Domain=example.com", name |-> "b",  canon |-> "b=2||example.com|3600|true|false|Lax"],
  [line |-> "a=3; Path=/y",                                                name |-> "a",  canon |-> "a=3|/y||0|false|false|"] }
CookieLines == {c.line : c \in Cookies}
CookieOf(line) == CHOOSE c \in Cookies : c.line = line
C0 == "pc=1"
C1 == "a=1; Path=/x; HttpOnly"
C2 == "b=2; Max-Age=3600; Secure; SameSite=Lax; Domain=example.com"
C3 == "a=3; Path=/y"

Canon(n, v) == IF n = SC THEN CookieOf(v).canon ELSE v
ValuesOf(n) == CASE n = XA -> {"1", "2", "", "p", "q"}
                 [] n = CT -> {"text/html", "application/json"}
                 [] n = SC -> CookieLines

\* one API call: [op, n, v, code, p]
Op(op, n, v, code, p) == [op |-> op, n |-> n, v |-> v, code |-> code, p |-> p]
HSet(n, v) == Op("Set", n, v, 0, "")
HAdd(n, v) == Op("Add", n, v, 0, "")
HDel(n)    == Op("Del", n, "", 0, "")
WH(c)      == Op("WriteHeader", "", "", c, "")
W(p)       == Op("Write", "", "", 0, p)

Codes == {200, 201, 404, 500}
Chunks == {"a", "bc", ""}
OpWF(o) == \/ o.op \in {"Set", "Add"} /\ o.n \in Names /\ o.v \in ValuesOf(o.n) /\ (o.n = CT => o.op = "Set")
           \/ o.op = "Del" /\ o.n \in Names
           \/ o.op = "WriteHeader" /\ o.code \in Codes
           \/ o.op = "Write" /\ o.p \in Chunks

OpsSmall == {HSet(XA, "1"), HAdd(XA, "2"), HDel(XA), HAdd(SC, C1), HAdd(SC, C3), HSet(CT, "text/html"),
             WH(201), WH(500), W("a"), W("bc")}
OpsMid == OpsSmall \cup {HAdd(XA, ""), HSet(CT, "application/json"), HDel(CT), HAdd(SC, C2), HDel(SC), WH(200), W("")}
OpsFull == OpsMid \cup {HSet(XA, "2"), HAdd(XA, "1"), HSet(SC, C2), WH(404)}

\* what the hertz Response holds before the writer is made: headers (in the order they were added) and a body
H(n, v) == [n |-> n, v |-> v]
PreNone == << >>
PreSome == <<H(XA, "p"), H(CT, "application/json"), H(XA, "q"), H(SC, C0)>>
Pres == {PreNone, PreSome}
PreBodyOf(P) == IF P = << >> THEN "" ELSE "B0"

-----------------------------------------------------------------------------
(* http.Header semantics *)
Empty == [n \in Names |-> << >>]
ApplyHdr(h, o) == CASE o.op = "Set" -> [h EXCEPT ![o.n] = <<o.v>>]
                    [] o.op = "Add" -> [h EXCEPT ![o.n] = Append(@, o.v)]
                    [] o.op = "Del" -> [h EXCEPT ![o.n] = << >>]
                    [] OTHER -> h
RECURSIVE Group(_)
Group(P) == IF P = << >> THEN Empty
            ELSE LET g == Group(SubSeq(P, 1, Len(P) - 1)) l == P[Len(P)] IN [g EXCEPT ![l.n] = Append(@, l.v)]

VARIABLES pre,      \* headers of the hertz Response when GetCompatResponseWriter is called
          hdr,      \* c.header: the map Header() hands out
          sent,     \* c.writeHeader
          status,   \* status code of the response
          sentHdr,  \* the header multimap of the response (fixed when sent becomes TRUE)
          body,     \* body bytes of the response
          calls     \* history of API calls
vars == <<pre, hdr, sent, status, sentHdr, body, calls>>

\* GetCompatResponseWriter: the existing headers move into the map (VisitAll + DelBytes); status untouched
StartWith(P) == /\ pre = P /\ hdr = Group(P) /\ sent = FALSE /\ status = 200 /\ sentHdr = Empty
                /\ body = PreBodyOf(P) /\ calls = << >>

\* compatResponse.WriteHeader: first call copies c.header into the Response and fixes the status
Send(code) == /\ sent' = TRUE /\ sentHdr' = hdr /\ status' = code

Step(o) == /\ calls' = Append(calls, o)
           /\ UNCHANGED pre
           /\ CASE o.op \in {"Set", "Add", "Del"} ->          \* Header().Set/Add/Del: the map only
                     hdr' = ApplyHdr(hdr, o) /\ UNCHANGED <<sent, status, sentHdr, body>>
                [] o.op = "WriteHeader" ->
                     /\ UNCHANGED <<hdr, body>>
                     /\ IF ~sent THEN Send(o.code)
                        ELSE /\ UNCHANGED <<sent, sentHdr>>
                             /\ status' = IF AsWritten THEN o.code ELSE status    \* superfluous call: ignored
                [] o.op = "Write" ->                               \* implicit WriteHeader(200), then BodyWriter().Write
                     /\ body' = body \o o.p /\ UNCHANGED hdr
                     /\ IF ~sent THEN Send(200) ELSE UNCHANGED <<sent, status, sentHdr>>

Ops == IF OpSet = "full" THEN OpsFull ELSE OpsSmall
Init == \E P \in Pres : StartWith(P)
Next == \E o \in Ops : Len(calls) < MaxCalls /\ Step(o)
Spec == Init /\ [][Next]_vars

\* what a client receives when the handler has returned: a net/http server sends Header() as it then is with 200
FinalHdrs == IF sent THEN {sentHdr} ELSE {hdr, Group(pre)}

-----------------------------------------------------------------------------
(* the contract, read functionally over the history *)
RECURSIVE Fold(_, _, _)
Fold(h, ops, k) == IF k > Len(ops) THEN h ELSE Fold(ApplyHdr(h, ops[k]), ops, k + 1)
Sending(o) == o.op \in {"WriteHeader", "Write"}
FirstSend(ops) == IF \E i \in DOMAIN ops : Sending(ops[i]) THEN CHOOSE i \in DOMAIN ops : Sending(ops[i]) /\ \A j \in 1 .. i - 1 : ~Sending(ops[j]) ELSE 0
RefStatus(ops) == LET f == FirstSend(ops) IN IF f = 0 \/ ops[f].op = "Write" THEN 200 ELSE ops[f].code
RefSentHdr(P, ops) == LET f == FirstSend(ops) IN IF f = 0 THEN Empty ELSE Fold(Group(P), SubSeq(ops, 1, f - 1), 1)
RECURSIVE RefBody(_, _, _)
RefBody(b, ops, k) == IF k > Len(ops) THEN b ELSE RefBody(IF ops[k].op = "Write" THEN b \o ops[k].p ELSE b, ops, k + 1)

TypeOK == /\ sent \in BOOLEAN /\ status \in Codes /\ \A n \in Names : \A i \in DOMAIN hdr[n] : hdr[n][i] \in ValuesOf(n)
RefAgrees == /\ sent = (FirstSend(calls) # 0)
             /\ status = RefStatus(calls)
             /\ sentHdr = RefSentHdr(pre, calls)
             /\ hdr = Fold(Group(pre), calls, 1)
             /\ body = RefBody(PreBodyOf(pre), calls, 1)
\* the header is sent once: status and header of the response never change afterwards
HeaderOnce == [][sent => (status' = status /\ sentHdr' = sentHdr /\ sent')]_vars
\* Write appends and nothing else ever touches the body
BodyAppendOnly == [][\E o \in OpsFull : body' = body \o o.p]_vars
\* marks of the call sequences on which the tree as it is deviates (known findings; used to tag cases only)
Wh2(ops) == \E i \in DOMAIN ops : i > FirstSend(ops) /\ FirstSend(ops) # 0 /\ ops[i].op = "WriteHeader" /\ ops[i].code # RefStatus(ops)
SameNameCookies(vs) == \E i, j \in DOMAIN vs : i < j /\ CookieOf(vs[i]).name = CookieOf(vs[j]).name
Ck2(P, ops) == IF FirstSend(ops) # 0 /\ SameNameCookies(RefSentHdr(P, ops)[SC]) THEN ops[FirstSend(ops)].op ELSE "-"
Lost(P, ops) == FirstSend(ops) = 0 /\ Group(P) # Empty /\ Fold(Group(P), ops, 1) # Empty
=============================================================================
