--------------------------- MODULE ShutdownTrace ---------------------------
(***************************************************************************)
(* Trace validation for C18: the events recorded by harness/drivers/c18    *)
(* from a real server.Hertz (one mutex-ordered log per case) are run       *)
(* through the OBSERVER of Shutdown.tla.  Every trace action is            *)
(*     IsEvent /\ Ok<Event>(logged fields) /\ Obs<Event>(logged fields)    *)
(* with the very operators that TLC proves never to fail on the design     *)
(* (Shutdown!ObligationsHold); the mechanism variables are not used here.  *)
(*                                                                         *)
(* Lines: Case{cls,tp,waitMs,conns,hooks,second,...}; Dial{c};             *)
(* Connected{c}; DialFailed{c}; Accept{c}; OnConnect{c}; OnConnectDone{c};  *)
(* HandlerEnter{c,r};                                                      *)
(* HandlerExit{c,r,running}; ResponseComplete{c,r,close,bytesOk};          *)
(* ResponseNone{c,r}; SendFailed{c,r}; ShutdownCall{k};                    *)
(* ShutdownReturn{k,err,elapsedMs}; HookStart{h}; HookEnd{h};              *)
(* DialAfter{result}; RunReturn{err}; RaceTrial{callers,nils,errs}; End.   *)
(* ResponseTruncated, ShutdownHung and Panic have no action: they reject   *)
(* the case.  Connection 0 is the driver's probe dialled after a nil       *)
(* return.  The log order is used only as "recorded before".               *)
(*                                                                         *)
(* Deterministic: every line enables at most one action and there are no   *)
(* silent steps, so the state graph is one chain (distinct states = lines  *)
(* + 1).                                                                   *)
(***************************************************************************)
EXTENDS Shutdown, Json, IOUtils

Trace == ndJsonDeserialize(IOEnv.VERIF_TRACE)

VARIABLES l,      \* next line to consume
          bad,    \* lines at which a case was rejected
          cur     \* the Case record of the case in progress ([cls |-> "idle"] between cases)
tvars == <<vars, l, bad, cur>>

Line == Trace[l]
HasLine == l <= Len(Trace)
Idle == [cls |-> "idle"]
InCase == cur.cls # "idle"

TConns == 0 .. 3
TCallers == 1 .. 2
AllHooks == 1 .. Len(cur.hooks)
ServerIsRun == cur.cls = "run"

\* (the mechanism variables keep their initial values)
ObsReset == /\ oBegun' = FALSE /\ oReturned' = FALSE
            /\ oDial' = [c \in TConns |-> FALSE] /\ oLate' = [c \in TConns |-> FALSE]
            /\ oEnt' = [c \in TConns |-> 0] /\ oExit' = [c \in TConns |-> 0] /\ oAns' = [c \in TConns |-> 0]
            /\ oMust' = [c \in TConns |-> FALSE]
            /\ oHS' = {} /\ oHE' = {}
            /\ oCall' = [k \in TCallers |-> "no"] /\ oRet' = [k \in TCallers |-> None]
            /\ oPre' = {} /\ oEarly' = FALSE /\ oPreReq' = {} /\ oGone' = {}

TraceInit == /\ status = "init" /\ listening = FALSE /\ active = 0
             /\ conn = [c \in Conns |-> None] /\ avail = [c \in Conns |-> None] /\ sent = [c \in Conns |-> 0]
             /\ cc = [c \in Conns |-> FALSE] /\ rflag = [c \in Conns |-> TRUE] /\ outq = [c \in Conns |-> None]
             /\ hook = [h \in Hooks |-> "notRun"] /\ spawned = FALSE /\ deadline = "unset"
             /\ pc = [k \in Callers |-> "idle"] /\ ret = [k \in Callers |-> None] /\ early = [k \in Callers |-> FALSE]
             /\ flipBy = None
             /\ ObsInit(TConns, TCallers) /\ oBad = {}
             /\ l = 1 /\ bad = << >> /\ cur = Idle

Consume == l' = l + 1 /\ UNCHANGED <<mvars, oBad, bad>>
Ev(e) == InCase /\ HasLine /\ Line.ev = e
Same == UNCHANGED <<ovars, cur>>

TraceCase == /\ ~InCase /\ HasLine /\ Line.ev = "Case"
             /\ Line.cls \in {"run", "notRun", "raceN"} /\ Line.tp \in Transports /\ Line.second \in SecondKinds
             /\ Len(Line.conns) <= 3 /\ \A i \in DOMAIN Line.conns : Line.conns[i] \in ConnKinds
             /\ \A i \in DOMAIN Line.hooks : Line.hooks[i] \in HookKinds
             /\ Line.waitMs > 0
             /\ cur' = Line /\ ObsReset /\ Consume

\* events that carry no obligation
TraceInfo == /\ InCase /\ HasLine
             /\ Line.ev \in {"Connected", "DialFailed", "SendFailed", "RunReturn"}
             /\ Same /\ Consume

\* the transport ran the OnAccept / OnConnect callback for connection c ("accepted" binds here, not at handler
\* start).  OnAccept of the netpoll transport runs before netpoll has registered the connection, so only OnConnect
\* binds there; c = -1 is a connection the driver could not attribute.
TraceAccept == /\ InCase /\ HasLine /\ Line.ev \in {"Accept", "OnConnect"}
               /\ IF Line.c \in TConns /\ (Line.ev = "OnConnect" \/ cur.tp = "standard")
                  THEN ObsAccept(Line.c) ELSE UNCHANGED ovars
               /\ UNCHANGED cur /\ Consume
\* the OnConnect callback returned: on netpoll the connection is bound only while it is held in the callback
TraceOnConnectDone == /\ Ev("OnConnectDone")
                      /\ IF Line.c \in TConns /\ cur.tp = "netpoll" THEN ObsRelease(Line.c) ELSE UNCHANGED ovars
                      /\ UNCHANGED cur /\ Consume

TraceResponseNone == /\ Ev("ResponseNone") /\ OkResponseNone(Line.c) /\ ObsResponseNone(Line.c) /\ UNCHANGED cur /\ Consume

TraceDial == /\ Ev("Dial") /\ OkDial(Line.c) /\ ObsDial(Line.c) /\ UNCHANGED cur /\ Consume

TraceHandlerEnter == /\ Ev("HandlerEnter") /\ OkHandlerEnter(Line.c, Line.r) /\ ObsHandlerEnter(Line.c)
                     /\ UNCHANGED cur /\ Consume

TraceHandlerExit == /\ Ev("HandlerExit") /\ OkHandlerExit(Line.c, Line.r) /\ ObsHandlerExit(Line.c, Line.running)
                    /\ UNCHANGED cur /\ Consume

TraceResponse == /\ Ev("ResponseComplete") /\ OkResponse(Line.c, Line.r, Line.close, Line.bytesOk) /\ ObsResponse(Line.c)
                 /\ UNCHANGED cur /\ Consume

TraceCall == /\ Ev("ShutdownCall") /\ OkCall(Line.k) /\ ObsCall(Line.k, ServerIsRun) /\ UNCHANGED cur /\ Consume

TraceReturn == /\ Ev("ShutdownReturn") /\ Line.err \in {"nil", "notRunning", "other"} /\ Line.elapsedMs >= 0
               /\ OkReturn(Line.k, Line.err, Line.elapsedMs, cur.waitMs, AllHooks)
               /\ ObsReturn(Line.k, Line.err, Line.elapsedMs < cur.waitMs)
               /\ UNCHANGED cur /\ Consume

TraceHookStart == /\ Ev("HookStart") /\ OkHookStart(Line.h, AllHooks) /\ ObsHookStart(Line.h) /\ UNCHANGED cur /\ Consume
TraceHookEnd == /\ Ev("HookEnd") /\ OkHookEnd(Line.h) /\ ObsHookEnd(Line.h) /\ UNCHANGED cur /\ Consume

TraceDialAfter == /\ Ev("DialAfter") /\ OkDialAfter(Line.result) /\ Same /\ Consume

\* several Shutdown calls released together on a running engine: every loser of the race must report an error
\* (SecondShutdownErrors: at most one call returns nil)
TraceRaceTrial == /\ Ev("RaceTrial") /\ cur.cls = "raceN"
                  /\ Line.nils <= 1 /\ Line.nils + Line.errs = Line.callers
                  /\ Same /\ Consume

TraceEnd == /\ Ev("End") /\ OkEnd(ServerIsRun, AllHooks)
            /\ cur' = Idle /\ ObsReset /\ Consume

Normal == TraceCase \/ TraceInfo \/ TraceAccept \/ TraceOnConnectDone \/ TraceResponseNone \/ TraceDial \/ TraceHandlerEnter \/ TraceHandlerExit \/ TraceResponse \/ TraceCall
          \/ TraceReturn \/ TraceHookStart \/ TraceHookEnd \/ TraceDialAfter \/ TraceRaceTrial \/ TraceEnd

NextCase(k) == IF \E j \in k + 1 .. Len(Trace) : Trace[j].ev = "Case"
               THEN CHOOSE j \in k + 1 .. Len(Trace) : Trace[j].ev = "Case" /\ \A i \in k + 1 .. j - 1 : Trace[i].ev # "Case"
               ELSE Len(Trace) + 1

Mismatch == /\ HasLine /\ ~ENABLED Normal
            /\ bad' = Append(bad, l)
            /\ l' = IF Len(bad) >= 50 THEN Len(Trace) + 1 ELSE NextCase(l)
            /\ cur' = Idle /\ ObsReset /\ UNCHANGED <<mvars, oBad>>

\* the trace ends in the middle of a case
MismatchEOF == /\ l = Len(Trace) + 1 /\ InCase
               /\ bad' = Append(bad, l) /\ l' = l
               /\ cur' = Idle /\ ObsReset /\ UNCHANGED <<mvars, oBad>>

TraceNext == Normal \/ Mismatch \/ MismatchEOF

Report == (l = Len(Trace) + 1 /\ ~InCase) => PrintT(<<"@@BAD", bad, l - 1, Len(Trace)>>)
=============================================================================
