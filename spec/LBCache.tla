------------------------------ MODULE LBCache ------------------------------
(***************************************************************************************************************)
(* X01 -- the client-side service-discovery balancer cache of hertz:                                           *)
(*   pkg/app/client/loadbalance/lbcache.go (BalancerFactory), weight_random.go (weightedBalancer),             *)
(*   pkg/app/client/discovery/discovery.go (Resolver, Result), used by middlewares/client/sd.Discovery.        *)
(*                                                                                                             *)
(* THE PROPERTY (X01), as checkable clauses:                                                                   *)
(*  (1) FreshPick.  Every instance GetInstance returns for key k is a positive-weight member of the result    *)
(*      most recently handed to the balancer (Rebalance) for k, or -- when the balancer holds no state for k  *)
(*      -- of the result the caller loaded from k's entry; every result handed to Rebalance is the unmodified  *)
(*      outcome of a SUCCESSFUL Resolve(k) made by the same process immediately before, under the balancer    *)
(*      key <resolver name>:<CacheKey>; a caller never sees a result of another key or one that was only      *)
(*      stored in an entry deleted before its call began.                                                      *)
(*  (2) SingleFlight.  At most one caller-initiated Resolve(k) is in flight at any time; a caller resolves    *)
(*      only if k had no entry at some point during its call; callers that miss while a resolution is in      *)
(*      flight share its outcome (result or error) instead of resolving themselves.                           *)
(*  (3) Expiry.  (a) the watcher deletes an entry only at a visit that finds it marked by the PREVIOUS visit   *)
(*      with no GetInstance for it in between (two-phase lease), (b) a deletion is propagated to the balancer  *)
(*      as Delete(<the key the balancer was rebalanced under>), exactly once per deleted entry, (c) an entry   *)
(*      nobody asks for is eventually deleted (IdleExpires: periodic refreshing is not a use).                 *)
(*  (4) RefreshFailKeeps.  A periodic refresh whose Resolve fails changes nothing: entry, result, lease flag   *)
(*      and balancer state stay; a successful one replaces the result and rebalances, nothing else.            *)
(*  (5) EmptyIsError.  When the result in force has no positive-weight instance GetInstance returns an error   *)
(*      and no instance (never a stale one); a failed first resolution creates no entry and returns the error  *)
(*      to the leader and to every follower.                                                                   *)
(*                                                                                                             *)
(* GRANULARITY: one action per step between synchronisation points of the code.                                *)
(*   GetInstance/getCacheResult:  Target(c,k)        resolver.Target callback                                   *)
(*                                Hit(c)             b.cache.Load(target) hits; expire = 0; res.Load()          *)
(*                                Miss(c)            b.cache.Load(target) misses                                *)
(*                                Lead(c) / Follow(c) b.sfg.Do(target, ..): leader calls Resolve, others wait   *)
(*                                LeadEndOk(c,n)     resolver.Resolve returns a result                          *)
(*                                LeadEndErr(c)      .. or an error                                             *)
(*                                LeadFail(c)        sfg.Do returns: the flight ends, everybody gets the error  *)
(*                                LeadRebalance(c)   res.Store; expire=0; balancer.Rebalance(res);              *)
(*                                                   b.cache.Store(target, cache); the flight ends              *)
(*                                Pick(c,x)          balancer.Pick(result) (weightedBalancer: cached weight     *)
(*                                                   info for the CacheKey, computed from the argument if none) *)
(*                                Return(c)                                                                     *)
(*   refresh():                   RTick, RBegin(k), REnd(n|err), RStore, RRebalance                             *)
(*   watcher():                   WTick, WVisit(k) = mark (CAS 0->1) | delete (cache.Delete + balancer.Delete)  *)
(*                                                                                                             *)
(* CORRECTED BEHAVIOUR (constants): RefreshResets = TRUE transcribes refresh() as written (a successful refresh *)
(* also clears the expire flag): TLC then refutes IdleExpires (LBCache_asis.cfg) -- with RefreshInterval <     *)
(* ExpireInterval no entry ever expires while the resolver works.  FALSE is what the real code is held to.      *)
(*                                                                                                             *)
(* DELIBERATELY UNCONSTRAINED: which positive-weight instance is picked (weighted random); real time (ticks     *)
(* happen at any moment, in any order, Range visits keys in any order); how often refresh runs; what the        *)
(* resolver answers (any count of instances, or an error); error texts.  Modelled as in the code and NOT        *)
(* forbidden: a refresh that started before its entry was deleted still rebalances afterwards (orphan), a Pick  *)
(* after Delete re-creates the balancer's state lazily, a caller that missed may lead a second resolution       *)
(* right after the first flight ended.                                                                         *)
(***************************************************************************************************************)
EXTENDS Integers, Sequences, FiniteSets, TLC

CONSTANTS Keys, Callers,
          Counts,         \* possible numbers of positive-weight instances in a resolve result, e.g. {0,1,2}
          CanFail,        \* Resolve may return an error
          MaxRes,         \* successful resolves per behaviour (versions 1..MaxRes)
          MaxCalls,       \* GetInstance calls per caller
          MaxWTicks, MaxRTicks,   \* watcher / refresh ticks per behaviour (0: unbounded)
          RefreshResets   \* TRUE: as written (refresh clears the expire flag)

VARIABLES nres,   \* versions handed out so far
          ver,    \* ver[v] = [k, n]: key and number of instances of version v (sequence)
          cache,  \* cache[k]: entry id or 0            (BalancerFactory.cache)
          ent,    \* ent[e] = [k, res, flag, used]      (cacheResult; res = version; used: history, for (3a))
          bal,    \* bal[k]: version the balancer holds weight info of, 0 = none (weightedBalancer.cachedWeightInfo)
          flight, \* flight[k] = [on, err, e]           (singleflight call in progress)
          pc,     \* pc[c] = [at, k, e, v, x]
          left,   \* calls left per caller
          rf,     \* refresh goroutine  [at, todo, k, e, v]
          wt,     \* watcher goroutine  [todo]
          wticks, rticks,
          out     \* last observable step (for trace binding and action properties)

vars == <<nres, ver, cache, ent, bal, flight, pc, left, rf, wt, wticks, rticks, out>>

NoInst == <<0, 0>>
Ins(v) == IF v = 0 THEN {} ELSE {<<v, i>> : i \in 1 .. ver[v].n}
IdlePc == [at |-> "idle", k |-> "-", e |-> 0, v |-> 0, x |-> NoInst]
NoFlight == [on |-> FALSE, err |-> FALSE, e |-> 0]
NoOut == [ev |-> "none"]

Init == /\ nres = 0 /\ ver = << >> /\ cache = [k \in Keys |-> 0] /\ ent = << >>
        /\ bal = [k \in Keys |-> 0] /\ flight = [k \in Keys |-> NoFlight]
        /\ pc = [c \in Callers |-> IdlePc] /\ left = [c \in Callers |-> MaxCalls]
        /\ rf = [at |-> "wait", todo |-> {}, k |-> "-", e |-> 0, v |-> 0]
        /\ wt = [todo |-> {}] /\ wticks = 0 /\ rticks = 0 /\ out = NoOut

At(c, a) == pc[c].at = a
Silent == out' = NoOut
Obs(r) == out' = r
KeepBg == UNCHANGED <<rf, wt, wticks, rticks>>
NewVer(k, n) == /\ nres < MaxRes /\ nres' = nres + 1 /\ ver' = Append(ver, [k |-> k, n |-> n])

--------------------------------------------------------------------------------------------------------------
(* GetInstance *)

Target(c, k) ==
    /\ At(c, "idle") /\ left[c] > 0
    /\ left' = [left EXCEPT ![c] = @ - 1]
    /\ pc' = [pc EXCEPT ![c] = [IdlePc EXCEPT !.at = "target", !.k = k]]
    /\ Obs([ev |-> "Target", p |-> c, k |-> k])
    /\ UNCHANGED <<nres, ver, cache, ent, bal, flight>> /\ KeepBg

\* b.cache.Load(target) hits; atomic.StoreInt32(&cacheRes.expire, 0); cacheRes.res.Load()
\* (three atomic operations of the code taken as one step: a Delete between them only makes the flag store land
\* on an unreachable entry; the Delete-between-load-and-Pick interleaving is kept, see Pick)
Hit(c) ==
    /\ At(c, "target") /\ cache[pc[c].k] # 0
    /\ LET e == cache[pc[c].k] IN
       /\ ent' = [ent EXCEPT ![e].flag = 0, ![e].used = TRUE]
       /\ pc' = [pc EXCEPT ![c].at = "pick", ![c].e = e, ![c].v = ent[e].res]
    /\ Silent /\ UNCHANGED <<nres, ver, cache, bal, flight, left>> /\ KeepBg

\* b.cache.Load(target): miss
Miss(c) ==
    /\ At(c, "target") /\ cache[pc[c].k] = 0
    /\ pc' = [pc EXCEPT ![c].at = "miss"]
    /\ Silent /\ UNCHANGED <<nres, ver, cache, ent, bal, flight, left>> /\ KeepBg

\* b.sfg.Do: nobody is resolving this key -> this caller runs the function: resolver.Resolve(ctx, target) begins
Lead(c) ==
    /\ At(c, "miss") /\ ~flight[pc[c].k].on
    /\ flight' = [flight EXCEPT ![pc[c].k] = [on |-> TRUE, err |-> FALSE, e |-> 0]]
    /\ pc' = [pc EXCEPT ![c].at = "resolve"]
    /\ Obs([ev |-> "ResolveBegin", p |-> c, k |-> pc[c].k])
    /\ UNCHANGED <<nres, ver, cache, ent, bal, left>> /\ KeepBg

\* b.sfg.Do: a resolution of this key is in flight -> wait for its outcome
Follow(c) ==
    /\ At(c, "miss") /\ flight[pc[c].k].on
    /\ pc' = [pc EXCEPT ![c].at = "follow"]
    /\ Silent /\ UNCHANGED <<nres, ver, cache, ent, bal, flight, left>> /\ KeepBg

LeadEndOk(c, n) ==
    /\ At(c, "resolve") /\ n \in Counts /\ NewVer(pc[c].k, n)
    /\ pc' = [pc EXCEPT ![c].at = "resolved", ![c].v = nres + 1]
    /\ Obs([ev |-> "ResolveEnd", p |-> c, k |-> pc[c].k, v |-> nres + 1, n |-> n])
    /\ UNCHANGED <<cache, ent, bal, flight, left>> /\ KeepBg

\* Resolve fails (nothing is stored); the flight is still registered until sfg.Do returns: LeadFail
LeadEndErr(c) ==
    /\ At(c, "resolve") /\ CanFail
    /\ pc' = [pc EXCEPT ![c].at = "failed"]
    /\ Obs([ev |-> "ResolveEnd", p |-> c, k |-> pc[c].k, v |-> 0, n |-> 0])
    /\ UNCHANGED <<nres, ver, cache, ent, bal, flight, left>> /\ KeepBg

\* sfg.Do returns the error to the leader and to every caller that joined the flight up to now
LeadFail(c) ==
    /\ At(c, "failed")
    /\ flight' = [flight EXCEPT ![pc[c].k] = NoFlight]
    /\ pc' = [d \in Callers |->
                IF d = c \/ (pc[d].at = "follow" /\ pc[d].k = pc[c].k)
                THEN [pc[d] EXCEPT !.at = "error"] ELSE pc[d]]
    /\ Silent /\ UNCHANGED <<nres, ver, cache, ent, bal, left>> /\ KeepBg

\* cache.res.Store(res); expire = 0; b.balancer.Rebalance(res); b.cache.Store(target, cache); sfg.Do returns:
\* leader and followers continue with the new entry, having (re)set its flag and loaded its result
\* (Rebalance, Store and the end of the flight are one step here: nothing can reach the entry before Store, and a
\* caller that misses between Rebalance and Store simply joins the flight as it could before Rebalance)
LeadRebalance(c) ==
    /\ At(c, "resolved")
    /\ ent' = Append(ent, [k |-> pc[c].k, res |-> pc[c].v, flag |-> 0, used |-> TRUE])
    /\ bal' = [bal EXCEPT ![pc[c].k] = pc[c].v]
    /\ cache' = [cache EXCEPT ![pc[c].k] = Len(ent) + 1]
    /\ flight' = [flight EXCEPT ![pc[c].k] = NoFlight]
    /\ pc' = [d \in Callers |->
                IF d = c \/ (pc[d].at = "follow" /\ pc[d].k = pc[c].k)
                THEN [pc[d] EXCEPT !.at = "pick", !.e = Len(ent) + 1, !.v = pc[c].v] ELSE pc[d]]
    /\ Obs([ev |-> "Rebalance", p |-> c, k |-> pc[c].k, v |-> pc[c].v])
    /\ UNCHANGED <<nres, ver, left>> /\ KeepBg

\* weightedBalancer.Pick(e): weight info cached under e.CacheKey, else computed from e and cached
PickFrom(c) == IF bal[pc[c].k] # 0 THEN bal[pc[c].k] ELSE pc[c].v
Pick(c, x) ==
    /\ At(c, "pick")
    /\ IF Ins(PickFrom(c)) = {} THEN x = NoInst ELSE x \in Ins(PickFrom(c))
    /\ bal' = [bal EXCEPT ![pc[c].k] = PickFrom(c)]
    /\ pc' = [pc EXCEPT ![c].at = "picked", ![c].x = x]
    /\ Obs([ev |-> "Pick", p |-> c, k |-> pc[c].k, v |-> pc[c].v, from |-> PickFrom(c), x |-> x])
    /\ UNCHANGED <<nres, ver, cache, ent, flight, left>> /\ KeepBg

Return(c) ==
    /\ pc[c].at \in {"picked", "error"}
    /\ Obs([ev |-> "Return", p |-> c, k |-> pc[c].k, x |-> pc[c].x,
            err |-> (pc[c].at = "error" \/ pc[c].x = NoInst)])
    /\ pc' = [pc EXCEPT ![c] = IdlePc]
    /\ UNCHANGED <<nres, ver, cache, ent, bal, flight, left>> /\ KeepBg

CallerStep(c) == \/ \E k \in Keys : Target(c, k)
                 \/ Hit(c) \/ Miss(c) \/ Lead(c) \/ Follow(c)
                 \/ \E n \in Counts : LeadEndOk(c, n)
                 \/ LeadEndErr(c) \/ LeadFail(c) \/ LeadRebalance(c)
                 \/ (At(c, "pick") /\ \E x \in Ins(PickFrom(c)) \cup {NoInst} : Pick(c, x))
                 \/ Return(c)

--------------------------------------------------------------------------------------------------------------
(* refresh(): for range time.Tick(RefreshInterval) { b.cache.Range(...) }                                      *)
(* sync.Map.Range visits every key at most once per call and reads the map live: rf.todo = keys not visited yet *)

Tick(n, max) == IF max = 0 THEN n ELSE n + 1
RDone == \A k \in Keys : cache[k] # 0 => k \notin rf.todo

RTick == /\ rf.at = "wait" /\ RDone /\ (MaxRTicks = 0 \/ rticks < MaxRTicks)
         /\ rf' = [rf EXCEPT !.todo = Keys] /\ rticks' = Tick(rticks, MaxRTicks)
         /\ Silent /\ UNCHANGED <<nres, ver, cache, ent, bal, flight, pc, left, wt, wticks>>

RBegin(k) == /\ rf.at = "wait" /\ k \in rf.todo /\ cache[k] # 0
             /\ rf' = [at |-> "resolve", todo |-> rf.todo \ {k}, k |-> k, e |-> cache[k], v |-> 0]
             /\ Obs([ev |-> "ResolveBegin", p |-> 0, k |-> k])
             /\ UNCHANGED <<nres, ver, cache, ent, bal, flight, pc, left, wt, wticks, rticks>>

REndOk(n) == /\ rf.at = "resolve" /\ n \in Counts /\ NewVer(rf.k, n)
             /\ rf' = [rf EXCEPT !.at = "resolved", !.v = nres + 1]
             /\ Obs([ev |-> "ResolveEnd", p |-> 0, k |-> rf.k, v |-> nres + 1, n |-> n])
             /\ UNCHANGED <<cache, ent, bal, flight, pc, left, wt, wticks, rticks>>

\* the resolver reports the list it reported before (no new version: keeps the model finite under endless refreshing)
REndSame == /\ rf.at = "resolve" /\ ent[rf.e].res # 0
            /\ rf' = [rf EXCEPT !.at = "resolved", !.v = ent[rf.e].res]
            /\ Obs([ev |-> "ResolveEnd", p |-> 0, k |-> rf.k, v |-> ent[rf.e].res, n |-> ver[ent[rf.e].res].n])
            /\ UNCHANGED <<nres, ver, cache, ent, bal, flight, pc, left, wt, wticks, rticks>>

\* (4) a failed refresh: log a warning, "return true" (next key)
REndErr == /\ rf.at = "resolve" /\ CanFail
           /\ rf' = [rf EXCEPT !.at = "wait", !.k = "-", !.e = 0]
           /\ Obs([ev |-> "ResolveEnd", p |-> 0, k |-> rf.k, v |-> 0, n |-> 0])
           /\ UNCHANGED <<nres, ver, cache, ent, bal, flight, pc, left, wt, wticks, rticks>>

\* cache.res.Store(res) [; atomic.StoreInt32(&cache.expire, 0) -- as written only]   (on the entry Range handed out)
RStore == /\ rf.at = "resolved"
          /\ ent' = [ent EXCEPT ![rf.e].res = rf.v, ![rf.e].flag = IF RefreshResets THEN 0 ELSE @]
          /\ rf' = [rf EXCEPT !.at = "stored"]
          /\ Silent /\ UNCHANGED <<nres, ver, cache, bal, flight, pc, left, wt, wticks, rticks>>

RRebalance == /\ rf.at = "stored"
              /\ bal' = [bal EXCEPT ![rf.k] = rf.v]
              /\ Obs([ev |-> "Rebalance", p |-> 0, k |-> rf.k, v |-> rf.v])
              /\ rf' = [rf EXCEPT !.at = "wait", !.k = "-", !.e = 0, !.v = 0]
              /\ UNCHANGED <<nres, ver, cache, ent, flight, pc, left, wt, wticks, rticks>>

RefreshStep == RTick \/ (\E k \in Keys : RBegin(k)) \/ (\E n \in Counts : REndOk(n)) \/ REndSame \/ REndErr
               \/ RStore \/ RRebalance

--------------------------------------------------------------------------------------------------------------
(* watcher(): for range time.Tick(ExpireInterval) { b.cache.Range(...) }                                       *)

WDone == \A k \in Keys : cache[k] # 0 => k \notin wt.todo

WTick == /\ WDone /\ (MaxWTicks = 0 \/ wticks < MaxWTicks)
         /\ wt' = [todo |-> Keys] /\ wticks' = Tick(wticks, MaxWTicks)
         /\ Silent /\ UNCHANGED <<nres, ver, cache, ent, bal, flight, pc, left, rf, rticks>>

\* CompareAndSwapInt32(&cache.expire, 0, 1) succeeds: marked, collected by the next tick unless used again
WMark(k) == /\ k \in wt.todo /\ cache[k] # 0 /\ ent[cache[k]].flag = 0
            /\ ent' = [ent EXCEPT ![cache[k]].flag = 1, ![cache[k]].used = FALSE]
            /\ wt' = [todo |-> wt.todo \ {k}]
            /\ Silent /\ UNCHANGED <<nres, ver, cache, bal, flight, pc, left, rf, wticks, rticks>>

\* the flag is still set: b.cache.Delete(key); b.balancer.Delete(<balancer key of the entry>)
WDelete(k) == /\ k \in wt.todo /\ cache[k] # 0 /\ ent[cache[k]].flag = 1
              /\ cache' = [cache EXCEPT ![k] = 0]
              /\ bal' = [bal EXCEPT ![k] = 0]
              /\ wt' = [todo |-> wt.todo \ {k}]
              /\ Obs([ev |-> "Delete", p |-> 0, k |-> k])
              /\ UNCHANGED <<nres, ver, ent, flight, pc, left, rf, wticks, rticks>>

WatcherStep == WTick \/ \E k \in Keys : WMark(k) \/ WDelete(k)

Next == (\E c \in Callers : CallerStep(c)) \/ RefreshStep \/ WatcherStep

Spec == Init /\ [][Next]_vars
\* the watcher keeps ticking and calls run to completion; nothing is assumed about refresh or the resolver
LiveSpec == Spec /\ WF_vars(WatcherStep) /\ \A c \in Callers : WF_vars(CallerStep(c) /\ left' = left)

--------------------------------------------------------------------------------------------------------------
(* The property *)

Ats == {"idle", "target", "miss", "resolve", "resolved", "failed", "follow", "pick", "picked", "error"}
TypeOK == /\ nres = Len(ver) /\ nres <= MaxRes
          /\ \A k \in Keys : cache[k] \in 0 .. Len(ent) /\ bal[k] \in 0 .. nres
          /\ \A c \in Callers : pc[c].at \in Ats /\ pc[c].e \in 0 .. Len(ent) /\ pc[c].v \in 0 .. nres
          /\ rf.at \in {"wait", "resolve", "resolved", "stored"}

Resolving(k) == {c \in Callers : pc[c].k = k /\ pc[c].at \in {"resolve", "resolved", "failed"}}

\* (2)
SingleFlight == \A k \in Keys : /\ Cardinality(Resolving(k)) <= 1
                                /\ flight[k].on <=> Resolving(k) # {}
                                /\ \A c \in Callers : pc[c].at = "follow" /\ pc[c].k = k => flight[k].on

\* (1) what a caller holds and what the balancer holds for k stems from a successful Resolve of k itself
OwnKey == /\ \A k \in Keys : /\ bal[k] # 0 => ver[bal[k]].k = k
                             /\ cache[k] # 0 => ent[cache[k]].k = k
          /\ \A e \in DOMAIN ent : ver[ent[e].res].k = ent[e].k
          /\ \A c \in Callers : /\ pc[c].v # 0 => ver[pc[c].v].k = pc[c].k
                                /\ pc[c].x # NoInst => ver[pc[c].x[1]].k = pc[c].k

\* (1)+(5) the picked instance is a member of the result the balancer was last rebalanced with (or, without
\* balancer state, of the loaded result); no instance exactly when that result has none
FreshPick == out.ev = "Pick" =>
                 /\ out.from = bal[out.k]
                 /\ IF Ins(out.from) = {} THEN out.x = NoInst ELSE out.x \in Ins(out.from)
EmptyIsError == out.ev = "Return" => (out.err <=> out.x = NoInst)

\* (3a) an entry is marked only while nobody used it since the mark
MarkedUnused == \A e \in DOMAIN ent : ent[e].flag = 1 => ~ent[e].used

\* (3a)(3b) an entry leaves the cache only by the watcher, at a visit that finds it marked and unused, and the
\* balancer's state goes with it
DeleteTwoPhase ==
    [][\A k \in Keys : (cache[k] # 0 /\ cache'[k] = 0) =>
          /\ ent[cache[k]].flag = 1 /\ ~ent[cache[k]].used
          /\ bal'[k] = 0 /\ out'.ev = "Delete" /\ out'.k = k]_vars

\* an entry is published only by a leader, together with Rebalance, holding the result just resolved
PublishAfterRebalance ==
    [][\A k \in Keys : (cache'[k] # cache[k] /\ cache'[k] # 0) =>
          \E c \in Callers : /\ pc[c].at = "resolved" /\ pc[c].k = k /\ out'.ev = "Rebalance" /\ out'.p = c
                             /\ ent'[cache'[k]].res = pc[c].v /\ bal'[k] = pc[c].v]_vars

\* (4) a failed Resolve -- periodic or first -- changes neither cache, entries nor balancer
FailKeeps == [][(out'.ev = "ResolveEnd" /\ out'.v = 0) => UNCHANGED <<cache, ent, bal>>]_vars
\* refresh never removes an entry and touches only the entry it resolved for
RefreshScope == [][(rf' # rf /\ rf.at # "wait") =>
                     /\ cache' = cache
                     /\ \A e \in DOMAIN ent : e # rf.e => ent'[e] = ent[e]
                     /\ \A k \in Keys : k # rf.k => bal'[k] = bal[k]]_vars

\* NOT an invariant of the code as written (LBCache_orphan.cfg exhibits it): a refresh whose entry was deleted and
\* re-created while its Resolve was in flight rebalances with the older answer; the balancer then serves a result
\* that is not the entry's until the next refresh
Quiet(k) == rf.k # k /\ \A c \in Callers : pc[c].k # k
InStep == \A k \in Keys : (Quiet(k) /\ cache[k] # 0) => bal[k] \in {0, ent[cache[k]].res}

\* (3c) once nobody calls any more every entry is eventually deleted
CallsOver == \A c \in Callers : pc[c].at = "idle" /\ left[c] = 0
IdleExpires == CallsOver ~> (\A k \in Keys : cache[k] = 0)

Symm == Permutations(Callers)
View == <<nres, ver, cache, ent, bal, flight, pc, left, rf, wt, wticks, rticks>>
=============================================================================
