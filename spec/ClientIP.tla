------------------------------ MODULE ClientIP ------------------------------
(***************************************************************************)
(* X03 part A -- client address resolution: RequestContext.ClientIP,       *)
(* ClientIPWithOption, ClientIPOptions{RemoteIPHeaders, TrustedCIDRs},      *)
(* validateHeader, isTrustedProxy (pkg/app/context.go).                     *)
(*                                                                         *)
(* What a user relies on (the clauses; Ref below is their formal text):    *)
(*  A1 untrusted peer: when the connection's remote address is not inside  *)
(*     any TrustedCIDR (or is not an IP address at all), request headers   *)
(*     have no influence: the result is the host part of the remote        *)
(*     address.                                                            *)
(*  A2 trusted peer: RemoteIPHeaders are consulted in the configured order;*)
(*     the first header that is VALID decides, else the remote host.       *)
(*     A header value is a comma list; entries are trimmed; the result is  *)
(*     the right-most entry that is not a trusted proxy address (the       *)
(*     left-most entry when all are trusted); the header is valid iff that *)
(*     entry and every entry right of it is a well-formed IP address; an   *)
(*     absent or empty header is invalid.  Entries left of the result      *)
(*     (client-controlled) never matter.  The result is the entry's text   *)
(*     as written (trimmed), not a canonical form.                         *)
(*  A3 membership in a CIDR is by address value: an IPv4 address written   *)
(*     in IPv4-mapped IPv6 form is the IPv4 address; an IPv6 range never   *)
(*     contains an IPv4 address nor vice versa; boundaries are exact.      *)
(*     TrustedCIDRs nil or empty: nobody is trusted.                       *)
(*  A4 a unix-domain peer counts as 127.0.0.1 for trust and its address    *)
(*     string is the fall-back result; a remote address without a port     *)
(*     yields ""; no connection counts as 0.0.0.0.  Never panics.          *)
(*  A5 precedence: the function given to the context/engine               *)
(*     (SetClientIPFunc) is used, else the package default                 *)
(*     (app.SetClientIPFunc, initially: trust 0.0.0.0/0 and ::/0, headers  *)
(*     X-Forwarded-For then X-Real-IP).  Header names are matched case-    *)
(*     insensitively.                                                      *)
(*  A6 (RFC 7230 3.2.2) several header lines of one name mean the same as  *)
(*     one line with the values joined by commas, in order.  The code      *)
(*     reads the FIRST line only: recorded as known finding                *)
(*     X03-xff-first-line-only (Impl below transcribes the code as it is;  *)
(*     ClientIP_multiline.cfg must refute ImplIsRefAll).                   *)
(*                                                                         *)
(* Addresses are entries of the table Addrs (family + octets); a text form *)
(* (dotted, ::ffff:a.b.c.d, hex groups, compressed ...) is rendered here,  *)
(* so the model knows the address VALUE of every token it hands to the     *)
(* real code and the real parser (net.ParseIP / ParseCIDR) has to agree.   *)
(* CIDR membership is computed octet by octet (TLC integers are 32 bit).   *)
(*                                                                         *)
(* Deliberately unconstrained: nothing about ClientIP's result -- it is a  *)
(* pure function and the trace spec demands out = Ref(in) -- but the input *)
(* space is the enumerated one (below): no header-name normalisation       *)
(* switch, no zone-scoped CIDRs, no IPNet built by hand with a non-        *)
(* canonical mask.                                                         *)
(***************************************************************************)
EXTENDS Integers, Sequences, FiniteSets, TLC

Z(n) == [i \in 1 .. n |-> 0]
FF(n) == [i \in 1 .. n |-> 255]
A4(a, b, c, d) == [fam |-> 4, o |-> <<a, b, c, d>>, short |-> ""]
A6(o, short) == [fam |-> 6, o |-> o, short |-> short]     \* short = RFC 5952 text (what net.IP.String prints)

\* the address table: boundary addresses of the CIDRs in Cidrs4 / Cidrs6 below
Addrs == <<
  A4(10, 0, 0, 0), A4(10, 0, 0, 1), A4(10, 255, 255, 255), A4(9, 255, 255, 255), A4(11, 0, 0, 0),          \* 1-5
  A4(10, 127, 255, 255), A4(10, 128, 0, 0), A4(10, 1, 255, 255), A4(10, 2, 0, 0), A4(1, 2, 3, 4),         \* 6-10
  A4(1, 2, 3, 5), A4(1, 2, 3, 3), A4(127, 0, 0, 1), A4(0, 0, 0, 0), A4(255, 255, 255, 255),               \* 11-15
  A4(8, 8, 8, 8), A4(192, 168, 1, 127), A4(192, 168, 1, 128), A4(128, 0, 0, 0), A4(127, 255, 255, 255),   \* 16-20
  A4(203, 0, 113, 1), A4(8, 8, 4, 4), A4(1, 2, 3, 6),                                                     \* 21-23
  A6(Z(15) \o <<1>>, "::1"), A6(Z(16), "::"), A6(Z(15) \o <<2>>, "::2"),                                  \* 24-26
  A6(<<32, 1, 13, 184>> \o Z(12), "2001:db8::"), A6(<<32, 1, 13, 184>> \o Z(11) \o <<1>>, "2001:db8::1"), \* 27-28
  A6(<<32, 1, 13, 184>> \o FF(12), "2001:db8:ffff:ffff:ffff:ffff:ffff:ffff"),                             \* 29
  A6(<<32, 1, 13, 185>> \o Z(12), "2001:db9::"),                                                          \* 30
  A6(<<32, 1, 13, 183>> \o FF(12), "2001:db7:ffff:ffff:ffff:ffff:ffff:ffff"),                             \* 31
  A6(<<254, 128>> \o Z(13) \o <<1>>, "fe80::1"), A6(<<252, 0>> \o Z(14), "fc00::"),                       \* 32-33
  A6(<<253>> \o FF(15), "fdff:ffff:ffff:ffff:ffff:ffff:ffff:ffff"), A6(<<254, 0>> \o Z(14), "fe00::"),    \* 34-35
  A6(<<251>> \o FF(15), "fbff:ffff:ffff:ffff:ffff:ffff:ffff:ffff"),                                       \* 36
  A6(Z(12) \o <<10, 0, 0, 1>>, "::a00:1"),                         \* 37 IPv4-compatible (deprecated): NOT an IPv4 address
  A6(<<0, 100, 255, 155>> \o Z(8) \o <<10, 0, 0, 1>>, "64:ff9b::a00:1"),                                  \* 38 NAT64
  A6(<<254, 191>> \o FF(14), "febf:ffff:ffff:ffff:ffff:ffff:ffff:ffff"), A6(<<254, 192>> \o Z(14), "fec0::") \* 39-40
>>
NA == Len(Addrs)
Idx4 == {i \in 1 .. NA : Addrs[i].fam = 4}
Idx6 == {i \in 1 .. NA : Addrs[i].fam = 6}
Ix(a, b, c, d) == CHOOSE i \in Idx4 : Addrs[i].o = <<a, b, c, d>>
Ix6(s) == CHOOSE i \in Idx6 : Addrs[i].short = s

\* ---------------------------------------------------------------- text forms
HexL == "0123456789abcdef"
HexU == "0123456789ABCDEF"
HD(tab, n) == SubSeq(tab, n + 1, n + 1)
H2(tab, b) == HD(tab, b \div 16) \o HD(tab, b % 16)
Grp(tab, o, g) == H2(tab, o[2 * g - 1]) \o H2(tab, o[2 * g])
GrpNL(o, g) == LET hi == o[2 * g - 1]  lo == o[2 * g] IN          \* hex without leading zeros
               IF hi >= 16 THEN H2(HexL, hi) \o H2(HexL, lo)
               ELSE IF hi > 0 THEN HD(HexL, hi) \o H2(HexL, lo)
               ELSE IF lo >= 16 THEN H2(HexL, lo) ELSE HD(HexL, lo)
Join8(f(_)) == f(1) \o ":" \o f(2) \o ":" \o f(3) \o ":" \o f(4) \o ":" \o f(5) \o ":" \o f(6) \o ":" \o f(7) \o ":" \o f(8)
Dot(o) == ToString(o[1]) \o "." \o ToString(o[2]) \o "." \o ToString(o[3]) \o "." \o ToString(o[4])

Forms4 == <<"dot", "map", "MAP", "maphex", "maplong", "mapfull">>
Forms6 == <<"short", "full", "FULL", "nolead">>
FormsOf(i) == IF Addrs[i].fam = 4 THEN Forms4 ELSE Forms6

Render(a, form) ==
  CASE form = "dot"     -> Dot(a.o)
    [] form = "map"     -> "::ffff:" \o Dot(a.o)
    [] form = "MAP"     -> "::FFFF:" \o Dot(a.o)
    [] form = "maphex"  -> "::ffff:" \o H2(HexL, a.o[1]) \o H2(HexL, a.o[2]) \o ":" \o H2(HexL, a.o[3]) \o H2(HexL, a.o[4])
    [] form = "maplong" -> "0:0:0:0:0:ffff:" \o Dot(a.o)
    [] form = "mapfull" -> "0000:0000:0000:0000:0000:FFFF:" \o H2(HexU, a.o[1]) \o H2(HexU, a.o[2]) \o ":" \o H2(HexU, a.o[3]) \o H2(HexU, a.o[4])
    [] form = "short"   -> a.short
    [] form = "full"    -> LET g(k) == Grp(HexL, a.o, k) IN Join8(g)
    [] form = "FULL"    -> LET g(k) == Grp(HexU, a.o, k) IN Join8(g)
    [] form = "nolead"  -> LET g(k) == GrpNL(a.o, k) IN Join8(g)
FormOK(a, form) == IF a.fam = 4 THEN \E i \in 1 .. Len(Forms4) : Forms4[i] = form
                   ELSE \E i \in 1 .. Len(Forms6) : Forms6[i] = form

\* entries that are NOT an IP address for net.ParseIP (index into this table = the token's identity)
BadTexts == <<"", "unknown", "1.2.3", "1.2.3.256", "1.2.3.4:80", "[::1]", "01.2.3.4", "fe80::1%eth0", "1.2.3.4/32",
              "1.2.3.4 5.6.7.8", "::ffff:1.2.3", "2001:db8:::1", "_hidden", "\"1.2.3.4\"", "0x7f.0.0.1", "1.2.3.4.",
              "localhost", "10.0.0.1;8.8.8.8", "12345::1", "1:2:3:4:5:6:7:8:9">>

\* ---------------------------------------------------------------- tokens, lines, options, remote
Tok(ai, form, ls, rs) == [k |-> "ip", a |-> ai, form |-> form, ls |-> ls, rs |-> rs, txt |-> Render(Addrs[ai], form)]
Bad(bi, ls, rs) == [k |-> "bad", a |-> bi, form |-> "bad", ls |-> ls, rs |-> rs, txt |-> BadTexts[bi]]
TokText(t) == t.ls \o t.txt \o t.rs
RECURSIVE JoinToks(_, _)
JoinToks(toks, i) == IF i > Len(toks) THEN "" ELSE (IF i > 1 THEN "," ELSE "") \o TokText(toks[i]) \o JoinToks(toks, i + 1)
Val(toks) == JoinToks(toks, 1)

NameText(n, v) ==
  CASE n = "XFF" -> <<"X-Forwarded-For", "x-forwarded-for", "X-FORWARDED-FOR">>[v + 1]
    [] n = "XRI" -> <<"X-Real-IP", "x-real-ip", "X-Real-Ip">>[v + 1]
    [] n = "CIP" -> <<"Client-Ip", "client-ip", "CLIENT-IP">>[v + 1]
Name(n, v) == [n |-> n, v |-> v, txt |-> NameText(n, v)]
\* one header line; toks is never empty (an empty value is the single malformed entry "")
Line(n, v, toks) == [n |-> n, v |-> v, txt |-> NameText(n, v), toks |-> toks, val |-> Val(toks)]

\* a CIDR: network address (table index), prefix length; form "map" writes an IPv4 range as ::ffff:a.b.c.d/(96+p)
Cidr(ai, p, form) == [a |-> ai, p |-> p, form |-> form,
                      txt |-> Render(Addrs[ai], form) \o "/" \o ToString(IF form = "map" THEN p + 96 ELSE p)]

HostPort(h, form) == IF form = "dot" \/ form = "name" THEN h \o ":4321" ELSE "[" \o h \o "]:4321"
\* remote address of the connection.  k: "ip" (host is an address of the table in some form), "host" (host part is
\* not an IP address), "unix" (network unix, unixgram, unixpacket), "noport" (no host:port at all), "noconn" (no connection).
\* real: the driver passes a real *net.TCPAddr (only for canonical forms) instead of its own net.Addr
RemoteIP(ai, form, pad, real) ==
  LET h == Render(Addrs[ai], form) IN
  [k |-> "ip", a |-> ai, form |-> form, real |-> real, net |-> "tcp", host |-> h, txt |-> pad \o HostPort(h, form) \o pad]
RemoteHost(h, form) == [k |-> "host", a |-> 0, form |-> form, real |-> FALSE, net |-> "tcp", host |-> h, txt |-> HostPort(h, form)]
RemoteUnix(net, path) == [k |-> "unix", a |-> 0, form |-> "", real |-> FALSE, net |-> net, host |-> path, txt |-> path]
RemoteNoPort(s) == [k |-> "noport", a |-> 0, form |-> "", real |-> FALSE, net |-> "tcp", host |-> "", txt |-> s]
RemoteNoConn == [k |-> "noconn", a |-> 0, form |-> "", real |-> FALSE, net |-> "", host |-> "", txt |-> ""]

MkCase(fam, via, remote, nilc, cidrs, names, lines) ==
  [fam |-> fam, via |-> via, remote |-> remote, nilc |-> nilc, cidrs |-> cidrs, names |-> names, lines |-> lines]

\* the options in force: "default" = the package default of context.go
DefaultOpts == [nilc |-> FALSE, cidrs |-> <<Cidr(Ix(0, 0, 0, 0), 0, "dot"), Cidr(Ix6("::"), 0, "short")>>,
                names |-> <<Name("XFF", 0), Name("XRI", 0)>>]
Opts(c) == IF c.via = "default" THEN DefaultOpts ELSE [nilc |-> c.nilc, cidrs |-> c.cidrs, names |-> c.names]

\* ---------------------------------------------------------------- A3: membership
Pow2(k) == 2 ^ k
NBits(i, p) == LET r == p - 8 * (i - 1) IN IF r <= 0 THEN 0 ELSE IF r >= 8 THEN 8 ELSE r
OctEq(x, y, nb) == (x \div Pow2(8 - nb)) = (y \div Pow2(8 - nb))
\* x: an address record.  The network of a CIDR is an address of the table (an IPv4 one also when written ::ffff:..)
Contains(c, x) == LET n == Addrs[c.a] IN
                  /\ n.fam = x.fam
                  /\ \A i \in 1 .. Len(x.o) : OctEq(n.o[i], x.o[i], NBits(i, c.p))
Trusted(o, x) == ~o.nilc /\ \E i \in 1 .. Len(o.cidrs) : Contains(o.cidrs[i], x)
TokOK(t) == t.k = "ip"
TokTrusted(o, t) == TokOK(t) /\ Trusted(o, Addrs[t.a])
Loopback == Addrs[Ix(127, 0, 0, 1)]
Zero4 == Addrs[Ix(0, 0, 0, 0)]

Max(S) == CHOOSE m \in S : \A k \in S : k <= m
Min(S) == CHOOSE m \in S : \A k \in S : m <= k
Invalid == [valid |-> FALSE, txt |-> ""]

\* ---------------------------------------------------------------- Ref: THE PROPERTY
\* A2: one header value (entries toks, non-empty): right-most entry that is well-formed and not a trusted proxy,
\* else the left-most entry; valid iff it and everything right of it is well-formed
\* (written with explicit recursion: TLC re-evaluates LET definitions and operator arguments at every use)
RECURSIVE RightMostUntrusted(_, _, _)
RightMostUntrusted(o, toks, i) == IF i <= 1 THEN 1
                                  ELSE IF TokOK(toks[i]) /\ ~TokTrusted(o, toks[i]) THEN i
                                  ELSE RightMostUntrusted(o, toks, i - 1)
RefHeaderAt(toks, s) == IF \A j \in s .. Len(toks) : TokOK(toks[j]) THEN [valid |-> TRUE, txt |-> toks[s].txt] ELSE Invalid
RefHeader(o, toks) == RefHeaderAt(toks, RightMostUntrusted(o, toks, Len(toks)))

\* A6: all lines of a name, joined in order (names are symbolic here: case-insensitive matching is part of A5)
RECURSIVE ToksOf(_, _, _)
ToksOf(lines, n, i) == IF i > Len(lines) THEN << >>
                       ELSE (IF lines[i].n = n THEN lines[i].toks ELSE << >>) \o ToksOf(lines, n, i + 1)

\* A1/A4: fall-back result and trust of the peer
RemoteResult(r) == CASE r.k = "ip" -> r.host [] r.k = "host" -> r.host [] r.k = "unix" -> r.txt
                     [] r.k = "noconn" -> "0.0.0.0" [] OTHER -> ""
RemoteTrusted(o, r) == CASE r.k = "ip" -> Trusted(o, Addrs[r.a]) [] r.k = "unix" -> Trusted(o, Loopback)
                         [] r.k = "noconn" -> Trusted(o, Zero4) [] OTHER -> FALSE

\* (Lookup is RefLookup for the property and ImplLookup -- below -- for the transcription of the code)
RefLookupToks(o, t) == IF t = << >> THEN Invalid ELSE RefHeader(o, t)
RefLookup(o, lines, n) == RefLookupToks(o, ToksOf(lines, n, 1))
\* ---------------------------------------------------------------- Impl: context.go as written
\* validateHeader: strings.Split, then from the right: TrimSpace, ParseIP == nil -> break; i == 0 or not trusted -> return
ImplHeader(o, toks) ==
  LET scan[i \in 0 .. Len(toks)] ==
        IF i = 0 THEN Invalid
        ELSE IF ~TokOK(toks[i]) THEN Invalid
        ELSE IF i = 1 \/ ~TokTrusted(o, toks[i]) THEN [valid |-> TRUE, txt |-> toks[i].txt]
        ELSE scan[i - 1]
  IN scan[Len(toks)]
\* ctx.Request.Header.Get(name): the FIRST line of that name; "" (also: no such line) is invalid
RECURSIVE FirstLine(_, _, _)
FirstLine(lines, n, i) == IF i > Len(lines) THEN 0 ELSE IF lines[i].n = n THEN i ELSE FirstLine(lines, n, i + 1)
ImplLookupAt(o, lines, k) == IF k = 0 THEN Invalid ELSE IF lines[k].val = "" THEN Invalid ELSE ImplHeader(o, lines[k].toks)
ImplLookup(o, lines, n) == ImplLookupAt(o, lines, FirstLine(lines, n, 1))

\* A1/A2/A4, shared shape of the property and of ClientIPWithOption: first valid header in the configured order
Lookup(impl, o, lines, n) == IF impl THEN ImplLookup(o, lines, n) ELSE RefLookup(o, lines, n)
RECURSIVE FirstValid(_, _, _, _, _), FirstValidStep(_, _, _, _, _, _)
FirstValid(impl, o, lines, i, fallback) ==
  IF i > Len(o.names) THEN fallback
  ELSE FirstValidStep(impl, o, lines, i, fallback, Lookup(impl, o, lines, o.names[i].n))
FirstValidStep(impl, o, lines, i, fallback, h) == IF h.valid THEN h.txt ELSE FirstValid(impl, o, lines, i + 1, fallback)
Resolve(impl, o, r, lines) ==
  IF r.k = "noport" THEN ""
  ELSE IF ~RemoteTrusted(o, r) THEN RemoteResult(r)
  ELSE FirstValid(impl, o, lines, 1, RemoteResult(r))
Ref(c) == Resolve(FALSE, Opts(c), c.remote, c.lines)
Impl(c) == Resolve(TRUE, Opts(c), c.remote, c.lines)

\* what the code returns for a case with several lines of one name (known finding X03-xff-first-line-only)
MultiLine(c) == \E i, j \in 1 .. Len(c.lines) : i < j /\ c.lines[i].n = c.lines[j].n
FirstLineDiffers(c) == Impl(c) # Ref(c)

\* ---------------------------------------------------------------- theorems checked by TLC over the case space
\* T1 no spoofing through an untrusted peer;  T2 an appending trusted proxy chain: whatever stands left of the
\* right-most untrusted well-formed entry of the first consulted header is irrelevant
\* (\E x \in {e} : P(x) binds x to the VALUE of e: evaluated once)
NoSpoof(c) == (c.remote.k # "noport" /\ ~RemoteTrusted(Opts(c), c.remote)) => Ref(c) = RemoteResult(c.remote)
RightMost(c) ==
  \E o \in {Opts(c)} :
  (c.remote.k # "noport" /\ RemoteTrusted(o, c.remote) /\ Len(o.names) > 0) =>
    \E t \in {ToksOf(c.lines, o.names[1].n, 1)} :
    (t # << >> /\ TokOK(t[Len(t)]) /\ ~TokTrusted(o, t[Len(t)])) => Ref(c) = t[Len(t)].txt
\* T3 the result is the remote fall-back, "" or the text of a well-formed entry of a consulted header
ResultShape(c) ==
  \E o \in {Opts(c)} : \E x \in {Ref(c)} :
  \/ x = "" \/ x = RemoteResult(c.remote)
  \/ \E i \in 1 .. Len(o.names) : \E j \in 1 .. Len(c.lines) :
       /\ c.lines[j].n = o.names[i].n
       /\ \E m \in 1 .. Len(c.lines[j].toks) : TokOK(c.lines[j].toks[m]) /\ c.lines[j].toks[m].txt = x

\* ---------------------------------------------------------------- well-formedness of a case record (trace spec)
TokWF(t) == /\ t.k \in {"ip", "bad"}
            /\ t.k = "ip" => t.a \in 1 .. NA /\ FormOK(Addrs[t.a], t.form) /\ t.txt = Render(Addrs[t.a], t.form)
            /\ t.k = "bad" => t.a \in 1 .. Len(BadTexts) /\ t.txt = BadTexts[t.a]
            /\ t.ls \in {"", " ", "  ", "\t"} /\ t.rs \in {"", " ", "  ", "\t"}
NameWF(x) == x.n \in {"XFF", "XRI", "CIP"} /\ x.v \in 0 .. 2 /\ x.txt = NameText(x.n, x.v)
LineWF(ln) == /\ NameWF(ln) /\ Len(ln.toks) >= 1 /\ \A i \in 1 .. Len(ln.toks) : TokWF(ln.toks[i])
              /\ ln.val = Val(ln.toks)
CidrWF(cd) == /\ cd.a \in 1 .. NA /\ cd.form \in {"dot", "short", "map"} /\ FormOK(Addrs[cd.a], cd.form)
              /\ cd.p \in 0 .. (IF Addrs[cd.a].fam = 4 THEN 32 ELSE 128)
              /\ cd.txt = Cidr(cd.a, cd.p, cd.form).txt
\* host parts that are not an IP address for net.ParseIP; addresses net.SplitHostPort rejects
HostTexts == <<"localhost", "fe80::1%eth0", "999.1.1.1", "">>
NoPortTexts == <<"10.0.0.1", "[::1]", "", "10.0.0.1:80:90", "::1", "[10.0.0.1]">>
InSeq(x, sq) == \E i \in 1 .. Len(sq) : sq[i] = x
RemoteWF(r) == CASE r.k = "ip" -> /\ r.a \in 1 .. NA /\ FormOK(Addrs[r.a], r.form) /\ r.host = Render(Addrs[r.a], r.form)
                                  /\ r.txt \in {pad \o HostPort(r.host, r.form) \o pad : pad \in {"", " "}}
                                  /\ r.real => (r.form \in {"dot", "short"} /\ r.txt = HostPort(r.host, r.form))
                 [] r.k = "host" -> r.form \in {"name", "v6"} /\ InSeq(r.host, HostTexts) /\ r.txt = HostPort(r.host, r.form) /\ ~r.real
                 [] r.k = "unix" -> r.net \in {"unix", "unixgram", "unixpacket"} /\ r.txt = r.host /\ ~r.real
                                    /\ r.txt \in {"/tmp/hertz.sock", "@hertz", ""}
                 [] r.k = "noport" -> InSeq(r.txt, NoPortTexts) /\ ~r.real
                 [] r.k = "noconn" -> ~r.real
                 [] OTHER -> FALSE
CaseWF(c) == /\ c.via \in {"opt", "default"}
             /\ RemoteWF(c.remote)
             /\ \A i \in 1 .. Len(c.cidrs) : CidrWF(c.cidrs[i])
             /\ \A i \in 1 .. Len(c.names) : NameWF(c.names[i])
             /\ \A i \in 1 .. Len(c.lines) : LineWF(c.lines[i])
=============================================================================
