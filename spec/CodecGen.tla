------------------------------ MODULE CodecGen ------------------------------
(* Case generator for C17.  The space is too big for a case file (millions of inputs), so TLC writes the PLAN:  *)
(* the token / variant tables of Codec and the blocks (Codec!Blocks) that partition every family of the tier.   *)
(* The driver walks each block in the order of Codec!Succ; CodecTrace re-derives every input of every block     *)
(* (first element, successor, count), so the plan plus the validated traces cover exactly the declared space.   *)
EXTENDS Codec, Json, IOUtils, SequencesExt

CONSTANTS Families,      \* exhaustive families [mode, nc, cross, maxlen]
          Target,        \* block size
          RandFamilies   \* random families [mode, nc, count, maxlen, blocks]: `blocks` blocks of `count` inputs

F(mode, tab, nc, cross, maxlen) == [mode |-> mode, tab |-> tab, nc |-> nc, cross |-> cross, maxlen |-> maxlen]
RF(mode, tab, nc, blocks, count, maxlen) == [mode |-> mode, tab |-> tab, nc |-> nc, blocks |-> blocks, count |-> count, maxlen |-> maxlen]

QuickFamilies ==
    {F("query", "gen", 0, FALSE, 4),
     F("args", "gen", 1, FALSE, 4), F("args", "gen", 3, FALSE, 3), F("args", "gen", 5, FALSE, 2),
     F("uri", "gen", 3, TRUE, 2), F("uri", "gen", 3, FALSE, 3),
     F("cookie", "cookie", 1, TRUE, 1), F("cookie", "cookie", 1, FALSE, 3),
     F("query", "pct", 0, FALSE, 4), F("args", "pct", 1, FALSE, 3), F("uri", "pct", 3, FALSE, 3)}
QuickRand ==
    {RF("query", "gen", 0, 8, 500, 12), RF("args", "gen", 1, 8, 500, 16), RF("args", "gen", 5, 8, 500, 24),
     RF("uri", "gen", 3, 8, 500, 16), RF("cookie", "cookie", 1, 4, 500, 10),
     RF("query", "byte", 0, 8, 500, 12), RF("args", "byte", 1, 8, 500, 16), RF("args", "byte", 5, 8, 500, 24),
     RF("uri", "byte", 3, 8, 500, 16),
     RF("query", "pct", 0, 4, 500, 12), RF("args", "pct", 3, 4, 500, 16), RF("uri", "pct", 3, 8, 500, 16)}
ThoroughFamilies ==
    {F("query", "gen", 0, FALSE, 6),
     F("args", "gen", 1, FALSE, 5), F("args", "gen", 3, FALSE, 4), F("args", "gen", 5, FALSE, 3),
     F("uri", "gen", 3, TRUE, 2), F("uri", "gen", 3, FALSE, 4),
     F("cookie", "cookie", 1, TRUE, 2), F("cookie", "cookie", 1, FALSE, 5),
     F("query", "pct", 0, FALSE, 5), F("args", "pct", 1, FALSE, 4), F("uri", "pct", 3, FALSE, 4)}
ThoroughRand ==
    {RF("query", "gen", 0, 64, 500, 16), RF("args", "gen", 1, 64, 500, 24), RF("args", "gen", 5, 64, 500, 32),
     RF("uri", "gen", 3, 64, 500, 24), RF("cookie", "cookie", 1, 16, 500, 12),
     RF("query", "byte", 0, 64, 500, 16), RF("args", "byte", 1, 64, 500, 24), RF("args", "byte", 5, 64, 500, 32),
     RF("uri", "byte", 3, 64, 500, 24),
     RF("query", "pct", 0, 32, 500, 16), RF("args", "pct", 3, 32, 500, 24), RF("uri", "pct", 3, 64, 500, 24)}

Exhaustive == SetToSeq(UNION {Blocks(f, Target) : f \in Families})
Random == SetToSeq(UNION {{[mode |-> f.mode, tab |-> f.tab, nc |-> f.nc, n |-> 0, p |-> << >>, cross |-> FALSE, rand |-> TRUE,
                            count |-> f.count, maxlen |-> f.maxlen, k |-> k] : k \in 1 .. f.blocks} : f \in RandFamilies})

TablesRec == [kind |-> "tables",
              tables |-> [tabs |-> [gen |-> Tok, cookie |-> CTok, byte |-> ByteTok, pct |-> PTok], hosts |-> Hosts, parsehost |-> ParseHost, schemes |-> Schemes, expiries |-> Expiries,
                          maxages |-> MaxAges, domains |-> Domains, cpaths |-> CPaths]]
Rec(b, id) == [kind |-> "block", id |-> id, mode |-> b.mode, tab |-> b.tab, nc |-> b.nc, n |-> b.n, p |-> b.p, cross |-> b.cross,
               rand |-> b.rand, count |-> b.count, maxlen |-> b.maxlen]

ASSUME ndJsonSerialize(IOEnv.VERIF_OUT,
          <<TablesRec>> \o [i \in 1 .. Len(Exhaustive) |-> Rec(Exhaustive[i], i)]
                        \o [i \in 1 .. Len(Random) |-> Rec(Random[i], Len(Exhaustive) + i)])

GenInit == blk = 0 /\ cur = 0 /\ left = 0 /\ seen = 0 /\ obs = 0
GenNext == UNCHANGED vars
=============================================================================
