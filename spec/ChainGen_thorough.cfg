CONSTANTS MaxLen = 7
INIT GenInit
NEXT GenNext
