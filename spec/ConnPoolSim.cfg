\* random behaviours for schedule replay: 3 callers x 2 requests, MaxConns 1..2, waiting on (and off)
CONSTANTS
  Callers = {1, 2, 3}
  NC = 3
  NW = 4
  MaxReqs = 2
  MaxConnsSet = {1, 2}
  WaitSet = {TRUE, TRUE, FALSE}
  Faults = {"ok", "okclose", "idleclose", "eof0", "eofhdr", "eofbody", "stall", "dialerr", "ctxpost"}
  IdemSet = {TRUE, FALSE}
  MaxFaults = 4
  Strict = TRUE
  AsWritten = FALSE
  SysOn = {}
INIT SimInit
NEXT SimNext
INVARIANTS Emit IdsSuffice
