CONSTANTS
  MaxToks = 3
  Big = TRUE
  NRand = 60000
  Seed = 1
INIT GenInit
NEXT GenNext
