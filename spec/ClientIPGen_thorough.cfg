CONSTANTS
  MaxToks = 3
  Big = TRUE
  NRand = 60000
INIT GenInit
NEXT GenNext
