----------------------------- MODULE RouterGen -----------------------------
(***************************************************************************)
(* Case generator for C06.  One case = one route SET with the registration *)
(* orders to try and the lookups to perform after each registration order: *)
(*   [id, fam, raw, routes: <<[m, pat, names]>>, orders: <<perm>>,         *)
(*    modes: <<"plain"|"use3"|"group">> (engine set-up per order),         *)
(*    lookups: <<[m, path]>>]                                              *)
(* The driver builds one real engine per order.  Nothing in a case says    *)
(* what the outcome should be.                                             *)
(*                                                                         *)
(* Families (fam):                                                         *)
(*   "single"  every pattern of the universe alone                         *)
(*   "twin"    every pattern with parameters next to itself with other     *)
(*             parameter names (once differing in the first byte: x / qx,  *)
(*             once sharing it: x / x2): registration must refuse the      *)
(*             second one                                                  *)
(*   "pair"    every 2-subset of the universe, both orders                 *)
(*   "triple"  3-subsets of the universe, all 6 orders: every one when     *)
(*             TripleCount = 0, else TripleCount of them picked by seed    *)
(*   "mixed"   GET p + POST q for all p, q of the depth-1 universe          *)
(*   "invalid" a syntactically invalid pattern between two valid ones      *)
(*   "rand"    RandCount seeded sets of 4..RandMaxK patterns from the      *)
(*             deeper universe RU (depth <= RandDepth), all orders up to   *)
(*             RandAllK routes, else 6 seeded orders (identity, reverse, 4 *)
(*             shuffles)                                                   *)
(*   "raw"     (UseRawPath = true) pairs/triples from the depth-1/2        *)
(*             universe looked up with percent-escaped values              *)
(*   "opt"     OptCount seeded pairs/triples under each of the four        *)
(*             combinations UseRawPath x UnescapePathValues, looked up     *)
(*             with "+", "%2B", "%41", "%2541" in parameter positions      *)
(* In the set families every second route has its parameter names         *)
(* prefixed ("/:x/a" next to "/:qx/b": the names differ in their first     *)
(* byte), so routes sharing a parameter node disagree about its name.      *)
(* Lookup paths of a set: every pattern instantiated with every            *)
(* combination of parameter values PV (catch-all: AV), plus the one-edit   *)
(* neighbours (extra slash, missing slash, extra segment) of each; only    *)
(* paths the engine passes to the tree unchanged (InScopePath); all with   *)
(* GET, one instantiation per pattern also with POST.                      *)
(***************************************************************************)
EXTENDS Router, Json, IOUtils, SequencesExt, FiniteSetsExt

CONSTANTS Segs,         \* segment alphabet of the exhaustive universe, e.g. {"a", "ab", ":x", "a:y"}
          MaxDepth,     \* its depth
          PV, AV,       \* values substituted for PARAM / ANY
          TripleCount,  \* 0 = all triples
          RandSegs, RandDepth, RandCount, RandMaxK,
          RandAllK,     \* seeded sets up to this size get all their registration orders, larger ones 6 seeded orders
          RawCount,
          OptCount      \* route sets tried under each of the 4 combinations UseRawPath x UnescapePathValues

Seed == atoi(IOEnv.VERIF_SEED)

RECURSIVE Bodies(_, _)
Bodies(S, d) == IF d = 0 THEN {""} ELSE {b \o "/" \o s : b \in Bodies(S, d - 1), s \in S}
Tails == {"", "/", "/*w"}
Univ(S, depth) == {"/", "/*w"} \cup UNION {{b \o t : b \in Bodies(S, d), t \in Tails} : d \in 1 .. depth}

U  == Univ(Segs, MaxDepth)
U1 == Univ(Segs, 1)
RU == Univ(RandSegs, RandDepth)

-----------------------------------------------------------------------------
(* lookup paths *)
RECURSIVE Inst(_, _, _, _)
Inst(toks, d, pv, av) ==
  IF d > Len(toks) THEN {""}
  ELSE IF toks[d] = "ANY" THEN av
  ELSE LET rest == Inst(toks, d + 1, pv, av) IN
       IF toks[d] = "PARAM" THEN {v \o r : v \in pv, r \in rest} ELSE {toks[d] \o r : r \in rest}

Near(s) == {s, s \o "/", s \o "/a"} \cup (IF Len(s) > 1 /\ EndsWith(s, "/") THEN {SubSeq(s, 1, Len(s) - 1)} ELSE {})

PathsOf(pats, pv, av) == UNION {UNION {Near(s) : s \in Inst(Parse(p).toks, 1, pv, av)} : p \in pats}

LookupsOfOpt(pats, pv, av, pv1, av1, raw, unesc) ==
  LET g == {s \in PathsOf(pats, pv, av) : InScopeSent(raw, unesc, s)}
      p == {s \in UNION {Inst(Parse(q).toks, 1, pv1, av1) : q \in pats} : InScopeSent(raw, unesc, s)}
  IN SetToSeq({[m |-> "GET", path |-> s] : s \in g}) \o SetToSeq({[m |-> "POST", path |-> s] : s \in p})

-----------------------------------------------------------------------------
(* pseudo-random choices, all derived from Seed *)
Lcg(x) == (x * 75 + 74) % 65537
RECURSIVE LcgSeq(_, _)
LcgSeq(x, n) == IF n = 0 THEN << >> ELSE <<Lcg(x)>> \o LcgSeq(Lcg(x), n - 1)

Strides == <<7919, 104729, 15487, 32771, 611953, 2237, 49157>>
\* n distinct-ish indices into 1..N
Sample(N, n, salt) == LET st == Strides[((Seed + salt) % Len(Strides)) + 1]
                          off == (Seed * 1013 + salt * 31) % N
                      IN {((off + i * (st % N)) % N) + 1 : i \in 0 .. n - 1}

Shuffle(seq, x) == LET key == LcgSeq(x, Len(seq))
                       idx == SortSeq([i \in 1 .. Len(seq) |-> i], LAMBDA a, b : key[a] < key[b] \/ (key[a] = key[b] /\ a < b))
                   IN [i \in 1 .. Len(seq) |-> seq[idx[i]]]

Ident(k) == [i \in 1 .. k |-> i]
AllOrders(k) == SetToSeq(SetToSeqs(1 .. k))
SomeOrders(k, x) == <<Ident(k), [i \in 1 .. k |-> k + 1 - i]>> \o [j \in 1 .. 4 |-> Shuffle(Ident(k), Lcg(x + 17 * j))]

-----------------------------------------------------------------------------
(* cases *)
RouteRec(m, p) == [m |-> m, pat |-> p, names |-> IF Valid(p) THEN Parse(p).names ELSE << >>]

LookupsOf(pats, pv, av, pv1, av1, raw) == LookupsOfOpt(pats, pv, av, pv1, av1, raw, TRUE)

\* how the engine of each order is set up before the routes are registered (the obligation is the same in every mode:
\* the handler that runs is the one registered for the matched route):
\*   "plain"  no middleware
\*   "use3"   three separate engine.Use(noop) calls (the engine's chain grows 1 -> 2 -> 4: spare capacity)
\*   "group"  two engine.Use(noop), routes registered on engine.Group("", noop)
ModeSeq == <<"plain", "use3", "group">>
MkCase(fam, raw, routes, orders, lookups) ==
  [fam |-> fam, raw |-> raw, unesc |-> TRUE, esc |-> FALSE, routes |-> routes, orders |-> orders,
   modes |-> [o \in 1 .. Len(orders) |-> ModeSeq[((o + Len(lookups)) % 3) + 1]], lookups |-> lookups]

\* the pattern with every parameter name prefixed with pre and suffixed with sfx.  Prefix "q": the new name differs from
\* the old one in its FIRST byte (no name of the universes begins with q) -- a tree that keeps a piece of the name in a
\* node prefix then sees two different edges where it must see one; suffix "2": the names share their first bytes.
RECURSIVE Unparse(_, _, _, _, _, _)
Unparse(toks, names, d, k, pre, sfx) ==
  IF d > Len(toks) THEN ""
  ELSE IF toks[d] = "PARAM" THEN ":" \o pre \o names[k] \o sfx \o Unparse(toks, names, d + 1, k + 1, pre, sfx)
  ELSE IF toks[d] = "ANY" THEN "*" \o pre \o names[k] \o sfx
  ELSE toks[d] \o Unparse(toks, names, d + 1, k, pre, sfx)
Rename(p, pre, sfx) == LET q == Parse(p) IN Unparse(q.toks, q.names, 1, 1, pre, sfx)

\* every second route of a set gets other parameter names than its neighbours ("/:x/a" next to "/:qx/b"): routes that
\* share a parameter node then disagree about its name, as they may (names live in the route, not in the node)
GetSetCase(fam, S, orders) ==
  LET ps == SetToSeq(S) IN
  MkCase(fam, FALSE, [i \in 1 .. Len(ps) |-> RouteRec("GET", IF i % 2 = 0 THEN Rename(ps[i], "q", "") ELSE ps[i])], orders,
         LookupsOf(S, PV, AV, {"a"}, {"a"}, FALSE))

Singles == {GetSetCase("single", {p}, AllOrders(1)) : p \in U}
\* same shape, other names: the second registration must be refused whatever the order
Twins == {MkCase("twin", FALSE, <<RouteRec("GET", p), RouteRec("GET", Rename(p, t[1], t[2]))>>, AllOrders(2),
                 LookupsOf({p}, {"a"}, {"a"}, {"a"}, {"a"}, FALSE))
          : p \in {p \in U : Len(Parse(p).names) > 0}, t \in {<<"q", "">>, <<"", "2">>}}
Pairs   == {GetSetCase("pair", S, AllOrders(2)) : S \in kSubset(2, U)}

AllTriples == SetToSeq(kSubset(3, U))
TripleIdx == IF TripleCount = 0 THEN 1 .. Len(AllTriples) ELSE Sample(Len(AllTriples), TripleCount, 1)
Triples == {GetSetCase("triple", AllTriples[i], AllOrders(3)) : i \in TripleIdx}

U1Seq == SetToSeq(U1)
Mixed == {MkCase("mixed", FALSE, <<RouteRec("GET", p), RouteRec("POST", q)>>, AllOrders(2),
                 LET s == {t \in PathsOf({p, q}, PV, AV) : InScopePath(t)} IN
                 SetToSeq({[m |-> m, path |-> t] : m \in {"GET", "POST"}, t \in s}))
          : p \in U1, q \in U1}

InvalidPats == {"/a*w", "/a/*w/b", "/a/:", "/:", "/a/*", "/*", "/a/:x:y", "/:x*w", "/a/:x*w", "/*w/", "/a/*w/"}
Invalid == {MkCase("invalid", FALSE, <<RouteRec("GET", "/a/:x"), RouteRec("GET", p), RouteRec("GET", "/a/b")>>,
                   AllOrders(3), LookupsOf({"/a/:x", "/a/b"}, PV, AV, {"a"}, {"a"}, FALSE))
            : p \in InvalidPats}

RUSeq == SetToSeq(RU)
RandSet(j) == LET k  == 4 + (Lcg(Seed * 131 + j) % (RandMaxK - 3))
                  xs == LcgSeq(Seed * 7 + j * 13 + 1, k)
              IN {RUSeq[(xs[i] % Len(RUSeq)) + 1] : i \in 1 .. k}
Rand == {LET S == RandSet(j) k == Cardinality(S) IN
         GetSetCase("rand", S, IF k <= RandAllK THEN AllOrders(k) ELSE SomeOrders(k, Seed + j))
         : j \in 1 .. RandCount}

(* UseRawPath: values with percent escapes; the tree sees the escaped text, handlers must see the unescaped value *)
RawPV == {"%41", "a%41", "c", ""}
RawAV == {"", "%41", "c/%41"}
RawSets == SetToSeq(kSubset(2, U) \cup kSubset(3, U1))
RawCase(S, esc) ==
  LET ps == SetToSeq(S)
      R  == {MkRoute(0, "GET", q, 0) : q \in {q \in S : Valid(q)}}
      L  == LookupsOf(S, RawPV, RawAV, {"%41"}, {"%41"}, TRUE)
      E(x) == x.m = "GET" /\ EscBack(R, 0, x.path, 1)
  IN [MkCase("raw", TRUE, [k \in 1 .. Len(ps) |-> RouteRec("GET", ps[k])], AllOrders(Len(ps)),
             SelectSeq(L, LAMBDA x : E(x) = esc)) EXCEPT !.esc = esc]
\* lookups whose search backs out of a parameter that consumed an escape go into a case of their own (esc = TRUE)
RawIdx == IF RawCount = 0 THEN {} ELSE Sample(Len(RawSets), RawCount, 2)
RawMinimal == RawCase({"/:x/b", "/*y"}, TRUE)          \* minimal case of known finding C06-rawpath-backtrack
Raw == {c \in {RawCase(RawSets[i], e) : i \in RawIdx, e \in BOOLEAN} \cup {RawMinimal} : Len(c.lookups) > 0}

(* The option square UseRawPath x UnescapePathValues, looked up with "+", "%2B", "%41" and the doubly escaped "%2541" *)
(* in parameter and catch-all positions (what the handler must see: Router!Routed / ParamList)                        *)
OptPV == {"a+b", "%2B", "%2541", "%41", "c"}
OptAV == {"", "%2541/a+b"}
OptCase(S, raw, unesc) ==
  LET ps == SetToSeq(S) IN
  [MkCase("opt", raw, [k \in 1 .. Len(ps) |-> RouteRec("GET", ps[k])], AllOrders(Len(ps)),
          LookupsOfOpt(S, OptPV, OptAV, {"%2541"}, {"a+b"}, raw, unesc)) EXCEPT !.unesc = unesc]
OptIdx == IF OptCount = 0 THEN {} ELSE Sample(Len(RawSets), OptCount, 3)
Opt == {c \in {OptCase(S, r, u) : S \in {RawSets[i] : i \in OptIdx} \cup {{"/a/:x", "/a/b/*w"}}, r \in BOOLEAN, u \in BOOLEAN}
          : Len(c.lookups) > 0}

Cases == SetToSeq(Singles \cup Twins \cup Pairs \cup Mixed \cup Invalid) \o SetToSeq(Triples) \o SetToSeq(Rand) \o SetToSeq(Raw) \o SetToSeq(Opt)

ASSUME ndJsonSerialize(IOEnv.VERIF_OUT, [i \in 1 .. Len(Cases) |-> [id |-> i] @@ Cases[i]])

GenInit == Init
GenNext == UNCHANGED vars
=============================================================================
