------------------------- MODULE CtxLifecycleTrace -------------------------
(***************************************************************************)
(* Trace validation for C09.  Every line recorded by harness/drivers/c09   *)
(* from the real hertz code must be a step of CtxLifecycle:                *)
(*                                                                         *)
(*  Case{kind, muts, ...}     new history; every mutator it names must be  *)
(*                            in the Touch table and apply to the kind     *)
(*  Acquire{conn, obj}        pool Get / AcquireX returned object obj      *)
(*                            (a new identity = a newly allocated object)  *)
(*  Mutate{conn, m}           the handler / caller applied mutator m       *)
(*  Ending{conn, kind}        the handler returned / aborted / panicked    *)
(*                            (recovery middleware); response written      *)
(*  EndRequest{conn}          the server loop went on to the next request  *)
(*                            of the connection (ResetWithoutConn)         *)
(*  Probe{conn, obj, dirty}   the probe handler (or the caller) compared   *)
(*                            every component with a brand-new object;     *)
(*  Dirty{conn, obj, comp}    one line per component that differed.        *)
(*                            THE PROPERTY: a Dirty line is accepted only  *)
(*                            when the specification says the component    *)
(*                            may be stale: it is Kept and a mutator (or   *)
(*                            the server) touched it during an earlier use *)
(*                            that no reset has cleared since, or it is a  *)
(*                            view of such a component (DependsOn).        *)
(*  EndConn{conn}             Serve returned: Reset + Put (unless exiled); *)
(*                            a keep-alive connection with a pipelined     *)
(*                            probe may end early only if a mutator could  *)
(*                            have ended it (KeepAliveHonoured)            *)
(*  Release{conn, obj}        ReleaseX / Args.Reset of a stand-alone object*)
(*  Touched{m, comps}         measured effect of m: comps within Touch(m)  *)
(*  Known{m, kinds}           the driver's table entry equals the spec's   *)
(*  Uncovered{type, method}   exported API outside the alphabet: must be   *)
(*                            in Excluded (with its reason)                *)
(*  Panic                     no action: rejected                          *)
(*  Hang{where}               no action: rejected.  A call on the object   *)
(*                            blocked for ever (the driver's watchdog gave *)
(*                            the history up), e.g. on a lock that an      *)
(*                            earlier use left held: a fresh object never  *)
(*                            blocks its user.                             *)
(*                                                                         *)
(* The specification's Acquire allows any pooled or new object, so a pool  *)
(* miss can never reject a trace.  In "conc" histories the EndConn line of *)
(* a connection is written after Serve returned, i.e. after the Put: when  *)
(* another connection acquires the object in between, the release is taken *)
(* silently at the Acquire line (only if the first holder's handler had    *)
(* ended -- an object handed out while its holder is still inside a        *)
(* handler is rejected).                                                   *)
(*                                                                         *)
(* A rejected Dirty line is local: it is reported (@@DIRTY) and validation *)
(* goes on with the next line, so that every surviving component is        *)
(* reported on its own (known findings are matched per component).  Any    *)
(* other rejected line is recorded in bad and skips to the next Case.      *)
(***************************************************************************)
EXTENDS CtxLifecycle, Json, IOUtils

Trace == ndJsonDeserialize(IOEnv.VERIF_TRACE)

VARIABLES l,        \* next line to consume
          bad,      \* rejected lines
          ck,       \* kind of the current case ("" between cases)
          ok,       \* object kind of the current case
          tobj,     \* object identity -> [st, stale, cur]
          tslot,    \* connection slot -> [st, o]      st: "idle" | "handler" | "done" | "early"
          pend,     \* components of the last Probe whose Dirty lines are still to come
          pallow,   \* components that may legitimately differ at that probe
          pkey,     \* <<conn, obj>> of that probe
          cnt,      \* Known lines seen in a cover case
          cm,       \* [mode, muts] of the current case
          probed,   \* connection slots on which a probe was served in the current case
          nd        \* rejected Dirty lines so far (their line numbers are printed, see MismatchDirty)
tvars == <<l, bad, ck, ok, tobj, tslot, pend, pallow, pkey, cnt, cm, probed, nd>>

Line == Trace[l]
Empty == [x \in {} |-> 0]
Range(s) == {s[i] : i \in DOMAIN s}

NoCase == [mode |-> "", muts |-> << >>]
Idle == /\ ck' = "" /\ ok' = "" /\ tobj' = Empty /\ tslot' = Empty /\ pend' = << >> /\ pallow' = {} /\ pkey' = <<0, 0>> /\ cnt' = 0
        /\ cm' = NoCase /\ probed' = {}

TraceInit == /\ kind = "Ctx" /\ obj = [o \in Objs |-> FreshObj] /\ slot = [s \in Slots |-> IdleSlot] /\ nmut = 0 /\ seen = {}
             /\ l = 1 /\ bad = << >> /\ nd = 0
             /\ ck = "" /\ ok = "" /\ tobj = Empty /\ tslot = Empty /\ pend = << >> /\ pallow = {} /\ pkey = <<0, 0>> /\ cnt = 0
             /\ cm = NoCase /\ probed = {}

CaseKinds == Kinds \cup {"conc", "touch", "cover"}
ObjKindOf(c) == IF c.kind \in {"Ctx", "conc"} THEN "Ctx" ELSE IF c.kind = "touch" THEN c.obj ELSE IF c.kind = "cover" THEN "Ctx" ELSE c.kind

Is(e) == l <= Len(Trace) /\ Line.ev = e
Step == l' = l + 1 /\ UNCHANGED <<bad, nd, vars>>
NoPend == pend = << >>

SlotSt(c) == IF c \in DOMAIN tslot THEN tslot[c].st ELSE "idle"
SetSlot(c, r) == tslot' = (c :> r) @@ tslot
SetO(o, r) == tobj' = (o :> r) @@ tobj
Holder(c) == tslot[c].o
(* what a look may legitimately find different: kept components that are stale, and their views *)
Allowed(ob) == LET k == ob.stale \cap Kept IN k \cup UNION {DependsOn(c) : c \in k}

TraceCase ==
  /\ Is("Case") /\ ck = "" /\ NoPend
  /\ Line.kind \in CaseKinds
  /\ ObjKindOf(Line) \in Kinds
  /\ \A i \in DOMAIN Line.muts : Line.muts[i] \in Mutators /\ ObjKindOf(Line) \in MutTable[Line.muts[i]].kinds
  /\ ck' = Line.kind /\ ok' = ObjKindOf(Line)
  /\ tobj' = Empty /\ tslot' = Empty /\ pend' = << >> /\ pallow' = {} /\ pkey' = <<0, 0>> /\ cnt' = 0
  /\ cm' = [mode |-> IF Line.kind = "Ctx" THEN Line.mode ELSE "", muts |-> Line.muts] /\ probed' = {}
  /\ Step

(* the object is new, or pooled, or (conc) still recorded as held by a connection whose handler has ended *)
TraceAcquire ==
  /\ Is("Acquire") /\ ck \in Kinds \cup {"conc"} /\ NoPend
  /\ SlotSt(Line.conn) \in {"idle", "early"}
  /\ LET c == Line.conn  o == Line.obj IN
     \/ /\ o \notin DOMAIN tobj
        /\ SetO(o, AcqObj(ok, FreshObj)) /\ SetSlot(c, [st |-> "handler", o |-> o])
     \/ /\ o \in DOMAIN tobj /\ tobj[o].st = "pooled"
        /\ SetO(o, AcqObj(ok, tobj[o])) /\ SetSlot(c, [st |-> "handler", o |-> o])
     \/ /\ o \in DOMAIN tobj /\ tobj[o].st = "held" /\ ck = "conc"
        /\ \E c2 \in DOMAIN tslot : c2 # c /\ tslot[c2].o = o /\ tslot[c2].st = "done"
        /\ LET c2 == CHOOSE x \in DOMAIN tslot : x # c /\ tslot[x].o = o /\ tslot[x].st = "done"
               rel == RelObj(ok, tobj[o]) IN
           /\ rel.st = "pooled"
           /\ SetO(o, AcqObj(ok, rel))
           /\ tslot' = (c :> [st |-> "handler", o |-> o]) @@ (c2 :> [st |-> "early", o |-> 0]) @@ tslot
  /\ UNCHANGED <<ck, ok, pend, pallow, pkey, cnt, cm, probed>> /\ Step

TraceMutate ==
  /\ Is("Mutate") /\ NoPend /\ SlotSt(Line.conn) = "handler"
  /\ Line.m \in Mutators /\ ok \in MutTable[Line.m].kinds
  /\ LET o == Holder(Line.conn) IN SetO(o, MutObj(ok, tobj[o], Touch(Line.m)))
  /\ UNCHANGED <<ck, ok, tslot, pend, pallow, pkey, cnt, cm, probed>> /\ Step

TraceEnding ==
  /\ Is("Ending") /\ NoPend /\ SlotSt(Line.conn) = "handler"
  /\ Line.kind \in {"return", "abort", "panic"}
  /\ LET o == Holder(Line.conn)
         extra == IF ok # "Ctx" THEN {} ELSE IF Line.kind = "abort" THEN AbortTouch ELSE IF Line.kind = "panic" THEN PanicTouch ELSE {}
     IN  SetO(o, FinObj(ok, tobj[o], extra))
  /\ SetSlot(Line.conn, [tslot[Line.conn] EXCEPT !.st = "done"])
  /\ UNCHANGED <<ck, ok, pend, pallow, pkey, cnt, cm, probed>> /\ Step

TraceEndRequest ==
  /\ Is("EndRequest") /\ NoPend /\ ok = "Ctx" /\ SlotSt(Line.conn) = "done"
  /\ LET o == Holder(Line.conn) IN SetO(o, NextReqObj(tobj[o]))
  /\ SetSlot(Line.conn, [tslot[Line.conn] EXCEPT !.st = "handler"])
  /\ UNCHANGED <<ck, ok, pend, pallow, pkey, cnt, cm, probed>> /\ Step

(* the look itself; the verdict is taken per component on the Dirty lines that follow *)
TraceProbe ==
  /\ Is("Probe") /\ NoPend /\ SlotSt(Line.conn) = "handler" /\ Holder(Line.conn) = Line.obj
  /\ LET o == Line.obj IN
     /\ pallow' = Allowed(tobj[o])
     /\ SetO(o, FinObj(ok, ProbeObj(ok, tobj[o]), {}))
  /\ pend' = Line.dirty /\ pkey' = <<Line.conn, Line.obj>>
  /\ SetSlot(Line.conn, [tslot[Line.conn] EXCEPT !.st = "done"])
  /\ probed' = probed \cup {Line.conn}
  /\ UNCHANGED <<ck, ok, cnt, cm>> /\ Step

DirtyLine == Is("Dirty") /\ pend # << >> /\ Line.comp = pend[1] /\ <<Line.conn, Line.obj>> = pkey
TraceDirty ==
  /\ DirtyLine /\ Line.comp \in pallow
  /\ pend' = Tail(pend)
  /\ UNCHANGED <<ck, ok, tobj, tslot, pallow, pkey, cnt, cm, probed>> /\ Step

(* In a "same" history the probe is pipelined behind the mutating request on connection 1.  The server may end that
   connection before serving it only if a mutator touched something that can end a connection (response header or
   body, hijacking, the request body stream); otherwise the request after the recycling was not served as a fresh
   context would have served it. *)
MayEndConn(m) == Touch(m) \cap (Fam("resp.h") \cup Fam("resp.body") \cup Fam("req.body") \cup {"ctx.hijackHandler", "resp.hijackWriter"}) # {}
KeepAliveHonoured(c) == (ck = "Ctx" /\ cm.mode = "same" /\ c = 1 /\ 1 \notin probed) => \E i \in DOMAIN cm.muts : MayEndConn(cm.muts[i])

TraceEndConn ==
  /\ Is("EndConn") /\ NoPend /\ ok = "Ctx"
  /\ \/ /\ SlotSt(Line.conn) = "done"
        /\ KeepAliveHonoured(Line.conn)
        /\ LET o == Holder(Line.conn) IN SetO(o, RelObj(ok, tobj[o]))
        /\ SetSlot(Line.conn, [st |-> "idle", o |-> 0])
     \/ /\ SlotSt(Line.conn) = "early"                 \* already released at another connection's Acquire line
        /\ SetSlot(Line.conn, [st |-> "idle", o |-> 0]) /\ UNCHANGED tobj
     \/ /\ SlotSt(Line.conn) = "idle"                  \* Serve returned without having run a handler
        /\ UNCHANGED <<tobj, tslot>>
  /\ UNCHANGED <<ck, ok, pend, pallow, pkey, cnt, cm, probed>> /\ Step

TraceRelease ==
  /\ Is("Release") /\ NoPend /\ ok # "Ctx" /\ SlotSt(Line.conn) = "done" /\ Holder(Line.conn) = Line.obj
  /\ SetO(Line.obj, RelObj(ok, tobj[Line.obj]))
  /\ SetSlot(Line.conn, [st |-> "idle", o |-> 0])
  /\ UNCHANGED <<ck, ok, pend, pallow, pkey, cnt, cm, probed>> /\ Step

TraceTouched ==
  /\ Is("Touched") /\ ck = "touch" /\ Line.m \in Mutators
  /\ Range(Line.comps) \subseteq Touch(Line.m)
  /\ UNCHANGED <<ck, ok, tobj, tslot, pend, pallow, pkey, cnt, cm, probed>> /\ Step

TraceKnown ==
  /\ Is("Known") /\ ck = "cover" /\ Line.m \in Mutators /\ Range(Line.kinds) = MutTable[Line.m].kinds
  /\ cnt' = cnt + 1
  /\ UNCHANGED <<ck, ok, tobj, tslot, pend, pallow, pkey, cm, probed>> /\ Step

TraceUncovered ==
  /\ Is("Uncovered") /\ ck = "cover" /\ <<Line.type, Line.method>> \in Excluded
  /\ UNCHANGED <<ck, ok, tobj, tslot, pend, pallow, pkey, cnt, cm, probed>> /\ Step

TraceEnd ==
  /\ Is("End") /\ ck # "" /\ NoPend
  /\ ck = "cover" => cnt = Cardinality(Mutators)
  /\ ck \in Kinds \cup {"conc"} => probed # {}          \* every history ends with a look at a (possibly recycled) object
  /\ \A c \in DOMAIN tslot : tslot[c].st # "handler"
  /\ Idle /\ Step

Normal == TraceCase \/ TraceAcquire \/ TraceMutate \/ TraceEnding \/ TraceEndRequest \/ TraceProbe \/ TraceDirty
          \/ TraceEndConn \/ TraceRelease \/ TraceTouched \/ TraceKnown \/ TraceUncovered \/ TraceEnd

NextCase(k) == IF \E j \in k + 1 .. Len(Trace) : Trace[j].ev = "Case"
               THEN CHOOSE j \in k + 1 .. Len(Trace) : Trace[j].ev = "Case" /\ \A i \in k + 1 .. j - 1 : Trace[i].ev # "Case"
               ELSE Len(Trace) + 1

(* a component survived recycling that the specification does not allow to survive: reported, validation goes on.
   These rejections are printed at once (<<"@@DIRTY", line>>) instead of being accumulated in bad: while a known
   finding makes every probe carry one, a state variable holding tens of thousands of line numbers would dominate
   the cost of every step.  nd counts them. *)
MismatchDirty ==
  /\ DirtyLine /\ Line.comp \notin pallow
  /\ l' = l + 1 /\ nd' = nd + 1
  /\ pend' = Tail(pend)
  /\ UNCHANGED <<vars, bad, ck, ok, tobj, tslot, pallow, pkey, cnt, cm, probed>>
  /\ PrintT(<<"@@DIRTY", l>>)

Mismatch ==
  /\ l <= Len(Trace) /\ ~ENABLED Normal /\ ~DirtyLine
  /\ bad' = Append(bad, l)
  /\ l' = NextCase(l)
  /\ Idle /\ UNCHANGED <<vars, nd>>

(* the recording stops in the middle of a history *)
MismatchEOF ==
  /\ l = Len(Trace) + 1 /\ ck # ""
  /\ bad' = Append(bad, Len(Trace)) /\ l' = l
  /\ Idle /\ UNCHANGED <<vars, nd>>

TraceNext == Normal \/ MismatchDirty \/ Mismatch \/ MismatchEOF

(* a pooled object carries nothing of its past but Kept (the design invariant, on the recorded run) *)
PoolCleanT == \A o \in DOMAIN tobj : tobj[o].st = "pooled" => tobj[o].cur = {} /\ tobj[o].stale \subseteq Kept

Report == (l = Len(Trace) + 1 /\ ck = "") => PrintT(<<"@@BAD", bad, l - 1, Len(Trace)>>) /\ PrintT(<<"@@NDIRTY", nd>>)
=============================================================================
