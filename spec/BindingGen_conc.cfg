CONSTANTS
  Procs = {p1}
  MaxBinds = 1
  MaxTagSet = 0
  NKindsSingle = 11
  Bounds = FALSE
  NRand = 0
  NMulti = 0
  NReqMulti = 4
  NOrder = 0
  NConc = 500
INIT GenInit
NEXT GenNext
