CONSTANTS
  NT = 2
  NU = 2
  Rounds = 2
  Drain = TRUE
  AtomicFire = FALSE
  Go123 = FALSE
  Misuse = FALSE
  PutOnlyStopped = TRUE
SPECIFICATION Spec
INVARIANTS TypeOK NoStaleTick PoolQuiescent NoTrap Exclusive

