CONSTANTS
  MaxToks = 4
  Big = TRUE
  NRand = 120000
  Part = "rand"
INIT GenInit
NEXT GenNext
