\* the observer accepts: two maps, 2 callers x 1 call, MaxConns 1, 2 ticks, 1 CloseIdleConnections, 1 reap, 1 retry
CONSTANTS
  Keys = {"a", "b"}
  TLSKeys = {"b"}
  Callers = {1, 2}
  MaxCalls = 1
  NH = 2
  MaxConns = 1
  MaxTicks = 2
  MaxCI = 1
  MaxReap = 1
  Retries = 1
  HoldCounted = TRUE
  CIAll = TRUE
INIT OInitMC
NEXT ONextMC
VIEW OView
INVARIANTS Accepts Agree
