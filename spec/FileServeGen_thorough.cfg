CONSTANTS Lens = {0, 1, 2, 3, 4, 5, 6} Nums = {0, 1, 2, 3, 4, 5, 6, 7} MaxSmall = 8192 MaxReqs = 0
  Tier = "thorough" BigLens = {8191, 8192, 8193} BigNumSet = {0, 1, 2, 4095, 4096, 4097, 8189, 8190, 8191, 8192, 8193, 8194}
  OptLens = {0, 1, 3, 8193} OptNums = {0, 1, 2, 3}
INIT GenInit
NEXT GenNext
