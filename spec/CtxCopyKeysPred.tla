-------------------------- MODULE CtxCopyKeysPred --------------------------
(* The judgements of X06 clause 3 as functions of what one read recorded; used by the model (CtxCopyKeys.tla) on its
   own reads and by the trace specification (CtxCopyTrace.tla) on the reads the driver recorded from the real code. *)
EXTENDS Integers

(* the value read is one the key held at some moment between invocation (l = writes completed before) and
   response (h = writes started before the response) *)
InInterval(v, l, h) == l <= v /\ v <= h
(* the writer performs Set(a, n); Set(b, n) for n = 1, 2, ...: a snapshot taken at one moment shows b <= a <= b + 1 *)
PairOK(a, b, l, h)  == InInterval(a, l, h) /\ InInterval(b, l, h) /\ b <= a /\ a <= b + 1
=============================================================================
