CONSTANTS
  MaxSteps = 1
  MaxRecycle = 1
  MultipartFix = TRUE
  PreParsed = {FALSE}
  Variant = "omitFullPath"
SPECIFICATION Spec
INVARIANTS TypeOK IndependentCopy IndependentOrig Complete Detached NoNextInCopy
