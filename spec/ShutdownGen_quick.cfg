CONSTANTS
  Conns = {c1}
  Callers = {k1}
  Hooks = {h1}
  BeyondHooks = {}
  MaxReq = 1
  Transport = "standard"
  ServerRun = TRUE
  CasLoserErrors = TRUE
  ExitCheckAfterHandler = TRUE
  HooksConcurrent = TRUE
  CountAtAccept = TRUE
  BeyondWait = 200
  SlowWait = 300
  PairMod = 4
  NTriple = 6
  HookMod = 4
  SecondMod = 3
  NRand = 5
  Waits <- WaitsQuick
  LongWaits <- LongNone
  Idles <- IdlesQuick
  Trials = 150
INIT GenInit
NEXT GenNext
