\* thorough, exhaustive: 2 connections x 2 requests x 2 callers x 3 hooks
CONSTANTS
  Conns = {c1, c2}
  Callers = {k1, k2}
  Hooks = {h1, h2, h3}
  BeyondHooks = {h3}
  MaxReq = 2
  Transport = "standard"
  ServerRun = TRUE
  CasLoserErrors = TRUE
  ExitCheckAfterHandler = TRUE
  CountAtAccept = TRUE
SYMMETRY Sym
SPECIFICATION Spec
INVARIANTS TypeOK ActiveCount ObligationsHold SecondShutdownErrors NotRunningErrors NoAcceptAfterClose HooksAwaited InFlightAwaited AcceptedAwaited CloseAnnounced InFlightCompleted EndOK
