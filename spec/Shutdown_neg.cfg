\* NEGATIVE (expected: CloseAnnounced violated): exit check before the handler
CONSTANTS
  Conns = {c1, c2}
  Callers = {k1, k2}
  Hooks = {h1}
  BeyondHooks = {}
  MaxReq = 1
  Transport = "standard"
  ServerRun = TRUE
  CasLoserErrors = TRUE
  ExitCheckAfterHandler = FALSE
  HooksConcurrent = TRUE
  CountAtAccept = TRUE
SYMMETRY Sym
SPECIFICATION Spec
INVARIANTS TypeOK CloseAnnounced
