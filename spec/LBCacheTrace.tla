---------------------------- MODULE LBCacheTrace ----------------------------
(***************************************************************************************************************)
(* Trace validation for X01: the events recorded by harness/drivers/x01 from the real BalancerFactory must be  *)
(* accepted by the observer of LBCache (spec/LBCacheObs.tla: the determinised LBCache, proved to accept every   *)
(* behaviour of LBCache by LBCacheObsMC).  One successor per state: the observer is a function.                 *)
(*                                                                                                             *)
(* Lines:  Case{id, kind, ck, via, refreshMs, expireMs, rname, steps}                                          *)
(*         Call{p,key}  Target{p,key,tk,t}  ResolveBegin{p,key}  ResolveEnd{p,key,v,err,ck,ins,pos}            *)
(*         Rebalance{p,ck,ins,pos}  Pick{p,ck,ins,pos,x}  Return{p,key,x,err}  Delete{key,t,stall}             *)
(*         Quiesce{timeout,ms}  End          (p = 0: a background goroutine of the factory; Panic/Hang: none)  *)
(***************************************************************************************************************)
EXTENDS LBCacheObs, Json, IOUtils, TLC

Trace == ndJsonDeserialize(IOEnv.VERIF_TRACE)

VARIABLES l, bad, active, o
tvars == <<l, bad, active, o>>

Blank == OInit("-", 1)
Line == Trace[l]
HasLine == l <= Len(Trace)

TraceInit == l = 1 /\ bad = << >> /\ active = FALSE /\ o = Blank

TraceCase == /\ HasLine /\ ~active /\ Line.ev = "Case"
             /\ Line.expireMs >= 5
             /\ o' = OInit(Line.rname, Line.expireMs)
             /\ active' = TRUE /\ l' = l + 1 /\ UNCHANGED bad

TraceEvent == /\ HasLine /\ active /\ Line.ev \notin {"Case", "End"}
              /\ LET n == OStep(o, Line) IN n.ok /\ o' = n
              /\ l' = l + 1 /\ UNCHANGED <<bad, active>>

\* at the end every call has returned
TraceEnd == /\ HasLine /\ active /\ Line.ev = "End"
            /\ OEnd(o)
            /\ o' = Blank /\ active' = FALSE /\ l' = l + 1 /\ UNCHANGED bad

Normal == TraceCase \/ TraceEvent \/ TraceEnd

NextCase(k) == IF \E j \in k + 1 .. Len(Trace) : Trace[j].ev = "Case"
               THEN CHOOSE j \in k + 1 .. Len(Trace) : Trace[j].ev = "Case" /\ \A i \in k + 1 .. j - 1 : Trace[i].ev # "Case"
               ELSE Len(Trace) + 1

Mismatch == /\ HasLine /\ ~ENABLED Normal
            /\ bad' = Append(bad, l)
            /\ l' = NextCase(l)
            /\ o' = Blank /\ active' = FALSE

MismatchEOF == /\ l = Len(Trace) + 1 /\ active
               /\ bad' = Append(bad, l) /\ l' = l /\ o' = Blank /\ active' = FALSE

TraceNext == Normal \/ Mismatch \/ MismatchEOF

Report == (l = Len(Trace) + 1 /\ ~active) => PrintT(<<"@@BAD", bad, l - 1, Len(Trace)>>)
=============================================================================
