\* liveness under fairness: 1 connection x 2 callers x 1 hook
CONSTANTS
  Conns = {c1}
  Callers = {k1, k2}
  Hooks = {h1}
  BeyondHooks = {h1}
  MaxReq = 1
  Transport = "standard"
  ServerRun = TRUE
  CasLoserErrors = TRUE
  ExitCheckAfterHandler = TRUE
  HooksConcurrent = TRUE
  CountAtAccept = TRUE
SPECIFICATION FairSpec
INVARIANTS TypeOK ObligationsHold
PROPERTIES ShutdownReturns HooksStartedL InFlightCompletedL
