CONSTANTS Mode = "ref"
Profile = "pair-q"
MaxLen = 4
SpecLen = 2
NoneLen = 2
PairAll = TRUE
PairHostile = 2
PartnerAll = TRUE
LetterLen = 3
INIT GenInit
NEXT GenNext
