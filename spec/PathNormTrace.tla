--------------------------- MODULE PathNormTrace ---------------------------
(* Trace validation for C07.  Every line recorded by harness/drivers/c07 from the real code must be admitted:  *)
(*   Chunk{mode, rank, n, fsmax}   mode "enum": the n cases that follow are the token strings of shortlex rank  *)
(*                                 rank .. rank+n-1, in order (first: Rank(in) = rank, then in = Succ(previous)); *)
(*                                 mode "free": arbitrary strings over Alphabet10 (random / re-run cases)        *)
(*                                 mode "pad": every case is pre \o core \o post (pre, post from the header, one  *)
(*                                 of PathNorm!Pads) and the cores are the strings of rank rank .. rank+n-1, in  *)
(*                                 order; no FS request                                                          *)
(*   Case{in}                      one request target (token string)                                            *)
(*   Norm{out, out0}               URI.Parse(host, target).Path() with / without a Host: both = Ref(in), and     *)
(*                                 Contained                                                                     *)
(*   Clean{out}                    utils.CleanPath(target): Contained (nothing else is claimed by the property)  *)
(*   Served{path, status, sentinel} app.FS handler on the sandbox: path = Ref(in), sentinel = FALSE; owed iff    *)
(*                                 (enum: Len(in) <= fsmax; free: fsmax >= 0); status is unconstrained;          *)
(*                                 vh = "sentinel served?" for the same target through the handler configured    *)
(*                                 with NewVHostPathRewriter(0) and Host "..", ".", "a" (short targets; else <<>>)*)
(*   End                           the chunk had exactly n cases                                                 *)
(* A Panic line (or any other line) has no action => the case is rejected.  Rejections are localised: Mismatch   *)
(* records the line and skips to the next Case line.                                                            *)
EXTENDS PathNorm, Json, IOUtils

Trace == ndJsonDeserialize(IOEnv.VERIF_TRACE)

VARIABLES l,        \* next line to consume
          bad,      \* lines at which a case was rejected
          mode,     \* "none" | "enum" | "free"
          hdr,      \* [rank, n, fsmax, pre, post] of the current chunk
          k,        \* cases consumed in this chunk
          inp,      \* current target (token string)
          owed      \* events still owed for the current target
tvars == <<cur, l, bad, mode, hdr, k, inp, owed>>

NoHdr == [rank |-> 0, n |-> 0, fsmax |-> -1, pre |-> << >>, post |-> << >>]

TraceInit == /\ cur = << >> /\ l = 1 /\ bad = << >> /\ mode = "none" /\ hdr = NoHdr /\ k = 0
             /\ inp = << >> /\ owed = << >>

Line == Trace[l]
Idle == owed = << >>

\* the enumerated part of a target: the target itself, or what stands between the pads
Wrapped(in) == /\ Len(in) >= Len(hdr.pre) + Len(hdr.post)
               /\ SubSeq(in, 1, Len(hdr.pre)) = hdr.pre
               /\ SubSeq(in, Len(in) - Len(hdr.post) + 1, Len(in)) = hdr.post
CoreOf(in) == IF mode = "pad" /\ Len(in) >= Len(hdr.pre) + Len(hdr.post)
              THEN SubSeq(in, Len(hdr.pre) + 1, Len(in) - Len(hdr.post)) ELSE in

Owes(s) == <<"Norm", "Clean">> \o (IF (mode = "enum" /\ Len(s) <= hdr.fsmax) \/ (mode = "free" /\ hdr.fsmax >= 0)
                                  THEN <<"Served">> ELSE << >>)

\* ---- admission of the next line (state predicates; each names the spec obligation of one event kind) ----
ChunkOK == /\ Line.ev = "Chunk" /\ mode = "none" /\ Idle
           /\ Line.mode \in {"enum", "free", "pad"} /\ Line.n >= 0 /\ Line.rank >= 0
           /\ Line.mode = "pad" => \E i \in 1 .. Len(Pads) : Pads[i] = <<Line.pre, Line.post>>

CaseOK == /\ Line.ev = "Case" /\ mode # "none" /\ Idle
          /\ \A i \in 1 .. Len(Line.in) : Line.in[i] \in (IF mode = "enum" THEN TokSet ELSE AllTok)
          /\ mode = "enum" => IF k = 0 THEN Rank(Line.in) = hdr.rank ELSE Line.in = Succ(cur)   \* complete, in order
          /\ mode = "pad" => /\ Wrapped(Line.in)
                             /\ LET c == CoreOf(Line.in) IN
                                /\ \A i \in 1 .. Len(c) : c[i] \in TokSet
                                /\ IF k = 0 THEN Rank(c) = hdr.rank ELSE c = Succ(cur)

Owed(ev) == ~Idle /\ owed[1] = ev /\ Line.ev = ev

NormOK == /\ Owed("Norm")
          /\ LET r == Ref(inp) IN Line.out = r /\ Line.out0 = r      \* decode once, resolve with a stack
          /\ Contained(Line.out) /\ Contained(Line.out0)

CleanOK == Owed("Clean") /\ Contained(Line.out)

ServedOK == /\ Owed("Served") /\ Line.sentinel = FALSE /\ Line.path = Ref(inp)
            /\ \A i \in 1 .. Len(Line.vh) : Line.vh[i] = FALSE      \* nor through the vhost rewriter, any Host

EndOK == Line.ev = "End" /\ mode # "none" /\ Idle /\ k = hdr.n

Admitted == ChunkOK \/ CaseOK \/ NormOK \/ CleanOK \/ ServedOK \/ EndOK

\* ---- effect of an admitted line ----
Apply == /\ l' = l + 1 /\ UNCHANGED bad
         /\ CASE Line.ev = "Chunk" -> /\ mode' = Line.mode /\ k' = 0
                                      /\ hdr' = [rank |-> Line.rank, n |-> Line.n, fsmax |-> Line.fsmax,
                                                 pre |-> Line.pre, post |-> Line.post]
                                      /\ UNCHANGED <<cur, inp, owed>>
              [] Line.ev = "Case"  -> /\ cur' = CoreOf(Line.in) /\ inp' = Line.in /\ k' = k + 1 /\ owed' = Owes(Line.in)
                                      /\ UNCHANGED <<mode, hdr>>
              [] Line.ev = "End"   -> mode' = "none" /\ UNCHANGED <<cur, hdr, k, inp, owed>>
              [] OTHER             -> owed' = Tail(owed) /\ UNCHANGED <<cur, mode, hdr, k, inp>>

NextCase(j) == IF \E i \in j + 1 .. Len(Trace) : Trace[i].ev = "Case"
               THEN CHOOSE i \in j + 1 .. Len(Trace) : Trace[i].ev = "Case" /\ \A m \in j + 1 .. i - 1 : Trace[m].ev # "Case"
               ELSE Len(Trace) + 1

\* ---- a line that is not admitted: remember it, drop what is owed, go on with the next Case line.  If the rejected
\* line is a Case line itself (wrong order / unknown token) the enumeration position still advances with it.
Reject == /\ bad' = Append(bad, l)
          /\ l' = IF Len(bad) >= 50 THEN Len(Trace) + 1 ELSE NextCase(l)
          /\ owed' = << >>
          /\ IF Line.ev = "Case" /\ mode # "none" THEN cur' = CoreOf(Line.in) /\ k' = k + 1 ELSE UNCHANGED <<cur, k>>
          /\ mode' = IF l' = Len(Trace) + 1 THEN "none" ELSE IF mode = "none" THEN "free" ELSE mode
          /\ UNCHANGED <<hdr, inp>>

\* Normal == Admitted /\ Apply and Mismatch == ~ENABLED Normal /\ Reject of the framework pattern, written as one
\* IF so that the obligations (Ref, Contained) are evaluated once per line
Normal == l <= Len(Trace) /\ Admitted /\ Apply
Mismatch == l <= Len(Trace) /\ ~Admitted /\ Reject
Step == l <= Len(Trace) /\ IF Admitted THEN Apply ELSE Reject

\* the file ends although events are still owed / the chunk was not closed
MismatchEOF == /\ l = Len(Trace) + 1 /\ (~Idle \/ mode # "none")
               /\ bad' = Append(bad, l) /\ owed' = << >> /\ mode' = "none"
               /\ UNCHANGED <<cur, l, hdr, k, inp>>

TraceNext == Step \/ MismatchEOF

Report == (l = Len(Trace) + 1 /\ Idle /\ mode = "none") => PrintT(<<"@@BAD", bad, l - 1, Len(Trace)>>)
=============================================================================
