---------------------------- MODULE BindingTrace ----------------------------
(***************************************************************************)
(* Trace validation for C15.  Lines recorded by harness/drivers/c15:       *)
(*   Case{id, kind, shadow, conc, types, reqs, prog}                       *)
(*   FirstUse{t, inst}       a fresh identity number inst of type t is     *)
(*                           about to be bound for the first time (cold    *)
(*                           decoder cache)                                *)
(*   Bound{t, inst, r, cold, err, fields}   Bind of request r into type t  *)
(*                           returned: err, or every field as {k, s}       *)
(*   End                                                                   *)
(* Spec actions: FirstUse(t) adds <<t, inst>> to the cache, Bound needs it *)
(* in the cache.  Every Bound must be Acceptable(type, request, result)    *)
(* (module Binding: the property) and equal to every earlier result of the *)
(* same (type, request) in the case, whatever the cache state, identity    *)
(* or interleaving was (ResultIndependentOfHistory).  The ops of a type    *)
(* must occur in program order (per type: that is also the order inside a  *)
(* goroutine of a concurrent case); End needs every op to have run.        *)
(* A Panic event has no action => rejected.                                *)
(***************************************************************************)
EXTENDS Binding, Json, IOUtils

Trace == ndJsonDeserialize(IOEnv.VERIF_TRACE)

VARIABLES l,        \* next line to consume
          bad,      \* lines at which a case was rejected
          cl,       \* line of the current Case record (0 when idle); the record itself stays in Trace (small states)
          tcache,   \* set of <<t, inst>> whose decoder has been built
          ip,       \* per type: index in prog of its last op already observed
          last,     \* per type: current identity number, and whether its cold bind is still owed
          seen      \* <<t, r>> -> line of the first Bound observed for it
tvars == <<l, bad, cl, tcache, ip, last, seen>>

Idle == cl' = 0 /\ tcache' = {} /\ ip' = << >> /\ last' = << >> /\ seen' = << >>

TraceInit == /\ l = 1 /\ bad = << >> /\ cl = 0 /\ tcache = {} /\ ip = << >> /\ last = << >> /\ seen = << >>
             /\ Init

Line == Trace[l]
Cur  == Trace[cl]

WellFormed(c) == /\ \A ti \in DOMAIN c.types : \A i \in DOMAIN c.types[ti].fields :
                        LET f == c.types[ti].fields[i]
                        IN  /\ f.kind \in Kinds /\ Len(f.def) <= 1
                            /\ \A a, b \in DOMAIN f.tags : a # b => f.tags[a].src # f.tags[b].src
                            /\ \A a \in DOMAIN f.tags : f.tags[a].src \in Sources
                 /\ \A k \in DOMAIN c.prog : c.prog[k].t \in DOMAIN c.types /\ c.prog[k].r \in DOMAIN c.reqs
                 /\ \A q \in DOMAIN c.reqs : \A a, b \in DOMAIN c.reqs[q].vals :
                        a # b => <<c.reqs[q].vals[a].src, c.reqs[q].vals[a].name>> # <<c.reqs[q].vals[b].src, c.reqs[q].vals[b].name>>

(* Every action is split into its guard (state predicate) and its update, so that a line is judged by ONE     *)
(* evaluation of the guard: Next == IF guard THEN update ELSE Mismatch  (same meaning as the ~ENABLED Normal    *)
(* pattern, at half the cost: Acceptable is the expensive part).                                               *)

CaseOK == /\ cl = 0 /\ WellFormed(Line)
CaseUpd == /\ cl' = l /\ tcache' = {}
           /\ ip' = [t \in DOMAIN Line.types |-> 0]
           /\ last' = [t \in DOMAIN Line.types |-> [inst |-> 0, cold |-> FALSE]]
           /\ seen' = << >>
           /\ l' = l + 1 /\ UNCHANGED bad

\* the next op of type t in program order
HasOp(t)  == \E i \in ip[t] + 1 .. Len(Cur.prog) : Cur.prog[i].t = t
NextOp(t) == CHOOSE i \in ip[t] + 1 .. Len(Cur.prog) : Cur.prog[i].t = t /\ \A j \in ip[t] + 1 .. i - 1 : Cur.prog[j].t # t

\* FirstUse(T): the next op of t is "first"; a new identity enters the cache
FirstOK == /\ cl # 0
           /\ Line.t \in DOMAIN ip /\ HasOp(Line.t) /\ Cur.prog[NextOp(Line.t)].op = "first"
           /\ ~last[Line.t].cold
           /\ Line.inst = last[Line.t].inst + 1 /\ <<Line.t, Line.inst>> \notin tcache
FirstUpd == /\ tcache' = tcache \cup {<<Line.t, Line.inst>>}
            /\ last' = [last EXCEPT ![Line.t] = [inst |-> Line.inst, cold |-> TRUE]]
            /\ l' = l + 1 /\ UNCHANGED <<bad, cl, ip, seen>>

Res(e) == [err |-> e.err, fields |-> e.fields]

\* Bind(T, req) returned
BoundOK == /\ cl # 0
           /\ Line.t \in DOMAIN ip /\ HasOp(Line.t)
           /\ LET op == Cur.prog[NextOp(Line.t)] IN
                 /\ op.r = Line.r
                 /\ Line.inst = last[Line.t].inst /\ <<Line.t, Line.inst>> \in tcache
                 /\ (op.op = "first") = last[Line.t].cold /\ Line.cold = last[Line.t].cold
                 /\ <<Line.t, Line.r>> \in DOMAIN seen => Res(Trace[seen[<<Line.t, Line.r>>]]) = Res(Line)   \* cold = warm
                 /\ Acceptable(Cur.types[Line.t], Cur.reqs[Line.r], Res(Line))                                  \* the property
BoundUpd == /\ ip' = [ip EXCEPT ![Line.t] = NextOp(Line.t)]
            /\ seen' = IF <<Line.t, Line.r>> \in DOMAIN seen THEN seen ELSE seen @@ (<<Line.t, Line.r>> :> l)
            /\ last' = [last EXCEPT ![Line.t].cold = FALSE]
            /\ l' = l + 1 /\ UNCHANGED <<bad, cl, tcache>>

Finished == cl = 0
AllRun == \A t \in DOMAIN ip : ~HasOp(t)

EndOK == cl # 0 /\ AllRun
EndUpd == Idle /\ l' = l + 1 /\ UNCHANGED bad

NextCase(k) == IF \E j \in k + 1 .. Len(Trace) : Trace[j].ev = "Case"
               THEN CHOOSE j \in k + 1 .. Len(Trace) : Trace[j].ev = "Case" /\ \A i \in k + 1 .. j - 1 : Trace[i].ev # "Case"
               ELSE Len(Trace) + 1

\* the line is not a step of the specification: record it, skip to the next case
Mismatch == /\ bad' = Append(bad, l) /\ l' = NextCase(l) /\ Idle

Step == CASE Line.ev = "Case"     -> IF CaseOK  THEN CaseUpd  ELSE Mismatch
          [] Line.ev = "FirstUse" -> IF FirstOK THEN FirstUpd ELSE Mismatch
          [] Line.ev = "Bound"    -> IF BoundOK THEN BoundUpd ELSE Mismatch
          [] Line.ev = "End"      -> IF EndOK   THEN EndUpd   ELSE Mismatch
          [] OTHER                -> Mismatch                                  \* Panic, Race, unknown events

\* the trace ends inside a case
MismatchEOF == /\ l = Len(Trace) + 1 /\ ~Finished
               /\ bad' = Append(bad, l) /\ l' = l /\ Idle

TraceNext == ((l <= Len(Trace) /\ Step) \/ MismatchEOF) /\ UNCHANGED vars

\* every identity that was bound had been entered into the cache by a FirstUse before (cache soundness on the trace)
TraceCacheSound == \A t \in DOMAIN last : last[t].inst > 0 => <<t, last[t].inst>> \in tcache

Report == (l = Len(Trace) + 1 /\ Finished) => PrintT(<<"@@BAD", bad, l - 1, Len(Trace)>>)
=============================================================================
