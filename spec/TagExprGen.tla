---------------------------- MODULE TagExprGen ----------------------------
(* Case generator for C20.                                                              *)
(*  GenMode = "exhaustive": one ndjson line per case is written to IOEnv.VERIF_OUT:     *)
(*    U  every tree of depth <= 2 over ALL operators / unary / len / regexp / in and the *)
(*       full leaf alphabet (ill-typed combinations included), with every field value;   *)
(*    T  every boolean-sorted tree of depth <= GenDepth over the operator / leaf sets of *)
(*       GenCfg, for every field sort and every field value of that sort;               *)
(*    Z  every boolean-sorted tree with <= GenChainOps binary operators (the flat operator *)
(*       chains of up to GenChainOps+1 operands and all their parenthesisations) over      *)
(*       GenChainCfg, for every field sort and value;                                       *)
(*    F  in(..) whose arguments are operator chains with 1..2 binary operators (first, second, third argument, *)
(*       negated, inside &&) - the engine re-associates function arguments separately;                          *)
(*    L  len($) as an operand inside arithmetic chains under a comparison (str and slice fields);               *)
(*    P  z * (a / z') and z * (a % z') (both factor orders) where z, z' are 0 for some field value ($, $-1, 1-$,   *)
(*       len($), 0): 0 * NaN = NaN under every comparison operator, and bare;                                   *)
(*    C  long flat chains of 5, 6, 7 operators with ascending / descending / zig-zag priority classes;           *)
(*    D  (x arith y) cmp z for every arithmetic operator and numeric leaf incl. 0, 0.5, -1, $; *)
(*    K  the minimal cases of the known findings.                                        *)
(*    Each tree is printed twice: minimal parentheses and a redundant style; the spacing *)
(*    style rotates with the tree's index.                                               *)
(*  GenMode = "simulate": random walks (tlc -simulate, seeded), typed and untyped, grow trees beyond the *)
(*    exhaustive bound by wrapping the current tree with an operator and a random small   *)
(*    partner tree on the left or right; every visited tree of depth >= SimMinDepth is    *)
(*    printed as a case ("@@CASE" lines on stdout, collected by checks/c20.py).          *)
(*  A case: [id, tree, expr, ps, sp, val, verdict, welltyped, haz]; verdict, welltyped    *)
(*  and haz are informative copies - the trace specification recomputes them.             *)
EXTENDS TagExpr, Json, IOUtils, SequencesExt

CONSTANTS GenMode, GenCfgName, GenDepth, GenChainCfgName, GenChainOps, GenFuncCfgName, GenLenOps, GenProdFull, GenPtr, SimMinDepth, SimMaxDepth

\* operator / leaf alphabets of the exhaustive sets (TagExpr!SmallCfg and FullCfg are the walker's)
C1Cfg == [num |-> {2 * Scale}, str |-> {"a"}, bool |-> {TRUE}, arith |-> {"*", "+", "-"}, rel |-> {"<"},
          eq |-> {"=="}, logic |-> {"&&", "||"}, funcs |-> TRUE, pat |-> {"^a"}]
C3Cfg == [num |-> {2 * Scale}, str |-> {"a"}, bool |-> {TRUE}, arith |-> {"*", "%", "+", "-"}, rel |-> {"<", ">="},
          eq |-> {"==", "!="}, logic |-> {"&&", "||"}, funcs |-> FALSE, pat |-> {"^a"}]
M2Cfg == [num |-> {2 * Scale, 32}, str |-> {"a"}, bool |-> {TRUE}, arith |-> MulOps \cup AddOps, rel |-> {"<", ">="},
          eq |-> EqOps, logic |-> {"&&", "||"}, funcs |-> TRUE, pat |-> {"^a"}]
CfgOf(name) == CASE name = "small" -> SmallCfg [] name = "c1" -> C1Cfg [] name = "c3" -> C3Cfg [] name = "m2" -> M2Cfg
                 [] name = "full" -> FullCfg [] name = "chain" -> ChainCfg
GenCfg == CfgOf(GenCfgName)
GenChainCfg == CfgOf(GenChainCfgName)

Spaces == <<"t", "s", "w">>
Redundant == <<"bin", "all">>

Case(id, t, ps, sp, fv) ==
    [id |-> id, tree |-> t, expr |-> PrintExpr(t, ps, sp), ps |-> ps, sp |-> sp, val |-> fv,
     verdict |-> Verdict(t, fv), welltyped |-> WellTyped(t, fv), haz |-> Hazard(t, fv)]

\* (tree, value) pairs
Pairs(trees, vals) == {<<t, NoVal>> : t \in {x \in trees : ~HasFld(x)}} \cup ({x \in trees : HasFld(x)} \X vals)

UTrees == Untyped2(FullLeaves, AllOps, Patterns)
UPairs == Pairs(UTrees, AllVals)
\* (GenPtr = FALSE leaves the pointer-to-int field value to the U set)
TVals(k) == IF GenPtr THEN ValsOfSort(k) ELSE {v \in ValsOfSort(k) : v.kind # "ptrint"}
TPairs == UNION {Pairs(BT(k, GenDepth, GenCfg), TVals(k)) : k \in Sorts}
\* Z: every boolean-sorted tree with 1..GenChainOps binary operators (flat chains under minimal printing)
ZPairs == UNION {Pairs(UNION {BZ(k, m, GenChainCfg) : m \in 1 .. GenChainOps}, TVals(k)) : k \in Sorts}
\* F: in() with operator chains (1..2 binary operators) as arguments;  L: len($) inside arithmetic chains
GenFuncCfg == CfgOf(GenFuncCfgName)
FPairs == UNION {Pairs(FTrees(k, 2, GenFuncCfg), TVals(k)) : k \in Sorts}
LPairs == UNION {Pairs(LTrees(GenLenOps, GenFuncCfg), TVals(k)) : k \in {"str", "slice"}}
\* P: zero * NaN products (TagExpr!PTrees) for numeric, string and slice fields
PPairs == UNION {Pairs(PTrees(k, GenProdFull), TVals(k)) : k \in {"num", "str", "slice"}}
\* C: long unparenthesised mixed-precedence chains (5, 6, 7 binary operators): priority classes strictly ascending
\*    (a right spine: the engine's post-parse re-balancing needs one more pass per level), strictly descending
\*    and zig-zag.  A chain is written as a flat string and turned into its tree by this specification's own
\*    Parse (documented precedence); $ stands at the first / last numeric operand or at the first boolean operand.
\*    Classes: O ||, A &&, E == / !=, R <= / >, S -, M % / *.
ChainTemplates == {<<"O", "A", "E", "R", "S", "M">>, <<"A", "E", "R", "S", "M">>, <<"O", "E", "R", "S", "M">>,
                   <<"M", "S", "R", "E", "A", "O">>, <<"M", "S", "R", "E", "A">>,
                   <<"S", "M", "R", "S", "M", "E", "A">>, <<"O", "A", "E", "R", "S", "M", "M">>,
                   <<"E", "R", "S", "M", "O", "A", "E">>}
ChainChoices == [eq : EqOps, rel : {"<=", ">"}, mul : {"%", "*"}]
ClassOp(c, ch) == CASE c = "O" -> "||" [] c = "A" -> "&&" [] c = "E" -> ch.eq [] c = "R" -> ch.rel [] c = "S" -> "-" [] c = "M" -> ch.mul
Arithy(c) == c \in {"R", "S", "M"}
LeafNumeric(tpl, i) == (i >= 1 /\ Arithy(tpl[i])) \/ (i < Len(tpl) /\ Arithy(tpl[i + 1]))        \* leaf i in 0 .. Len(tpl)
ChainNums == <<"3", "9", "8", "5", "2", "7", "4", "6">>
\* boolean operands are neutral (false next to ||, true next to &&) so that the verdict depends on the whole chain
BoolLeaf(tpl, i) == IF i < Len(tpl) /\ tpl[i + 1] = "O" THEN "false" ELSE IF i < Len(tpl) /\ tpl[i + 1] = "A" THEN "true"
                    ELSE IF i >= 1 /\ tpl[i] = "O" THEN "false" ELSE "true"
LeafStr(tpl, i, fp) == IF i = fp THEN "$" ELSE IF LeafNumeric(tpl, i) THEN ChainNums[i + 1] ELSE BoolLeaf(tpl, i)
RECURSIVE ChainStr(_, _, _, _)
ChainStr(tpl, ch, fp, i) == IF i = Len(tpl) THEN LeafStr(tpl, i, fp)
                            ELSE LeafStr(tpl, i, fp) \o " " \o ClassOp(tpl[i + 1], ch) \o " " \o ChainStr(tpl, ch, fp, i + 1)
MinOf(S) == CHOOSE x \in S : \A y \in S : x <= y
MaxOf(S) == CHOOSE x \in S : \A y \in S : x >= y
CPairs == UNION {LET numPos == {i \in 0 .. Len(tpl) : LeafNumeric(tpl, i)}
                     boolPos == {i \in 0 .. Len(tpl) : ~LeafNumeric(tpl, i)}
                 IN {<<Parse(ChainStr(tpl, ch, 0 - 1, 0)), NoVal>>}
                    \cup ({Parse(ChainStr(tpl, ch, fp, 0)) : fp \in {MinOf(numPos), MaxOf(numPos)}} \X TVals("num"))
                    \cup (IF boolPos = {} THEN {} ELSE {Parse(ChainStr(tpl, ch, MinOf(boolPos), 0))} \X BoolVals)
                 : tpl \in ChainTemplates, ch \in ChainChoices}
\* D: every arithmetic operator applied to every pair of numeric leaves (0, fractions, negatives, $), compared with
\*    a third leaf: division / remainder by zero, NaN in comparisons, remainder of negatives and fractions
DLeaves == {Num(0), Num(Scale), Num(2 * Scale), Num(32), Num(0 - Scale), Fld}
DTrees == {Bin(c, Bin(a, x, y), z) : c \in {"<", "==", ">="}, a \in MulOps \cup AddOps, x \in DLeaves, y \in DLeaves,
                                      z \in {Num(0), Num(Scale), Fld}}
DPairs == Pairs(DTrees, TVals("num"))
KPairs == {<<Bin("==", Bin("%", Fld, Num(32)), Num(0)), FV("int", Scale, "", FALSE)>>,
           <<Bin("==", Fld, Fld), FV("slice", 0, "", FALSE)>>,
           <<In(<<Fld, Fld>>), FV("slice", 0, "", FALSE)>>}

AllPairs == SetToSeq(UPairs \cup TPairs \cup ZPairs \cup FPairs \cup LPairs \cup PPairs \cup CPairs \cup DPairs \cup KPairs)

\* (LET-bound so that TLC evaluates the pair sequence once)
Cases == LET S == AllPairs
             N == Len(S)
         IN [j \in 1 .. 2 * N |->
              LET i == (j + 1) \div 2
                  p == S[i]
              IN IF j % 2 = 1 THEN Case(j, p[1], "min", Spaces[(i % 3) + 1], p[2])
                 ELSE Case(j, p[1], Redundant[(i % 2) + 1], Spaces[((i \div 2) % 3) + 1], p[2])]

ASSUME GenMode # "exhaustive" \/ ndJsonSerialize(IOEnv.VERIF_OUT, Cases)

-----------------------------------------------------------------------------
(* simulation: random growth *)
VARIABLES cur,     \* [t |-> tree, s |-> "N" | "S" | "B" | "U"]   (U = untyped walk)
          sfk,     \* sort of the field
          sfv,     \* field value
          n        \* steps taken
svars == <<cur, sfk, sfv, n>>

\* small partner trees per field sort (constant level: evaluated once)
PN == [k \in Sorts |-> NT(k, 2, FullCfg)]
PS == [k \in Sorts |-> ST(k, 2, FullCfg)]
PB == [k \in Sorts |-> BT(k, 2, FullCfg)]
PU == UTrees

Node(t, s) == [t |-> t, s |-> s]
Either(op, a, b, left) == IF left THEN Bin(op, a, b) ELSE Bin(op, b, a)

GenInit == Parked /\ cur = Node(Nil, "X") /\ sfk = "num" /\ sfv = NoVal /\ n = 0
GenNext == UNCHANGED <<vars, svars>>

\* a walk is typed (sorts N/S/B, field value of the field's sort) or untyped (sort U, any operator, any value)
SimInit == /\ Parked
           /\ sfk \in Sorts
           /\ n = 0
           /\ \/ /\ sfv \in ValsOfSort(sfk)
                 /\ cur \in {Node(RandomElement(PN[sfk]), "N"), Node(RandomElement(PS[sfk]), "S"), Node(RandomElement(PB[sfk]), "B")}
              \/ /\ sfv \in AllVals
                 /\ cur = Node(RandomElement(PU), "U")

GrowN == /\ cur.s = "N"
         /\ \/ \E op \in MulOps \cup AddOps, left \in BOOLEAN : cur' = Node(Either(op, cur.t, RandomElement(PN[sfk]), left), "N")
            \/ \E op \in RelOps \cup EqOps, left \in BOOLEAN : cur' = Node(Either(op, cur.t, RandomElement(PN[sfk]), left), "B")
            \/ Tag(cur.t) # "num" /\ cur' = Node(Neg(cur.t), "N")
            \/ \E first \in BOOLEAN : LET x == RandomElement(PN[sfk]) IN
                   cur' = Node(In(IF first THEN <<cur.t, x>> ELSE <<x, RandomElement(PN[sfk]), cur.t>>), "B")
GrowS == /\ cur.s = "S"
         /\ \/ \E left \in BOOLEAN : cur' = Node(Either("+", cur.t, RandomElement(PS[sfk]), left), "S")
            \/ \E op \in RelOps \cup EqOps, left \in BOOLEAN : cur' = Node(Either(op, cur.t, RandomElement(PS[sfk]), left), "B")
            \/ cur' = Node(LenF(cur.t), "N")
            \/ \E p \in Patterns : cur' = Node(Re(p, cur.t), "B")
GrowB == /\ cur.s = "B"
         /\ \/ \E op \in {"&&", "||"} \cup EqOps, left \in BOOLEAN : cur' = Node(Either(op, cur.t, RandomElement(PB[sfk]), left), "B")
            \/ cur' = Node(Not(cur.t), "B")
            \/ \E first \in BOOLEAN : LET x == RandomElement(PB[sfk]) IN
                   cur' = Node(In(IF first THEN <<cur.t, x>> ELSE <<x, cur.t>>), "B")
GrowU == /\ cur.s = "U"
         /\ \/ \E op \in AllOps, left \in BOOLEAN : cur' = Node(Either(op, cur.t, RandomElement(PU), left), "U")
            \/ cur' = Node(Not(cur.t), "U") \/ cur' = Node(Neg(cur.t), "U") \/ cur' = Node(LenF(cur.t), "U")
            \/ cur' = Node(In(<<cur.t, RandomElement(PU)>>), "U")

SimNext == /\ n < SimMaxDepth /\ Depth(cur.t) < SimMaxDepth
           /\ (GrowN \/ GrowS \/ GrowB \/ GrowU)
           /\ n' = n + 1 /\ UNCHANGED <<sfk, sfv, vars>>

\* every visited tree deep enough is a case (printed in two styles)
Emit == (Depth(cur.t) >= (IF cur.s = "U" THEN 3 ELSE SimMinDepth) /\ cur.s \in {"B", "U"}) =>
           LET sp1 == RandomElement(SpaceStyles)
               sp2 == RandomElement(SpaceStyles)
               ps2 == RandomElement({"bin", "all"})
           IN /\ PrintT("@@CASE" \o ToJson(Case(0, cur.t, "min", sp1, sfv)))
              /\ PrintT("@@CASE" \o ToJson(Case(0, cur.t, ps2, sp2, sfv)))
=============================================================================
