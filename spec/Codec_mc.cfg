CONSTANTS
  Nil <- NilSeq
  Render <- RenderSeq
  Lit <- LitSeq
  McFamilies <- McFamiliesDef
  McTarget = 200
SPECIFICATION Spec
INVARIANTS InBlock NoRepeat Complete NotEarly LawsHold
