--------------------------- MODULE H1RejectTrace ---------------------------
(* Trace validation of the server's behaviour on arbitrary (mutated) input against H1Reject.                 *)
(* Lines (driver h1srv, loose cases): Case; Deliver; Eof; Response{kind,status,close}; Handle; Read;         *)
(* HandleEnd; ConnClosed; End.  Panic / Garbage / AfterClose / Blocked have no action: the case is rejected. *)
EXTENDS H1Reject, Json, IOUtils, TLC

Trace == ndJsonDeserialize(IOEnv.VERIF_TRACE)
VARIABLES l, bad, active
Line == Trace[l]
HasLine == l <= Len(Trace)
Consume == l' = l + 1 /\ UNCHANGED bad

TraceInit == RInit /\ l = 1 /\ bad = << >> /\ active = FALSE
Blank == ph' = "idle" /\ nh' = 0 /\ nf' = 0 /\ nrej' = 0 /\ after' = 0 /\ active' = FALSE

TCase == HasLine /\ Line.ev = "Case" /\ ~active /\ ph' = "idle" /\ nh' = 0 /\ nf' = 0 /\ nrej' = 0 /\ after' = 0 /\ active' = TRUE /\ Consume
TNet == active /\ HasLine /\ Line.ev \in {"Deliver", "Eof", "Read", "WriteFailed"} /\ RNet /\ Consume /\ UNCHANGED active
THandle == active /\ HasLine /\ Line.ev = "Handle" /\ RHandle /\ Consume /\ UNCHANGED active
THandleEnd == active /\ HasLine /\ Line.ev = "HandleEnd" /\ RHandleEnd /\ Consume /\ UNCHANGED active
TResponse == /\ active /\ HasLine /\ Line.ev = "Response"
             /\ IF Line.kind = "interim" /\ ph = "idle" THEN RInterim
                ELSE IF ph = "write" THEN RRespond(Line.close)
                ELSE RReject(Line.status, Line.close)
             /\ Consume /\ UNCHANGED active
TClosed == active /\ HasLine /\ Line.ev = "ConnClosed" /\ RClose /\ Consume /\ UNCHANGED active
TEnd == active /\ HasLine /\ Line.ev = "End" /\ ph = "closed" /\ Blank /\ Consume

Normal == TCase \/ TNet \/ THandle \/ THandleEnd \/ TResponse \/ TClosed \/ TEnd

NextCase(k) == IF \E j \in k + 1 .. Len(Trace) : Trace[j].ev = "Case"
               THEN CHOOSE j \in k + 1 .. Len(Trace) : Trace[j].ev = "Case" /\ \A i \in k + 1 .. j - 1 : Trace[i].ev # "Case"
               ELSE Len(Trace) + 1
Mismatch == /\ HasLine /\ ~ENABLED Normal
            /\ bad' = Append(bad, l)
            /\ l' = (IF Len(bad) >= 50 THEN Len(Trace) + 1 ELSE NextCase(l))
            /\ Blank
MismatchEOF == l = Len(Trace) + 1 /\ active /\ bad' = Append(bad, l) /\ l' = l /\ Blank
TraceNext == Normal \/ Mismatch \/ MismatchEOF
Report == (l = Len(Trace) + 1 /\ ~active) => PrintT(<<"@@BAD", bad, l - 1, Len(Trace)>>)
=============================================================================
