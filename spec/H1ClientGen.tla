---------------------------- MODULE H1ClientGen ----------------------------
(***************************************************************************)
(* Case generator for C11 / the client direction of C02.                   *)
(*                                                                         *)
(* A case: [id, tag, cfg, xs, cutX] with cfg = [stream, maxResp,           *)
(* noNormHdr, noNormPath, proxy, readSize] and xs a sequence of <= 3       *)
(* exchanges [prog, script, wire, headEnd, wireLen, peerClose] carried out *)
(* by ONE client (keep-alive reuse across the sequence).                   *)
(*                                                                         *)
(* Mode "grid":                                                            *)
(*  set A (request side): every request program = body shape x header set  *)
(*    x (noNormHdr, noNormPath, proxy); method, host, path, query,         *)
(*    fragment, userinfo, Connection: close and Host override cycle with   *)
(*    the index; programs of one configuration are cut into sequences of   *)
(*    1, 2, 3 exchanges; response scripts, stream mode and limit cycle.    *)
(*  set B (response side): every response script = body shape (framing x  *)
(*    length incl. buffer boundaries x chunk pattern) x header set x       *)
(*    interim 100; hex case, chunk extensions, trailers, Connection: close *)
(*    spelling, HTTP/1.0, reason phrase cycle; every script starts one     *)
(*    sequence (followed by its successors in the list: state leaking into *)
(*    the next exchange) per (stream mode x limit unset / one below the    *)
(*    body length / exactly the body length).                              *)
(*  set L (limit): MaxResponseBodySize 1000 / 3000 / 5000, a legal         *)
(*    response just under or at the limit, then an over-limit response     *)
(*    into the same Response object on the same connection, then a probe.  *)
(*  set K: the minimal case of every known finding.                        *)
(* Mode "cuts": small scripts, each followed by a probe exchange on the    *)
(*    (possibly) reused connection; the driver multiplies them by          *)
(*    fragmentations of the first response (cutX = 1): every 2-way cut,    *)
(*    byte-wise, boundary cuts, seeded k-way cuts.  Mode "cutsbig": the    *)
(*    same with bodies at the buffer boundaries and heads longer than the  *)
(*    read buffer (boundary and seeded cuts only).                         *)
(***************************************************************************)
EXTENDS H1Client, Json, IOUtils, SequencesExt

CONSTANTS Mode,        \* "grid" | "cuts" | "cutsbig"
          BigSizes,    \* body lengths around buffer boundaries
          ScriptStride,\* set B takes every ScriptStride-th script as the start of a sequence ... (1 = all)
          CutStride    \* mode "cuts": take every CutStride-th small script

H(n, v) == [name |-> n, value |-> v]
KV(a, b) == [k |-> a, v |-> b]
FilePart(param, filename, ctype, n, api) == [param |-> param, filename |-> filename, ctype |-> ctype, n |-> n, i |-> 0, api |-> api]

-----------------------------------------------------------------------------
(* request programs *)

ReqHeaderSets == <<
    <<H("X-A", "v1")>>,
    <<H("x-a", "v1"), H("X-BB", "b1"), H("X-A", "v2"), H("x-lower-NAME", "w x")>>,
    <<H("Content-Type", "application/json"), H("User-Agent", "ua/1"), H("Accept", "*/*")>>,
    << >> >>
\* the same without a Content-Type, for bodies whose content type the API sets
ReqHeaderSetNoCT == <<H("User-Agent", "ua/1"), H("accept-language", "en")>>

\* rd: how the io.Reader of a streamed body / of a file part hands its bytes out (driver: patReader) -- full reads, a
\* short FIRST read of 1 / 8 / 511 bytes with more to follow, one byte per call, (n > 0, io.EOF) on the last read
RdModes == <<"full", "first1", "first8", "first511", "bytewise", "eofLast">>
NoBody == [kind |-> "none", n |-> 0, i |-> 0, declared |-> 0, step |-> 0, rd |-> "full", kvs |-> << >>, files |-> << >>]
BytesBody(n) == [NoBody EXCEPT !.kind = "bytes", !.n = n]
StreamBody(n, d, st, rd) == [NoBody EXCEPT !.kind = "stream", !.n = n, !.declared = d, !.step = st, !.rd = rd]
FormBody(kvs) == [NoBody EXCEPT !.kind = "form", !.kvs = kvs]
MultipartBody(kvs, files, rd) == [NoBody EXCEPT !.kind = "multipart", !.kvs = kvs, !.files = files, !.rd = rd]

Sizes == {0, 1, 17} \cup BigSizes
StepFor(n) == IF n <= 17 THEN 7 ELSE IF n % 2 = 1 THEN 1000 ELSE 0
\* every size gets two reader behaviours per declaration (known / unknown length), rotating through RdModes so that
\* every behaviour meets small and boundary sizes in both declarations
SizeSeq == SetToSeq(Sizes)
RdAt(j) == RdModes[(j % Len(RdModes)) + 1]

Forms == << <<KV("a", "1")>>,
            <<KV("a", "1"), KV("b c", "x&y=z"), KV("a", "2")>>,
            <<KV("k", "v%20+w"), KV("empty", "")>> >>
Multiparts == <<MultipartBody(<<KV("f1", "val 1")>>, << >>, "full")>>
    \o [j \in 1 .. Len(RdModes) |-> MultipartBody(<< >>, <<FilePart("up", "a.txt", "", 300, "reader")>>, RdModes[j])]
    \o [j \in 1 .. Len(RdModes) |->
          MultipartBody(<<KV("f1", "v1"), KV("f1", "v2"), KV("f2", "x")>>,
                        <<FilePart("up", "a.txt", "", 4097, "reader"), FilePart("doc", "b.bin", "application/x-thing", 10, "field"),
                          FilePart("meta", "", "application/json", 12, "field"), FilePart("none", "e.txt", "", 0, "reader")>>, RdModes[j])]

\* field and file names with a double quote, a backslash, a space (Content-Disposition quoted-string escaping)
MultipartsNames == <<
    MultipartBody(<<KV("my field", "v 1"), KV("a\"b", "q")>>,
                  <<FilePart("up", "quarterly \"final\" report.txt", "", 30, "reader"),
                    FilePart("doc 2", "backup\\", "application/x-thing", 10, "field"),
                    FilePart("p\"q", "plain.txt", "", 8, "reader")>>, "full"),
    MultipartBody(<< >>, <<FilePart("up", "a b\\c\"d.bin", "application/x-thing", 600, "field")>>, "first8") >>

BodyShapes == SetToSeq({NoBody}
                       \cup {BytesBody(n) : n \in Sizes}
                       \cup UNION {{StreamBody(SizeSeq[j], SizeSeq[j], StepFor(SizeSeq[j]), RdAt(j)),
                                    StreamBody(SizeSeq[j], SizeSeq[j], 0, RdAt(j + 3)),
                                    StreamBody(SizeSeq[j], -1, StepFor(SizeSeq[j]), RdAt(j + 1)),
                                    StreamBody(SizeSeq[j], -1, 0, RdAt(j + 4))} : j \in 1 .. Len(SizeSeq)})
              \o [j \in 1 .. Len(Forms) |-> FormBody(Forms[j])]
              \o Multiparts \o MultipartsNames

\* operations on the specially stored request headers, carried out after everything else (H1Client!ApplyOp):
\* one-byte values, exactly one / two cookies, a name written through the generic API and then through the dedicated
\* setter and the other way round, written and then deleted
Op(o, n, v) == [op |-> o, name |-> n, value |-> v]
SpecialSets(cl) == <<
    <<Op("setHost", "", "h")>>,
    <<Op("set", "User-Agent", "u"), Op("setCT", "", "t")>>,
    <<Op("setCookie", "a", "1")>>,
    <<Op("setCookie", "a", "1"), Op("setCookie", "b", "2")>>,
    <<Op("set", "Host", "g.example"), Op("setHost", "", "virt.example")>>,
    <<Op("setHost", "", "virt.example"), Op("set", "Host", "g.example")>>,
    <<Op("set", "Content-Length", cl)>>,
    <<Op("setClose", "", ""), Op("set", "Connection", "keep-alive")>>,
    <<Op("setClose", "", ""), Op("del", "Connection", "")>>,
    <<Op("set", "Connection", "close")>>,
    <<Op("setCookie", "a", "1"), Op("del", "Cookie", "")>>,
    <<Op("set", "Host", "g.example"), Op("del", "Host", "")>>,
    <<Op("set", "User-Agent", "ua/2"), Op("setUA", "", "u"), Op("set", "Content-Type", "text/a"), Op("setCT", "", "t")>>,
    <<Op("setUA", "", "ua/2"), Op("set", "User-Agent", "u"), Op("del", "Content-Type", "")>>,
    <<Op("setCookie", "a", "1"), Op("setCookie", "a", "2")>>,
    <<Op("set", "Connection", "close"), Op("resetClose", "", "")>> >>
\* (a generic 'Connection: keep-alive' followed by SetConnectionClose is the known finding C11-connection-both: set K only)
NSpecial == 16

Hosts == <<"example.com", "example.com:8080">>
Paths == <<"/p", "/a//b", "/a/b/../c", "", "/a b", "/a/./b", "/a%20b", "/a/b/c", "//a/b", "/">>
Queries == <<"", "x=1&y=a%20b", "q=a+b&z=">>
BodyMethods == <<"POST", "PUT", "PATCH", "DELETE">>
NoBodyMethods == <<"GET", "DELETE", "POST", "HEAD", "OPTIONS">>

CfgReq(c) == [noNormHdr |-> (c % 2 = 1), noNormPath |-> ((c \div 2) % 2 = 1), proxy |-> ((c \div 4) % 2 = 1)]

\* request program number k: body shape bi, header set hi, request configuration c
ProgOf(bi, hi, c, k) ==
    LET b == BodyShapes[bi]
        rawPath == Paths[(k % Len(Paths)) + 1]
        \* a path with a raw space is only a valid input while path normalisation is on
        \* (an empty path without normalisation is the known finding C11-nonorm-empty-path: set K only)
        path == IF CfgReq(c).noNormPath /\ rawPath = "/a b" THEN "/a%20b" ELSE IF CfgReq(c).noNormPath /\ rawPath = "" THEN "/" ELSE rawPath
        hs == IF hi = 3 /\ b.kind \in {"form", "multipart"} THEN ReqHeaderSetNoCT ELSE ReqHeaderSets[hi]
        base == [method |-> IF b.kind = "none" THEN NoBodyMethods[(k % Len(NoBodyMethods)) + 1] ELSE BodyMethods[(k % Len(BodyMethods)) + 1],
                 host |-> Hosts[((k \div 3) % 2) + 1],
                 userinfo |-> IF k % 5 = 2 THEN "user:pw" ELSE "",
                 path |-> path,
                 query |-> Queries[((k \div 2) % 3) + 1],
                 \* (a fragment through a proxy is the known finding C11-proxy-fragment: set K only)
                 \* (and a fragment right after the authority is C11-authority-delimiter: set K only)
                 frag |-> IF k % 7 = 3 /\ ~CfgReq(c).proxy /\ path # "" THEN "frag" ELSE "",
                 url |-> "",
                 hdrs |-> hs, body |-> b,
                 opts |-> [close |-> (k % 4 = 1), hostHdr |-> IF k % 6 = 4 THEN "virt.example" ELSE ""],
                 \* every third program (not those that Add User-Agent / Content-Type themselves, and content-type
                 \* operations not on forms) carries one of the special-header operation lists
                 special |-> IF k % 3 = 0 /\ hi # 3 /\ b.kind \notin {"form", "multipart"}
                             THEN SpecialSets(IF b.kind \in {"bytes", "stream"} THEN ToDec(b.n) ELSE "0")[((k \div 3) % NSpecial) + 1]
                             ELSE << >>]
    IN [base EXCEPT !.url = UrlOf(base)]

ProgIdx == SetToSeq({<<bi, hi>> : bi \in 1 .. Len(BodyShapes), hi \in 1 .. Len(ReqHeaderSets)})
\* programs of request configuration c, in a fixed order
ProgsOf(c) == [j \in 1 .. Len(ProgIdx) |-> ProgOf(ProgIdx[j][1], ProgIdx[j][2], c, j + 3 * c)]

\* simple programs used where the response is the subject
Simple(method, b) == LET base == [method |-> method, host |-> "example.com", userinfo |-> "", path |-> "/p", query |-> "x=1", frag |-> "",
                                  url |-> "", hdrs |-> <<H("X-A", "v1")>>, body |-> b, opts |-> [close |-> FALSE, hostHdr |-> ""],
                                  special |-> << >>]
                     IN [base EXCEPT !.url = UrlOf(base)]
SimpleProgs == <<Simple("GET", NoBody), Simple("POST", BytesBody(5)), Simple("PUT", StreamBody(9, -1, 4, "full")), Simple("GET", NoBody)>>
HeadProg == Simple("HEAD", NoBody)

-----------------------------------------------------------------------------
(* response scripts *)

T(name, lname, value) == [name |-> name, lname |-> lname, value |-> value]

RespHeaderSets == <<
    \* plain
    <<RField("x-a", "canon", <<"v1">>)>>,
    \* mixed case, repeated fields, no space after the colon, padded
    <<RField("x-a", "mixed", <<"v1">>), RField("x-bb", "upper", <<"b1">>), RField("x-a", "nospace", <<"v2">>),
      RField("x-bb", "padded", <<"b2", "b3">>), RField("content-type", "mixed", <<"text/x">>)>>,
    \* obs-fold continuation lines, specially stored fields, near-miss framing names
    <<RField("x-a", "fold", <<"w1", "w2">>), RField("server", "lower", <<"srv/1">>), RField("set-cookie", "canon", <<"sid=abc;", "Path=/">>),
      RField("content-lengths", "canon", <<"3">>), RField("x-content-length", "lower", <<"99">>),
      RField("x-transfer-encoding", "mixed", <<"chunked">>), RField("x-bb", "foldtab", <<"t1", "t2", "t3">>)>>,
    \* a head longer than the connection's read buffer (X-Pad, see pad below)
    <<RField("x-bb", "lower", <<"b1">>)>> >>
PadFor(hi, k) == IF hi = 4 THEN (IF k % 2 = 0 THEN 4200 ELSE 9000) ELSE 0

\* header fields carried by the interim 100 Continue itself: none (the usual case), a name the final response also
\* carries (with another value), specially stored names, a name no final response carries
InterimSets == << << >>,
                  <<RField("x-a", "canon", <<"iv">>)>>,
                  <<RField("server", "canon", <<"edge/1">>), RField("x-bb", "lower", <<"ib">>)>>,
                  <<RField("x-interim", "canon", <<"1">>), RField("set-cookie", "canon", <<"ic=1">>)>> >>

Ones(n) == [j \in 1 .. n |-> 1]

\* body shapes: [framing, status, bodyLen, chunks, head]
Shape(fr, st, n, cs, hd) == [framing |-> fr, status |-> st, bodyLen |-> n, chunks |-> cs, head |-> hd]
SmallShapes == {
    Shape("cl", 200, 0, << >>, FALSE), Shape("cl", 200, 1, << >>, FALSE), Shape("cl", 404, 17, << >>, FALSE),
    Shape("chunked", 200, 0, << >>, FALSE), Shape("chunked", 200, 1, <<1>>, FALSE), Shape("chunked", 200, 17, <<17>>, FALSE),
    Shape("chunked", 200, 17, Ones(17), FALSE), Shape("chunked", 500, 17, <<16, 1>>, FALSE), Shape("chunked", 200, 26, <<10, 11, 5>>, FALSE),
    Shape("close", 200, 0, << >>, FALSE), Shape("close", 200, 1, << >>, FALSE), Shape("close", 200, 17, << >>, FALSE),
    \* bodiless: 204, 304 (with and without a Content-Length), answers to HEAD
    Shape("none", 204, 0, << >>, FALSE), Shape("none", 304, 0, << >>, FALSE), Shape("cl", 304, 17, << >>, FALSE),
    Shape("cl", 200, 17, << >>, TRUE), Shape("chunked", 200, 0, << >>, TRUE), Shape("cl", 200, 65537, << >>, TRUE) }
BigShapes == UNION {{ Shape("cl", 200, b, << >>, FALSE), Shape("close", 200, b, << >>, FALSE),
                      Shape("chunked", 200, b, <<b>>, FALSE), Shape("chunked", 200, b, <<b - 1, 1>>, FALSE),
                      Shape("chunked", 200, b, <<255, b - 255>>, FALSE) } : b \in BigSizes}
Shapes == SetToSeq(CASE Mode = "cuts" -> SmallShapes [] Mode = "cutsbig" -> BigShapes [] OTHER -> SmallShapes \cup BigShapes)
HiSet == CASE Mode = "cuts" -> {1, 2, 3} [] Mode = "cutsbig" -> {1, 4} [] OTHER -> {1, 2, 3, 4}

\* (other spellings of the close option are the known finding C11-connection-close-token: set K only)
CloseStyles == <<"", "", "close", "">>
Styles == <<"canon", "lower", "upper", "mixed">>

ScriptOf(si, hi, interim, k) ==
    LET sh == Shapes[si]
        ver == IF sh.framing # "chunked" /\ ~interim /\ k % 5 = 4 THEN "1.0" ELSE "1.1"
        cc  == CloseStyles[(k % Len(CloseStyles)) + 1]
    IN [status |-> sh.status, reason |-> IF k % 6 = 5 THEN "" ELSE "Reason", ver |-> ver,
        fields |-> RespHeaderSets[hi], framing |-> sh.framing, bodyLen |-> sh.bodyLen, chunks |-> sh.chunks,
        hexUpper |-> (k % 2 = 0), chunkExt |-> (sh.framing = "chunked" /\ k % 3 = 0), bodyLit |-> "",
        trailers |-> IF sh.framing = "chunked" /\ ~sh.head /\ k % 2 = 1 THEN <<T("X-T", "x-t", "tv")>> ELSE << >>,
        interim |-> interim, interimFields |-> IF interim THEN InterimSets[(k % 4) + 1] ELSE << >>, connClose |-> cc, connStyle |-> Styles[((k \div 4) % 4) + 1],
        keepAlive |-> (ver = "1.0" /\ cc = "" /\ sh.framing # "close" /\ k % 2 = 0),
        clStyle |-> Styles[(k % 4) + 1], head |-> sh.head, pad |-> PadFor(hi, k), i |-> 0, padI |-> 0]

ScriptIdx == SetToSeq({<<si, hi, it>> : si \in 1 .. Len(Shapes), hi \in HiSet, it \in BOOLEAN})
Scripts == [j \in 1 .. Len(ScriptIdx) |-> ScriptOf(ScriptIdx[j][1], ScriptIdx[j][2], ScriptIdx[j][3], j)]
NS == Len(Scripts)
HeadScripts == SelectSeq(Scripts, LAMBDA s : s.head)
PlainScripts == SelectSeq(Scripts, LAMBDA s : ~s.head)
ProbeScript == [ScriptOf(1, 1, FALSE, 1) EXCEPT !.framing = "cl", !.status = 200, !.bodyLen = 2, !.chunks = << >>, !.head = FALSE,
                                                !.connClose = "", !.ver = "1.1", !.keepAlive = FALSE, !.trailers = << >>, !.chunkExt = FALSE]

-----------------------------------------------------------------------------
(* exchanges and cases *)

\* provenance origins are distinct inside a case: request body x, its files 20+4x+j, response body 10+x, pad 40+x
WithOrigins(p, s, x) ==
    [prog |-> [p EXCEPT !.body.i = x,
                        !.body.files = [j \in 1 .. Len(p.body.files) |-> [p.body.files[j] EXCEPT !.i = 20 + 4 * x + j]]],
     script |-> [s EXCEPT !.i = 10 + x, !.padI = 40 + x]]

Exchange(p, s, x) ==
    LET ps == WithOrigins(p, s, x) IN
    [prog |-> ps.prog, script |-> ps.script, wire |-> REncode(ps.script), headEnd |-> RHeadLen(ps.script),
     wireLen |-> RWireLen(ps.script), peerClose |-> (RClosesAfter(ps.script) \/ EffClose(ps.prog)), early |-> FALSE]
\* the peer answers this exchange at once and closes, without reading the request
Early(e) == [e EXCEPT !.early = TRUE, !.peerClose = TRUE]

\* the script for a program: answers to HEAD only for HEAD
ScriptFor(p, j) == IF p.method = "HEAD" THEN HeadScripts[(j % Len(HeadScripts)) + 1] ELSE PlainScripts[(j % Len(PlainScripts)) + 1]
ProgFor(s, j) == IF s.head THEN HeadProg ELSE SimpleProgs[(j % Len(SimpleProgs)) + 1]

Limits == <<0, 16, 17, 4096>>
ReadSizes == <<0, 7, 1500>>

\* ---- set A: sequences of request programs per request configuration
SeqStarts(n) == {j \in 1 .. n : (j - 1) % 6 \in {0, 1, 3}}      \* lengths 1, 2, 3 repeating: starts at 1,2,4, 7,8,10, ...
SeqLen(j) == CASE (j - 1) % 6 = 0 -> 1 [] (j - 1) % 6 = 1 -> 2 [] OTHER -> 3
CasesA(c) ==
    LET ps == ProgsOf(c)
        starts == SetToSeq(SeqStarts(Len(ps)))
    IN [q \in 1 .. Len(starts) |->
          LET j == starts[q]
              len == IF j + SeqLen(j) - 1 <= Len(ps) THEN SeqLen(j) ELSE Len(ps) - j + 1
              kk == q + 11 * c
          IN [tag |-> "A", cutX |-> 0,
              cfg |-> [stream |-> (kk % 2 = 1), maxResp |-> Limits[((kk \div 2) % 4) + 1], noNormHdr |-> CfgReq(c).noNormHdr,
                       noNormPath |-> CfgReq(c).noNormPath, proxy |-> CfgReq(c).proxy, readSize |-> ReadSizes[(kk % 3) + 1], reuseResp |-> TRUE],
              xs |-> [x \in 1 .. len |-> Exchange(ps[j + x - 1], ScriptFor(ps[j + x - 1], 7 * (j + x) + c), x)]]]

\* ---- set B: every script starts one sequence per stream mode x limit mode
LimitFor(s, m) == CASE m = 0 -> 0
                    [] m = 1 -> IF s.bodyLen >= 2 THEN s.bodyLen - 1 ELSE 16
                    [] m = 2 -> IF s.bodyLen >= 1 THEN s.bodyLen ELSE 4096
StartsB == {j \in 1 .. NS : j % ScriptStride = 0}
CasesB ==
    LET idx == SetToSeq({<<j, st, m>> : j \in StartsB, st \in BOOLEAN, m \in 0 .. 2}) IN
    [q \in 1 .. Len(idx) |->
       LET j == idx[q][1]
           len == 1 + (j % 3)
           c == q % 8
       IN [tag |-> "B", cutX |-> 0,
           cfg |-> [stream |-> idx[q][2], maxResp |-> LimitFor(Scripts[j], idx[q][3]), noNormHdr |-> CfgReq(c).noNormHdr,
                    noNormPath |-> CfgReq(c).noNormPath, proxy |-> CfgReq(c).proxy, readSize |-> ReadSizes[(q % 3) + 1], reuseResp |-> TRUE],
           xs |-> [x \in 1 .. len |->
                     LET s == Scripts[((j + (x - 1) * (1 + (q % 5)) - 1) % NS) + 1] IN Exchange(ProgFor(s, q + x), s, x)]]]

\* ---- set L: a MaxResponseBodySize that is not a power of two; a legal response just under (or exactly at) it, then,
\* into the same Response object and on the same connection, a response over it, then a probe.  (A body buffer the first
\* response left behind has spare capacity up to the next power of two: the limit must hold all the same.)
LScript(fr, n, cs) == [ProbeScript EXCEPT !.framing = fr, !.bodyLen = n, !.chunks = cs]
CasesL ==
    LET idx == SetToSeq({<<m, f, o, st>> : m \in {1000, 3000, 5000}, f \in 1 .. 3, o \in 1 .. 5, st \in BOOLEAN}) IN
    [q \in 1 .. Len(idx) |->
       LET m == idx[q][1]
           first == CASE idx[q][2] = 1 -> LScript("cl", m - 100, << >>)
                      [] idx[q][2] = 2 -> LScript("chunked", m - 100, <<m - 100>>)
                      [] idx[q][2] = 3 -> LScript("cl", m, << >>)
           over  == CASE idx[q][3] = 1 -> LScript("chunked", m + 10, <<m + 10>>)
                      [] idx[q][3] = 2 -> LScript("chunked", m + 10, <<m - 100, 110>>)
                      [] idx[q][3] = 3 -> LScript("chunked", m + 10, <<255, m - 245>>)
                      [] idx[q][3] = 4 -> LScript("cl", m + 10, << >>)
                      [] idx[q][3] = 5 -> LScript("chunked", m + 1, Ones(16) \o <<m - 15>>)
       IN [tag |-> "L", cutX |-> 0,
           cfg |-> [stream |-> idx[q][4], maxResp |-> m, noNormHdr |-> FALSE, noNormPath |-> FALSE, proxy |-> FALSE,
                    readSize |-> ReadSizes[(q % 3) + 1], reuseResp |-> TRUE],
           xs |-> <<Exchange(SimpleProgs[1], first, 1), Exchange(SimpleProgs[2], over, 2), Exchange(SimpleProgs[1], ProbeScript, 3)>>]]

\* ---- set E: the peer answers EARLY (response queued, connection closed, request not read) while the client is still
\* sending a body; MaxResponseBodySize 1000; the answer is over / under the limit in each framing; then a probe
CasesE ==
    LET idx == SetToSeq({<<f, big, st, pb>> : f \in 1 .. 3, big \in BOOLEAN, st \in BOOLEAN, pb \in 1 .. 2}) IN
    [q \in 1 .. Len(idx) |->
       LET n == IF idx[q][2] THEN 1010 ELSE 990
           sc == CASE idx[q][1] = 1 -> LScript("cl", n, << >>)
                   [] idx[q][1] = 2 -> LScript("chunked", n, <<255, n - 255>>)
                   [] idx[q][1] = 3 -> LScript("close", n, << >>)
           pr == IF idx[q][4] = 1 THEN Simple("POST", BytesBody(65537)) ELSE Simple("PUT", StreamBody(8193, -1, 1000, "full"))
       IN [tag |-> "E", cutX |-> 0,
           cfg |-> [stream |-> idx[q][3], maxResp |-> 1000, noNormHdr |-> FALSE, noNormPath |-> FALSE, proxy |-> FALSE,
                    readSize |-> 0, reuseResp |-> TRUE],
           xs |-> <<Early(Exchange(pr, sc, 1)), Exchange(SimpleProgs[1], ProbeScript, 2)>>]]

\* ---- mode "cuts": small script, then a probe on the (possibly) reused connection
CutStarts == {j \in 1 .. NS : j % CutStride = 0}
CasesC ==
    LET idx == SetToSeq({<<j, st>> : j \in CutStarts, st \in BOOLEAN}) IN
    [q \in 1 .. Len(idx) |->
       LET s == Scripts[idx[q][1]] IN
       [tag |-> "C", cutX |-> 1,
        cfg |-> [stream |-> idx[q][2], maxResp |-> 0, noNormHdr |-> (q % 4 = 1), noNormPath |-> FALSE, proxy |-> FALSE,
                 readSize |-> ReadSizes[(q % 3) + 1], reuseResp |-> TRUE],
        xs |-> <<Exchange(ProgFor(s, q), s, 1), Exchange(SimpleProgs[1], ProbeScript, 2)>>]]

RECURSIVE Flatten(_)
Flatten(ss) == IF ss = << >> THEN << >> ELSE Head(ss) \o Flatten(Tail(ss))

\* ---- set K: the minimal case of every known finding (known/C11.json), in both body modes
KCfg(st, px) == [stream |-> st, maxResp |-> 0, noNormHdr |-> FALSE, noNormPath |-> FALSE, proxy |-> px, readSize |-> 0, reuseResp |-> TRUE]
CloseScript(token) == [ProbeScript EXCEPT !.bodyLen = 17, !.connClose = token]
FragProg == LET base == [SimpleProgs[1] EXCEPT !.frag = "frag"] IN [base EXCEPT !.url = UrlOf(base)]
QuoteProg == Simple("POST", MultipartBody(<<KV("a\"b", "q")>>, << >>, "full"))
NoPathFragProg == LET base == [SimpleProgs[1] EXCEPT !.path = "", !.query = "", !.frag = "frag"] IN [base EXCEPT !.url = UrlOf(base)]
NoPathSlashQueryProg == LET base == [SimpleProgs[1] EXCEPT !.path = "", !.query = "x=a/b"] IN [base EXCEPT !.url = UrlOf(base)]
CasesK ==
    Flatten([b \in 1 .. 2 |->
       LET st == (b = 2) IN
       << [tag |-> "K-conn-Close", cutX |-> 0, cfg |-> KCfg(st, FALSE),
           xs |-> <<Exchange(SimpleProgs[1], CloseScript("Close"), 1), Exchange(SimpleProgs[1], ProbeScript, 2)>>],
          [tag |-> "K-conn-list-close", cutX |-> 0, cfg |-> KCfg(st, FALSE),
           xs |-> <<Exchange(SimpleProgs[1], CloseScript("foo, close"), 1), Exchange(SimpleProgs[1], ProbeScript, 2)>>],
          [tag |-> "K-proxy-fragment", cutX |-> 0, cfg |-> KCfg(st, TRUE), xs |-> <<Exchange(FragProg, ProbeScript, 1)>>],
          [tag |-> "K-multipart-quote", cutX |-> 0, cfg |-> KCfg(st, FALSE), xs |-> <<Exchange(QuoteProg, ProbeScript, 1)>>],
          [tag |-> "K-head-then-get", cutX |-> 0, cfg |-> KCfg(st, FALSE),
           xs |-> <<Exchange(HeadProg, [ProbeScript EXCEPT !.head = TRUE], 1), Exchange(SimpleProgs[1], ProbeScript, 2)>>],
          [tag |-> "K-connection-both", cutX |-> 0, cfg |-> KCfg(st, FALSE),
           xs |-> <<Exchange([SimpleProgs[1] EXCEPT !.special = <<Op("set", "Connection", "keep-alive"), Op("setClose", "", "")>>], ProbeScript, 1),
                    Exchange(SimpleProgs[1], ProbeScript, 2)>>],
          [tag |-> "K-authority-fragment", cutX |-> 0, cfg |-> KCfg(st, FALSE), xs |-> <<Exchange(NoPathFragProg, ProbeScript, 1)>>],
          [tag |-> "K-nonorm-empty-path", cutX |-> 0, cfg |-> [KCfg(st, FALSE) EXCEPT !.noNormPath = TRUE],
           xs |-> <<Exchange([NoPathSlashQueryProg EXCEPT !.query = "x=1", !.url = "http://example.com?x=1"], ProbeScript, 1)>>],
          [tag |-> "K-authority-query-slash", cutX |-> 0, cfg |-> KCfg(st, FALSE), xs |-> <<Exchange(NoPathSlashQueryProg, ProbeScript, 1)>>] >>])

AllCases == IF Mode \in {"cuts", "cutsbig"} THEN CasesC ELSE Flatten([c \in 1 .. 8 |-> CasesA(c - 1)]) \o CasesB \o CasesL \o CasesE \o CasesK
\* One Response object serves a whole sequence, handed to Do as it is -- except that after a HEAD exchange it is Reset()
\* first (known finding C11-skipbody-sticky: the SkipBody flag the client sets for HEAD survives into the next Do; its
\* minimal case K-head-then-get keeps the object as it is).
HeadThenMore(c) == \E x \in 1 .. Len(c.xs) - 1 : c.xs[x].prog.method = "HEAD"
CfgOf(c) == IF c.tag # "K-head-then-get" /\ HeadThenMore(c) THEN [c.cfg EXCEPT !.reuseResp = FALSE] ELSE c.cfg
Numbered == [q \in 1 .. Len(AllCases) |-> [id |-> q, tag |-> AllCases[q].tag, cutX |-> AllCases[q].cutX, cfg |-> CfgOf(AllCases[q]), xs |-> AllCases[q].xs]]

ASSUME \A q \in 1 .. Len(AllCases) : \A x \in DOMAIN AllCases[q].xs :
          WellFormedResp(AllCases[q].xs[x].script) /\ WellFormedProg(AllCases[q].xs[x].prog)
ASSUME ndJsonSerialize(IOEnv.VERIF_OUT, Numbered)

GenInit == InitWith(<< >>, FALSE)
GenNext == UNCHANGED vars
=============================================================================
