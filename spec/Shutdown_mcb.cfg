\* quick, exhaustive: 1 connection x 2 callers x hooks {any speed, beyond the deadline}
CONSTANTS
  Conns = {c1}
  Callers = {k1, k2}
  Hooks = {h1, h2}
  BeyondHooks = {h2}
  MaxReq = 1
  Transport = "standard"
  ServerRun = TRUE
  CasLoserErrors = TRUE
  ExitCheckAfterHandler = TRUE
  HooksConcurrent = TRUE
  CountAtAccept = TRUE
SYMMETRY Sym
SPECIFICATION Spec
INVARIANTS TypeOK ActiveCount ObligationsHold SecondShutdownErrors NotRunningErrors NoAcceptAfterClose HooksStartedAtReturn HooksAwaited InFlightAwaited AcceptedAwaited CloseAnnounced InFlightCompleted EndOK
