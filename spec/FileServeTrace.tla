--------------------------- MODULE FileServeTrace ---------------------------
(* Trace validation for C08.  Lines of the ndjson trace recorded by harness/drivers/c08 from the real engine:       *)
(*   Case{id, route, abr, compress, idx, gen, via, tree{lens, idxlen, outlen}, reqs[{path, tgt, method, range, ae}]}   *)
(*   Served{i, path, method, rstr, ae, status, cl, cr, enc, wlen, blen, runs[{f, from, to}], leak, rerr, ...}           *)
(*                                                                           one per request, in order               *)
(*   Panic{i, ...}                                      a panic escaped the handler: no action => rejected            *)
(*   Hang{i, ...}                                       the request did not return within the driver's watchdog time  *)
(*                                                      (e.g. a lock left held by a panic): no action => rejected;    *)
(*                                                      the driver abandons the case (End follows, also rejected)     *)
(*   End                                                                                                             *)
(* Every Served line must satisfy FileServe!Oblig for the request it answers, and must equal (status, CL, CR, body   *)
(* for the same method) every earlier answer of the same case to the same path and Range (cache / pooled reader).    *)
(* A rejected Served/Panic line is recorded in `bad` and validation goes on with the NEXT LINE (each answer is       *)
(* judged on its own), so one known defect does not hide another answer of the same case.                           *)
EXTENDS FileServe, Json, IOUtils

Trace == ndJsonDeserialize(IOEnv.VERIF_TRACE)

VARIABLES l,      \* next line to consume
          bad,    \* rejected lines
          cs,     \* the current case (NoCase between cases)
          k,      \* index of the next request of the case to be answered
          hist    \* answers so far in this case: sequence of [path, rstr, method, o]
tvars == <<l, bad, cs, k, hist>>

NoCase == [id |-> 0]
Line == Trace[l]
RangeOf(s) == {s[i] : i \in DOMAIN s}

FilesOf(tree) == LET L == RangeOf(tree.lens) IN
    [name \in {FName(n) : n \in L} \cup {IndexFile, AIndexFile} |->
        IF name = IndexFile THEN tree.idxlen ELSE IF name = AIndexFile THEN tree.alen ELSE CHOOSE n \in L : FName(n) = name]
\* (the tree.many empty files m/g000... are not listed: no case requests them and they have no bytes; the files OUT and
\*  OUTIDX (index.html in the PARENT of the root) are outside the root and therefore never in FilesOf)

WellFormedCase(c) ==
    /\ c.route \in {"fs", "fsrw", "file", "vhost"} /\ c.via \in {"read", "writeto", "iocopy"} /\ c.tree.mtime = MTime /\ c.mw \in BOOLEAN
    /\ c.route = "file" => c.abr /\ c.compress            \* ServeFile's rootFS has AcceptByteRange and Compress
    /\ Len(c.reqs) >= 1
    /\ \A i \in DOMAIN c.reqs :
         LET q == c.reqs[i] IN
         /\ q.method \in {"GET", "HEAD"} /\ WellFormedRange(q.range) /\ q.ae \in BOOLEAN /\ q.ims \in ImsKinds /\ q.imsstr = ImsStr(q.ims)
         /\ q.tgt \notin {"none", "dir", "any"} => q.tgt \in DOMAIN FilesOf(c.tree) /\ q.path = "/" \o q.tgt   \* plain path of that file
         /\ q.tgt = "none" => q.path \in {"/nofile", "/d/nofile", "/f9", "/f3x", "/index.html"} /\ "f9" \notin DOMAIN FilesOf(c.tree)
                                                                                              /\ "f3x" \notin DOMAIN FilesOf(c.tree)
         /\ q.tgt = "dir" => q.path \in {"/", "/d", "/d/", "/e", "/e/", "/m", "/m/", "/a", "/a/"}
         /\ c.route = "vhost" => q.tgt = "any"           \* <root>/<Host><path>: only "nothing from outside the root" is judged

\* the variables of the design (FileServe part 2) play no role in trace validation: frozen
TraceInit == /\ l = 1 /\ bad = << >> /\ cs = NoCase /\ k = 1 /\ hist = << >>
             /\ files = << >> /\ abr = FALSE /\ cache = {} /\ spool = {} /\ bpool = << >> /\ pc = "idle" /\ req = NoReq
             /\ rd = NoRd /\ out = NoOut /\ last = [req |-> NoReq, out |-> NoOut] /\ nreq = 0

TraceCase == /\ l <= Len(Trace) /\ Line.ev = "Case" /\ cs.id = 0
             /\ WellFormedCase(Line)
             /\ cs' = Line /\ k' = 1 /\ hist' = << >> /\ l' = l + 1 /\ UNCHANGED bad

Obs(e) == [status |-> e.status, cl |-> e.cl, cr |-> e.cr, runs |-> e.runs, leak |-> e.leak, enc |-> e.enc, wlen |-> e.wlen]

TraceServed == /\ l <= Len(Trace) /\ Line.ev = "Served" /\ cs.id # 0
               /\ k <= Len(cs.reqs) /\ Line.i = k
               /\ LET q == cs.reqs[k]
                      o == Obs(Line) IN
                  /\ Line.path = q.path /\ Line.method = q.method /\ Line.rstr = q.range.str /\ Line.ae = q.ae /\ Line.host = q.host /\ Line.ims = q.ims   \* the driver sent what the case says
                  /\ Line.rerr = ""                                                                \* reading the body stream did not fail
                  /\ Line.blen = BodyLen(Line.runs)
                  /\ Line.enc = "" => Line.wlen = Line.blen
                  /\ Oblig(FilesOf(cs.tree), cs.abr, cs.compress, q.ae, q.ims, q.tgt, q.method, q.range, o)
                  /\ \A j \in DOMAIN hist : hist[j].path = q.path /\ hist[j].rstr = q.range.str /\ hist[j].rkind = q.range.kind
                                              /\ hist[j].ae = q.ae /\ hist[j].host = q.host /\ hist[j].ims = q.ims => SameAnswer(hist[j].method, hist[j].o, q.method, o)
                  /\ hist' = Append(hist, [path |-> q.path, rstr |-> q.range.str, rkind |-> q.range.kind, ae |-> q.ae, host |-> q.host, ims |-> q.ims,
                                           method |-> q.method, o |-> o])
               /\ k' = k + 1 /\ l' = l + 1 /\ UNCHANGED <<bad, cs>>

TraceEnd == /\ l <= Len(Trace) /\ Line.ev = "End" /\ cs.id # 0 /\ k = Len(cs.reqs) + 1
            /\ cs' = NoCase /\ k' = 1 /\ hist' = << >> /\ l' = l + 1 /\ UNCHANGED bad

Normal == TraceCase \/ TraceServed \/ TraceEnd

NextCase(j) == IF \E i \in j + 1 .. Len(Trace) : Trace[i].ev = "Case"
               THEN CHOOSE i \in j + 1 .. Len(Trace) : Trace[i].ev = "Case" /\ \A h \in j + 1 .. i - 1 : Trace[h].ev # "Case"
               ELSE Len(Trace) + 1

\* a line that is no step of the specification
Mismatch == /\ l <= Len(Trace) /\ ~ENABLED Normal
            /\ bad' = Append(bad, l)
            /\ IF Line.ev = "Case"
               THEN IF cs.id # 0 THEN l' = l /\ cs' = NoCase /\ k' = 1 /\ hist' = << >>        \* previous case had no End: blame here, retry the Case line
                    ELSE l' = NextCase(l) /\ UNCHANGED <<cs, k, hist>>                             \* malformed case: skip it
               ELSE IF Line.ev = "End" \/ cs.id = 0
               THEN l' = l + 1 /\ cs' = NoCase /\ k' = 1 /\ hist' = << >>
               ELSE l' = l + 1 /\ k' = k + 1 /\ UNCHANGED <<cs, hist>>                             \* rejected answer / Panic: go on with the next request

MismatchEOF == /\ l = Len(Trace) + 1 /\ cs.id # 0
               /\ bad' = Append(bad, l) /\ cs' = NoCase /\ k' = 1 /\ hist' = << >> /\ l' = l

TraceNext == (Normal \/ Mismatch \/ MismatchEOF) /\ UNCHANGED vars

Report == (l = Len(Trace) + 1 /\ cs.id = 0) => PrintT(<<"@@BAD", bad, l - 1, Len(Trace)>>)
=============================================================================
