CONSTANTS
  SLen = 7
  MLen = 6
INIT GenInit
NEXT GenNext
