----------------------------- MODULE ByteQueue -----------------------------
(***************************************************************************)
(* C13 -- the buffered connection is a lossless FIFO byte stream.          *)
(*                                                                         *)
(* Abstract reference model of network.Reader / network.Writer as          *)
(* implemented by standard.Conn (pkg/network/standard/connection.go,       *)
(* buffer.go) and network.NewWriter (pkg/network/writer.go).               *)
(*                                                                         *)
(* Bytes are never represented.  The incoming stream is the fixed pattern  *)
(* stream (byte k is a function of k; any 4 consecutive bytes identify k), *)
(* so a piece of data is a RUN [f,t) of offsets.  The same holds for the   *)
(* outgoing stream (offsets of the bytes handed to the writer).            *)
(*                                                                         *)
(* State                                                                   *)
(*   eofAt   length of the incoming stream (the source ends there)         *)
(*   rcv     bytes the connection has taken from the source (socket reads) *)
(*   rd      bytes consumed by the caller                                  *)
(*   perr    error class delivered by the source and not yet reported      *)
(*           ("none" if there is none); term: the error is terminal        *)
(*           (eof/reset: every later socket read fails the same way)       *)
(*   peeks   runs of the slices returned by Peek since the last release    *)
(*   rel     release watermark: storage of bytes below rel may be reused   *)
(*   copies  runs returned by ReadBinary (copies: valid for ever)          *)
(*   wr      bytes handed to the writer (Malloc+fill, WriteBinary, Write)  *)
(*   flushed bytes the peer (sink) has received                            *)
(*   wip     size of a net.Conn.Write call in progress (0 = none)          *)
(*   res     observation of the last operation                             *)
(*   hEnd,hOK history summary: the runs returned by consuming operations   *)
(*           so far were contiguous from offset 0 and end at hEnd          *)
(*                                                                         *)
(* One action per method of the interface; every action takes the observed *)
(* result (k bytes, error class) as parameters and states when that result *)
(* is legal.  Transcribed behaviour (connection.go):                       *)
(*   Peek(n)       fill(n) blocks until n bytes are buffered or the socket *)
(*                 read fails; returns [rd,rd+n) or, at an error, k < n    *)
(*                 bytes (possibly none) and the error                     *)
(*   Skip(n)       never reads the socket: fails iff n > Len()             *)
(*   ReadByte      = Peek(1);Skip(1)     ReadBinary(n) = copy of Peek(n);  *)
(*                 Skip(n); on error nothing is consumed                   *)
(*   Read(p)       returns 0..len(p) bytes; calls Release internally       *)
(*   Release       everything before rd may be recycled; peeks die         *)
(*   Len           = rcv - rd                                              *)
(*   Malloc(n) / WriteBinary(b) / Flush / Write(b) / ReadFrom(r)           *)
(*                                                                         *)
(* Used by: ByteQueue_mc*.cfg (exhaustive, quantified results),            *)
(* ByteQueueTrace (logged results of the real connection), LinkBuffer      *)
(* (stage 2: results computed from the node geometry; refinement).         *)
(*                                                                         *)
(* Deliberately unconstrained                                              *)
(*   - how much the connection reads ahead and when (rcv only has to cover *)
(*     what was returned); allocation strategy, node geometry (stage 2)    *)
(*   - at a source error: whether a short Peek/ReadBinary returns the      *)
(*     partial data or nothing (k is any value < n, <= buffered)           *)
(*   - whether an error that was delivered together with data is reported  *)
(*     at all, and which class Skip's "not enough" error has               *)
(*   - Read may return fewer bytes than asked, even 0, and may or may not  *)
(*     release (the model assumes it does: peeks are not judged after it)  *)
(*   - the peer may receive written bytes before Flush (never after)       *)
(***************************************************************************)
EXTENDS Integers, Sequences, FiniteSets, TLC

CONSTANTS Sizes,      \* operation sizes of the exhaustive configuration
          EofAts,     \* stream lengths of the exhaustive configuration
          MaxSteps,   \* operations per behaviour in the exhaustive configuration
          MaxPeeks,   \* outstanding peeks per behaviour in the exhaustive configuration
          MaxK,       \* largest result size tried for a short (failing) call in the exhaustive configuration
          MaxDeliver, \* largest single delivery of the source / to the sink in the exhaustive configuration
          Parts       \* subset of {"rd", "wr"}: which side(s) the exhaustive configuration exercises (the two
                      \* sides share no state in the model; in the code they share only the net.Conn)

VARIABLES eofAt, rcv, rd, perr, term, peeks, rel, copies, wr, flushed, wip, res, hEnd, hOK, steps

vars == <<eofAt, rcv, rd, perr, term, peeks, rel, copies, wr, flushed, wip, res, hEnd, hOK, steps>>
rvars == <<rd, perr, peeks, rel, copies, hEnd, hOK>>   \* reader side
wvars == <<wr, flushed, wip>>                           \* writer side
svars == <<eofAt, rcv, term>>                           \* source side (perr is shared)

Terminal == {"eof", "reset"}
Transient == {"timeout"}
NoRun == [f |-> 0, t |-> 0, nr |-> 0]
Run(f, k) == IF k = 0 THEN NoRun ELSE [f |-> f, t |-> f + k, nr |-> 1]
Avail == rcv - rd
NoRes == [k |-> "none", n |-> 0, cnt |-> 0, run |-> NoRun, cls |-> "ok", len |-> 0, rcv |-> 0, ab |-> 0]
\* ab: bytes of the caller's own buffers (the arrays behind the WriteBinary / Write arguments, including their spare
\* capacity) that no longer hold what the caller put there: always 0 -- the writer only reads what it is given.
\* rcv: bytes received when the operation returned (the source may deliver more afterwards only through a later op)
Res(kind, n, k, run, cls, ln) == [k |-> kind, n |-> n, cnt |-> k, run |-> run, cls |-> cls, len |-> ln, rcv |-> rcv, ab |-> 0]

InitWith(e) == /\ eofAt = e /\ rcv = 0 /\ rd = 0 /\ perr = "none" /\ term = FALSE
               /\ peeks = << >> /\ rel = 0 /\ copies = << >> /\ wr = 0 /\ flushed = 0 /\ wip = 0
               /\ res = NoRes /\ hEnd = 0 /\ hOK = TRUE /\ steps = 0

Init == \E e \in EofAts : InitWith(e)

---------------------------------------------------------------------------
(* the source: socket reads issued by the connection (conn.c.Read in fill / Read) *)

Deliver(m) == /\ m > 0 /\ ~term /\ rcv + m <= eofAt
              /\ rcv' = rcv + m
              /\ UNCHANGED <<eofAt, term, perr>>

\* the read that reaches the end of the stream fails (alone, or together with its last data)
SrcEnd(cls) == /\ cls \in Terminal /\ rcv = eofAt
               /\ perr' = cls /\ term' = TRUE
               /\ UNCHANGED <<eofAt, rcv>>

\* a read deadline fires: nothing is lost, the next read continues
SrcTimeout == /\ ~term /\ perr' = "timeout" /\ UNCHANGED <<eofAt, rcv, term>>

---------------------------------------------------------------------------
(* reader *)

\* an error may be reported only if the source delivered it and it has not been reported yet
Fails(cls) == cls # "ok" /\ cls = perr
Reported == perr' = IF term THEN perr ELSE "none"

Consume(run) == /\ hOK' = (hOK /\ (run.nr = 0 \/ (run.nr = 1 /\ run.f = hEnd)))
                /\ hEnd' = IF run.nr = 0 THEN hEnd ELSE run.t

Peek(n, k, cls) ==
    /\ \/ cls = "ok" /\ k = n /\ n <= Avail /\ UNCHANGED perr
       \/ Fails(cls) /\ k < n /\ k <= Avail /\ n > Avail /\ Reported
    /\ peeks' = IF k > 0 THEN Append(peeks, Run(rd, k)) ELSE peeks
    /\ res' = Res("Peek", n, k, Run(rd, k), cls, Avail)
    /\ UNCHANGED <<rd, rel, copies, hEnd, hOK>>

Skip(n, cls) ==
    /\ \/ cls = "ok" /\ n <= Avail /\ rd' = rd + n /\ Consume(Run(rd, n))
       \/ cls # "ok" /\ n > Avail /\ UNCHANGED <<rd, hEnd, hOK>>
    /\ res' = Res("Skip", n, 0, NoRun, cls, rcv - rd')
    /\ UNCHANGED <<perr, peeks, rel, copies>>

\* c = bytes consumed by a failing call (0 in the implementation; k is tolerated as well)
ReadCopy(kind, n, k, cls, c) ==
    /\ \/ cls = "ok" /\ k = n /\ n <= Avail /\ c = n /\ UNCHANGED perr
       \/ Fails(cls) /\ k < n /\ k <= Avail /\ n > Avail /\ c \in {0, k} /\ Reported
    /\ rd' = rd + c
    /\ Consume(Run(rd, c))
    /\ copies' = IF k > 0 /\ kind = "ReadBinary" THEN Append(copies, Run(rd, k)) ELSE copies
    /\ res' = Res(kind, n, k, Run(rd, k), cls, rcv - rd')
    /\ UNCHANGED <<peeks, rel>>

ReadBinary(n, k, cls, c) == ReadCopy("ReadBinary", n, k, cls, c)
ReadByte(k, cls, c) == ReadCopy("ReadByte", 1, k, cls, c)

Read(n, k, cls) ==
    /\ k >= 0 /\ k <= n /\ k <= Avail
    /\ \/ cls = "ok" /\ UNCHANGED perr
       \/ Fails(cls) /\ Reported
    /\ rd' = rd + k
    /\ Consume(Run(rd, k))
    /\ peeks' = << >> /\ rel' = rd'
    /\ res' = Res("Read", n, k, Run(rd, k), cls, rcv - rd')
    /\ UNCHANGED copies

Release ==
    /\ peeks' = << >> /\ rel' = rd
    /\ res' = Res("Release", 0, 0, NoRun, "ok", Avail)
    /\ UNCHANGED <<rd, perr, copies, hEnd, hOK>>

LenOp(v) ==
    /\ v = Avail
    /\ res' = Res("Len", 0, v, NoRun, "ok", Avail)
    /\ UNCHANGED rvars

\* one reader operation with its observed result (used by the exhaustive configuration with quantified results,
\* by ByteQueueTrace with the logged results, by LinkBuffer with the results computed from the node geometry);
\* c = bytes consumed by a failing ReadBinary/ReadByte
RdOp(kind, n, k, cls, c) ==
    \/ kind = "Peek" /\ Peek(n, k, cls)
    \/ kind = "Skip" /\ Skip(n, cls)
    \/ kind = "ReadBinary" /\ ReadBinary(n, k, cls, c)
    \/ kind = "ReadByte" /\ n = 1 /\ ReadByte(k, cls, c)
    \/ kind = "Read" /\ Read(n, k, cls)
    \/ kind = "Release" /\ Release
    \/ kind = "Len" /\ cls = "ok" /\ LenOp(k)

---------------------------------------------------------------------------
(* writer *)

SinkRecv(m) == /\ m > 0 /\ flushed + m <= wr /\ flushed' = flushed + m /\ UNCHANGED <<wr, wip>>

Malloc(n, k) == /\ wip = 0 /\ k = n /\ wr' = wr + n /\ UNCHANGED <<flushed, wip>>
                /\ res' = Res("Malloc", n, k, NoRun, "ok", Avail)
WriteBinary(n, k) == /\ wip = 0 /\ k = n /\ wr' = wr + n /\ UNCHANGED <<flushed, wip>>
                     /\ res' = Res("WriteBinary", n, k, NoRun, "ok", Avail)
\* Flush returns only when the peer has everything
Flush == /\ wip = 0 /\ flushed = wr /\ UNCHANGED <<wr, flushed, wip>>
         /\ res' = Res("Flush", 0, 0, NoRun, "ok", Avail)
\* net.Conn.Write(b): flush, then hand b to the socket; it returns when the peer has everything.
\* Two steps, because the peer receives b while the call is in progress.
WriteBegin(n) == /\ wip = 0 /\ n > 0 /\ wr' = wr + n /\ wip' = n /\ UNCHANGED flushed
WriteEnd(n, k) == /\ (wip = n \/ (n = 0 /\ wip = 0)) /\ k = n /\ flushed = wr /\ wip' = 0 /\ UNCHANGED <<wr, flushed>>
                  /\ res' = Res("Write", n, k, NoRun, "ok", Avail)

\* Conn.ReadFrom(r) (io.ReaderFrom): flush, then stream r through the output buffer; n = bytes r yields.  Part of the
\* n bytes may reach the peer while the call is in progress (WriteBegin), the rest stays buffered until the next Flush.
ReadFromEnd(n, k) == /\ k = n
                     /\ \/ wip = n /\ n > 0 /\ UNCHANGED wr
                        \/ wip = 0 /\ wr' = wr + n
                     /\ wip' = 0 /\ UNCHANGED flushed
                     /\ res' = Res("ReadFrom", n, k, NoRun, "ok", Avail)

WrOp(kind, n, k, cls) ==
    /\ cls = "ok"
    /\ \/ kind = "Malloc" /\ Malloc(n, k)
       \/ kind = "WriteBinary" /\ WriteBinary(n, k)
       \/ kind = "Flush" /\ Flush
       \/ kind = "Write" /\ WriteEnd(n, k)
       \/ kind = "ReadFrom" /\ ReadFromEnd(n, k)

---------------------------------------------------------------------------
(* exhaustive configuration: all interleavings of source, sink, reader and writer operations *)

Step == steps < MaxSteps /\ steps' = steps + 1

SrcStep == \/ \E m \in 1 .. MaxDeliver : Deliver(m)
           \/ \E c \in Terminal : SrcEnd(c)
           \/ SrcTimeout
SrcNext == /\ SrcStep
           /\ UNCHANGED <<rd, peeks, rel, copies, hEnd, hOK, wr, flushed, wip, res, steps>>

Min2(a, b) == IF a < b THEN a ELSE b
ErrOrOk == {"ok"} \cup (IF perr = "none" THEN {} ELSE {perr}) \cup {"eof"}   \* "eof" without a source error: must be disabled
KDom == 0 .. Min2(MaxK, Avail + 1)
RdNext == /\ \/ \E n \in Sizes, k \in KDom, c \in ErrOrOk : Len(peeks) < MaxPeeks /\ RdOp("Peek", n, k, c, 0)
             \/ \E n \in Sizes, c \in {"ok", "other"} : RdOp("Skip", n, 0, c, 0)
             \/ \E n \in Sizes, k \in KDom, c \in ErrOrOk, d \in KDom : Len(copies) < 2 /\ d <= k /\ RdOp("ReadBinary", n, k, c, d)
             \/ \E k \in 0 .. 1, c \in ErrOrOk, d \in 0 .. 1 : RdOp("ReadByte", 1, k, c, d)
             \/ \E n \in Sizes, k \in KDom, c \in ErrOrOk : RdOp("Read", n, k, c, 0)
             \/ RdOp("Release", 0, 0, "ok", 0)
             \/ \E v \in 0 .. MaxK + 2 : RdOp("Len", 0, v, "ok", 0)
          /\ Step /\ UNCHANGED <<eofAt, rcv, term, wr, flushed, wip>>

WrNext == /\ \/ \E n \in Sizes : WrOp("Malloc", n, n, "ok") /\ Step
             \/ \E n \in Sizes : WrOp("WriteBinary", n, n, "ok") /\ Step
             \/ WrOp("Flush", 0, 0, "ok") /\ Step
             \/ \E n \in Sizes : WriteBegin(n) /\ UNCHANGED <<res, steps>>
             \/ \E n \in Sizes : WrOp("Write", n, n, "ok") /\ Step
             \/ \E n \in Sizes : WrOp("ReadFrom", n, n, "ok") /\ Step
             \/ \E m \in 1 .. MaxDeliver : SinkRecv(m) /\ UNCHANGED <<res, steps>>
          /\ UNCHANGED <<eofAt, rcv, term, rd, perr, peeks, rel, copies, hEnd, hOK>>

Next == \/ "rd" \in Parts /\ (SrcNext \/ RdNext)
        \/ "wr" \in Parts /\ WrNext
Spec == Init /\ [][Next]_vars

---------------------------------------------------------------------------
(* the property *)

TypeOK == /\ 0 <= rd /\ rd <= rcv /\ rcv <= eofAt
          /\ 0 <= flushed /\ flushed <= wr /\ 0 <= wip /\ wip <= wr
          /\ perr \in {"none"} \cup Terminal \cup Transient
          /\ (term => rcv = eofAt /\ perr \in Terminal)

\* the bytes returned by consuming operations are exactly the stream [0, rd): in order, no gap, no repeat
NoLossNoDup == hOK /\ hEnd = rd
\* what an operation returns is the run that starts at the read position and lies within what was received
ResultIsNext == res.run.nr = 1 => res.run.t <= res.rcv /\ res.run.t - res.run.f = res.cnt
\* Len() is the number of buffered, unconsumed bytes
LenExact == /\ res.len = res.rcv - rd
            /\ (res.k = "Len" => res.cnt = res.rcv - rd)
\* every outstanding peeked slice lies in storage that has not been released, and inside the received stream
PeekStable == \A i \in DOMAIN peeks : peeks[i].nr = 1 /\ peeks[i].f >= rel /\ peeks[i].t <= rcv
                                       /\ peeks[i].f < peeks[i].t
CopiesValid == \A i \in DOMAIN copies : copies[i].nr = 1 /\ copies[i].t <= rcv
\* when Flush (or Write) returns the peer has received exactly everything written
FlushComplete == (res.k \in {"Flush", "Write"} /\ wip = 0) => flushed = wr
\* a short Peek/ReadBinary/ReadByte happens only at a source error
ShortOnlyAtError == (res.k \in {"Peek", "ReadBinary", "ReadByte"} /\ res.cnt < res.n) => res.cls # "ok"
\* buffers handed to WriteBinary / Write, and the memory around them, are never modified by the writer
CallerIntact == res.ab = 0
\* the peer never receives anything that was not written, and never out of order (flushed is a prefix length)
SinkPrefix == flushed <= wr
=============================================================================
