\* every declaration of 1..2 methods, paths of depth <= 3, verbs incl. Any, both tree modes
CONSTANTS
  McInner = {"a", "b"}
  McLast = {"a", "b", ""}
  McVerbs = {"GET", "Any"}
  McMaxDepth = 3
  McMaxMethods = 2
SPECIFICATION Spec
INVARIANTS GroupsArePathInTree OneNodePerMethod SortKeepsHandlersLeaf DesignMeetsObligations Sensitive
