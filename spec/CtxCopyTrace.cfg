CONSTANTS
  MaxSteps = 1000000
  MaxRecycle = 1000000
  MultipartFix = TRUE
  PreParsed = {FALSE}
  Variant = "asis"
INIT TraceInit
NEXT TraceNext
INVARIANTS Report ModelOK
