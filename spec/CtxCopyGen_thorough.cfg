CONSTANTS
  MaxSteps = 2
  MaxRecycle = 2
  MultipartFix = TRUE
  PreParsed = {FALSE}
  Variant = "asis"
  PairMod = 2
  NTriple = 30000
  FreshMod = 1
  NBg = 3
  BgConns = 16
  BgRounds = 40
  KeysReaders = 8
  KeysRounds = 2000
INIT GenInit
NEXT GenNext
