----------------------------- MODULE HostMapObs -----------------------------
(***************************************************************************************************************)
(* The deterministic OBSERVER for X05: what can be said about a history of client.Client's host-client map      *)
(* from the events harness/drivers/x05 records, without seeing the silent step (the map lookup that hits).      *)
(* OStep(o, e) : state x event -> state is a pure function (one successor per recorded line); o.ok = FALSE means *)
(* "no behaviour of the corrected HostMap produces this history".  spec/HostMapObsMC.tla checks that every       *)
(* behaviour of HostMap (corrected constants) is accepted, and that the as-written one is not.                   *)
(*                                                                                                             *)
(* Where the events come from (all of one case are totally ordered by the recorder's mutex):                    *)
(*   Begin/End        driver, around Client.Do          New      factory.NewHostClient (under mLock; mode wrap)  *)
(*   Config           HostClientConfigHook (under mLock, after SetDynamicConfig, before the insert)              *)
(*   Use/Done         wrapper.Do entry / after the real HostClient.Do returned (wrap); hook do.enter/do.exit     *)
(*   Cnt              hook H2 under connsLock: connsCount after acq.create / dec.count                           *)
(*   Dial             hook dial.ok        Req/Resp/Closed   the scripted peer connection                         *)
(*   Should/Close     wrapper.ShouldRemove / Close = the cleaner under mLock (g = goroutine, t = tick label)      *)
(*   CIBegin/CIVisit/CIEnd  around / inside Client.CloseIdleConnections    SleepBegin/Sleep  driver slept        *)
(*   ObsPre/ObsBegin/ObsCount/Observe  state-observer callbacks      Final  ConnPoolState at the end             *)
(*                                                                                                             *)
(* A history is REJECTED for (clauses of HostMap.tla):                                                          *)
(*  (1) a second HostClient created for a key that has one (New / Config with the key present; in mode plain     *)
(*      the old one must have no connection: its removal is inferred); a call served by a HostClient that was    *)
(*      not the key's HostClient at any moment of the call, or that has been removed (orphan: Use, Cnt going up, *)
(*      Dial on a removed HostClient); connsCount above MaxConnsPerHost; ErrNoFreeConns without the limit        *)
(*      having been reached during the call.                                                                    *)
(*  (2) key / address / https flag / option fields of the created HostClient differing from what the request     *)
(*      and the client options say (Key, Addr below; upper case and the source of the host do not matter).       *)
(*  (3) Should = TRUE with connections, FALSE with none and no call of that key in flight; a visit of a          *)
(*      HostClient not in the map, twice in a tick, by a goroutine that is not the map's cleaner (second cleaner, *)
(*      a cleaner that had ended); a tick that skipped a HostClient no call was using; removal without Close / Close without       *)
(*      removal; an idle HostClient still there after a sleep of >= LongSleep ms; TickTimeout.                    *)
(*  (4) observer callbacks with a wrong address / limit; callbacks still arriving 5 intervals after the removal  *)
(*      (or for a HostClient that never was in the map); none in 20 intervals for one in the map.               *)
(*  (5) CIEnd with a HostClient of either map, on which no call was in progress, still holding connections; a    *)
(*      connection closed between Req and Resp; (wrap) a HostClient of the maps not visited.                    *)
(*  (6) Panic, Hang (no action), any map event inside CIBegin..CIEnd or inside a tick (mLock).                   *)
(* Deliberately unconstrained: which error text, Host header, dial results, the order of a tick, tick timing     *)
(* (beyond LongSleep and the driver's tick wait), what Should answers when the recorder was not sure.            *)
(***************************************************************************************************************)
EXTENDS Integers, Sequences, FiniteSets, TLC

OHC == 1 .. 16
OCalls == 1 .. 24
LongSleep == 13000
Flavs == {"h", "s"}

ONoHC == [st |-> "none", k |-> "-", f |-> "h", addr |-> "-", cnt |-> 0, open |-> {}]
ONoCall == [st |-> "none", k |-> "-", f |-> "h", addr |-> "-", cand |-> {}, hc |-> 0, full |-> FALSE, drop |-> FALSE]
ONoCl == [run |-> FALSE, g |-> 0, dead |-> {}, t |-> 0, due |-> {}, skipok |-> {}, must |-> 0, mg |-> 0]

OInit(c) == [ok |-> TRUE, mode |-> c.mode, max |-> c.maxConns, wait |-> c.waitMs, idle |-> c.idleMs, obsms |-> c.obsMs,
             hookErr |-> c.hookErr, facErr |-> c.facErr,
             m |-> [x \in {} |-> 0], hcs |-> [h \in OHC |-> ONoHC], calls |-> [p \in OCalls |-> ONoCall],
             busy |-> {}, cl |-> [f \in Flavs |-> ONoCl], ci |-> [in |-> FALSE, act |-> {}, seen |-> {}],
             sl |-> {}, ob |-> [gone |-> {}, failed |-> {}, live |-> {}]]
OBlankCase == [mode |-> "wrap", maxConns |-> 1, waitMs |-> 0, idleMs |-> 0, obsMs |-> 0, hookErr |-> 0, facErr |-> 0]

OReject(o) == [o EXCEPT !.ok = FALSE]
Has(o, k) == k \in DOMAIN o.m /\ o.m[k] # 0
Put(mm, k, v) == [x \in DOMAIN mm \cup {k} |-> IF x = k THEN v ELSE mm[x]]
MapHcs(o, f) == {o.m[k] : k \in {x \in DOMAIN o.m : o.m[x] # 0 /\ o.hcs[o.m[x]].f = f}}
AllMapHcs(o) == MapHcs(o, "h") \cup MapHcs(o, "s")
InFlight(o, k) == \E p \in OCalls : o.calls[p].k = k /\ o.calls[p].st \in {"begun", "creating", "used", "done"}
NoCalls(o) == \A p \in OCalls : o.calls[p].st \in {"none", "ended"}
UsedOn(o, h) == {p \in OCalls : o.calls[p].st = "used" /\ o.calls[p].hc = h}
\* nothing is owed: the cleaner of flavour f is not between a delete and its Close (it holds mLock there)
ClQuiet(o, f) == o.cl[f].must = 0
\* A tick may pass over a HostClient without asking ShouldRemove when a request is using it (the corrected code
\* does).  due = HostClients of the map the current tick has not visited; skipok = those a call of whose key was
\* in flight at some moment since the tick began.  When the tick is over (next tick, end of the case): due <= skipok.
InFlightHcs(o, f) == {h \in MapHcs(o, f) : InFlight(o, o.hcs[h].k)}
TickComplete(o, f) == o.cl[f].due \subseteq o.cl[f].skipok \cup InFlightHcs(o, f)

\* clause 2: the key and the address of a request (the driver maps host a to "a.test"; `up` and `via` are ignored:
\* the URI lower-cases the host, and the Host header is a source of the host like the URL)
IsS(e) == e.sch = "https"
Key(e) == (IF IsS(e) THEN "s|" ELSE "h|") \o e.host \o (IF e.port = "" THEN "" ELSE ":" \o e.port)
Addr(e) == e.host \o ".test:" \o (IF e.port # "" THEN e.port ELSE IF IsS(e) THEN "443" ELSE "80")

OBegin(o, e) ==
    IF e.p \in OCalls /\ o.calls[e.p].st = "none"
    THEN LET k == Key(e) IN
         [o EXCEPT !.calls[e.p] = [ONoCall EXCEPT !.st = "begun", !.k = k, !.f = IF IsS(e) THEN "s" ELSE "h",
                                                  !.addr = Addr(e), !.cand = IF Has(o, k) THEN {o.m[k]} ELSE {}],
                   !.sl = {}]
    ELSE OReject(o)

ONew(o, e) ==
    IF e.p \in OCalls /\ o.mode = "wrap" /\ o.calls[e.p].st = "begun" /\ ~o.ci.in /\ ClQuiet(o, o.calls[e.p].f)
    THEN LET c == o.calls[e.p] IN
         IF e.err THEN (IF o.facErr = e.p THEN [o EXCEPT !.calls[e.p].st = "facfail"] ELSE OReject(o))
         ELSE IF ~Has(o, c.k) /\ e.hc \in OHC /\ o.hcs[e.hc].st = "none" /\ o.facErr # e.p
              THEN [o EXCEPT !.hcs[e.hc] = [ONoHC EXCEPT !.st = "new", !.k = c.k, !.f = c.f, !.addr = c.addr],
                             !.calls[e.p].st = "creating", !.calls[e.p].hc = e.hc]
              ELSE OReject(o)
    ELSE OReject(o)

\* the insert that follows a successful hook: the key's HostClient from now on; a first entry starts a cleaner
OInsert(o, p, h) ==
    LET c == o.calls[p]
        first == MapHcs(o, c.f) = {}
        cl0 == o.cl[c.f]
        hcs1 == [o.hcs EXCEPT ![h] = [ONoHC EXCEPT !.st = "live", !.k = c.k, !.f = c.f, !.addr = c.addr]]
    IN [o EXCEPT !.hcs = hcs1, !.m = Put(o.m, c.k, h),
                 !.calls = [q \in OCalls |-> IF (o.calls[q].st = "begun" /\ o.calls[q].k = c.k) \/ q = p
                                             THEN [o.calls[q] EXCEPT !.st = "begun", !.hc = 0, !.cand = @ \cup {h}]
                                             ELSE o.calls[q]],
                 !.cl[c.f] = IF first THEN [ONoCl EXCEPT !.run = TRUE, !.t = cl0.t,
                                                         !.dead = cl0.dead \cup (IF cl0.g = 0 THEN {} ELSE {cl0.g})]
                             ELSE cl0]

OConfig(o, e) ==
    IF e.p \in OCalls /\ e.hc \in OHC /\ ~o.ci.in /\ ClQuiet(o, o.calls[e.p].f)
    THEN LET c == o.calls[e.p]
             fields == /\ e.addr = c.addr /\ e.tls = (c.f = "s") /\ e.max = o.max /\ e.idleMs = o.idle
                       /\ e.waitMs = o.wait /\ e.obs = (o.obsms > 0) /\ (e.obs => e.obsMs = o.obsms)
                       /\ e.err = (o.hookErr = e.p)
             \* mode plain: the removal of the previous HostClient of the key was not seen; it is inferred
             old == IF Has(o, c.k) THEN o.m[c.k] ELSE 0
             o1 == IF o.mode = "plain" /\ old # 0
                   THEN [o EXCEPT !.hcs[old].st = "removed", !.m = Put(o.m, c.k, 0)] ELSE o
             pre == IF o.mode = "wrap" THEN c.st = "creating" /\ c.hc = e.hc
                    ELSE c.st = "begun" /\ o.hcs[e.hc].st = "none"
                         /\ (old # 0 => o.hcs[old].cnt = 0 /\ o.hcs[old].open = {})
         IN IF pre /\ fields
            THEN IF e.err THEN [o1 EXCEPT !.hcs[e.hc] = [ONoHC EXCEPT !.st = "failed", !.k = c.k, !.f = c.f, !.addr = c.addr],
                                          !.calls[e.p].st = "failing"]
                 ELSE OInsert(o1, e.p, e.hc)
            ELSE OReject(o)
    ELSE OReject(o)

OUse(o, e) ==
    IF e.p \in OCalls /\ e.hc \in OHC /\ o.calls[e.p].st = "begun" /\ e.hc \in o.calls[e.p].cand
       /\ o.hcs[e.hc].st = "live"
    THEN [o EXCEPT !.calls[e.p].st = "used", !.calls[e.p].hc = e.hc,
                   !.calls[e.p].full = (o.hcs[e.hc].cnt >= o.max),
                   !.ci.act = IF o.ci.in THEN @ \cup {e.hc} ELSE @]
    ELSE OReject(o)

OCnt(o, e) ==
    IF e.hc \in OHC /\ o.hcs[e.hc].st # "none"
    THEN LET h == o.hcs[e.hc]
             up == e.n = h.cnt + 1
             o1 == [o EXCEPT !.hcs[e.hc].cnt = e.n,
                             !.calls = [p \in OCalls |-> IF p \in UsedOn(o, e.hc) /\ e.n >= o.max
                                                         THEN [o.calls[p] EXCEPT !.full = TRUE] ELSE o.calls[p]],
                             !.sl = IF up THEN @ \ {e.hc} ELSE @]
         IN IF up THEN (IF h.st = "live" /\ e.n <= o.max /\ UsedOn(o, e.hc) # {} THEN o1 ELSE OReject(o))
            ELSE IF e.n = h.cnt - 1 /\ e.n >= 0 THEN o1 ELSE OReject(o)
    ELSE OReject(o)

ODial(o, e) ==
    IF ~e.ok THEN o
    ELSE IF e.hc \in OHC /\ o.hcs[e.hc].st = "live" /\ e.conn > 0
            /\ (\A h \in OHC : e.conn \notin o.hcs[h].open)
            \* (with MaxConnWaitTimeout a closing connection hands its slot to a background dialer before it is closed)
            /\ (o.wait = 0 => Cardinality(o.hcs[e.hc].open) + 1 <= o.hcs[e.hc].cnt)
         THEN [o EXCEPT !.hcs[e.hc].open = @ \cup {e.conn}]
         ELSE OReject(o)

OReq(o, e) ==
    IF e.p \in OCalls /\ o.calls[e.p].st = "used" /\ e.conn \notin o.busy
    THEN LET h == o.hcs[o.calls[e.p].hc] IN
         IF e.conn \in h.open /\ e.addr = h.addr /\ e.tls = (h.f = "s")
         THEN [o EXCEPT !.busy = @ \cup {e.conn}] ELSE OReject(o)
    ELSE OReject(o)

OResp(o, e) == IF e.conn \in o.busy /\ e.p \in OCalls
               THEN [o EXCEPT !.busy = @ \ {e.conn}, !.calls[e.p].drop = @ \/ e.how = "drop"] ELSE OReject(o)

OClosed(o, e) ==
    IF e.conn \notin o.busy /\ \E h \in OHC : e.conn \in o.hcs[h].open
    THEN [o EXCEPT !.hcs = [h \in OHC |-> [o.hcs[h] EXCEPT !.open = @ \ {e.conn}]]]
    ELSE OReject(o)

ODone(o, e) == IF e.p \in OCalls /\ o.calls[e.p].st = "used" /\ o.calls[e.p].hc = e.hc
               THEN [o EXCEPT !.calls[e.p].st = "done"] ELSE OReject(o)

OEndCall(o, e) ==
    IF e.p \in OCalls
    THEN LET c == o.calls[e.p]
             okk == \/ c.st = "done" /\ e.res = "ok" /\ e.body = "r" \o ToString(e.p)
                    \/ c.st = "done" /\ e.res = "nofree" /\ c.full
                    \/ c.st = "done" /\ e.res = "err" /\ c.drop
                    \/ c.st = "failing" /\ e.res = "hookerr"
                    \/ c.st = "facfail" /\ e.res = "facerr"
         IN IF okk THEN [o EXCEPT !.calls[e.p].st = "ended",
                                  !.cl[c.f].skipok = IF Has(o, c.k) THEN @ \cup {o.m[c.k]} ELSE @]
            ELSE OReject(o)
    ELSE OReject(o)
\* ---------------------------------------------------------------- the cleaner (mode wrap)
OShould(o, e) ==
    IF e.hc \in OHC /\ o.hcs[e.hc].st = "live" /\ Has(o, o.hcs[e.hc].k) /\ o.m[o.hcs[e.hc].k] = e.hc /\ ~o.ci.in
    THEN LET h == o.hcs[e.hc]
             cl == o.cl[h.f]
             newtick == e.t # cl.t
             due0 == IF newtick THEN MapHcs(o, h.f) ELSE cl.due
             resOK == ~e.sure \/ (IF e.res THEN h.cnt = 0 ELSE h.cnt > 0 \/ InFlight(o, h.k))
             due1 == due0 \ {e.hc}
             m1 == IF e.res THEN Put(o.m, h.k, 0) ELSE o.m
             left == {m1[k] : k \in {x \in DOMAIN m1 : m1[x] # 0 /\ o.hcs[m1[x]].f = h.f}}
             ends == due1 = {} /\ left = {}           \* the tick is over and the map is empty: the goroutine ends
         IN IF /\ cl.run /\ e.g \notin cl.dead /\ cl.g \in {0, e.g} /\ cl.must = 0
               /\ (newtick => TickComplete(o, h.f) /\ e.t > cl.t) /\ e.hc \in due0 /\ resOK
            THEN [o EXCEPT !.m = m1, !.hcs[e.hc].st = IF e.res THEN "removed" ELSE "live",
                           !.cl[h.f] = [cl EXCEPT !.t = e.t, !.due = due1,
                                                  !.skipok = IF newtick THEN InFlightHcs(o, h.f) ELSE @, !.must = IF e.res THEN e.hc ELSE 0, !.mg = e.g,
                                                  !.run = ~ends, !.g = IF ends THEN 0 ELSE e.g,
                                                  !.dead = IF ends THEN @ \cup {e.g} ELSE @]]
            ELSE OReject(o)
    ELSE OReject(o)

\* Close: owed by the cleaner after a removal; or of a HostClient whose hook failed (it never entered the map)
OClose(o, e) ==
    IF e.hc \in OHC /\ o.hcs[e.hc].st = "failed" THEN [o EXCEPT !.hcs[e.hc].st = "failedclosed"]
    ELSE IF e.hc \in OHC /\ o.cl[o.hcs[e.hc].f].must = e.hc /\ o.cl[o.hcs[e.hc].f].mg = e.g
    THEN [o EXCEPT !.cl[o.hcs[e.hc].f].must = 0] ELSE OReject(o)

\* ---------------------------------------------------------------- Client.CloseIdleConnections
OCIBegin(o, e) ==
    IF ~o.ci.in /\ \A f \in Flavs : ClQuiet(o, f)
    THEN [o EXCEPT !.ci = [in |-> TRUE, act |-> {h \in OHC : UsedOn(o, h) # {}}, seen |-> {}]]
    ELSE OReject(o)
OCIVisit(o, e) ==
    IF o.ci.in /\ e.hc \in AllMapHcs(o) /\ e.hc \notin o.ci.seen
    THEN [o EXCEPT !.ci.seen = @ \cup {e.hc}] ELSE OReject(o)
OCIEnd(o, e) ==
    IF /\ o.ci.in
       /\ \A h \in AllMapHcs(o) : h \notin o.ci.act => o.hcs[h].cnt = 0 /\ o.hcs[h].open = {}
       /\ (o.mode = "wrap" => o.ci.seen = AllMapHcs(o))
    THEN [o EXCEPT !.ci.in = FALSE] ELSE OReject(o)

\* ---------------------------------------------------------------- a long sleep of the driver contains a tick
OSleepBegin(o, e) == [o EXCEPT !.sl = IF NoCalls(o) THEN {h \in AllMapHcs(o) : o.hcs[h].cnt = 0} ELSE {}]
OSleep(o, e) ==
    IF e.ms < LongSleep THEN [o EXCEPT !.sl = {}]
    ELSE IF o.mode = "wrap"
         THEN (IF \A h \in o.sl : o.hcs[h].st = "removed" THEN [o EXCEPT !.sl = {}] ELSE OReject(o))
         ELSE [o EXCEPT !.sl = {},
                        !.hcs = [h \in OHC |-> IF h \in o.sl THEN [o.hcs[h] EXCEPT !.st = "removed"] ELSE o.hcs[h]],
                        !.m = [k \in DOMAIN o.m |-> IF o.m[k] \in o.sl THEN 0 ELSE o.m[k]]]

\* ---------------------------------------------------------------- state observers
OObserve(o, e) ==
    IF e.hc \in OHC /\ o.hcs[e.hc].st # "none" /\ o.obsms > 0 /\ e.addr = o.hcs[e.hc].addr /\ e.max = o.max
       /\ e.pool <= e.total /\ e.total <= o.max /\ e.pool >= 0
    THEN o ELSE OReject(o)
OObsPre(o, e) == [o EXCEPT !.ob = [gone |-> {h \in OHC : o.hcs[h].st = "removed"},
                                   failed |-> {h \in OHC : o.hcs[h].st \in {"failed", "failedclosed"}}, live |-> AllMapHcs(o)]]
OObsCount(o, e) ==
    IF /\ e.hc \in OHC /\ e.ivs >= 20
       /\ (e.hc \in o.ob.gone \cup o.ob.failed => e.n = 0)
       /\ (e.hc \in o.ob.live /\ e.hc \in AllMapHcs(o) => e.n >= 1)
       /\ e.n <= e.ivs + 2                        \* a ticker of the configured interval cannot fire more often
    THEN o ELSE OReject(o)

OFinal(o, e) ==
    IF e.hc \in OHC /\ o.hcs[e.hc].st # "none"
       /\ (e.sure => e.total = o.hcs[e.hc].cnt) /\ e.pool = e.cc
       /\ (NoCalls(o) /\ e.sure /\ o.idle >= 30000 /\ o.wait = 0 => e.pool = e.total /\ e.total = Cardinality(o.hcs[e.hc].open))
    THEN o ELSE OReject(o)

\* GetDialerName: the package of the dialer's type ("*main.recDialer" -> "main")
Pkg(typ) == LET s == IF SubSeq(typ, 1, 1) = "*" THEN SubSeq(typ, 2, Len(typ)) ELSE typ
                dots == {i \in 1 .. Len(s) : SubSeq(s, i, i) = "."}
                d == IF dots = {} THEN Len(s) + 1 ELSE CHOOSE i \in dots : \A j \in dots : i <= j
            IN SubSeq(s, 1, d - 1)
OGetName(o, e) == IF ~e.err /\ e.name = Pkg(e.typ) THEN o ELSE OReject(o)

OStep(o, e) ==
    CASE e.ev = "Begin" -> OBegin(o, e)       [] e.ev = "New" -> ONew(o, e)         [] e.ev = "Config" -> OConfig(o, e)
      [] e.ev = "Use" -> OUse(o, e)           [] e.ev = "Cnt" -> OCnt(o, e)         [] e.ev = "Dial" -> ODial(o, e)
      [] e.ev = "Req" -> OReq(o, e)           [] e.ev = "Resp" -> OResp(o, e)       [] e.ev = "Closed" -> OClosed(o, e)
      [] e.ev = "Done" -> ODone(o, e)         [] e.ev = "End" -> OEndCall(o, e)     [] e.ev = "Should" -> OShould(o, e)
      [] e.ev = "Close" -> OClose(o, e)       [] e.ev = "CIBegin" -> OCIBegin(o, e) [] e.ev = "CIVisit" -> OCIVisit(o, e)
      [] e.ev = "CIEnd" -> OCIEnd(o, e)       [] e.ev = "SleepBegin" -> OSleepBegin(o, e)
      [] e.ev = "Sleep" -> OSleep(o, e)       [] e.ev = "Observe" -> OObserve(o, e) [] e.ev = "ObsPre" -> OObsPre(o, e)
      [] e.ev = "ObsCount" -> OObsCount(o, e) [] e.ev = "Final" -> OFinal(o, e)     [] e.ev = "GetName" -> OGetName(o, e)
      [] e.ev \in {"Ticked", "ObsBegin"} -> o
      [] OTHER -> OReject(o)          \* Panic, Hang, TickTimeout, BlockedRead, ...

\* at the end of a case: every call has returned, nothing is half way
OEnd(o) == /\ \A p \in OCalls : o.calls[p].st \in {"none", "ended"}
           /\ ~o.ci.in /\ \A f \in Flavs : ClQuiet(o, f) /\ TickComplete(o, f)
=============================================================================
