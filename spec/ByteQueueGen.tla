---------------------------- MODULE ByteQueueGen ----------------------------
(***************************************************************************)
(* Case generator for C13.                                                 *)
(*                                                                         *)
(* (1) Exhaustive part (constant level, written inside an ASSUME): every   *)
(*     operation sequence of length 1..ExLen over the reduced size set     *)
(*     ExSizes, reader operations and writer operations separately (the    *)
(*     two sides share no state), crossed with the environments ExEnvs     *)
(*     (fragmentation of the incoming stream, where it ends and how,       *)
(*     a read timeout, initial buffer size).                               *)
(*                                                                         *)
(* (2) Simulation part (tlc -simulate): behaviours of the state machine    *)
(*     GenInit/GenNext; one behaviour = one case of SimLen operations over *)
(*     the full size set SimSizes; the abstract position (rd, known) of    *)
(*     ByteQueue steers the choice so that valid Skips, reads across the   *)
(*     end of the stream and releases all occur often.  The case is        *)
(*     printed when the behaviour is complete (@@CASE lines, collected by  *)
(*     checks/c13.py).                                                     *)
(***************************************************************************)
EXTENDS Integers, Sequences, FiniteSets, TLC, Json, IOUtils, SequencesExt

CONSTANTS ExLenRd, ExLenWr,   \* longest exhaustive reader / writer sequence
          ExLenRf,            \* longest exhaustive writer sequence containing ReadFrom
          ExSizes,            \* sizes of the exhaustive part
          ExEnvSel,           \* which environment set the exhaustive part uses: "quick" | "thorough"
          SimLen,             \* operations per simulated case
          SimSizes,           \* sizes of the simulated part
          Mode                \* "exhaustive" | "simulate"

Big == 524289    \* 512 KiB + 1: larger than mallocMax

Op(k, n) == [k |-> k, n |-> n, m |-> 0]
\* ReadFrom(reader of n bytes behaving in manner m): 0 whatever fits, 1 <= 1000 bytes per call, 2 one byte per call,
\* 3 io.EOF together with the last bytes, 4 like 1 with three (0, nil) reads before every third delivery
Rf(n, m) == [k |-> "ReadFrom", n |-> n, m |-> m]
RfOps == {Rf(0, 0), Rf(1, 3), Rf(100, 2), Rf(4096, 0), Rf(4096, 3), Rf(4097, 1), Rf(4097, 4), Rf(8193, 0)}

RdOps(S) == {Op("Peek", n) : n \in S} \cup {Op("Skip", n) : n \in S} \cup {Op("ReadBinary", n) : n \in S}
            \cup {Op("Read", n) : n \in S} \cup {Op("ReadByte", 1), Op("Release", 0), Op("Len", 0)}
WrOps(S) == {Op("Malloc", n) : n \in S} \cup {Op("WriteBinary", n) : n \in S} \cup {Op("Flush", 0)}

RECURSIVE SeqsUpTo(_, _)
SeqsUpTo(S, n) == IF n = 0 THEN {<< >>}
                  ELSE LET P == SeqsUpTo(S, n - 1) IN P \cup {Append(p, s) : p \in {q \in P : Len(q) = n - 1}, s \in S}

Env(size, frag, eofAt, eofMode, endCls, tmoAt) ==
    [size |-> size, frag |-> frag, eofAt |-> eofAt, eofMode |-> eofMode, endCls |-> endCls, tmoAt |-> tmoAt]

Inf == 60000000    \* "never ends" for every generated program (the pattern addresses 2^26 offsets)

\* fragmentations: 1 byte, 7 bytes, exactly a node, 20 KiB, whatever the caller's buffer takes (0), mixed
Frags == {<<1>>, <<7>>, <<4096>>, <<20480>>, <<0>>, <<1, 4095, 4097>>}

EnvsQuick ==
    {Env(0, f, Inf, "sep", "eof", -1) : f \in {<<7>>, <<4096>>, <<0>>}}
    \cup {Env(0, <<4096>>, e, "sep", "eof", -1) : e \in {4096, 8193}}
    \cup {Env(1, <<1>>, 4097, "with", "reset", -1), Env(16384, <<20480>>, 12289, "with", "eof", 4096),
          Env(0, <<1, 4095, 4097>>, 8192, "sep", "eof", 1)}

EnvsThorough ==
    {Env(0, f, Inf, "sep", "eof", -1) : f \in Frags}
    \cup {Env(1, f, Inf, "sep", "eof", -1) : f \in {<<1>>, <<4096>>}}
    \cup {Env(16384, f, Inf, "sep", "eof", -1) : f \in {<<7>>, <<20480>>, <<0>>}}
    \cup {Env(0, f, e, "sep", "eof", -1) : f \in {<<1>>, <<0>>}, e \in {4096, 4097, 8193}}
    \cup {Env(0, <<4096>>, e, "with", "eof", -1) : e \in {4096, 4097, 8193, 12289}}
    \cup {Env(s, <<7>>, 8192, "with", "reset", t) : s \in {0, 16384}, t \in {0, 4097}}

ExEnvs == IF ExEnvSel = "quick" THEN EnvsQuick ELSE EnvsThorough
WrEnv == Env(0, <<0>>, 0, "sep", "eof", -1)

\* arena = 1: the driver takes every WriteBinary / Write argument as the next sub-slice of ONE caller array (len < cap,
\* the next argument right behind it: one payload sent in pieces); arena = 0: a fresh, tight buffer per call
Case(id, part, target, e, ar, ops) ==
    [id |-> id, part |-> part, target |-> target, size |-> e.size, frag |-> e.frag, eofAt |-> e.eofAt,
     eofMode |-> e.eofMode, endCls |-> e.endCls, tmoAt |-> e.tmoAt, ncp |-> 8, arena |-> ar, ops |-> ops]

RdSeqs == SetToSeq(SeqsUpTo(RdOps(ExSizes), ExLenRd) \ {<< >>})
\* Write (net.Conn.Write: flush + write through) exists on the connection only, not on network.NewWriter
WrSeqs == SetToSeq(SeqsUpTo(WrOps(ExSizes) \cup {Op("Write", 1), Op("Malloc", 0)}, ExLenWr) \ {<< >>})
\* Conn.ReadFrom (io.ReaderFrom: streamed bodies) mixed with reserve / write / flush
RfSeqs == SetToSeq({q \in SeqsUpTo(WrOps(ExSizes) \cup {Op("Write", 1)} \cup RfOps, ExLenRf) :
                      \E i \in DOMAIN q : q[i].k = "ReadFrom"})
NwSeqs == SetToSeq(SeqsUpTo(WrOps(ExSizes) \cup {Op("Malloc", 0)}, ExLenWr) \ {<< >>})
EnvSeq == SetToSeq(ExEnvs)

ExCases ==
    LET nr == Len(RdSeqs)  ne == Len(EnvSeq)  nw == Len(WrSeqs)  nn == Len(NwSeqs)  nf == Len(RfSeqs)  b == nr * ne IN
    [i \in 1 .. b |-> Case(i, "rd", "conn", EnvSeq[((i - 1) % ne) + 1], 0, RdSeqs[((i - 1) \div ne) + 1])]
    \o [i \in 1 .. 2 * nw |-> Case(b + i, "wr", "conn", WrEnv, (i - 1) % 2, WrSeqs[((i - 1) \div 2) + 1])]
    \o [i \in 1 .. 2 * nn |-> Case(b + 2 * nw + i, "wr", "nw", WrEnv, (i - 1) % 2, NwSeqs[((i - 1) \div 2) + 1])]
    \o [i \in 1 .. 2 * nf |-> Case(b + 2 * nw + 2 * nn + i, "rf", "conn", WrEnv, (i - 1) % 2, RfSeqs[((i - 1) \div 2) + 1])]
    \* minimal case of known finding C13-readfrom-noprogress (every tier reproduces it)
    \o <<Case(b + 2 * nw + 2 * nn + 2 * nf + 1, "known", "conn", WrEnv, 0, <<Op("Malloc", 8193), Rf(16385, 0), Op("Flush", 0)>>)>>

ASSUME Mode = "exhaustive" => ndJsonSerialize(IOEnv.VERIF_OUT, ExCases)

---------------------------------------------------------------------------
(* simulation *)

VARIABLES env,      \* environment of the case
          ops,      \* operations chosen so far
          pos,      \* bytes consumed if every operation so far succeeded
          known,    \* bytes known to be buffered (highest offset peeked or read)
          pend,     \* written and not flushed
          arena,    \* caller buffers of the case: 0 tight, 1 sub-slices of one array
          w,        \* weight only: TLC's simulator picks uniformly among distinct successor states
          done      \* the behaviour is complete

gvars == <<env, ops, pos, known, pend, arena, w, done>>

SimEofAts == {0, 1, 4095, 4096, 4097, 8192, 20481, 100000, 600000, Inf}

GenInit == /\ env \in {Env(s, f, e, m, c, t) : s \in {0, 1, 16384}, f \in Frags \cup {<<7, 20480, 1>>}, e \in SimEofAts,
                                               m \in {"sep", "with"}, c \in {"eof", "reset"}, t \in {-1, 0, 4096, 5000}}
           /\ ops = << >> /\ pos = 0 /\ known = 0 /\ pend = 0 /\ w = 0 /\ done = FALSE /\ arena \in {0, 1}

Small == {n \in SimSizes : n <= 8193}
WrSizes == SimSizes \cap {0, 1, 4095, 4096, 4097, 8193, Big}
Max2(a, b) == IF a > b THEN a ELSE b
Lim(x) == IF x > env.eofAt THEN env.eofAt ELSE x

Add(o) == ops' = Append(ops, o)
W(k) == w' \in 1 .. k

GPeek == \E n \in SimSizes : Add(Op("Peek", n)) /\ known' = Max2(known, Lim(pos + n)) /\ W(1) /\ UNCHANGED <<pos, pend>>
\* a Skip of bytes known to be buffered (legal), and an arbitrary one (may exceed Len: "not enough")
GSkipOk == \E n \in SimSizes : n <= known - pos /\ Add(Op("Skip", n)) /\ pos' = pos + n /\ W(1) /\ UNCHANGED <<known, pend>>
GSkipAll == known > pos /\ Add(Op("Skip", known - pos)) /\ pos' = known /\ W(3) /\ UNCHANGED <<known, pend>>
GSkipAny == \E n \in {1, 4097, 8192} : Add(Op("Skip", n)) /\ W(1) /\ UNCHANGED <<pos, known, pend>>
GReadByte == Add(Op("ReadByte", 1)) /\ pos' = Lim(pos + 1) /\ known' = Max2(known, pos') /\ W(3) /\ UNCHANGED pend
GReadBinary == \E n \in SimSizes : Add(Op("ReadBinary", n)) /\ W(1)
                  /\ pos' = (IF pos + n <= env.eofAt THEN pos + n ELSE pos) /\ known' = Max2(known, Lim(pos + n)) /\ UNCHANGED pend
GRead == \E n \in SimSizes : Add(Op("Read", n)) /\ pos' = Lim(pos + n) /\ known' = Max2(known, pos') /\ W(1) /\ UNCHANGED pend
GRelease == Add(Op("Release", 0)) /\ W(10) /\ UNCHANGED <<pos, known, pend>>
GLen == Add(Op("Len", 0)) /\ W(2) /\ UNCHANGED <<pos, known, pend>>
GMalloc == \E n \in WrSizes : Add(Op("Malloc", n)) /\ pend' = pend + n /\ W(1) /\ UNCHANGED <<pos, known>>
GWriteBinary == \E n \in WrSizes : Add(Op("WriteBinary", n)) /\ pend' = pend + n /\ W(1) /\ UNCHANGED <<pos, known>>
GReadFrom == \E o \in RfOps \cup {Rf(Big, 1), Rf(20000, 3)} : Add(o) /\ pend' = 0 /\ W(1) /\ UNCHANGED <<pos, known>>
GFlush == Add(Op("Flush", 0)) /\ pend' = 0 /\ W(4) /\ UNCHANGED <<pos, known>>
GWrite == \E n \in {1, 4096, 8193} : Add(Op("Write", n)) /\ pend' = 0 /\ W(1) /\ UNCHANGED <<pos, known>>

GenNext == /\ Len(ops) < SimLen
           /\ pend < 3000000     \* keep unflushed data (user buffers held by the driver) bounded
           /\ \/ GPeek \/ GSkipOk \/ GSkipAll \/ GSkipAny \/ GReadByte \/ GReadBinary \/ GRead \/ GRelease \/ GLen
              \/ GMalloc \/ GWriteBinary \/ GFlush \/ GWrite \/ GReadFrom
           /\ UNCHANGED <<env, done, arena>>
GenNextFlush == /\ Len(ops) < SimLen /\ pend >= 3000000 /\ GFlush /\ UNCHANGED <<env, done, arena>>
GenDone == Len(ops) = SimLen /\ ~done /\ done' = TRUE /\ UNCHANGED <<env, ops, pos, known, pend, w, arena>>

GenSpecNext == GenNext \/ GenNextFlush \/ GenDone

\* the exhaustive part needs no behaviours
ExInit == env = WrEnv /\ ops = << >> /\ pos = 0 /\ known = 0 /\ pend = 0 /\ w = 0 /\ done = FALSE /\ arena = 0
ExNext == UNCHANGED gvars

\* a complete behaviour is one case
Emit == done => PrintT("@@CASE " \o ToJson(Case(0, "sim", "conn", env, arena, ops)))
=============================================================================
