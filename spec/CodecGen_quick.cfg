CONSTANTS
  Nil <- NilStr
  Render <- RenderStr
  Lit <- LitStr
  McFamilies = {}
  McTarget = 0
  Families <- QuickFamilies
  RandFamilies <- QuickRand
  Target = 500
INIT GenInit
NEXT GenNext
