\* thorough, exhaustive: 3 connections (busy / idle keep-alive / mid-request in every combination) x 1 caller x 1 hook
CONSTANTS
  Conns = {c1, c2, c3}
  Callers = {k1}
  Hooks = {h1}
  BeyondHooks = {}
  MaxReq = 1
  Transport = "standard"
  ServerRun = TRUE
  CasLoserErrors = TRUE
  ExitCheckAfterHandler = TRUE
  HooksConcurrent = TRUE
  CountAtAccept = TRUE
SYMMETRY Sym
SPECIFICATION Spec
INVARIANTS TypeOK ActiveCount ObligationsHold SecondShutdownErrors NotRunningErrors NoAcceptAfterClose HooksStartedAtReturn HooksAwaited InFlightAwaited AcceptedAwaited CloseAnnounced InFlightCompleted EndOK
