---------------------------- MODULE FileServeGen ----------------------------
(* Case generator for C08.  A case = one fresh engine + file handler (own cache, own reader pool) and a sequence of  *)
(* requests served through it one after the other (so the 2nd/3rd request hits the cache and the pooled reader).     *)
(* Families:                                                                                                         *)
(*   A  every file length in Lens x every Range value of the grammar over NumToks(Nums) x method orders x            *)
(*      AcceptByteRange on/off (the same request repeated: cache hit must give the same answer)                      *)
(*   B  sequences of DIFFERENT ranges on one file (stale reader offset / stale limit from the pool)                  *)
(*   C  files straddling MaxSmallFileSize x ranges over numbers around the file length                               *)
(*   D  missing files, directories (IndexNames / GenerateIndexPages), traversal attempts, PathRewrite route          *)
(*   E  (thorough) options Compress/IndexNames/GenerateIndexPages x read via Read / WriteTo x route fs/fsrw/file     *)
(*   V  FS.PathRewrite = NewVHostPathRewriter(0): Host header values ("..", ".", "a", ...) x targets x index options; *)
(*      the parent of the root holds an index.html (file OUTIDX) and the sentinel                                    *)
(*   G  If-Modified-Since before / equal / after the files' mtime, malformed x Range x GET/HEAD, then a plain GET      *)
(*   W  body stream drained with io.Copy into a writer without ReadFrom (the readers' WriteTo loops), whole and ranged  *)
(*   F  Accept-Encoding: gzip on/off x Compress on/off x Range, mixed on one handler (plain and compressed cache)     *)
EXTENDS FileServe, Json, IOUtils, SequencesExt

CONSTANTS Tier,        \* "quick" | "thorough"
          BigLens,     \* file lengths around consts.MaxSmallFileSize (8192)
          BigNumSet,   \* numbers used in ranges on those files
          OptLens, OptNums   \* (thorough) lengths / numbers for the option cross product E

M == {"GET", "HEAD"}
Thorough == Tier = "thorough"

\* many = number of (empty) files in directory m/: its generated index page is about 16 KiB (> MaxSmallFileSize)
TreeRec == [lens |-> SetToSortSeq(Lens \cup BigLens, <), idxlen |-> 3, outlen |-> 5, alen |-> 2, pidxlen |-> 4, many |-> 120, mtime |-> MTime]

RqI(path, tgt, m, r, ae, host, ims) == [path |-> path, tgt |-> tgt, method |-> m, range |-> r, ae |-> ae, host |-> host,
                                       ims |-> ims, imsstr |-> ImsStr(ims)]
RqH(path, tgt, m, r, ae, host) == RqI(path, tgt, m, r, ae, host, "")
RqE(path, tgt, m, r, ae) == RqH(path, tgt, m, r, ae, "h")
Rq(path, tgt, m, r) == RqE(path, tgt, m, r, FALSE)
FileRq(n, m, r) == Rq("/" \o FName(n), FName(n), m, r)
Opt(route, ab, co, ix, ge, via) == [route |-> route, abr |-> ab, compress |-> co, idx |-> ix, gen |-> ge, via |-> via]
Plain(ab) == Opt("fs", ab, FALSE, FALSE, FALSE, "read")
Cs(o, reqs) == [route |-> o.route, abr |-> o.abr, compress |-> o.compress, idx |-> o.idx, gen |-> o.gen, via |-> o.via,
                mw |-> FALSE, reqs |-> reqs]
\* the same with a middleware that sets a custom response header (string API) before the file handler runs
CsMw(o, reqs) == [Cs(o, reqs) EXCEPT !.mw = TRUE]

Toks == NumToks(Nums)
RangesA_ == AllRanges(Toks)

\* ---- A
MethodSeqs == IF Thorough THEN {<<a, b, c>> : a \in M, b \in M, c \in M} ELSE {<<a, b>> : a \in M, b \in M}
FamA == { Cs(Plain(TRUE), [i \in DOMAIN ms |-> FileRq(n, ms[i], r)]) : n \in Lens, r \in RangesA_, ms \in MethodSeqs }
        \cup { Cs(Plain(FALSE), <<FileRq(n, "GET", r), FileRq(n, "HEAD", r)>>) : n \in Lens, r \in RangesA_ }

\* ---- B: different ranges one after the other on the same handler
SeqRanges == { NoRange, Rg("ab", Num(1), Num(2), "bytes=1-2"), Rg("a-", Num(2), NoNum, "bytes=2-"),
               Rg("-n", NoNum, Num(1), "bytes=-1"), Rg("ab", Num(0), Num(0), "bytes=0-0") }
             \cup (IF Thorough THEN {Rg("a-", Num(9), NoNum, "bytes=9-"), Rg("invalid", NoNum, NoNum, "bytes=0-0,1-1")} ELSE {})
SeqLens == (IF Thorough THEN {1, 3, 4} ELSE {3}) \cup BigLens
SeqMethods == {<<"GET", "GET", "GET">>, <<"HEAD", "GET", "GET">>, <<"GET", "HEAD", "GET">>}
FamB == IF Thorough
        THEN { Cs(Opt("fs", TRUE, FALSE, FALSE, FALSE, via), <<FileRq(n, ms[1], r1), FileRq(n, ms[2], r2), FileRq(n, ms[3], r3)>>) :
                 n \in SeqLens, r1 \in SeqRanges, r2 \in SeqRanges, r3 \in {NoRange, Rg("ab", Num(1), Num(2), "bytes=1-2")},
                 ms \in SeqMethods, via \in {"read", "writeto", "iocopy"} }
        ELSE { Cs(Plain(TRUE), <<FileRq(n, ms[1], r1), FileRq(n, ms[2], r2)>>) :
                 n \in SeqLens, r1 \in SeqRanges, r2 \in SeqRanges, ms \in SeqMethods }

\* ---- C: around the small/big file threshold
BigToks == {Num(n) : n \in BigNumSet} \cup BigNums
BigRanges == RangesAB(BigToks) \cup RangesA(BigToks) \cup RangesS(BigToks) \cup {NoRange}
FamC == { Cs(Opt("fs", TRUE, FALSE, FALSE, FALSE, via), <<FileRq(n, "GET", r), FileRq(n, "HEAD", r), FileRq(n, "GET", r)>>) :
            n \in BigLens, r \in BigRanges, via \in (IF Thorough THEN {"read", "writeto", "iocopy"} ELSE {"read"}) }

\* ---- D: paths
FewRanges == {NoRange, Rg("ab", Num(0), Num(0), "bytes=0-0"), Rg("-n", NoNum, Num(1), "bytes=-1")}
MissingPaths == {"/nofile", "/d/nofile", "/f9", "/f3x", "/index.html"}
DirPaths == {"/", "/d", "/d/", "/e", "/e/", "/m", "/m/", "/a", "/a/"}
Sentinel == "OUTSIDE-c08-sentinel.bin"
OddPaths == { "/../" \o Sentinel, "/%2e%2e/" \o Sentinel, "/%2E%2E/" \o Sentinel, "/.%2e/" \o Sentinel, "//../" \o Sentinel,
              "/d/../../" \o Sentinel, "/d/%2e%2e/%2e%2e/" \o Sentinel, "/..\\" \o Sentinel, "/..%5c" \o Sentinel,
              "/..%2f" \o Sentinel, "/..%2F..%2F" \o Sentinel, "/d/..%2f..%2f" \o Sentinel, "/./../" \o Sentinel,
              "/../../../../" \o Sentinel, "/e/../../" \o Sentinel, "/..", "/../", "/%2e%2e", "/d/../..", "/...", "/.../" \o Sentinel,
              "/f3/../../" \o Sentinel, "/%252e%252e/" \o Sentinel, "/..;/" \o Sentinel, "/..%00/" \o Sentinel,
              "//f3", "/./f3", "/d/../f3", "/d/%2e%2e/f3", "/%66%33", "/f3/", "/f3//", "/f3/.", "/d/./index.html", "/d//index.html",
              "/f3%00", "/f3%2f", "/F3", "/f3?x=1", "/f3#a", "/d\\index.html", "/e/../f4" }
PathOpts == IF Thorough
            THEN { Opt(rt, TRUE, co, ix, ge, "read") : rt \in {"fs", "fsrw"}, co \in BOOLEAN, ix \in BOOLEAN, ge \in BOOLEAN }
            ELSE { Opt(rt, TRUE, FALSE, ix, ge, "read") : rt \in {"fs", "fsrw"}, ix \in BOOLEAN, ge \in BOOLEAN }
FamD == { Cs(o, <<Rq(p, "none", m, r), Rq(p, "none", m, r)>>) : o \in PathOpts, p \in MissingPaths, m \in M, r \in FewRanges }
        \cup { Cs(o, <<Rq(p, "dir", "GET", r), Rq(p, "dir", "HEAD", r), Rq(p, "dir", "GET", r)>>) : o \in PathOpts, p \in DirPaths, r \in FewRanges }
        \cup { Cs(o, <<Rq(p, "any", m, r), Rq(p, "any", m, r)>>) : o \in PathOpts, p \in OddPaths, m \in M,
                  r \in (IF Thorough THEN FewRanges ELSE {NoRange}) }
        \cup { Cs(o, <<Rq("/" \o IndexFile, IndexFile, m, r)>>) : o \in PathOpts, m \in M, r \in FewRanges }
        \cup { Cs(Opt("file", TRUE, TRUE, FALSE, TRUE, "read"), <<Rq(p, "dir", "GET", r), Rq(p, "dir", "HEAD", r), Rq(p, "dir", "GET", r)>>) :
                 p \in DirPaths, r \in FewRanges }                                   \* ctx.File(directory): rootFS generates index pages

\* ---- V: virtual-host rewriter
VHosts   == {"..", ".", "a", "a/..", "..%2f", "h", "...", "a.."} \cup (IF Thorough THEN {"%2e%2e", "..\\", "d", "m", ".a", "-"} ELSE {})
VTargets == {"/", "/a/..", "/x", "/index.html", "/f3", "/.."} \cup (IF Thorough THEN {"//", "/d/", "/a/../..", "/%2e%2e", "/./", "/m/"} ELSE {})
FamV == { Cs(Opt("vhost", TRUE, co, ix, ge, "read"), <<RqH(p, "any", "GET", r, FALSE, h), RqH(p, "any", "HEAD", r, FALSE, h)>>) :
            co \in (IF Thorough THEN BOOLEAN ELSE {FALSE}), ix \in BOOLEAN, ge \in BOOLEAN, h \in VHosts, p \in VTargets,
            r \in (IF Thorough THEN FewRanges ELSE {NoRange, Rg("ab", Num(0), Num(0), "bytes=0-0")}) }

\* ---- E: options x read path x route, and ctx.File
OptToks == NumToks(OptNums)
FamE == IF ~Thorough THEN
          { Cs(Opt("file", TRUE, TRUE, FALSE, TRUE, "read"), <<FileRq(n, "GET", r), FileRq(n, "HEAD", r)>>) :
              n \in {0, 3}, r \in RangesAB(NumToks({0, 1, 2})) \cup RangesS(NumToks({0, 1})) \cup {NoRange} }
          \cup { Cs(Opt("fsrw", TRUE, FALSE, FALSE, FALSE, "writeto"), <<FileRq(n, "GET", r), FileRq(n, "GET", r)>>) :
              n \in {0, 3} \cup BigLens, r \in RangesAB(NumToks({0, 1, 2})) \cup RangesS(NumToks({0, 1})) \cup {NoRange} }
        ELSE
          { Cs(Opt(rt, ab, co, ix, ge, via), <<FileRq(n, "GET", r), FileRq(n, "HEAD", r), FileRq(n, "GET", r)>>) :
              rt \in {"fs", "fsrw"}, ab \in BOOLEAN, co \in BOOLEAN, ix \in BOOLEAN, ge \in BOOLEAN, via \in {"read", "writeto", "iocopy"},
              n \in OptLens, r \in AllRanges(OptToks) }
          \cup { Cs(Opt("file", TRUE, TRUE, FALSE, TRUE, via), <<FileRq(n, m, r), FileRq(n, "GET", r)>>) :
              n \in Lens \cup BigLens, r \in AllRanges(NumToks({0, 1, 2, 3, 4, 5})), m \in M, via \in {"read", "writeto"} }

\* ---- F: content negotiation.  Every pair / triple of (Accept-Encoding, Range) on one handler
GzLens == IF Thorough THEN {0, 3} \cup BigLens ELSE {3, 8193}
AeReqs(n, m) == { RqE("/" \o FName(n), FName(n), m, r, ae) : r \in FewRanges, ae \in BOOLEAN }
GzOpts == IF Thorough THEN {Opt("fs", TRUE, TRUE, FALSE, FALSE, "read"), Opt("fs", TRUE, FALSE, FALSE, FALSE, "read"),
                            Opt("file", TRUE, TRUE, FALSE, TRUE, "read")}
          ELSE {Opt("fs", TRUE, TRUE, FALSE, FALSE, "read"), Opt("fs", TRUE, FALSE, FALSE, FALSE, "read")}
FamFn(n) == IF Thorough
            THEN { Cs(o, <<q1, q2, q3>>) : o \in GzOpts, q1 \in AeReqs(n, "GET"), q2 \in AeReqs(n, "GET") \cup AeReqs(n, "HEAD"),
                                          q3 \in AeReqs(n, "GET") }
            ELSE { Cs(o, <<q1, q2>>) : o \in GzOpts, q1 \in AeReqs(n, "GET"), q2 \in AeReqs(n, "GET") \cup AeReqs(n, "HEAD") }
FamF == UNION { FamFn(n) : n \in GzLens }
        \cup { Cs(Opt("fs", TRUE, TRUE, FALSE, TRUE, "read"), <<RqE(p, "dir", "GET", NoRange, TRUE), RqE(p, "dir", "GET", NoRange, FALSE)>>) : p \in DirPaths }

\* ---- G: conditional requests
ImsLens == IF Thorough THEN Lens \cup BigLens ELSE {0, 1, 3, 8193}
ImsRq(n, m, r, ims) == RqI("/" \o FName(n), FName(n), m, r, FALSE, "h", ims)
FamG == { Cs(o, <<ImsRq(n, "GET", r, ims), ImsRq(n, "HEAD", r, ims), ImsRq(n, "GET", r, "")>>) :
            o \in {Plain(TRUE), Opt("file", TRUE, TRUE, FALSE, TRUE, "read")} \cup (IF Thorough THEN {Plain(FALSE), Opt("fsrw", TRUE, TRUE, TRUE, TRUE, "iocopy")} ELSE {}),
            n \in ImsLens, r \in FewRanges, ims \in ImsKinds \ {""} }
        \cup { Cs(Opt("fs", TRUE, FALSE, ix, ge, "read"), <<RqI(p, "dir", m, NoRange, FALSE, "h", ims), RqI(p, "dir", "GET", NoRange, FALSE, "h", "")>>) :
            ix \in BOOLEAN, ge \in BOOLEAN, p \in {"/", "/d", "/m"}, m \in M, ims \in {"before", "after"} }

\* ---- W: the WriteTo loops of the readers (io.Copy into a plain writer)
WToks == NumToks(IF Thorough THEN {0, 1, 2, 3, 4, 5} ELSE {0, 1, 2, 3})
FamW == { Cs(o, <<FileRq(n, "GET", r), FileRq(n, "GET", r)>>) :
            o \in {Opt("fs", TRUE, FALSE, FALSE, FALSE, "iocopy")} \cup (IF Thorough THEN {Opt("file", TRUE, TRUE, FALSE, TRUE, "iocopy")} ELSE {}),
            n \in Lens \cup BigLens,
            r \in RangesAB(WToks) \cup RangesA(WToks) \cup RangesS(WToks) \cup {NoRange, EmptyRange} }
        \cup { Cs(Opt("fs", TRUE, FALSE, ix, ge, "iocopy"), <<Rq(p, "dir", "GET", r), Rq(p, "dir", "GET", r)>>) :
            ix \in BOOLEAN, ge \in BOOLEAN, p \in {"/", "/d", "/m"}, r \in FewRanges }

\* ---- X: all requests of a case go through ONE recycled RequestContext (driver); here with a header-setting middleware
FamX == { CsMw(Plain(TRUE), <<FileRq(n, ms[1], r1), FileRq(n, ms[2], r2)>>) :
            n \in (IF Thorough THEN SeqLens ELSE {3, 8193}), r1 \in SeqRanges, r2 \in SeqRanges, ms \in {<<"GET", "GET">>, <<"HEAD", "GET">>} }

All == SetToSeq(FamX \cup FamA \cup FamB \cup FamC \cup FamD \cup FamE \cup FamF \cup FamV \cup FamG \cup FamW)

ASSUME RangeSemSane(Toks \cup BigToks, Lens \cup BigLens)
ASSUME PrintT(<<"@@FAMILIES", Cardinality(FamA), Cardinality(FamB), Cardinality(FamC), Cardinality(FamD), Cardinality(FamE), Cardinality(FamF), Cardinality(FamV), Cardinality(FamG), Cardinality(FamW)>>)
ASSUME ndJsonSerialize(IOEnv.VERIF_OUT,
         [i \in 1 .. Len(All) |-> [id |-> i, route |-> All[i].route, abr |-> All[i].abr, compress |-> All[i].compress,
                                   idx |-> All[i].idx, gen |-> All[i].gen, via |-> All[i].via, mw |-> All[i].mw, tree |-> TreeRec,
                                   reqs |-> All[i].reqs]])
GenInit == Init
GenNext == UNCHANGED vars
=============================================================================
