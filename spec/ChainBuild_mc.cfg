CONSTANTS MaxOps = 4 MaxGroups = 3 MaxRoutes = 2
SPECIFICATION Spec
INVARIANTS SnapshotMeetsObligation SnapshotIsRequired
