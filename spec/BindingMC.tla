----------------------------- MODULE BindingMC -----------------------------
(* Exhaustive bounded check of Binding (Binding_mc.cfg): the cache protocol with 2 goroutines x 2 binds over    *)
(* 3 types x 2 requests, and -- as a constant-level theorem -- that the code-shaped decoder interpreter          *)
(* (Compile/Exec) refines the declarative property (Acceptable) for every single-field type of MCFieldSet and   *)
(* every request of MCReqSet.                                                                                    *)
EXTENDS Binding
ASSUME ExecRefinesProperty
ASSUME PrintT(<<"@@FAMILY", Cardinality(MCFieldSet), Cardinality(MCReqSet)>>)
\* vacuity guards: the family contains required-missing errors, conversion errors, and winners of every rank
IntFields == {f \in MCFieldSet : f.kind = "int"}
ASSUME \E f \in IntFields, rq \in MCReqSet : Required(f) /\ Outcomes(f, rq) = {Err} /\ PresentTags(f, rq, TRUE) = {}
ASSUME \E f \in IntFields, rq \in MCReqSet : PresentTags(f, rq, TRUE) # {} /\ Outcomes(f, rq) = {Err}
ASSUME \A s \in Sources \ {"json"} : \E f \in IntFields, rq \in MCReqSet :
          Cardinality(PresentTags(f, rq, TRUE)) >= 2 /\ f.tags[Winner(f, rq, TRUE)].src = s
\* a present-but-empty higher-priority source beats a lower-priority value and satisfies `required`
ASSUME \E f \in IntFields, rq \in MCReqSet : Required(f) /\ Cardinality(PresentTags(f, rq, TRUE)) >= 2
          /\ Look(f.tags[Winner(f, rq, TRUE)], rq, TRUE) = <<"">> /\ ~Unconstrained(f, rq) /\ Val("1") \notin Outcomes(f, rq)
=============================================================================
