CONSTANTS Mode = "cookieraw"
Profile = "pair-q"
SPECIFICATION Spec
INVARIANTS TypeOK Safe
