\* the observer accepts: 2 keys, 3 callers x 1 call, MaxConns 2, 2 ticks
CONSTANTS
  Keys = {"a", "b"}
  TLSKeys = {}
  Callers = {1, 2, 3}
  MaxCalls = 1
  NH = 3
  MaxConns = 2
  MaxTicks = 2
  MaxCI = 1
  MaxReap = 1
  Retries = 1
  HoldCounted = TRUE
  CIAll = TRUE
INIT OInitMC
NEXT ONextMC
VIEW OView
INVARIANTS Accepts Agree
