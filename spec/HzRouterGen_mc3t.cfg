\* thorough: every declaration of 1..3 methods over two inner segments, two plain verbs
CONSTANTS
  McInner = {"a", "b"}
  McLast = {"a", "b", ""}
  McVerbs = {"GET", "POST"}
  McMaxDepth = 3
  McMaxMethods = 3
SPECIFICATION Spec
INVARIANTS GroupsArePathInTree OneNodePerMethod SortKeepsHandlersLeaf DesignMeetsObligations Sensitive
