-------------------------- MODULE ChainBuildTrace --------------------------
(* Trace validation for C12 (builder programs).  Lines: Case{prog}; then per request                        *)
(* Request{kind,r}, Mw{m}*, Handler{kind,r,k}*, Served{status}; then End.  The builder program is executed *)
(* by the specification (silent BuildStep steps); each request's recorded middleware/handler sequence must *)
(* meet the property's obligation.                                                                        *)
EXTENDS ChainBuild, Json, IOUtils

Trace == ndJsonDeserialize(IOEnv.VERIF_TRACE)

VARIABLES l, bad,
          active,   \* a case is being validated
          cur,      \* current request [kind, r] or [kind |-> "none"]
          obsMw,    \* middleware ids recorded for the current request
          obsH      \* route handlers recorded for the current request: sequence of [kind, r, k]
tvars == <<bvars, l, bad, active, cur, obsMw, obsH>>

NoReq == [kind |-> "none", r |-> 0]
Line == Trace[l]

Blank == /\ prog' = << >> /\ pcb' = 1 /\ gmw' = << << >> >> /\ gpar' = <<-1>> /\ gborn' = <<0>> /\ att' = << << >> >>
         /\ routes' = << >> /\ noRoute' = FALSE /\ noMethod' = FALSE /\ all404' = << >> /\ all405' = << >> /\ nm' = 0

TraceInit == /\ StartBuild(<< >>) /\ l = 1 /\ bad = << >> /\ active = FALSE /\ cur = NoReq /\ obsMw = << >> /\ obsH = << >>

WellFormedOp(o) == o.op \in {"Use", "Group", "Register", "NoRoute", "NoMethod"}

TraceCase == /\ l <= Len(Trace) /\ Line.ev = "Case" /\ ~active
             /\ \A i \in DOMAIN Line.prog : WellFormedOp(Line.prog[i])
             /\ prog' = Line.prog /\ pcb' = 1
             /\ gmw' = << << >> >> /\ gpar' = <<-1>> /\ gborn' = <<0>> /\ att' = << << >> >>
             /\ routes' = << >> /\ noRoute' = FALSE /\ noMethod' = FALSE /\ all404' = << >> /\ all405' = << >> /\ nm' = 0
             /\ active' = TRUE /\ cur' = NoReq /\ obsMw' = << >> /\ obsH' = << >>
             /\ l' = l + 1 /\ UNCHANGED bad

TraceBuild == /\ active /\ ~Built /\ BuildStep
              /\ UNCHANGED <<l, bad, active, cur, obsMw, obsH>>

TraceRequest == /\ active /\ Built /\ l <= Len(Trace) /\ Line.ev = "Request" /\ cur = NoReq
                /\ Line.kind \in {"route", "noroute", "nomethod"}
                /\ Line.kind = "route" => Line.r + 1 \in DOMAIN routes
                /\ cur' = [kind |-> Line.kind, r |-> Line.r + 1] /\ obsMw' = << >> /\ obsH' = << >>
                /\ l' = l + 1 /\ UNCHANGED <<bvars, bad, active>>

\* middleware runs before the route's own handlers
TraceMw == /\ active /\ cur # NoReq /\ l <= Len(Trace) /\ Line.ev = "Mw" /\ obsH = << >>
           /\ obsMw' = Append(obsMw, Line.m)
           /\ l' = l + 1 /\ UNCHANGED <<bvars, bad, active, cur, obsH>>

TraceHandler == /\ active /\ cur # NoReq /\ l <= Len(Trace) /\ Line.ev = "Handler"
                /\ obsH' = Append(obsH, [kind |-> Line.kind, r |-> Line.r + 1, k |-> Line.k])
                /\ l' = l + 1 /\ UNCHANGED <<bvars, bad, active, cur, obsMw>>

ExpectedHandlers == CASE cur.kind = "route" -> [k \in 1 .. routes[cur.r].n |-> [kind |-> "route", r |-> cur.r, k |-> k - 1]]
                      [] cur.kind = "noroute" -> IF noRoute THEN <<[kind |-> "noroute", r |-> 1, k |-> 0]>> ELSE << >>
                      [] cur.kind = "nomethod" -> IF noMethod THEN <<[kind |-> "nomethod", r |-> 1, k |-> 0]>> ELSE << >>

TraceServed == /\ active /\ cur # NoReq /\ l <= Len(Trace) /\ Line.ev = "Served"
               /\ obsH = ExpectedHandlers
               /\ IF cur.kind = "route" THEN RouteObligation(cur.r, obsMw) ELSE EngineObligation(obsMw)
               /\ cur' = NoReq /\ obsMw' = << >> /\ obsH' = << >>
               /\ l' = l + 1 /\ UNCHANGED <<bvars, bad, active>>

TraceEnd == /\ active /\ Built /\ cur = NoReq /\ l <= Len(Trace) /\ Line.ev = "End"
            /\ active' = FALSE /\ Blank /\ l' = l + 1 /\ UNCHANGED <<bad, cur, obsMw, obsH>>

Normal == TraceCase \/ TraceBuild \/ TraceRequest \/ TraceMw \/ TraceHandler \/ TraceServed \/ TraceEnd

NextCase(k) == IF \E j \in k + 1 .. Len(Trace) : Trace[j].ev = "Case"
               THEN CHOOSE j \in k + 1 .. Len(Trace) : Trace[j].ev = "Case" /\ \A i \in k + 1 .. j - 1 : Trace[i].ev # "Case"
               ELSE Len(Trace) + 1

Mismatch == /\ l <= Len(Trace) /\ ~ENABLED Normal
            /\ bad' = Append(bad, l)
            /\ l' = IF Len(bad) >= 50 THEN Len(Trace) + 1 ELSE NextCase(l)
            /\ active' = FALSE /\ cur' = NoReq /\ obsMw' = << >> /\ obsH' = << >> /\ Blank

MismatchEOF == /\ l = Len(Trace) + 1 /\ active /\ ~ENABLED TraceBuild
               /\ bad' = Append(bad, l) /\ l' = l
               /\ active' = FALSE /\ cur' = NoReq /\ obsMw' = << >> /\ obsH' = << >> /\ Blank

TraceNext == Normal \/ Mismatch \/ MismatchEOF

Report == (l = Len(Trace) + 1 /\ ~active) => PrintT(<<"@@BAD", bad, l - 1, Len(Trace)>>)
=============================================================================
