----------------------------- MODULE AdaptorGen -----------------------------
(***************************************************************************************************************)
(* Case generator for X04.  One ndjson line per case.                                                          *)
(*  kind "rw":  [pre, prebody, ops, sig]: a hertz Response holding the headers `pre` (added in that order) and  *)
(*     the body `prebody`, then the call sequence `ops` on the writer made over it.  Family "enum": EVERY      *)
(*     sequence of length 0..GenLen over the alphabet GenOps x both initial responses; family "rand": NRand    *)
(*     sequences of length GenLen+1 .. GenLen+5 over the full alphabet, a pure function of (seed, i).          *)
(*     sig = marks of the sequences on which the tree as it is deviates (Adaptor!Wh2/Ck2/Lost): they select    *)
(*     known findings, they never decide anything.                                                             *)
(*  kind "fwd": a request built in hertz (parsed from wire bytes by http1/req.Read, or through the setters),   *)
(*     converted with GetCompatRequest.  kind "rev": a request parsed by net/http from wire bytes, copied with *)
(*     CopyToHertzRequest, written to a wire, converted back.  Family A = header sets x body shapes x          *)
(*     construction x protocol (method, target, host cycle with the index); family B = request-targets x hosts *)
(*     x methods x construction (header set cycles); family C = the odd ones (method "", method not a token,   *)
(*     https, target "", target with spaces, names not normalised).  ReqFull multiplies A by targets and B by  *)
(*     header sets.                                                                                            *)
(***************************************************************************************************************)
EXTENDS Adaptor, AdaptorReq, Json, IOUtils, SequencesExt

CONSTANTS GenLen, GenOps, NRand, ReqFull

Seed == IF "VERIF_SEED" \in DOMAIN IOEnv THEN atoi(IOEnv.VERIF_SEED) ELSE 1

-----------------------------------------------------------------------------
(* response writer *)
Alpha == IF GenOps = "full" THEN OpsFull ELSE IF GenOps = "mid" THEN OpsMid ELSE OpsSmall
SigOf(P, ops) == [wh2 |-> Wh2(ops), ck2 |-> Ck2(P, ops), lost |-> Lost(P, ops)]
Rw(fam, P, ops) == [kind |-> "rw", fam |-> fam, pre |-> P, prebody |-> PreBodyOf(P), ops |-> ops, sig |-> SigOf(P, ops)]
\* the enumeration as a sequence, decoded from its index (a SET of several hundred thousand records costs TLC hours):
\* case e (0-based) = initial response e % 2, sequence number e \div 2 in the list "all of length 0, all of length 1, .."
AlphaSeq == SetToSeq(Alpha)
K == Len(AlphaSeq)
RECURSIVE Pow(_, _)
Pow(b, n) == IF n = 0 THEN 1 ELSE b * Pow(b, n - 1)
RECURSIVE Cum(_)
Cum(n) == IF n = 0 THEN 0 ELSE Cum(n - 1) + Pow(K, n - 1)          \* number of sequences shorter than n
NEnum == 2 * Cum(GenLen + 1)
SeqNo(n, j) == [p \in 1 .. n |-> AlphaSeq[((j \div Pow(K, p - 1)) % K) + 1]]
EnumAt(e) == LET s == e \div 2
                 n == CHOOSE m \in 0 .. GenLen : Cum(m) <= s /\ s < Cum(m + 1)
             IN Rw("enum", IF e % 2 = 0 THEN PreNone ELSE PreSome, SeqNo(n, s - Cum(n)))

Hh(x) == LET y == x % 46337 IN (y * y + 7) % 46337
R(i, k) == Hh(Hh(Hh((Seed * 131 + i * 31 + k * 7) % 46337) + k) + (i % 977))
FullSeq == SetToSeq(OpsFull)
RandOps(i) == [k \in 1 .. (GenLen + 1 + (R(i, 0) % 5)) |-> FullSeq[(R(i, k) % Len(FullSeq)) + 1]]
RandAt(i) == Rw("rand", IF R(i, 99) % 2 = 0 THEN PreNone ELSE PreSome, RandOps(i))

-----------------------------------------------------------------------------
(* requests *)
Body(k, n) == [k |-> k, n |-> n]
NoBody == Body("none", 0)
WireBodies == <<NoBody, Body("bytes", 5), Body("bytes", 0), Body("chunked", 5), Body("chunked", 300), Body("bytes", 300)>>
ApiBodies == <<NoBody, Body("bytes", 5), Body("stream", 5), Body("streamlen", 300), Body("streamerr", 10), Body("stream", 0)>>

HeaderSets == <<
  << >>,
  <<H("X-A", "v1")>>,
  <<H("X-A", "v1"), H("x-a", "v2"), H("X-Empty", ""), H("X-A", "v3"), H("X-B", "b b")>>,
  <<H("Cookie", "a=1; b=2"), H("Cookie", "c=3"), H("User-Agent", "ua/1"), H("Accept", "*/*")>>,
  <<H("Content-Type", "application/json"), H("Accept-Encoding", "gzip, br"), H("X-Odd", "a, b;c=\"d\" (e)"),
    H("Authorization", "Bearer x.y-z_~+/="), H("X-Forwarded-For", "1.2.3.4"), H("X-Forwarded-For", "5.6.7.8")>> >>

\* request-targets that may stand in a request line; rev = net/http accepts it too
Tg(t, rev) == [t |-> t, rev |-> rev]
Targets == <<Tg("/p", TRUE), Tg("/p?x=1", TRUE), Tg("/a%20b/c%2Fd?q=a%20b&z=&&w", TRUE), Tg("/a//b/./c/../d", TRUE),
             Tg("/caf%C3%A9?k=%C3%A9", TRUE), Tg("/a:b/c;d=e+f?u=http://x/y?z", TRUE), Tg("/p%zz?a=%zz", FALSE),
             Tg("http://other.example/abs?x=1", TRUE), Tg("/", TRUE), Tg("/p?", TRUE), Tg("*", TRUE)>>
Hosts == <<"example.com", "EXAMPLE.com:8080", "[::1]:80", "", "a b">>
Methods == <<"GET", "POST", "PUT", "DELETE", "HEAD", "OPTIONS", "PURGE">>
BodyMethods == <<"POST", "PUT", "PURGE">>
At(s, k) == s[(k % Len(s)) + 1]

Req(kind, fam, via, method, proto, host, scheme, target, hs, b, nonorm) ==
  [kind |-> kind, fam |-> fam, via |-> via, method |-> method, proto |-> proto, host |-> host, scheme |-> scheme,
   target |-> target, hdrs |-> hs, body |-> b, nonorm |-> nonorm,
   bad |-> (host = "a b" \/ method = "BAD METHOD")]
Vias(kind) == IF kind = "fwd" THEN {"wire", "api"} ELSE {"wire"}
Protos(via) == IF via = "wire" THEN {"HTTP/1.1", "HTTP/1.0"} ELSE {"HTTP/1.1"}
BodiesOf(via) == IF via = "wire" THEN WireBodies ELSE ApiBodies
TargetIdx(kind) == {t \in 1 .. Len(Targets) : kind = "fwd" \/ Targets[t].rev}
\* HTTP/1.0 cannot carry a chunked body
Fits(proto, b) == ~(proto = "HTTP/1.0" /\ b.k = "chunked")

ReqA(kind, via, proto, hi, bi, ti) ==
  Req(kind, "A", via, IF BodiesOf(via)[bi].k = "none" THEN At(Methods, hi + bi) ELSE At(BodyMethods, hi + bi), proto,
      At(Hosts, (hi + 2 * bi) % 3), "http", Targets[ti].t, HeaderSets[hi], BodiesOf(via)[bi], FALSE)
FamA(kind) == UNION {UNION {{ReqA(kind, via, proto, hi, bi, ti) :
                               proto \in Protos(via), ti \in IF ReqFull THEN TargetIdx(kind) ELSE {At(<<1, 2, 3, 5>>, hi + bi)}} :
                            hi \in 1 .. Len(HeaderSets), bi \in 1 .. 6} : via \in Vias(kind)}
ReqB(kind, via, ti, hi, mi, si) ==
  Req(kind, "B", via, Methods[mi], IF via = "wire" /\ (ti + hi) % 4 = 0 THEN "HTTP/1.0" ELSE "HTTP/1.1",
      Hosts[hi], "http", Targets[ti].t, HeaderSets[si], NoBody, FALSE)
FamB(kind) == UNION {{ReqB(kind, via, ti, hi, mi, si) :
                        si \in IF ReqFull THEN 1 .. Len(HeaderSets) ELSE {((ti + hi + mi) % Len(HeaderSets)) + 1}} :
                     via \in Vias(kind), ti \in TargetIdx(kind), hi \in 1 .. Len(Hosts), mi \in 1 .. Len(Methods)}
FamC == {Req("fwd", "C", "api", m, "HTTP/1.1", "example.com", sch, t, HeaderSets[3], b, nn) :
           m \in {"", "BAD METHOD", "POST"}, sch \in {"http", "https"}, t \in {"", "/x y?a=b c", "/p?x=1"},
           b \in {NoBody, Body("bytes", 5)}, nn \in {FALSE, TRUE}}

FilterWF(S) == {c \in S : Fits(c.proto, c.body)}
ReqCases == FilterWF(FamA("fwd") \cup FamA("rev") \cup FamB("fwd") \cup FamB("rev") \cup FamC)

-----------------------------------------------------------------------------
ReqSeq == SetToSeq(ReqCases)
NReq == Len(ReqSeq)
CaseAt(i) == IF i <= NReq THEN ReqSeq[i]
             ELSE IF i <= NReq + NEnum THEN EnumAt(i - NReq - 1)
             ELSE RandAt(i - NReq - NEnum)
ASSUME ndJsonSerialize(IOEnv.VERIF_OUT, [i \in 1 .. NReq + NEnum + NRand |-> [id |-> i] @@ CaseAt(i)])
GenInit == StartWith(PreNone)
GenNext == UNCHANGED vars
=============================================================================
