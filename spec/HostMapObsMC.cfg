\* the observer accepts: 1 key, 2 callers x 2 calls, MaxConns 1, 2 ticks, 1 CloseIdleConnections, 1 retry (re-creation after removal, cleaner restart)
CONSTANTS
  Keys = {"a"}
  TLSKeys = {}
  Callers = {1, 2}
  MaxCalls = 2
  NH = 4
  MaxConns = 1
  MaxTicks = 2
  MaxCI = 1
  MaxReap = 1
  Retries = 1
  HoldCounted = TRUE
  CIAll = TRUE
INIT OInitMC
NEXT ONextMC
VIEW OView
INVARIANTS Accepts Agree
