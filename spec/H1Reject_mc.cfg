SPECIFICATION RSpec
INVARIANTS RTypeOK RejectIsFinal HandlersMatch
CONSTRAINT Bounded
