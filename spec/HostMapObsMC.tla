---------------------------- MODULE HostMapObsMC ----------------------------
(* The observer used for trace validation (HostMapObs) accepts every behaviour of HostMap: HostMap runs with the *)
(* observer fed the events its steps emit, converted to the shape of the recorded lines; invariant: the observer  *)
(* never rejects, and its view of the map agrees with the model (it is not vacuous).  With the as-written        *)
(* constants (HoldCounted = FALSE / CIAll = FALSE) the observer must reject some behaviour: HostMapObsMC_asis*.   *)
EXTENDS HostMap, HostMapObs

VARIABLE obs
ovars == <<vars, obs>>

NC == Cardinality(Callers)
P(c) == c + NC * calls[c]                 \* the recorded call number: one per call (callers are 1 .. NC)
Sch(k) == IF k \in TLSKeys THEN "https" ELSE "http"
KeyStr(k) == (IF k \in TLSKeys THEN "s|" ELSE "h|") \o k
AddrStr(k) == k \o ".test:" \o (IF k \in TLSKeys THEN "443" ELSE "80")
Conv(e) ==
    CASE e.ev = "Begin" -> [ev |-> "Begin", p |-> P(e.p), sch |-> Sch(e.k), host |-> e.k, port |-> "", up |-> 0, via |-> "url"]
      [] e.ev = "New" -> [ev |-> "New", p |-> P(e.p), hc |-> e.hc, err |-> FALSE]
      [] e.ev = "Config" -> [ev |-> "Config", p |-> P(e.p), hc |-> e.hc, addr |-> AddrStr(e.k), tls |-> (e.k \in TLSKeys),
                             max |-> MaxConns, idleMs |-> 60000, waitMs |-> 0, obs |-> FALSE, obsMs |-> 0, err |-> FALSE]
      [] e.ev \in {"Use", "Done"} -> [ev |-> e.ev, p |-> P(e.p), hc |-> e.hc]
      [] e.ev = "Cnt" -> [ev |-> "Cnt", hc |-> e.hc, n |-> e.n]
      [] e.ev = "End" -> [ev |-> "End", p |-> P(e.p), res |-> (IF e.res THEN "ok" ELSE "nofree"), body |-> "r" \o ToString(P(e.p))]
      [] e.ev = "Should" -> [ev |-> "Should", hc |-> e.hc, g |-> (IF e.hc \in HC /\ hc[e.hc].k \in TLSKeys THEN 100 ELSE 0) + e.g,
                             t |-> e.t, res |-> e.res, sure |-> TRUE]
      [] e.ev = "Close" -> [ev |-> "Close", hc |-> e.hc, g |-> (IF e.hc \in HC /\ hc[e.hc].k \in TLSKeys THEN 100 ELSE 0) + e.g]
      [] OTHER -> [ev |-> e.ev, hc |-> e.hc]

Feed(o, s) == LET f[i \in 0 .. Len(s)] == IF i = 0 THEN o ELSE OStep(f[i - 1], Conv(s[i])) IN f[Len(s)]

OInitMC == Init /\ obs = OInit([mode |-> "wrap", maxConns |-> MaxConns, waitMs |-> 0, idleMs |-> 60000, obsMs |-> 0,
                                hookErr |-> 0, facErr |-> 0])
ONextMC == Next /\ obs' = Feed(obs, out')
Accepts == obs.ok
Agree == obs.ok => \A k \in Keys : m[k] = IF Has(obs, KeyStr(k)) THEN obs.m[KeyStr(k)] ELSE 0
OView == <<View, obs>>
=============================================================================
