CONSTANTS AsWritten = FALSE
  MCMaxScript = 4
  MCEntries = {"dialerr", "closeBefore", "closePartial", "stall", "ok", "okLive", "okStale", "s502", "r302path", "r301relStale", "r303queryLive", "r307abs", "r308schrel", "r302none"}
  MCApis = {"do", "reqtimeout", "redirects"}
  MCRetryIfs = {"default", "always", "err", "s5xx", "cancel"}
  MCWarms = {"none", "live", "stale"}
  MCMethods = {"GET", "POST"}
SPECIFICATION Spec
INVARIANTS AttemptBound NonRepeatableOnce RetryOnlyWhenAllowed NothingSentLate RedirectBound DefaultApplied ResultIsLast
