CONSTANTS
  Procs = {p1, p2}
  MaxBinds = 2
SPECIFICATION Spec
INVARIANTS TypeOK CacheSound ResultIndependentOfHistory ResultsAcceptable
