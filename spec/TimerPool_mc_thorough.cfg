CONSTANTS
  NT = 3
  NU = 3
  Rounds = 2
  Drain = TRUE
  AtomicFire = TRUE
  Go123 = FALSE
  Misuse = FALSE
  PutOnlyStopped = FALSE
SPECIFICATION Spec
INVARIANTS TypeOK NoStaleTick PoolQuiescent NoTrap Exclusive

