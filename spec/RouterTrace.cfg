CONSTANTS
  GetPats = {}
  PostPats = {}
  Paths = {}
  MaxRoutes = 0
INIT TraceInit
NEXT TraceNext
INVARIANTS Report AcceptedSetsOnly PriorityRule ParamsAreSubstrings NoMatchNoHandler
