---------------------------- MODULE TimerPoolGen ----------------------------
(* X03 part B: the scenarios replayed against the real AcquireTimer / ReleaseTimer.  A scenario is a sequence of   *)
(* steps of two users of the pool:                                                                                *)
(*   A(u,d) AcquireTimer (d = "s": 2 ms, "l": 1000 s = never fires)   X(u) ReleaseTimer                            *)
(*   W(u)   wait until the timer has fired, do not receive            R(u) receive from t.C                         *)
(*   T(u)   non-blocking receive                                      Y(u) ReleaseTimer on the timer released last  *)
(* All well-formed sequences of exactly SLen steps are enumerated (every shorter one is a prefix of one of them):  *)
(* a user acquires only when it holds nothing, waits / receives only on a short timer whose tick it has not taken  *)
(* (and not after a T that may have taken it), releases only what it holds.  They contain every order of          *)
(* fire / Stop / drain / Put / Get / Reset that one goroutine can force: release before the expiry (Stop succeeds), *)
(* after it with the tick unreceived (drain) or received (nothing to drain), re-acquisition by the same or the     *)
(* other user with a short or a never-firing duration.  Misuse scenarios (MLen steps, never-firing timers only)    *)
(* contain exactly one Y.  User 1 moves first (the users are symmetric).                                          *)
EXTENDS Integers, Sequences, FiniteSets, TLC, Json, IOUtils, SequencesExt
CONSTANTS SLen, MLen

Users == {1, 2}
St0 == [h |-> <<"n", "n">>, c |-> <<"no", "no">>, r |-> <<FALSE, FALSE>>, y |-> FALSE]
Step(op, u, d) == [op |-> op, u |-> u, d |-> d]
\* the steps possible in state st, each with its successor state
Moves(st, misuse) ==
  UNION {
    (IF st.h[u] = "n" THEN {<<Step("A", u, d), [st EXCEPT !.h[u] = d, !.c[u] = "no"]>> : d \in IF misuse THEN {"l"} ELSE {"s", "l"}} ELSE {})
    \cup (IF ~misuse /\ st.h[u] = "s" /\ st.c[u] = "no" THEN {<<Step("W", u, "-"), st>>, <<Step("R", u, "-"), [st EXCEPT !.c[u] = "yes"]>>} ELSE {})
    \cup (IF st.h[u] # "n" THEN {<<Step("T", u, "-"), [st EXCEPT !.c[u] = IF st.h[u] = "s" /\ @ = "no" THEN "maybe" ELSE @]>>,
                                 <<Step("X", u, "-"), [st EXCEPT !.h[u] = "n", !.r[u] = TRUE]>>} ELSE {})
    \cup (IF misuse /\ ~st.y /\ st.h[u] = "n" /\ st.r[u] THEN {<<Step("Y", u, "-"), [st EXCEPT !.y = TRUE]>>} ELSE {})
    : u \in Users}
RECURSIVE Runs(_, _)
Runs(n, misuse) == IF n = 0 THEN {<<<< >>, St0>>}
                   ELSE UNION {{<<Append(p[1], m[1]), m[2]>> : m \in Moves(p[2], misuse)} : p \in Runs(n - 1, misuse)}
\* T right after T, and T on a timer whose tick was received, add nothing
Dull(q) == \E i \in 1 .. Len(q) - 1 : q[i].op = "T" /\ q[i + 1].op = "T" /\ q[i].u = q[i + 1].u
Normal == {p[1] : p \in {x \in Runs(SLen, FALSE) : x[1][1].u = 1 /\ ~Dull(x[1])}}
Misused == {p[1] : p \in {x \in Runs(MLen, TRUE) : x[1][1].u = 1 /\ x[2].y /\ ~Dull(x[1])}}
ASSUME LET N == SetToSeq(Normal)  M == SetToSeq(Misused) IN
       ndJsonSerialize(IOEnv.VERIF_OUT,
         [i \in 1 .. Len(N) + Len(M) |->
            IF i <= Len(N) THEN [ev |-> "Case", id |-> i, kind |-> "scn", misuse |-> FALSE, steps |-> N[i]]
            ELSE [ev |-> "Case", id |-> i, kind |-> "scn", misuse |-> TRUE, steps |-> M[i - Len(N)]]])
VARIABLE dummy
GenInit == dummy = 0
GenNext == UNCHANGED dummy
=============================================================================
