\* liveness under fairness: 2 connections x 1 caller x 2 hooks, netpoll
CONSTANTS
  Conns = {c1, c2}
  Callers = {k1}
  Hooks = {h1, h2}
  BeyondHooks = {h2}
  MaxReq = 1
  Transport = "netpoll"
  ServerRun = TRUE
  CasLoserErrors = TRUE
  ExitCheckAfterHandler = TRUE
  CountAtAccept = TRUE
SPECIFICATION FairSpec
INVARIANTS TypeOK ObligationsHold
PROPERTIES ShutdownReturns HooksStartedL InFlightCompletedL
