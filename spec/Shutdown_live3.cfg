\* liveness under fairness: 2 connections x 1 caller x 1 hook, netpoll
CONSTANTS
  Conns = {c1, c2}
  Callers = {k1}
  Hooks = {h1}
  BeyondHooks = {}
  MaxReq = 1
  Transport = "netpoll"
  ServerRun = TRUE
  CasLoserErrors = TRUE
  ExitCheckAfterHandler = TRUE
  HooksConcurrent = TRUE
  CountAtAccept = TRUE
SPECIFICATION FairSpec
INVARIANTS TypeOK ObligationsHold
PROPERTIES ShutdownReturns HooksStartedL InFlightCompletedL
