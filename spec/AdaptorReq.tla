----------------------------- MODULE AdaptorReq -----------------------------
(***************************************************************************************************************)
(* X04, request side (clauses 1, 2, 4 of Adaptor.tla) as relations between VIEWS of a request.  A view is what  *)
(* the accessors of one object show (harness/drivers/x04/views.go), the same record for both worlds:           *)
(*   [method, path, query, ruri, host, hhost, scheme, proto, hdrs, cookies, body, cl, err, berr]                *)
(*   hertz:    Method(), URI().Path() (decoded, normalised), URI().QueryString(), Header.RequestURI(),          *)
(*             URI().Host(), Header.Host(), URI().Scheme(), Header.GetProtocol(), VisitAll grouped by name      *)
(*             (sorted by name, values in order), VisitAllCookie as "k=v", BodyE(), Header.ContentLength()       *)
(*   net/http: r.Method, r.URL.Path, r.URL.RawQuery, r.RequestURI, r.URL.Host, r.Host, r.URL.Scheme, r.Proto,   *)
(*             r.Header (sorted by name), r.Cookies() as "k=v", io.ReadAll(r.Body), r.ContentLength             *)
(*   err = the conversion returned an error; berr = reading the body returned an error.                        *)
(* A request case: [kind "fwd"|"rev", via "wire"|"api", method, proto, host, scheme, target, hdrs, body [k,n],  *)
(* nonorm, bad] -- bad = http.NewRequest documents an error for it (method not a token / host not a URL host).  *)
(***************************************************************************************************************)
EXTENDS Integers, Sequences, FiniteSets

Framing == {"Content-Length", "Transfer-Encoding"}       \* owned by the transport on both sides
Sel(hs, X) == SelectSeq(hs, LAMBDA e : e.n \notin X)

\* clause 1: http view o of the request whose hertz view is h (also used for the way back in clause 2)
FwdOK(c, h, o) ==
  IF o.err THEN c.bad \/ h.berr
  ELSE /\ o.method = h.method
       /\ o.path = h.path /\ o.query = h.query /\ o.scheme = h.scheme
       /\ o.host = h.host /\ o.hhost \in {h.host, h.hhost}
       /\ Sel(o.hdrs, Framing) = Sel(h.hdrs, Framing)
       /\ o.cookies = h.cookies
       /\ IF h.berr THEN o.berr                                   \* an unreadable body stays unreadable
          ELSE ~o.berr /\ o.body = h.body /\ o.cl \in {-1, Len(o.body)}

\* clause 2: hertz view c of the copy of the server-side http.Request whose view is n
RevExcl == Framing \cup {"Host", "Cookie"}   \* Host lives in r.Host; hertz keeps the cookie pairs, not the lines
CopyOK(n, c) ==
  /\ ~c.err /\ ~c.berr
  /\ c.method = n.method /\ c.ruri = n.ruri /\ c.hhost = n.hhost /\ c.proto = n.proto
  /\ Sel(c.hdrs, RevExcl) = Sel(n.hdrs, RevExcl)
  /\ c.cookies = n.cookies
  /\ c.body = n.body
\* ... and its declared length (line CopyLen{cl, blen}): SetBodyStream's size >= 0 promises exactly that many bytes
CopyLenOK(e) == e.cl < 0 \/ e.cl = e.blen

\* clause 2: the copy written to a wire by hertz (http1/req.Write) and read back by net/http (hertz's writer refuses a
\* request without Host: nothing to compare then)
WireOK(n, w) == n.hhost = "" \/ (~w.err /\ ~w.berr /\ w.method = n.method /\ w.body = n.body)

\* clause 4: header views after the other side was changed
IsoOK(h, o, i) == i.hh = h.hdrs /\ (o.err \/ i.oh = o.hdrs)
=============================================================================
