--------------------------- MODULE CtxCopyTrace ---------------------------
(***************************************************************************)
(* Trace validation for X06.  Every line recorded by harness/drivers/x06   *)
(* from the real hertz code must be a step of CtxCopy (kinds copy, fresh)  *)
(* or satisfy the judgements of CtxCopyKeys (kind keys):                   *)
(*                                                                         *)
(*  Case{kind, pre, steps, ...}  new case; every mutator it names is in    *)
(*                        the alphabet                                     *)
(*  Enter                 the handler of the first request was entered     *)
(*  Pre{m}                mutator applied to the original before Copy      *)
(*                        (in the order of the case)                       *)
(*  Copy{ndiff, nc, reqStream, respStream}   c2 := ctx.Copy() = action     *)
(*                        Copy.  nc: the values the copy shows for the     *)
(*                        components Copy does not copy = DetachedValue.   *)
(*  CopyDiff{comp}        one line per component in which the copy differs *)
(*                        from the original right after Copy: accepted iff *)
(*                        comp \in MayDiffer (clause 2)                    *)
(*  Mut{at, side, m}      mutator applied to the original (O) / the copy   *)
(*                        (C), inside the first handler (h) or inside the  *)
(*                        handler of the first later request (s) = action  *)
(*                        MutO / MutC with Touch(m)                        *)
(*  ProbeO{changed}       the original against itself right after Copy:    *)
(*                        changed within what was written through it (tO)  *)
(*  ProbeC{at, changed}   the copy against what it showed right after      *)
(*                        Copy: changed within what was written through    *)
(*                        the copy (tC) -- clause 1; at = "end": after the *)
(*                        original has been recycled at least once         *)
(*  Ending{kind}          the first handler ended = action Return          *)
(*  Recycle{k, same}      a later request is being served (same: with the  *)
(*                        very object the copy was taken from) = Recycle   *)
(*  ProbeS{changed}       the context serving the later request against    *)
(*                        itself before the "s" steps: within tO           *)
(*  Retained{changed}     byte slices / strings the copy's getters         *)
(*                        returned right after Copy, compared with their   *)
(*                        bytes then: within tC (clause 4)                 *)
(*  Scheme{orig, copy}    scheme derived by a forced re-parse (the view of *)
(*                        isTLS): equal unless a step wrote isTLS          *)
(*  BgCopy / BgProbe      (kind bg) a copy handed to a goroutine that      *)
(*                        looks at it while the server goes on: nothing    *)
(*                        may change                                       *)
(*  KGet / KSnap / KFinal (kind keys) reads of the key/value store with    *)
(*                        the writer's counters around them: InInterval,   *)
(*                        PairOK (clause 3)                                *)
(*  Panic, Race, Fatal    no action: rejected (clause 5; Race / Fatal are  *)
(*                        added by checks/x06.py from the race detector's  *)
(*                        report / a crash of the driver process)          *)
(*                                                                         *)
(* Rejected CopyDiff and Race lines are local: reported (@@LOCAL) and      *)
(* validation goes on with the next line, so that every component / every  *)
(* race is judged on its own.  Any other rejected line drops its case.     *)
(* Deterministic: one enabled action per line.                             *)
(***************************************************************************)
EXTENDS CtxCopy, CtxCopyKeysPred, Json, IOUtils

Trace == ndJsonDeserialize(IOEnv.VERIF_TRACE)

VARIABLES l,        \* next line to consume
          bad,      \* rejected lines (case dropped)
          nl,       \* locally rejected lines so far (printed one by one)
          cs,       \* the current case ([kind |-> ""] between cases)
          pos,      \* position inside the case
          npre, nst,\* pre mutators / steps consumed
          pend,     \* CopyDiff lines still to come
          strm,     \* <<reqStream, respStream>> of the last Copy / BgCopy line
          cnt       \* bg: <<copies, probes>>; keys: KFinal seen
tvars == <<l, bad, nl, cs, pos, npre, nst, pend, strm, cnt>>

Line == Trace[l]
Range(s) == {s[i] : i \in DOMAIN s}
NoCase == [kind |-> ""]
Is(e) == l <= Len(Trace) /\ Line.ev = e
Step == l' = l + 1 /\ UNCHANGED <<bad, nl>>
Keep == UNCHANGED <<cs, npre, nst, strm, cnt>>
Same == UNCHANGED vars

ModelReset(p) ==
  /\ phase' = "pre" /\ pre' = p /\ orig' = Const("first") /\ copy' = Const("none") /\ link' = {}
  /\ snapC' = Const("none") /\ snapO' = Const("first") /\ tC' = {} /\ tO' = {} /\ atCopy' = {} /\ nstep' = 0 /\ nrec' = 0
Idle == cs' = NoCase /\ pos' = "" /\ npre' = 0 /\ nst' = 0 /\ pend' = 0 /\ strm' = <<FALSE, FALSE>> /\ cnt' = <<0, 0>> /\ ModelReset(FALSE)

TraceInit == /\ phase = "pre" /\ pre = FALSE /\ orig = Const("first") /\ copy = Const("none") /\ link = {}
             /\ snapC = Const("none") /\ snapO = Const("first") /\ tC = {} /\ tO = {} /\ atCopy = {} /\ nstep = 0 /\ nrec = 0
             /\ l = 1 /\ bad = << >> /\ nl = 0 /\ cs = NoCase /\ pos = "" /\ npre = 0 /\ nst = 0 /\ pend = 0
             /\ strm = <<FALSE, FALSE>> /\ cnt = <<0, 0>>

Kinds == {"copy", "fresh", "bg", "keys"}
(* a multipart request that the server parses while reading it (not in streaming mode, not without a server) *)
IsPreParsed(c) == c.kind = "copy" /\ c.shape = "multipart" /\ c.state # "reqstream"

TraceCase ==
  /\ Is("Case") /\ cs = NoCase
  /\ Line.kind \in Kinds
  /\ \A i \in DOMAIN Line.pre : Line.pre[i] \in Alphabet
  /\ \A i \in DOMAIN Line.steps : Line.steps[i].m \in Alphabet /\ Line.steps[i].at \in {"h", "s"} /\ Line.steps[i].side \in {"O", "C"}
  /\ Line.kind \in {"copy", "fresh"} => Range(Line.watch) = Watch
  /\ cs' = Line /\ pos' = "start" /\ npre' = 0 /\ nst' = 0 /\ pend' = 0 /\ strm' = <<FALSE, FALSE>> /\ cnt' = <<0, 0>>
  /\ ModelReset(IsPreParsed(Line))
  /\ Step

InCopyCase == cs.kind \in {"copy", "fresh"}

TraceEnter ==
  /\ Is("Enter") /\ pos = "start" /\ cs.kind \in {"copy", "fresh", "keys"}
  /\ pos' = "entered" /\ UNCHANGED pend /\ Keep /\ Same /\ Step

TracePre ==
  /\ Is("Pre") /\ InCopyCase /\ pos = "entered" /\ npre < Len(cs.pre) /\ Line.m = cs.pre[npre + 1]
  /\ npre' = npre + 1 /\ UNCHANGED <<cs, pos, nst, pend, strm, cnt>> /\ Same /\ Step

NcOK(nc) == /\ {nc[i].c : i \in DOMAIN nc} = Watch
            /\ \A i \in DOMAIN nc : nc[i].v = DetachedValue[nc[i].c]

TraceCopy ==
  /\ Is("Copy") /\ InCopyCase /\ pos = "entered" /\ npre = Len(cs.pre)
  /\ NcOK(Line.nc)
  /\ Copy
  /\ pos' = "copied" /\ pend' = Line.ndiff /\ strm' = <<Line.reqStream, Line.respStream>>
  /\ UNCHANGED <<cs, npre, nst, cnt>> /\ Step

DiffLine == Is("CopyDiff") /\ pend > 0
(* A handler that rewrote the headers / body / multipart parts of a multipart request AFTER the server had parsed the
   form (the parsed form then no longer matches Content-Type and body) cannot expect the form to be re-created from
   them in the copy: unconstrained. *)
PreRewrites == \E i \in DOMAIN cs.pre : Touch(cs.pre[i]) \cap (ReqHFields \cup ReqBody \cup ReqMP) # {}
AllowedDiff == MayDiffer(strm[1], strm[2]) \cup (IF IsPreParsed(cs) /\ PreRewrites THEN PreParsedLoss ELSE {})
TraceCopyDiff ==
  /\ DiffLine /\ Line.comp \in AllowedDiff
  /\ pend' = pend - 1 /\ UNCHANGED pos /\ Keep /\ Same /\ Step

NextStep == cs.steps[nst + 1]
StepsLeft(at) == \E i \in nst + 1 .. Len(cs.steps) : cs.steps[i].at = at

TraceMut ==
  /\ Is("Mut") /\ InCopyCase /\ pend = 0 /\ nst < Len(cs.steps)
  /\ Line.at = NextStep.at /\ Line.side = NextStep.side /\ Line.m = NextStep.m
  /\ \/ Line.at = "h" /\ pos = "copied" /\ phase = "handler"
     \/ Line.at = "s" /\ pos = "recycled" /\ phase = "recycled" /\ nrec = 1
  /\ IF Line.side = "O" THEN MutO(Touch(Line.m)) ELSE MutC(Touch(Line.m))
  /\ nst' = nst + 1 /\ UNCHANGED <<cs, pos, npre, pend, strm, cnt>> /\ Step

TraceProbeO ==
  /\ Is("ProbeO") /\ InCopyCase /\ pend = 0 /\ pos = "copied" /\ ~StepsLeft("h")
  /\ Range(Line.changed) \subseteq tO
  /\ pos' = "probedO" /\ UNCHANGED pend /\ Keep /\ Same /\ Step

TraceProbeC ==
  /\ Is("ProbeC") /\ InCopyCase /\ pend = 0
  /\ Range(Line.changed) \subseteq tC
  /\ \/ Line.at = "h" /\ pos = "probedO" /\ pos' = "probedC"
     \/ Line.at = "end" /\ pos = "probedS" /\ nrec >= 1 /\ nst = Len(cs.steps) /\ pos' = "final"
  /\ UNCHANGED pend /\ Keep /\ Same /\ Step

TraceEnding ==
  /\ Is("Ending") /\ InCopyCase /\ pos = "probedC" /\ Line.kind \in {"return", "abort", "panic"}
  /\ Return
  /\ pos' = "ended" /\ UNCHANGED pend /\ Keep /\ Step

TraceRecycle ==
  /\ Is("Recycle") /\ InCopyCase /\ pos \in {"ended", "probedS"} /\ Line.k = nrec + 1
  /\ Recycle
  /\ pos' = IF pos = "ended" THEN "recycled" ELSE pos
  /\ UNCHANGED pend /\ Keep /\ Step

TraceProbeS ==
  /\ Is("ProbeS") /\ InCopyCase /\ pos = "recycled" /\ nrec = 1 /\ ~StepsLeft("s")
  /\ Range(Line.changed) \subseteq tO
  /\ pos' = "probedS" /\ UNCHANGED pend /\ Keep /\ Same /\ Step

TraceRetained ==
  /\ Is("Retained") /\ InCopyCase /\ pos = "final"
  /\ Range(Line.changed) \subseteq tC
  /\ pos' = "retained" /\ UNCHANGED pend /\ Keep /\ Same /\ Step

(* Request.isTLS has no getter; it shows in the scheme a re-parse of an origin-form target yields.  The original is
   made to re-parse at the very end of its handler, the copy at the very end of the case: same scheme, unless a step
   of the case wrote isTLS on either side. *)
TlsTouched == \E i \in DOMAIN cs.steps : "req.isTLS" \in Touch(cs.steps[i].m)
TraceScheme ==
  /\ Is("Scheme") /\ InCopyCase /\ pos = "retained"
  /\ Line.orig = Line.copy \/ TlsTouched
  /\ pos' = "schemed" /\ UNCHANGED pend /\ Keep /\ Same /\ Step

(* ---- bg ---- *)
TraceBgCopy ==
  /\ Is("BgCopy") /\ cs.kind = "bg" /\ pend = 0
  /\ pend' = Line.ndiff /\ strm' = <<Line.reqStream, Line.respStream>> /\ cnt' = <<cnt[1] + 1, cnt[2]>>
  /\ UNCHANGED <<cs, pos, npre, nst>> /\ Same /\ Step
TraceBgProbe ==
  /\ Is("BgProbe") /\ cs.kind = "bg" /\ pend = 0 /\ Line.changed = << >> /\ Line.looks >= 2
  /\ cnt' = <<cnt[1], cnt[2] + 1>> /\ UNCHANGED <<cs, pos, npre, nst, pend, strm>> /\ Same /\ Step

(* ---- keys ---- *)
Num(has, v) == IF has THEN v ELSE 0
PairLineOK(p) == PairOK(Num(p.hasA, p.a), Num(p.hasB, p.b), p.lo, p.hi)
TraceKGet ==
  /\ Is("KGet") /\ cs.kind = "keys" /\ pos = "entered"
  /\ InInterval(Num(Line.has, Line.v), Line.lo, Line.hi)
  /\ UNCHANGED <<pos, pend>> /\ Keep /\ Same /\ Step
TraceKSnap ==
  /\ Is("KSnap") /\ cs.kind = "keys" /\ pos = "entered"
  /\ \A i \in DOMAIN Line.pairs : PairLineOK(Line.pairs[i])
  /\ UNCHANGED <<pos, pend>> /\ Keep /\ Same /\ Step
TraceKFinal ==
  /\ Is("KFinal") /\ cs.kind = "keys" /\ pos = "entered" /\ Line.must = TRUE /\ Line.rounds = cs.rounds
  /\ \A i \in DOMAIN Line.pairs : LET p == Line.pairs[i] IN p.hasA /\ p.hasB /\ p.a = Line.rounds /\ p.b = Line.rounds
  /\ pos' = "kfinal" /\ UNCHANGED pend /\ Keep /\ Same /\ Step

TraceEnd ==
  /\ Is("End") /\ cs # NoCase /\ pend = 0
  /\ InCopyCase => pos = "schemed"
  /\ cs.kind = "bg" => cnt[1] >= 1 /\ cnt[2] = cnt[1]
  /\ cs.kind = "keys" => pos = "kfinal"
  /\ Idle /\ Step

Normal == TraceCase \/ TraceEnter \/ TracePre \/ TraceCopy \/ TraceCopyDiff \/ TraceMut \/ TraceProbeO \/ TraceProbeC
          \/ TraceEnding \/ TraceRecycle \/ TraceProbeS \/ TraceRetained \/ TraceScheme \/ TraceBgCopy \/ TraceBgProbe
          \/ TraceKGet \/ TraceKSnap \/ TraceKFinal \/ TraceEnd

NextCase(k) == IF \E j \in k + 1 .. Len(Trace) : Trace[j].ev = "Case"
               THEN CHOOSE j \in k + 1 .. Len(Trace) : Trace[j].ev = "Case" /\ \A i \in k + 1 .. j - 1 : Trace[i].ev # "Case"
               ELSE Len(Trace) + 1

(* a component of the copy differs from the original although the specification says it is preserved; a data race
   reported while the case ran: reported on their own, validation goes on *)
LocalLine == DiffLine \/ (Is("Race") /\ cs # NoCase)
MismatchLocal ==
  /\ LocalLine /\ ~ENABLED Normal
  /\ l' = l + 1 /\ nl' = nl + 1
  /\ pend' = IF DiffLine THEN pend - 1 ELSE pend
  /\ UNCHANGED <<vars, bad, cs, pos, npre, nst, strm, cnt>>
  /\ PrintT(<<"@@LOCAL", l>>)

Mismatch ==
  /\ l <= Len(Trace) /\ ~ENABLED Normal /\ ~LocalLine
  /\ bad' = Append(bad, l)
  /\ l' = NextCase(l)
  /\ Idle /\ UNCHANGED nl

(* the recording stops in the middle of a case *)
MismatchEOF ==
  /\ l = Len(Trace) + 1 /\ cs # NoCase
  /\ bad' = Append(bad, Len(Trace)) /\ l' = l
  /\ Idle /\ UNCHANGED nl

TraceNext == Normal \/ MismatchLocal \/ Mismatch \/ MismatchEOF

(* the model's invariants hold on the recorded run as well *)
ModelOK == IndependentCopy /\ IndependentOrig /\ Complete /\ NoNextInCopy

Report == (l = Len(Trace) + 1 /\ cs = NoCase) => PrintT(<<"@@BAD", bad, l - 1, Len(Trace)>>) /\ PrintT(<<"@@NLOCAL", nl>>)
=============================================================================
