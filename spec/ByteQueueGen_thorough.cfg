CONSTANTS
  Mode = "exhaustive"
  ExLenRd = 4
  ExLenWr = 5
  ExLenRf = 4
  ExSizes = {1, 4096, 4097}
  ExEnvSel = "thorough"
  SimLen = 0
  SimSizes = {0}
INIT ExInit
NEXT ExNext
