CONSTANTS
  MaxToks = 4
  Big = TRUE
  NRand = 120000
  Part = "scan"
SPECIFICATION Spec
INVARIANTS WF ImplIsRef NoSpoofInv RightMostInv ResultShapeInv
