------------------------------ MODULE Shutdown ------------------------------
(***************************************************************************)
(* C18 -- graceful shutdown lets in-flight requests finish and bounds the  *)
(* wait.                                                                   *)
(*                                                                         *)
(* MECHANISM (one action per step / critical section of the code):         *)
(*   route.Engine.Run / Shutdown / executeOnShutdownHooks / IsRunning      *)
(*       Run            MarkAsRunning + listen (atomic here, see limits)   *)
(*       RunReturn      defer StoreUint32(status, closed)                  *)
(*       Call, Load, Cas, TransportClose, TransportWait, HookWait,         *)
(*       EmitReturn     one Shutdown caller: atomic.Load(status) ; CAS     *)
(*                      running->shutdown ; ctx with ExitWaitTimeout ;     *)
(*                      `go executeOnShutdownHooks` ; transport.Shutdown   *)
(*                      (listener close ; wait active = 0 or ctx.Done) ;   *)
(*                      deferred select {ctx.Done, hooks finished}         *)
(*       HookStart/End  one goroutine per OnShutdown hook                  *)
(*       Fire           the timer of context.WithTimeout                   *)
(*   standard.transport.serve / Shutdown / updateActive,                   *)
(*   netpoll transporter.Shutdown -> netpoll server.Close                  *)
(*       Dial, Accept   kernel backlog / accept loop: Accept() returns,     *)
(*                      updateActive(1), then the OnAccept / OnConnect     *)
(*                      callbacks run in the accept loop                   *)
(*       Spawn          `go func(){ handler; updateActive(-1) }()`          *)
(*       NetpollCloseIdle   netpoll closes connections that are idle for   *)
(*                      netpoll (accepted, nothing received, not in the    *)
(*                      hertz loop) while Shutdown waits                   *)
(*   http1.Server.Serve (per-connection loop)                              *)
(*       StartRead, RecvDone (= handler entered), ReadFlag, EmitExit (the  *)
(*       instrumented handler reads IsRunning() and returns), ExitCheck    *)
(*       (`if !s.Core.IsRunning() { connectionClose = true }`, reading     *)
(*       status AFTER the handler), WriteDone (response flushed; close or  *)
(*       keep alive), IdleEnd (idle time-out / peer close; active - 1)     *)
(*   clients: ClientSend (partial or whole request), ClientRead            *)
(*                                                                         *)
(* OBSERVER.  The property is stated over what a user of the public API    *)
(* can observe: events Dial, Accept, HandlerEnter, HandlerExit{running},   *)
(* ResponseComplete{close,bytesOk}, ResponseNone, ShutdownCall,            *)
(* ShutdownReturn{err,elapsed}, HookStart, HookEnd, DialAfter, End, in the *)
(* order in which one mutex-protected log records them.  The observer      *)
(* variables o* are updated by Obs<Event> and the obligations are the      *)
(* predicates Ok<Event> (evaluated before the update).  Every mechanism    *)
(* action that emits an event is conjoined with Obs<Event> and records a   *)
(* failed obligation in oBad; TLC checks oBad = {} under every             *)
(* interleaving, i.e. the design never trips an obligation.  ShutdownTrace *)
(* evaluates the SAME operators on the events recorded from the real       *)
(* server (there a failed obligation rejects the trace).                   *)
(*                                                                         *)
(* Obligations (names as in DESIGN.md 4/C18):                              *)
(*   InFlightCompleted  a request already received (handler entered) when  *)
(*                      the shutdown is requested gets a complete,         *)
(*                      untruncated response; any response that arrives is *)
(*                      complete (OkResponse, OkResponseNone, OkEnd;       *)
(*                      ResponseTruncated has no action)                   *)
(*   InFlightAwaited    Shutdown returning nil before the exit wait time   *)
(*                      elapsed => no such handler is still running        *)
(*   AcceptedAwaited    ... and no connection whose acceptance was logged  *)
(*                      (OnAccept on the standard transport, OnConnect on  *)
(*                      both) before any Shutdown call is served later:    *)
(*                      "accepted" binds at Accept, not at handler start   *)
(*   CloseAnnounced     handler exit after the flip (IsRunning() false in  *)
(*                      the handler, or HookStart/nil return logged        *)
(*                      before) => response carries Connection: close      *)
(*   HooksStarted       a shutdown of a running server starts every hook   *)
(*                      (OkEnd; liveness HooksStartedL)                    *)
(*                      and when Shutdown returns nil every hook has       *)
(*                      STARTED (OkReturn): the hooks are triggered        *)
(*                      concurrently, a slow or stuck hook cannot starve   *)
(*                      the others.  Timing assumption (see Fire): a       *)
(*                      goroutine that can start does so within the exit   *)
(*                      wait time.                                         *)
(*   HooksAwaited       nil return before the exit wait time => every hook *)
(*                      has ended                                          *)
(*   NoAcceptAfterClose a connection dialled after a nil return is never   *)
(*                      served (OkHandlerEnter/oLate, OkDialAfter)         *)
(*   SecondShutdownErrors  at most one caller returns nil; a call made     *)
(*                      after the shutdown began reports an error          *)
(*   NotRunningErrors   a call on a server that is not running errors      *)
(*   BoundedReturn      elapsed <= wait + Slack(wait) (real runs)          *)
(*   ShutdownReturns    (liveness, fair spec) every call returns           *)
(*                                                                         *)
(* Deliberately unconstrained: the error value of the shutdown that does   *)
(* the work, whether a response carries Connection: close when nothing     *)
(* forces it, what happens to connections that are idle / half-received /  *)
(* not yet accepted when the shutdown begins (served with close, closed    *)
(* without response, refused - unless their handler is entered), when idle *)
(* keep-alive peers are closed, status codes, header order, Run's return   *)
(* value, everything about timing except the bound on the return.          *)
(* Not modelled: a Shutdown racing with the start-up in Run (status is     *)
(* running before the listener exists), TLS, hijacked connections,         *)
(* Registry.Deregister, Engine.Close.                                      *)
(***************************************************************************)
EXTENDS Integers, Sequences, FiniteSets, TLC

CONSTANTS Conns,          \* connection ids
          Callers,        \* shutdown callers
          Hooks,          \* OnShutdown hooks
          BeyondHooks,    \* hooks that finish only after the deadline
          MaxReq,         \* requests per connection
          Transport,      \* "standard" | "netpoll"
          ServerRun,      \* FALSE: Run is never called (shutdown of a server that is not running)
          CasLoserErrors, \* TRUE: the caller that loses the CAS reports an error (the repaired design);
                          \* FALSE: as written, `if !CAS { return }` returns nil
          ExitCheckAfterHandler, \* TRUE as in the code; FALSE: negative configuration (check before the handler)
          HooksConcurrent, \* TRUE as in the code and its documentation ("triggered simultaneously"): one goroutine per
                          \* hook; FALSE: negative configuration, the hooks are called one after the other
          CountAtAccept   \* TRUE as in the code: updateActive(1) right after Accept(); FALSE: negative configuration
                          \* (counted only when the connection's goroutine starts)

-----------------------------------------------------------------------------
(* vocabulary shared with ShutdownGen / ShutdownTrace *)
Transports == {"standard", "netpoll"}
ConnKinds == {"sB",   \* request served completely before the shutdown call; client closes
              "iK",   \* served before, then idle keep-alive through the shutdown
              "iR",   \* idle keep-alive; a new request is sent after the shutdown began
              "bA",   \* busy: handler returns after the shutdown began (driver saw the hook signal)
              "bL",   \* busy: handler returns only after Shutdown returned (exit wait time elapsed)
              "bH",   \* like bA, but the request is HTTP/1.0 with Connection: keep-alive
              "mR",   \* mid-request: half a request head before, the rest after the shutdown began
              "fR",   \* connected before, first request sent after the shutdown began
              "bW",   \* response writing in progress: 8 MiB body, client reads after the shutdown began
              "dD",   \* dialled after the shutdown began, while a busy connection holds it open
              "aL",   \* request sent, connection held in the OnAccept callback until Shutdown returned (standard)
              "cL",   \* request sent, connection held in the OnConnect callback until Shutdown returned
              "rR"}   \* seeded random timings: requests in a loop, handler sleeps, no gates
HookKinds == {"fast", "slow", "beyond"}
SecondKinds == {"none", "during", "after", "closed", "race"}
Slack(w) == IF 10 * w > 1000 THEN 10 * w ELSE 1000

-----------------------------------------------------------------------------
VARIABLES status, listening, active, conn, avail, sent, cc, rflag, outq, hook, spawned, deadline, pc, ret, early,
          flipBy,
          \* observer
          oBegun, oReturned, oDial, oLate, oEnt, oExit, oAns, oMust, oHS, oHE, oCall, oRet, oBad,
          oPre,      \* connections whose acceptance was logged before any ShutdownCall
          oEarly,    \* some Shutdown call returned nil before the exit wait time: it vouches for oPre
          oPreReq,   \* connections whose pending request was entered before any ShutdownCall ("already received")
          oGone      \* connections whose client saw the connection end without a response

mvars == <<status, listening, active, conn, avail, sent, cc, rflag, outq, hook, spawned, deadline, pc, ret, early, flipBy>>
onew == <<oPre, oEarly, oPreReq, oGone>>
ovars == <<oBegun, oReturned, oDial, oLate, oEnt, oExit, oAns, oMust, oHS, oHE, oCall, oRet, onew>>
vars == <<mvars, ovars, oBad>>

None == "none"
InServer == {"onaccept", "accepted", "reading", "handling", "flagread", "exitcheck", "writing", "idleKA"}
InHandler == {"handling", "flagread"}

-----------------------------------------------------------------------------
(* OBSERVER: obligations Ok<Event>(args) and updates Obs<Event>(args)      *)

ObsInit(cs, ks) ==
    /\ oBegun = FALSE /\ oReturned = FALSE
    /\ oDial = [c \in cs |-> FALSE] /\ oLate = [c \in cs |-> FALSE]
    /\ oEnt = [c \in cs |-> 0] /\ oExit = [c \in cs |-> 0] /\ oAns = [c \in cs |-> 0]
    /\ oMust = [c \in cs |-> FALSE]
    /\ oHS = {} /\ oHE = {}
    /\ oCall = [k \in ks |-> "no"] /\ oRet = [k \in ks |-> None]
    /\ oPre = {} /\ oEarly = FALSE /\ oPreReq = {} /\ oGone = {}

\* Accept{c} / OnConnect{c}: logged by the callback the transport runs for an accepted connection, i.e. after the
\* connection has been counted (standard: updateActive(1) precedes OnAccept; netpoll: OnConnect runs after the
\* connection is registered and while it is locked for processing)
\* (only acceptances logged before the first ShutdownCall are bound: they happen-before every Shutdown call)
NoCallYet == \A k \in DOMAIN oCall : oCall[k] = "no"
ObsAccept(c) == /\ oPre' = IF NoCallYet THEN oPre \cup {c} ELSE oPre
                /\ UNCHANGED <<oEarly, oPreReq, oGone>>
                /\ UNCHANGED <<oBegun, oReturned, oDial, oLate, oEnt, oExit, oAns, oMust, oHS, oHE, oCall, oRet>>
\* OnConnectDone{c} on the netpoll transport: the callback returned before any Shutdown call, the connection may be
\* idle for netpoll again (netpoll closes idle connections when the shutdown begins; a request that arrives at that
\* very moment may be entered and lose its response -- it was not "already received")
ObsRelease(c) == /\ oPre' = IF NoCallYet THEN oPre \ {c} ELSE oPre
                 /\ UNCHANGED <<oEarly, oPreReq, oGone>>
                 /\ UNCHANGED <<oBegun, oReturned, oDial, oLate, oEnt, oExit, oAns, oMust, oHS, oHE, oCall, oRet>>

\* Dial{c}: logged by the client before it dials
OkDial(c) == c \in DOMAIN oDial /\ ~oDial[c]
ObsDial(c) == /\ oDial' = [oDial EXCEPT ![c] = TRUE] /\ oLate' = [oLate EXCEPT ![c] = oReturned]
              /\ UNCHANGED <<oBegun, oReturned, oEnt, oExit, oAns, oMust, oHS, oHE, oCall, oRet, onew>>

\* HandlerEnter{c, r}: the handler of request r of connection c starts.  One request at a time per connection (the
\* clients do not pipeline), numbered consecutively; NoAcceptAfterClose: never on a connection dialled after a
\* nil return.
OkHandlerEnter(c, r) == /\ c \in DOMAIN oEnt /\ oDial[c]
                        /\ r = oEnt[c] + 1 /\ oExit[c] = oEnt[c] /\ oAns[c] = oEnt[c]
                        /\ ~oLate[c]
                        /\ ~(oEarly /\ c \in oPre)                            \* AcceptedAwaited
ObsHandlerEnter(c) == /\ oEnt' = [oEnt EXCEPT ![c] = @ + 1]
                      /\ oPreReq' = IF NoCallYet THEN oPreReq \cup {c} ELSE oPreReq
                      /\ UNCHANGED <<oBegun, oReturned, oDial, oLate, oExit, oAns, oMust, oHS, oHE, oCall, oRet, oPre, oEarly, oGone>>

\* HandlerExit{c, r, running}: last statement of the handler; running = Engine.IsRunning() read just before
OkHandlerExit(c, r) == c \in DOMAIN oEnt /\ r = oEnt[c] /\ oExit[c] = r - 1
ObsHandlerExit(c, running) ==
    /\ oExit' = [oExit EXCEPT ![c] = @ + 1]
    /\ oMust' = [oMust EXCEPT ![c] = (~running \/ oBegun)]          \* CloseAnnounced
    /\ UNCHANGED <<oBegun, oReturned, oDial, oLate, oEnt, oAns, oHS, oHE, oCall, oRet, onew>>

\* ResponseComplete{c, r, close, bytesOk}: the client read a whole response
OkResponse(c, r, close, bytesOk) ==
    /\ c \in DOMAIN oEnt /\ r = oAns[c] + 1 /\ oExit[c] = r        \* a response only after its handler returned
    /\ bytesOk                                                     \* InFlightCompleted: untruncated, the handler's bytes
    /\ oMust[c] => close                                           \* CloseAnnounced
ObsResponse(c) == /\ oAns' = [oAns EXCEPT ![c] = @ + 1] /\ oPreReq' = oPreReq \ {c}
                  /\ UNCHANGED <<oBegun, oReturned, oDial, oLate, oEnt, oExit, oMust, oHS, oHE, oCall, oRet, oPre, oEarly, oGone>>

\* ResponseNone{c}: the connection ended without a single byte of a response.  InFlightCompleted: never for a request
\* that was already received (its handler entered) before the shutdown was requested.
OkResponseNone(c) == c \in DOMAIN oEnt /\ c \notin oPreReq
ObsResponseNone(c) == /\ oGone' = oGone \cup {c}
                      /\ UNCHANGED <<oBegun, oReturned, oDial, oLate, oEnt, oExit, oAns, oMust, oHS, oHE, oCall, oRet, oPre, oEarly, oPreReq>>

\* ShutdownCall{k}: logged before Shutdown is called.  A call made after the shutdown is known to have begun, or
\* on a server that was never run, must report an error.
OkCall(k) == k \in DOMAIN oCall /\ oCall[k] = "no"
ObsCall(k, serverRun) ==
    /\ oCall' = [oCall EXCEPT ![k] = IF oBegun \/ ~serverRun THEN "mustErr" ELSE "free"]
    /\ UNCHANGED <<oBegun, oReturned, oDial, oLate, oEnt, oExit, oAns, oMust, oHS, oHE, oRet, onew>>

\* ShutdownReturn{k, err, elapsed}: err = "nil" | "notRunning" | "other"; elapsed and wait in milliseconds
OkReturn(k, err, elapsed, wait, allHooks) ==
    /\ k \in DOMAIN oCall /\ oCall[k] # "no" /\ oRet[k] = None
    /\ elapsed <= wait + Slack(wait)                                            \* BoundedReturn
    /\ oCall[k] = "mustErr" => err # "nil"                                      \* SecondShutdownErrors, NotRunningErrors
    /\ err = "nil" => \A j \in DOMAIN oRet : oRet[j] # "nil"                    \* SecondShutdownErrors
    /\ err = "nil" => oHS = allHooks                                            \* HooksStarted (triggered concurrently)
    /\ (err = "nil" /\ elapsed < wait) =>
           /\ oHE = allHooks                                                    \* HooksAwaited
           /\ \A c \in oPreReq : oExit[c] = oEnt[c]                            \* InFlightAwaited
ObsReturn(k, err, isEarly) ==
    /\ oRet' = [oRet EXCEPT ![k] = err]
    /\ oBegun' = (oBegun \/ err = "nil") /\ oReturned' = (oReturned \/ err = "nil")
    \* AcceptedAwaited: a nil return before the exit wait time says that every connection accepted before the call
    \* has been drained
    /\ oEarly' = (oEarly \/ (err = "nil" /\ isEarly))
    /\ UNCHANGED <<oDial, oLate, oEnt, oExit, oAns, oMust, oHS, oHE, oCall, oPre, oPreReq, oGone>>

\* HookStart{h} / HookEnd{h}
OkHookStart(h, allHooks) == h \in allHooks /\ h \notin oHS /\ \E k \in DOMAIN oCall : oCall[k] # "no"
ObsHookStart(h) == /\ oHS' = oHS \cup {h} /\ oBegun' = TRUE
                   /\ UNCHANGED <<oReturned, oDial, oLate, oEnt, oExit, oAns, oMust, oHE, oCall, oRet, onew>>
OkHookEnd(h) == h \in oHS /\ h \notin oHE
ObsHookEnd(h) == /\ oHE' = oHE \cup {h}
                 /\ UNCHANGED <<oBegun, oReturned, oDial, oLate, oEnt, oExit, oAns, oMust, oHS, oCall, oRet, onew>>

\* DialAfter{result}: a probe dialled after a nil return; the dial may complete in the kernel backlog
OkDialAfter(result) == oReturned /\ result \in {"refused", "connectedButNeverServed"}

\* End: the case is over (every client finished or gave up, every hook finished or the driver gave up)
OkEnd(serverRun, allHooks) ==
    /\ oPreReq = {}                                                            \* InFlightCompleted
    /\ \A c \in DOMAIN oEnt : c \in oGone \/ (oExit[c] = oEnt[c] /\ oAns[c] = oEnt[c])
    /\ \A k \in DOMAIN oCall : oCall[k] # "no" => oRet[k] # None                \* nobody hangs
    /\ (serverRun /\ \E k \in DOMAIN oCall : oCall[k] # "no") => oHS = allHooks \* HooksStarted

Flag(ok, name) == oBad' = IF ok THEN oBad ELSE oBad \cup {name}

-----------------------------------------------------------------------------
(* MECHANISM *)

Init == /\ status = "init" /\ listening = FALSE /\ active = 0
        /\ conn = [c \in Conns |-> None] /\ avail = [c \in Conns |-> None] /\ sent = [c \in Conns |-> 0]
        /\ cc = [c \in Conns |-> FALSE] /\ rflag = [c \in Conns |-> TRUE] /\ outq = [c \in Conns |-> None]
        /\ hook = [h \in Hooks |-> "notRun"] /\ spawned = FALSE /\ deadline = "unset"
        /\ pc = [k \in Callers |-> "idle"] /\ ret = [k \in Callers |-> None] /\ early = [k \in Callers |-> FALSE]
        /\ flipBy = None
        /\ ObsInit(Conns, Callers) /\ oBad = {}

IsRunning == status = "running"

\* engine.Run: Init, OnRun hooks, MarkAsRunning, listenAndServe
Run == /\ ServerRun /\ status = "init"
       /\ status' = "running" /\ listening' = TRUE
       /\ UNCHANGED <<active, conn, avail, sent, cc, rflag, outq, hook, spawned, deadline, pc, ret, early, flipBy, ovars, oBad>>

\* the accept loop failed on the closed listener: ListenAndServe returns, deferred status = closed
RunReturn == /\ status = "shutdown" /\ ~listening
             /\ status' = "closed"
             /\ UNCHANGED <<listening, active, conn, avail, sent, cc, rflag, outq, hook, spawned, deadline, pc, ret, early, flipBy, ovars, oBad>>

---- (* network and clients *)
Dial(c) == /\ conn[c] = None
           /\ conn' = [conn EXCEPT ![c] = IF listening THEN "backlog" ELSE "refused"]
           /\ ObsDial(c) /\ Flag(OkDial(c), "Dial")
           /\ UNCHANGED <<status, listening, active, avail, sent, cc, rflag, outq, hook, spawned, deadline, pc, ret, early, flipBy>>

\* standard: ln.Accept(); t.updateActive(1); OnAccept / OnConnect callbacks (they log Accept{c}).
\* netpoll: server.OnRead -> onAccept (registers the connection), OnConnect runs with the connection locked.
Accept(c) == /\ listening /\ conn[c] = "backlog"
             /\ conn' = [conn EXCEPT ![c] = "onaccept"] /\ active' = active + (IF CountAtAccept THEN 1 ELSE 0)
             /\ ObsAccept(c) /\ UNCHANGED oBad
             /\ UNCHANGED <<status, listening, avail, sent, cc, rflag, outq, hook, spawned, deadline, pc, ret, early, flipBy>>

\* the callbacks return: `go func() { t.handler(ctx, conn); t.updateActive(-1) }()`
Spawn(c) == /\ conn[c] = "onaccept"
            /\ conn' = [conn EXCEPT ![c] = "accepted"] /\ active' = active + (IF CountAtAccept THEN 0 ELSE 1)
            /\ UNCHANGED <<status, listening, avail, sent, cc, rflag, outq, hook, spawned, deadline, pc, ret, early, flipBy, ovars, oBad>>

\* the client writes half a request head, the rest of it, or a whole request (no pipelining)
ClientSend(c) == /\ conn[c] \in {"backlog", "onaccept", "accepted", "idleKA", "reading"} /\ outq[c] = None
                 /\ \/ /\ avail[c] = None /\ sent[c] < MaxReq /\ conn[c] # "reading"
                       /\ \E a \in {"partial", "full"} : avail' = [avail EXCEPT ![c] = a]
                       /\ sent' = [sent EXCEPT ![c] = @ + 1]
                    \/ /\ avail[c] = "partial" /\ avail' = [avail EXCEPT ![c] = "full"] /\ UNCHANGED sent
                 /\ UNCHANGED <<status, listening, active, conn, cc, rflag, outq, hook, spawned, deadline, pc, ret, early, flipBy, ovars, oBad>>

\* the client reads the response: ResponseComplete{close}
ClientRead(c) == /\ outq[c] # None
                 /\ outq' = [outq EXCEPT ![c] = None]
                 /\ ObsResponse(c) /\ Flag(OkResponse(c, oAns[c] + 1, outq[c] = "close", TRUE), "Response")
                 /\ UNCHANGED <<status, listening, active, conn, avail, sent, cc, rflag, hook, spawned, deadline, pc, ret, early, flipBy>>

---- (* http1.Server.Serve *)
\* first bytes of a request arrive: the loop leaves Peek / the poller starts Serve
StartRead(c) == /\ conn[c] \in {"accepted", "idleKA"} /\ avail[c] # None
                /\ conn' = [conn EXCEPT ![c] = "reading"]
                /\ UNCHANGED <<status, listening, active, avail, sent, cc, rflag, outq, hook, spawned, deadline, pc, ret, early, flipBy, ovars, oBad>>

\* request read completely; s.Core.ServeHTTP: the handler is entered
RecvDone(c) == /\ conn[c] = "reading" /\ avail[c] = "full"
               /\ conn' = [conn EXCEPT ![c] = "handling"] /\ avail' = [avail EXCEPT ![c] = None]
               /\ cc' = [cc EXCEPT ![c] = IF ExitCheckAfterHandler THEN FALSE ELSE ~IsRunning]
               /\ ObsHandlerEnter(c) /\ Flag(OkHandlerEnter(c, oEnt[c] + 1), "HandlerEnter")
               /\ UNCHANGED <<status, listening, active, sent, rflag, outq, hook, spawned, deadline, pc, ret, early, flipBy>>

\* the instrumented handler reads Engine.IsRunning() ...
ReadFlag(c) == /\ conn[c] = "handling"
               /\ conn' = [conn EXCEPT ![c] = "flagread"] /\ rflag' = [rflag EXCEPT ![c] = IsRunning]
               /\ UNCHANGED <<status, listening, active, avail, sent, cc, outq, hook, spawned, deadline, pc, ret, early, flipBy, ovars, oBad>>

\* ... logs HandlerExit{running} and returns
EmitExit(c) == /\ conn[c] = "flagread"
               /\ conn' = [conn EXCEPT ![c] = "exitcheck"]
               /\ ObsHandlerExit(c, rflag[c]) /\ Flag(OkHandlerExit(c, oEnt[c]), "HandlerExit")
               /\ UNCHANGED <<status, listening, active, avail, sent, cc, rflag, outq, hook, spawned, deadline, pc, ret, early, flipBy>>

\* exit check: `if !s.Core.IsRunning() { connectionClose = true }` -- reads status AFTER the handler
ExitCheck(c) == /\ conn[c] = "exitcheck"
                /\ conn' = [conn EXCEPT ![c] = "writing"]
                /\ cc' = [cc EXCEPT ![c] = IF ExitCheckAfterHandler THEN ~IsRunning ELSE @]
                /\ UNCHANGED <<status, listening, active, avail, sent, rflag, outq, hook, spawned, deadline, pc, ret, early, flipBy, ovars, oBad>>

\* writeResponse + Flush; `if connectionClose { return errShortConnection }` -> conn closed, updateActive(-1);
\* else back to the top of the loop
WriteDone(c) == /\ conn[c] = "writing"
                /\ outq' = [outq EXCEPT ![c] = IF cc[c] THEN "close" ELSE "keep"]
                /\ IF cc[c] THEN conn' = [conn EXCEPT ![c] = "closed"] /\ active' = active - 1
                   ELSE conn' = [conn EXCEPT ![c] = "idleKA"] /\ UNCHANGED active
                /\ rflag' = [rflag EXCEPT ![c] = TRUE] /\ cc' = [cc EXCEPT ![c] = FALSE]
                /\ UNCHANGED <<status, listening, avail, sent, hook, spawned, deadline, pc, ret, early, flipBy, ovars, oBad>>

\* idle time-out, read time-out in the middle of a request, or the peer closes: Serve returns, updateActive(-1)
IdleEnd(c) == /\ \/ conn[c] \in {"accepted", "idleKA"} /\ avail[c] = None
                 \/ conn[c] = "reading" /\ avail[c] = "partial"
              /\ conn' = [conn EXCEPT ![c] = "closed"] /\ active' = active - 1
              /\ avail' = [avail EXCEPT ![c] = None]
              /\ UNCHANGED <<status, listening, sent, cc, rflag, outq, hook, spawned, deadline, pc, ret, early, flipBy, ovars, oBad>>

\* netpoll server.Close: `if conn.isIdle() { conn.Close() }` while a caller waits in transport.Shutdown.
\* A connection inside the hertz loop (also one waiting for its next keep-alive request) is not idle for netpoll.
NetpollCloseIdle(c) == /\ Transport = "netpoll" /\ \E k \in Callers : pc[k] = "transport"
                       /\ conn[c] = "accepted" /\ avail[c] = None
                       /\ conn' = [conn EXCEPT ![c] = "closed"] /\ active' = active - 1
                       /\ UNCHANGED <<status, listening, avail, sent, cc, rflag, outq, hook, spawned, deadline, pc, ret, early, flipBy, ovars, oBad>>

---- (* Engine.Shutdown *)
\* (the callers of a server that is run wait until it is running: a Shutdown racing with the start-up is not modelled)
Call(k) == /\ pc[k] = "idle" /\ (ServerRun => status # "init")
           /\ pc' = [pc EXCEPT ![k] = "called"]
           /\ ObsCall(k, ServerRun) /\ Flag(OkCall(k), "Call")
           /\ UNCHANGED <<status, listening, active, conn, avail, sent, cc, rflag, outq, hook, spawned, deadline, ret, early, flipBy>>

\* if atomic.LoadUint32(&engine.status) != statusRunning { return errStatusNotRunning }
Load(k) == /\ pc[k] = "called"
           /\ IF IsRunning THEN pc' = [pc EXCEPT ![k] = "loaded"] /\ UNCHANGED ret
              ELSE pc' = [pc EXCEPT ![k] = "retpending"] /\ ret' = [ret EXCEPT ![k] = "notRunning"]
           /\ UNCHANGED <<status, listening, active, conn, avail, sent, cc, rflag, outq, hook, spawned, deadline, early, flipBy, ovars, oBad>>

\* if !atomic.CompareAndSwapUint32(&engine.status, statusRunning, statusShutdown) { return }
\* ctx, cancel := context.WithTimeout(ctx, opt.ExitWaitTimeout); go executeOnShutdownHooks(ctx)
Cas(k) == /\ pc[k] = "loaded"
          /\ IF IsRunning
             THEN /\ status' = "shutdown" /\ flipBy' = k /\ deadline' = "armed" /\ spawned' = TRUE
                  /\ pc' = [pc EXCEPT ![k] = "won"] /\ UNCHANGED <<ret, early>>
             ELSE /\ pc' = [pc EXCEPT ![k] = "retpending"]
                  /\ ret' = [ret EXCEPT ![k] = IF CasLoserErrors THEN "notRunning" ELSE "nil"]
                  /\ early' = [early EXCEPT ![k] = (deadline # "fired")]
                  /\ UNCHANGED <<status, flipBy, deadline, spawned>>
          /\ UNCHANGED <<listening, active, conn, avail, sent, cc, rflag, outq, hook, ovars, oBad>>

\* transport.Shutdown: ln.Close() / netpoll: PollDetach + ln.Close()
TransportClose(k) == /\ pc[k] = "won"
                     /\ listening' = FALSE /\ pc' = [pc EXCEPT ![k] = "transport"]
                     /\ UNCHANGED <<status, active, conn, avail, sent, cc, rflag, outq, hook, spawned, deadline, ret, early, flipBy, ovars, oBad>>

\* ... then poll until no connection is active or ctx is done
TransportWait(k) == /\ pc[k] = "transport"
                    /\ active = 0 \/ deadline = "fired"
                    /\ pc' = [pc EXCEPT ![k] = "hookwait"]
                    /\ UNCHANGED <<status, listening, active, conn, avail, sent, cc, rflag, outq, hook, spawned, deadline, ret, early, flipBy, ovars, oBad>>

\* deferred: select { case <-ctx.Done(): case <-ch: }   (ch is closed when every hook has returned)
HookWait(k) == /\ pc[k] = "hookwait"
               /\ (\A h \in Hooks : hook[h] = "done") \/ deadline = "fired"
               /\ pc' = [pc EXCEPT ![k] = "retpending"] /\ ret' = [ret EXCEPT ![k] = "nil"]
               /\ early' = [early EXCEPT ![k] = (deadline # "fired")]
               /\ UNCHANGED <<status, listening, active, conn, avail, sent, cc, rflag, outq, hook, spawned, deadline, flipBy, ovars, oBad>>

\* the caller logs ShutdownReturn{err, elapsed}; elapsed < wait is only possible when the deadline had not fired
EmitReturn(k) == /\ pc[k] = "retpending"
                 /\ pc' = [pc EXCEPT ![k] = "returned"]
                 /\ ObsReturn(k, ret[k], early[k]) /\ Flag(OkReturn(k, ret[k], IF early[k] THEN 0 ELSE 1, 1, Hooks), "Return")
                 /\ UNCHANGED <<status, listening, active, conn, avail, sent, cc, rflag, outq, hook, spawned, deadline, ret, early, flipBy>>

---- (* hooks and timer *)
\* executeOnShutdownHooks: `go func(index int) { defer wg.Done(); engine.OnShutdown[index](ctx) }(i)` for every hook
CanStart(h) == /\ spawned /\ hook[h] = "notRun"
               /\ HooksConcurrent \/ \A g \in Hooks : hook[g] # "running"
HookStart(h) == /\ CanStart(h)
                /\ hook' = [hook EXCEPT ![h] = "running"]
                /\ ObsHookStart(h) /\ Flag(OkHookStart(h, Hooks), "HookStart")
                /\ UNCHANGED <<status, listening, active, conn, avail, sent, cc, rflag, outq, spawned, deadline, pc, ret, early, flipBy>>

HookEnd(h) == /\ hook[h] = "running" /\ (h \in BeyondHooks => deadline = "fired")
              /\ hook' = [hook EXCEPT ![h] = "done"]
              /\ ObsHookEnd(h) /\ Flag(OkHookEnd(h), "HookEnd")
              /\ UNCHANGED <<status, listening, active, conn, avail, sent, cc, rflag, outq, spawned, deadline, pc, ret, early, flipBy>>

\* timing assumption: the exit wait time is long compared with the start latency of a goroutine -- the deadline does
\* not fire while a hook that can start has not started
Fire == /\ deadline = "armed" /\ \A h \in Hooks : ~CanStart(h) /\ deadline' = "fired"
        /\ UNCHANGED <<status, listening, active, conn, avail, sent, cc, rflag, outq, hook, spawned, pc, ret, early, flipBy, ovars, oBad>>

ConnStep(c) == Spawn(c) \/ StartRead(c) \/ RecvDone(c) \/ ReadFlag(c) \/ EmitExit(c) \/ ExitCheck(c) \/ WriteDone(c)
CallerStep(k) == Load(k) \/ Cas(k) \/ TransportClose(k) \/ TransportWait(k) \/ HookWait(k) \/ EmitReturn(k)

Next == \/ Run \/ RunReturn \/ Fire
        \/ \E c \in Conns : Dial(c) \/ Accept(c) \/ ClientSend(c) \/ ClientRead(c) \/ ConnStep(c) \/ IdleEnd(c) \/ NetpollCloseIdle(c)
        \/ \E k \in Callers : Call(k) \/ CallerStep(k)
        \/ \E h \in Hooks : HookStart(h) \/ HookEnd(h)

Spec == Init /\ [][Next]_vars

\* fairness: server-side threads, callers once they have called, hook goroutines, the timer and the client's read
\* make progress; clients need not send, callers need not call, idle peers need not go away
FairSpec == /\ Spec
            /\ WF_vars(Fire)
            /\ \A c \in Conns : WF_vars(ConnStep(c)) /\ WF_vars(ClientRead(c))
            /\ \A k \in Callers : WF_vars(CallerStep(k))
            /\ \A h \in Hooks : WF_vars(HookStart(h)) /\ WF_vars(HookEnd(h))

-----------------------------------------------------------------------------
(* PROPERTIES *)

TypeOK == /\ status \in {"init", "running", "shutdown", "closed"} /\ listening \in BOOLEAN
          /\ active \in 0 .. Cardinality(Conns)
          /\ \A c \in Conns : /\ conn[c] \in InServer \cup {None, "backlog", "refused", "closed"}
                              /\ avail[c] \in {None, "partial", "full"} /\ sent[c] \in 0 .. MaxReq
                              /\ outq[c] \in {None, "close", "keep"}
          /\ \A h \in Hooks : hook[h] \in {"notRun", "running", "done"}
          /\ deadline \in {"unset", "armed", "fired"}
          /\ \A k \in Callers : /\ pc[k] \in {"idle", "called", "loaded", "won", "transport", "hookwait", "retpending", "returned"}
                                /\ ret[k] \in {None, "nil", "notRunning"}

\* transport.active counts the connections accepted and not yet returned from the handler
ActiveCount == active = Cardinality({c \in Conns : conn[c] \in InServer})

\* the design never trips an obligation of the observer (InFlightCompleted, InFlightAwaited, CloseAnnounced,
\* HooksAwaited, NoAcceptAfterClose, SecondShutdownErrors, NotRunningErrors as stated in the Ok predicates)
ObligationsHold == oBad = {}

\* direct statements on the mechanism
SecondShutdownErrors == \A k \in Callers : (pc[k] \in {"retpending", "returned"} /\ k # flipBy) => ret[k] # "nil"
NotRunningErrors == \A k \in Callers : (pc[k] \in {"retpending", "returned"} /\ oCall[k] = "mustErr") => ret[k] # "nil"
NoAcceptAfterClose == \A c \in Conns : oLate[c] => conn[c] \in {None, "refused"}
HooksStartedAtReturn == \A k \in Callers : (pc[k] \in {"retpending", "returned"} /\ k = flipBy) => \A h \in Hooks : hook[h] # "notRun"
HooksAwaited == \A k \in Callers : (pc[k] \in {"retpending", "returned"} /\ k = flipBy /\ early[k]) => \A h \in Hooks : hook[h] = "done"
InFlightAwaited == \A k \in Callers : (pc[k] \in {"retpending", "returned"} /\ k = flipBy /\ early[k]) => active = 0
\* ... and then nothing that was accepted is still to be served (the listener is closed: nothing new is accepted)
AcceptedAwaited == \A k \in Callers : (pc[k] \in {"retpending", "returned"} /\ k = flipBy /\ early[k]) =>
                       \A c \in Conns : conn[c] \notin InServer
\* the exit check runs after the flip whenever the handler's own reading of IsRunning() was false
CloseAnnounced == \A c \in Conns : (conn[c] = "writing" /\ ~rflag[c]) => cc[c]
\* a connection never ends with an entered request unanswered
InFlightCompleted == \A c \in Conns : conn[c] \in {"closed", "idleKA"} => (oExit[c] = oEnt[c] /\ (outq[c] = None => oAns[c] = oEnt[c]))

\* the case is over: the End obligations hold
Quiescent == /\ \A k \in Callers : pc[k] \in {"idle", "returned"}
             /\ \A c \in Conns : conn[c] \in {None, "refused", "backlog", "closed", "idleKA", "accepted"} /\ outq[c] = None
             /\ spawned => \A h \in Hooks : hook[h] = "done"
EndOK == Quiescent => OkEnd(ServerRun, Hooks)

\* liveness (FairSpec)
ShutdownReturns == \A k \in Callers : (pc[k] = "called") ~> (pc[k] = "returned")
HooksStartedL == spawned ~> (\A h \in Hooks : hook[h] # "notRun")
InFlightCompletedL == \A c \in Conns : (conn[c] = "handling") ~> (oAns[c] = oEnt[c])

Sym == Permutations(Conns) \cup Permutations(Callers)
=============================================================================
