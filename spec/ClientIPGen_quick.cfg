CONSTANTS
  MaxToks = 2
  Big = FALSE
  NRand = 2500
  Seed = 1
INIT GenInit
NEXT GenNext
