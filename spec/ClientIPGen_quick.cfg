CONSTANTS
  MaxToks = 3
  Big = FALSE
  NRand = 4000
  Part = "all"
INIT GenInit
NEXT GenNext
