CONSTANTS
  MaxToks = 2
  Big = FALSE
  NRand = 4000
INIT GenInit
NEXT GenNext
