CONSTANTS
  Sizes = {0, 1, 2, 3}
  EofAts = {0, 1, 2, 4}
  MaxSteps = 4
  MaxK = 3
  MaxDeliver = 3
  MaxPeeks = 2
  Parts = {"rd"}
SPECIFICATION Spec
INVARIANTS TypeOK NoLossNoDup ResultIsNext LenExact PeekStable CopiesValid FlushComplete ShortOnlyAtError SinkPrefix CallerIntact
