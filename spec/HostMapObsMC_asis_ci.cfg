\* must be rejected: CloseIdleConnections as written (c.m only)
CONSTANTS
  Keys = {"a", "b"}
  TLSKeys = {"b"}
  Callers = {1, 2}
  MaxCalls = 1
  NH = 2
  MaxConns = 1
  MaxTicks = 0
  MaxCI = 1
  MaxReap = 0
  Retries = 0
  HoldCounted = TRUE
  CIAll = FALSE
INIT OInitMC
NEXT ONextMC
VIEW OView
INVARIANTS Accepts Agree
