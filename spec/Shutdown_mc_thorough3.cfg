\* thorough, exhaustive: 3 connections x 2 callers x 1 hook, standard transport
CONSTANTS
  Conns = {c1, c2, c3}
  Callers = {k1, k2}
  Hooks = {h1}
  BeyondHooks = {}
  MaxReq = 1
  Transport = "standard"
  ServerRun = TRUE
  CasLoserErrors = TRUE
  ExitCheckAfterHandler = TRUE
  CountAtAccept = TRUE
SYMMETRY Sym
SPECIFICATION Spec
INVARIANTS TypeOK ActiveCount ObligationsHold SecondShutdownErrors NotRunningErrors NoAcceptAfterClose HooksAwaited InFlightAwaited AcceptedAwaited CloseAnnounced InFlightCompleted EndOK
