\* NEGATIVE (expected: HooksStartedAtReturn violated): the hooks are called one after the other; a hook beyond the deadline starves the next
CONSTANTS
  Conns = {c1, c2}
  Callers = {k1, k2}
  Hooks = {h1, h2}
  BeyondHooks = {h1}
  MaxReq = 1
  Transport = "standard"
  ServerRun = TRUE
  CasLoserErrors = TRUE
  ExitCheckAfterHandler = TRUE
  HooksConcurrent = FALSE
  CountAtAccept = TRUE
SYMMETRY Sym
SPECIFICATION Spec
INVARIANTS TypeOK HooksStartedAtReturn
