----------------------------- MODULE H1ClientMC -----------------------------
(* Exhaustive configuration of the H1Client state machine: every sequence of up to MaxX abstract exchanges     *)
(* (head 2 bytes; body 0 or 3 bytes; the response ends the connection or not; the request carried close or   *)
(* not; read-until-close body; body over the limit), buffered and streaming mode, every interleaving of       *)
(* Deliver(c, 1..3) / PeerEof / Close / Dial with the client steps.                                           *)
EXTENDS H1Client
CONSTANTS MaxX,        \* exchanges per connection history
          WithReqClose, \* include exchanges whose REQUEST carried Connection: close
          CoreOnly     \* only the five core shapes: no body / body, kept; body + close; until-close; over the limit

Shapes == {[headEnd |-> 2, end |-> 2 + b, closeAfter |-> ca, reqClose |-> rc, untilClose |-> uc, big |-> bg, early |-> ea] :
              b \in {0, 3}, ca \in BOOLEAN, rc \in BOOLEAN, uc \in BOOLEAN, bg \in BOOLEAN, ea \in BOOLEAN}
\* a read-until-close body ends the connection; a request that carried close makes the peer close; only bodies
\* can be too large
Sane == {s \in Shapes : (s.untilClose => s.closeAfter /\ s.end > s.headEnd) /\ (s.reqClose => s.closeAfter) /\ (s.big => s.end > s.headEnd)
                     /\ (s.reqClose => WithReqClose)
                     \* an early answer (the peer replies and closes without reading the request) has a body here
                     /\ (s.early => s.closeAfter /\ ~s.reqClose /\ ~s.untilClose /\ s.end > s.headEnd)
                     /\ (CoreOnly => (s.end = s.headEnd => ~s.closeAfter) /\ (s.big => ~s.closeAfter))}

RECURSIVE SeqsUpTo(_, _)
SeqsUpTo(S, n) == IF n = 0 THEN {<< >>}
                  ELSE LET P == SeqsUpTo(S, n - 1) IN P \cup {Append(p, s) : p \in {q \in P : Len(q) = n - 1}, s \in S}

MCInit == \E es \in SeqsUpTo(Sane, MaxX) \ {<< >>}, st \in BOOLEAN : InitWith(es, st)
MCSpec == MCInit /\ [][Next]_vars
=============================================================================
