CONSTANTS
  MaxCalls = 1
  AsWritten = FALSE
  OpSet = "small"
  GenLen = 4
  GenOps = "small"
  NRand = 2000
  ReqFull = FALSE
INIT GenInit
NEXT GenNext
