CONSTANTS Mode = "naive"
Profile = "single-q"
SPECIFICATION Spec
INVARIANTS TypeOK Safe
