\* thorough: 3 refresh ticks (the "Range skipped a key" rule of the observer is consistent with the model)
CONSTANTS
  Keys = {"a", "b"}
  Callers = {1, 2}
  Counts = {0, 2}
  CanFail = TRUE
  MaxRes = 2
  MaxCalls = 1
  MaxWTicks = 1
  MaxRTicks = 3
  RefreshResets = FALSE
INIT OInitMC
NEXT ONextMC
VIEW OView
INVARIANTS Accepts
