CONSTANTS Mode = "ref"
Profile = "pair"
SPECIFICATION Spec
INVARIANTS TypeOK Safe
