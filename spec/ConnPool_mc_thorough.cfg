\* thorough exhaustive configuration: 3 callers x 1 request, MaxConns 1..2, waiting on and off, every fault kind
CONSTANTS
  Callers = {g1, g2, g3}
  NC = 2
  NW = 3
  MaxReqs = 1
  MaxConnsSet = {1, 2}
  WaitSet = {TRUE, FALSE}
  Faults = {"ok", "okclose", "idleclose", "eof0", "eofhdr", "eofbody", "stall", "dialerr", "ctxpre", "ctxpost"}
  IdemSet = {TRUE, FALSE}
  MaxFaults = 3
  Strict = TRUE
  AsWritten = FALSE
  SysOn = {}
SPECIFICATION Spec
SYMMETRY Symm
INVARIANTS TypeOK Exclusive Bounded CountConservation CleanReuse ResponseMatches AtMostOnce QuiescentOK IdsSuffice
