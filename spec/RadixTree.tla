----------------------------- MODULE RadixTree -----------------------------
(***************************************************************************)
(* C06, stage 2 -- the compressed radix tree of pkg/route/tree.go,         *)
(* transcribed statement by statement, refines Router:                     *)
(*                                                                         *)
(*     TreeFind(TreeOf(registration order), path) = Match(route set, path) *)
(*     AddRoute panics  <=>  ~AcceptsAdd                                   *)
(*                                                                         *)
(* for every registration sequence within the bounds of the cfg and every  *)
(* path of the cfg, after EVERY insertion (invariants Refines,             *)
(* RegistrationRefines).  TreeOf depends on the order a priori (which edge *)
(* is split when, which node was created as a handler-less intermediate    *)
(* and filled later), so this is where order independence of the real      *)
(* algorithm -- not of the declarative Match -- is model-checked.          *)
(*                                                                         *)
(* Transcribed:                                                            *)
(*   router.addRoute  -> AddLoop   (static prefix, ":"/"*" handling, the   *)
(*                                  name is cut out of the path)           *)
(*   router.insert    -> InsertAt  (root case, split, descend / new child, *)
(*                                  node exists [panic on second handler]) *)
(*   node.findChildWithLabel, node.findChild                               *)
(*   router.find      -> Loop      (labels top/param/any = the for-loop    *)
(*                                  head and the Param: / Any: labels),    *)
(*                       Backtrack = backtrackToNextNodeKind, with the     *)
(*                                  explicit searchIndex / paramIndex /    *)
(*                                  params-slice restore                   *)
(* A tree is a sequence of node records; node 1 is the root; 0 is nil.     *)
(* Go run-time panics the code could raise (index out of range on the      *)
(* params slice) are results of their own ("panic"), never equal to a      *)
(* Match result.                                                           *)
(*                                                                         *)
(* Not transcribed: the tsr (trailing-slash recommendation) flag, isLeaf   *)
(* (unused by find), unescape (UseRawPath), findCaseInsensitivePath; one   *)
(* method tree only (the engine keeps one tree per method).                *)
(***************************************************************************)
EXTENDS Router

VARIABLES tree,      \* the method tree
          tpanic     \* the last addRoute panicked
rvars == <<vars, tree, tpanic>>

Node(kind, prefix, parent, children, rid, ppath, pnames, pc, ac) ==
  [kind |-> kind, label |-> Ch(prefix, 1), prefix |-> prefix, parent |-> parent, children |-> children,
   rid |-> rid, ppath |-> ppath, pnames |-> pnames, pc |-> pc, ac |-> ac]
\* engine.addRoute: root: &node{}
EmptyTree == <<[kind |-> "s", label |-> "", prefix |-> "", parent |-> 0, children |-> << >>,
                rid |-> 0, ppath |-> "", pnames |-> << >>, pc |-> 0, ac |-> 0]>>

Drop(s, n) == Sub(s, n + 1, Len(s))          \* s[n:]
Take(s, n) == Sub(s, 1, n)                   \* s[:n]

RECURSIVE Lcp(_, _, _)
Lcp(a, b, k) == IF k < Len(a) /\ k < Len(b) /\ Ch(a, k + 1) = Ch(b, k + 1) THEN Lcp(a, b, k + 1) ELSE k

\* node.findChild: static children only
FindChild(T, cur, l) ==
  LET cs == {i \in 1 .. Len(T[cur].children) : T[T[cur].children[i]].label = l}
  IN IF cs = {} THEN 0 ELSE T[cur].children[CHOOSE i \in cs : \A j \in cs : i <= j]
\* node.findChildWithLabel
FindChildWithLabel(T, cur, l) ==
  LET c == FindChild(T, cur, l) IN
  IF c # 0 THEN c ELSE IF l = ":" THEN T[cur].pc ELSE IF l = "*" THEN T[cur].ac ELSE 0

Ok(T) == [t |-> T, panic |-> FALSE]

\* router.insert; rid = 0 stands for h == nil
RECURSIVE InsertAt(_, _, _, _, _, _, _)
InsertAt(T, cur, search, rid, t, ppath, pnames) ==
  LET n   == T[cur]
      sl  == Len(search)
      pl  == Len(n.prefix)
      lcp == Lcp(search, n.prefix, 0)
  IN
  IF lcp = 0 THEN
       \* At root node
       Ok([T EXCEPT ![cur] = IF rid # 0
                              THEN [n EXCEPT !.label = Ch(search, 1), !.prefix = search, !.kind = t, !.rid = rid,
                                             !.ppath = ppath, !.pnames = pnames]
                              ELSE [n EXCEPT !.label = Ch(search, 1), !.prefix = search]])
  ELSE IF lcp < pl THEN
       \* Split node: the new node n1 takes the old node's tail, handler and children
       LET id1 == Len(T) + 1
           n1  == Node(n.kind, Drop(n.prefix, lcp), cur, n.children, n.rid, n.ppath, n.pnames, n.pc, n.ac)
           kids == {n.children[i] : i \in 1 .. Len(n.children)} \cup ({n.pc, n.ac} \ {0})
           T1  == [i \in 1 .. Len(T) |-> IF i \in kids THEN [T[i] EXCEPT !.parent = id1] ELSE T[i]]   \* re-parent
           base == [n EXCEPT !.kind = "s", !.label = Ch(n.prefix, 1), !.prefix = Take(n.prefix, lcp),
                             !.children = <<id1>>, !.rid = 0, !.ppath = "", !.pnames = << >>, !.pc = 0, !.ac = 0]
       IN IF lcp = sl
          THEN \* At parent node
               Ok(Append([T1 EXCEPT ![cur] = [base EXCEPT !.kind = t, !.rid = rid, !.ppath = ppath, !.pnames = pnames]], n1))
          ELSE \* Create child node
               LET n2 == Node(t, Drop(search, lcp), cur, << >>, rid, ppath, pnames, 0, 0) IN
               Ok(Append(Append([T1 EXCEPT ![cur] = [base EXCEPT !.children = <<id1, id1 + 1>>]], n1), n2))
  ELSE IF lcp < sl THEN
       LET s2 == Drop(search, lcp)
           c  == FindChildWithLabel(T, cur, Ch(s2, 1))
       IN IF c # 0 THEN InsertAt(T, c, s2, rid, t, ppath, pnames)         \* Go deeper
          ELSE \* Create child node
               LET id == Len(T) + 1
                   nn == Node(t, s2, cur, << >>, rid, ppath, pnames, 0, 0)
                   up == IF t = "s" THEN [n EXCEPT !.children = Append(@, id)]
                         ELSE IF t = "p" THEN [n EXCEPT !.pc = id] ELSE [n EXCEPT !.ac = id]
               IN Ok(Append([T EXCEPT ![cur] = up], nn))
  ELSE \* Node already exists
       IF n.rid # 0 /\ rid # 0 THEN [t |-> T, panic |-> TRUE]             \* "handlers are already registered"
       ELSE IF rid # 0 THEN Ok([T EXCEPT ![cur] = [n EXCEPT !.rid = rid, !.ppath = ppath, !.pnames = pnames]])
       ELSE Ok(T)

Insert(T, path, rid, t, ppath, pnames) == InsertAt(T, 1, path, rid, t, ppath, pnames)

\* router.addRoute after checkPathValid; i is the 1-based loop index, path shrinks as names are cut out
RECURSIVE AddLoop(_, _, _, _, _, _)
AddLoop(T, path, i, pnames, ppath, rid) ==
  IF i > Len(path) THEN Insert(T, path, rid, "s", ppath, pnames)
  ELSE IF Ch(path, i) = ":" THEN
       LET r1    == Insert(T, Take(path, i - 1), 0, "s", "", << >>)
           e     == NextSlash(path, i + 1)
           names == Append(pnames, Sub(path, i + 1, e - 1))
           path2 == Take(path, i) \o Drop(path, e - 1)
       IN IF i = Len(path2)
          THEN Insert(r1.t, path2, rid, "p", ppath, names)                     \* `/users/:id`
          ELSE AddLoop(Insert(r1.t, Take(path2, i), 0, "p", "", names).t, path2, i + 2, names, ppath, rid)
  ELSE IF Ch(path, i) = "*" THEN
       LET r1 == Insert(T, Take(path, i - 1), 0, "s", "", << >>)
       IN Insert(r1.t, Take(path, i), rid, "a", ppath, Append(pnames, Drop(path, i)))
  ELSE AddLoop(T, path, i + 1, pnames, ppath, rid)

AddRoute(T, pat, rid) == AddLoop(T, pat, 1, << >>, pat, rid)

-----------------------------------------------------------------------------
(* router.find *)
NotFound == [found |-> FALSE, panic |-> FALSE, rid |-> 0, full |-> "", params |-> << >>]
GoPanic  == [found |-> FALSE, panic |-> TRUE, rid |-> 0, full |-> "", params |-> << >>]

\* the code after the loop: fullPath and the keys from the node the search stopped at
Finish(T, cn, ps, hit) ==
  LET n == T[cn] IN
  IF Len(n.pnames) > Len(ps) THEN GoPanic                       \* (*paramsPointer)[i].Key = name out of range
  ELSE [found |-> hit /\ n.rid # 0, panic |-> FALSE, rid |-> n.rid, full |-> n.ppath,
        params |-> [k \in 1 .. Len(ps) |-> [k |-> IF k <= Len(n.pnames) THEN n.pnames[k] ELSE "", v |-> ps[k]]]]

\* st = [cn, si (searchIndex; search = path[si:]), pi (paramIndex), ps (values in *paramsPointer), pc]
RECURSIVE Loop(_, _, _)
Loop(T, path, st) ==
  LET n      == T[st.cn]
      search == Drop(path, st.si)
      \* backtrackToNextNodeKind(fromKind): [st, nk, valid, panic]
      Back(fromKind) ==
        LET prev == n
            nk   == IF prev.kind = "a" THEN "s" ELSE IF prev.kind = "s" THEN "p" ELSE "a"
            base == [st EXCEPT !.cn = prev.parent]
        IN IF fromKind = "s" THEN [st |-> base, nk |-> nk, valid |-> prev.parent # 0, panic |-> FALSE]
           ELSE IF prev.kind = "s"
                THEN [st |-> [base EXCEPT !.si = st.si - Len(prev.prefix)], nk |-> nk, valid |-> prev.parent # 0, panic |-> FALSE]
                ELSE IF st.pi - 1 < 0 \/ st.pi > Len(st.ps)
                     THEN [st |-> base, nk |-> nk, valid |-> FALSE, panic |-> TRUE]
                     ELSE [st |-> [base EXCEPT !.pi = st.pi - 1, !.si = st.si - Len(st.ps[st.pi]),
                                               !.ps = SubSeq(st.ps, 1, st.pi - 1)],
                           nk |-> nk, valid |-> prev.parent # 0, panic |-> FALSE]
  IN
  IF st.pc = "top" THEN
       IF n.kind = "s" /\ ~(Len(search) >= Len(n.prefix) /\ Take(search, Len(n.prefix)) = n.prefix)
       THEN \* No matching prefix, backtrack to the first possible alternative node of the decision path
            LET b == Back("s") IN
            IF ~b.valid THEN NotFound ELSE Loop(T, path, [b.st EXCEPT !.pc = "param"])
       ELSE LET st1 == IF n.kind = "s" THEN [st EXCEPT !.si = st.si + Len(n.prefix)] ELSE st
                s1  == Drop(path, st1.si)
                ch  == IF s1 # "" THEN FindChild(T, st.cn, Ch(s1, 1)) ELSE 0
            IN IF s1 = "" /\ n.rid # 0 THEN Finish(T, st.cn, st1.ps, TRUE)
               ELSE IF ch # 0 THEN Loop(T, path, [st1 EXCEPT !.cn = ch])
               ELSE Loop(T, path, [st1 EXCEPT !.pc = "param"])
  ELSE IF st.pc = "param" THEN
       IF search # "" /\ n.pc # 0
       THEN LET e   == NextSlash(path, st.si + 1)                 \* 1-based index of the next "/" in search
                val == Sub(path, st.si + 1, e - 1)
            IN IF st.pi > Len(st.ps) THEN GoPanic                  \* (cannot happen: len(params) = paramIndex)
               ELSE Loop(T, path, [cn |-> n.pc, si |-> e - 1, pi |-> st.pi + 1,
                                   ps |-> Append(SubSeq(st.ps, 1, st.pi), val), pc |-> "top"])
       ELSE Loop(T, path, [st EXCEPT !.pc = "any"])
  ELSE \* Any:
       IF n.ac # 0
       THEN LET a     == T[n.ac]
                index == Len(a.pnames)                             \* 1-based len(cn.pnames)-1
                ps1   == IF st.pi < Len(st.ps) THEN SubSeq(st.ps, 1, st.pi + 1) ELSE Append(SubSeq(st.ps, 1, st.pi), "")
            IN IF index < 1 \/ index > Len(ps1) THEN GoPanic
               ELSE Finish(T, n.ac, [ps1 EXCEPT ![index] = search], TRUE)
       ELSE LET b == Back("a") IN
            IF b.panic THEN GoPanic
            ELSE IF ~b.valid THEN NotFound
            ELSE IF b.nk = "p" THEN Loop(T, path, [b.st EXCEPT !.pc = "param"])
            ELSE IF b.nk = "a" THEN Loop(T, path, [b.st EXCEPT !.pc = "any"])
            ELSE NotFound

TreeFind(T, path) == Loop(T, path, [cn |-> 1, si |-> 0, pi |-> 0, ps |-> << >>, pc |-> "top"])

-----------------------------------------------------------------------------
RInit == Init /\ tree = EmptyTree /\ tpanic = FALSE

\* engine.addRoute("GET", p): checkPathValid, then the insertions (a panic leaves the partial insertions behind)
RRegister(p) ==
  /\ Register("GET", p)
  /\ IF Valid(p)
     THEN LET r == AddRoute(tree, p, Cardinality(tried) + 1) IN tree' = r.t /\ tpanic' = r.panic
     ELSE tree' = tree /\ tpanic' = TRUE

RNext == \E p \in GetPats : RRegister(p)
RSpec == RInit /\ [][RNext]_rvars

\* the tree refuses exactly what Router refuses
RegistrationRefines == (outcome = "panic") = tpanic /\ (outcome = "ok" => ~tpanic)

\* the tree finds exactly what Router's Match selects, with the same parameter list and full path
Refines ==
  \A s \in Paths :
    InScopePath(s) =>
      LET a == TreeFind(tree, s)
          b == Match(Regd, "GET", s)
      IN /\ ~a.panic
         /\ a.found = b.found
         /\ b.found => /\ a.rid = b.r.id
                       /\ a.full = b.r.pat
                       /\ a.params = ParamList(b.r, b.vals, FALSE)

\* structural sanity of the transcription: parent pointers agree with the child links
WellFormed ==
  \A i \in 1 .. Len(tree) :
    LET n == tree[i] IN
    /\ \A k \in 1 .. Len(n.children) : tree[n.children[k]].parent = i /\ tree[n.children[k]].kind = "s"
    /\ n.pc # 0 => tree[n.pc].parent = i /\ tree[n.pc].kind = "p"
    /\ n.ac # 0 => tree[n.ac].parent = i /\ tree[n.ac].kind = "a"
    /\ i > 1 => n.parent # 0
=============================================================================
