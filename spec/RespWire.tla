------------------------------ MODULE RespWire ------------------------------
(***************************************************************************)
(* HTTP/1.x RESPONSE scripts and their wire form (the client direction of  *)
(* Wire.tla, RFC 7230 section 3.3.3 framing).                              *)
(*                                                                         *)
(* A response script is a record                                           *)
(*   [status, reason, ver, fields, framing, bodyLen, chunks, hexUpper,     *)
(*    chunkExt, bodyLit, trailers, interim, interimFields, connClose,      *)
(*    connStyle,                                                           *)
(*    keepAlive, clStyle, head, pad, i, padI]                              *)
(* framing: "cl" (Content-Length) | "chunked" | "close" (read until the    *)
(* peer closes) | "none" (no framing header: bodiless status).  head =     *)
(* TRUE: the response answers a HEAD request (framing headers present,     *)
(* body omitted).  interim: a "100 Continue" precedes the final response;  *)
(* interimFields: header fields carried by that interim response (they     *)
(* belong to the interim response only: ExpectedResponse does not mention  *)
(* them, whatever their names).                                            *)
(* connClose: value of a Connection header announcing close ("" = none;    *)
(* "close", "Close", "foo, close": connection options are a case-          *)
(* insensitive list, RFC 7230 6.1).  pad > 0: a header X-Pad whose value   *)
(* is pad pattern bytes (pushes the head over buffer boundaries).          *)
(*                                                                         *)
(* REncode gives the wire as segments lit(string) / run(i,a,b) exactly as  *)
(* Wire!Encode does for requests: body byte k of the response with origin  *)
(* i is the provenance pattern Pat(i,k) of the harness, never materialised.*)
(* ExpectedResponse(s, normalise) is what the client must return.          *)
(***************************************************************************)
EXTENDS Wire

\* spellings of the response field names used by the generators
RForms(lname) ==
    CASE lname = "x-a"  -> [canon |-> "X-A", lower |-> "x-a", upper |-> "X-A", mixed |-> "x-A"]
      [] lname = "x-bb" -> [canon |-> "X-Bb", lower |-> "x-bb", upper |-> "X-BB", mixed |-> "x-bB"]
      [] lname = "x-pad" -> [canon |-> "X-Pad", lower |-> "x-pad", upper |-> "X-PAD", mixed |-> "x-pAD"]
      [] lname = "content-type" -> [canon |-> "Content-Type", lower |-> "content-type", upper |-> "CONTENT-TYPE", mixed |-> "content-Type"]
      [] lname = "content-length" -> [canon |-> "Content-Length", lower |-> "content-length", upper |-> "CONTENT-LENGTH", mixed |-> "cOnTeNt-LeNgTh"]
      [] lname = "transfer-encoding" -> [canon |-> "Transfer-Encoding", lower |-> "transfer-encoding", upper |-> "TRANSFER-ENCODING", mixed |-> "tRaNsFeR-eNcOdInG"]
      [] lname = "connection" -> [canon |-> "Connection", lower |-> "connection", upper |-> "CONNECTION", mixed |-> "cOnNeCtIoN"]
      [] lname = "server" -> [canon |-> "Server", lower |-> "server", upper |-> "SERVER", mixed |-> "sErVeR"]
      [] lname = "set-cookie" -> [canon |-> "Set-Cookie", lower |-> "set-cookie", upper |-> "SET-COOKIE", mixed |-> "set-Cookie"]
      [] lname = "x-t" -> [canon |-> "X-T", lower |-> "x-t", upper |-> "X-T", mixed |-> "x-T"]
      [] lname = "x-interim" -> [canon |-> "X-Interim", lower |-> "x-interim", upper |-> "X-INTERIM", mixed |-> "x-inTerim"]
      \* near-miss framing names: ordinary fields that must not influence the framing of the response
      [] lname = "content-lengths" -> [canon |-> "Content-Lengths", lower |-> "content-lengths", upper |-> "CONTENT-LENGTHS", mixed |-> "Content-lengths"]
      [] lname = "x-content-length" -> [canon |-> "X-Content-Length", lower |-> "x-content-length", upper |-> "X-CONTENT-LENGTH", mixed |-> "X-content-Length"]
      [] lname = "x-transfer-encoding" -> [canon |-> "X-Transfer-Encoding", lower |-> "x-transfer-encoding", upper |-> "X-TRANSFER-ENCODING", mixed |-> "X-transfer-Encoding"]

RSpell(lname, style) ==
    LET f == RForms(lname) IN
    CASE style \in {"canon", "nospace", "fold", "foldtab", "padded"} -> f.canon
      [] style = "lower" -> f.lower
      [] style = "upper" -> f.upper
      [] style = "mixed" -> f.mixed

RFieldLine(f) ==
    RSpell(f.lname, f.style) \o
    (CASE f.style = "nospace" -> ":" \o JoinWith(f.words, " ")
       [] f.style = "padded"  -> ":  " \o JoinWith(f.words, " ") \o " "
       [] f.style = "fold"    -> ": " \o JoinWith(f.words, "\r\n ")
       [] f.style = "foldtab" -> ": " \o JoinWith(f.words, "\r\n\t")
       [] OTHER               -> ": " \o JoinWith(f.words, " ")) \o CRLF

RField(lname, style, words) == [lname |-> lname, style |-> style, words |-> words]

-----------------------------------------------------------------------------
RHasBody(s) == ~s.head /\ s.status \notin {204, 304} /\ s.framing \in {"cl", "chunked", "close"}

RFramingFields(s) ==
    CASE s.framing = "cl"      -> <<RField("content-length", s.clStyle, <<ToDec(s.bodyLen)>>)>>
      [] s.framing = "chunked" -> <<RField("transfer-encoding", s.clStyle, <<"chunked">>)>>
      [] OTHER                 -> << >>

RTrailerNames(s) == JoinWith([k \in 1 .. Len(s.trailers) |-> s.trailers[k].name], ", ")

\* the head up to (excluding) the pad value, and from the pad value on
RHeadA(s) ==
    (IF s.interim THEN "HTTP/1.1 100 Continue" \o CRLF
                       \o ConcatStr([k \in 1 .. Len(s.interimFields) |-> RFieldLine(s.interimFields[k])]) \o CRLF
     ELSE "")
    \o "HTTP/" \o s.ver \o " " \o ToDec(s.status) \o (IF s.reason # "" THEN " " \o s.reason ELSE "") \o CRLF
    \o ConcatStr([k \in 1 .. Len(s.fields) |-> RFieldLine(s.fields[k])])
    \o (IF s.pad > 0 THEN "X-Pad: " ELSE "")
RHeadB(s) ==
    (IF s.pad > 0 THEN CRLF ELSE "")
    \o ConcatStr([k \in 1 .. Len(RFramingFields(s)) |-> RFieldLine(RFramingFields(s)[k])])
    \o (IF s.trailers # << >> THEN "Trailer: " \o RTrailerNames(s) \o CRLF ELSE "")
    \o (IF s.connClose # "" THEN RSpell("connection", s.connStyle) \o ": " \o s.connClose \o CRLF
        ELSE IF s.keepAlive THEN RSpell("connection", s.connStyle) \o ": keep-alive" \o CRLF ELSE "")
    \o CRLF

RHeadSegs(s) == IF s.pad > 0 THEN <<Lit(RHeadA(s)), Run(s.padI, 0, s.pad), Lit(RHeadB(s))>>
                ELSE <<Lit(RHeadA(s) \o RHeadB(s))>>
RHeadLen(s) == Len(RHeadA(s)) + s.pad + Len(RHeadB(s))

RBodySegs(s) ==
    IF ~RHasBody(s) THEN << >>
    ELSE CASE s.framing = "cl"    -> IF s.bodyLen = 0 THEN << >> ELSE <<Run(s.i, 0, s.bodyLen)>>
           [] s.framing = "close" -> IF s.bodyLen = 0 THEN << >> ELSE <<Run(s.i, 0, s.bodyLen)>>
           [] s.framing = "chunked" ->
                ChunkSegs(s, s.i, s.chunks, 0)
                \o <<Lit("0" \o CRLF
                         \o ConcatStr([k \in 1 .. Len(s.trailers) |-> s.trailers[k].name \o ": " \o s.trailers[k].value \o CRLF])
                         \o CRLF)>>

REncode(s) == RHeadSegs(s) \o RBodySegs(s)
RWireLen(s) == RHeadLen(s) + SumLen(RBodySegs(s))

WellFormedResp(s) ==
    /\ s.framing \in {"cl", "chunked", "close", "none"}
    /\ s.ver \in {"1.1", "1.0"}
    /\ s.framing = "chunked" => (Sum(s.chunks) = s.bodyLen /\ \A k \in DOMAIN s.chunks : s.chunks[k] > 0 /\ s.ver = "1.1")
    /\ s.framing # "chunked" => (s.chunks = << >> /\ s.trailers = << >>)
    /\ s.framing = "none" => (s.bodyLen = 0 /\ (s.status \in {204, 304} \/ s.head))
    /\ s.framing = "close" => ~s.head /\ s.status \notin {204, 304}
    /\ s.bodyLit = ""
    /\ ~(s.connClose # "" /\ s.keepAlive)
    /\ s.status >= 200
    /\ s.interimFields # << >> => s.interim

\* the connection ends with this response: announced by the header, implied by the framing, or by HTTP/1.0
\* without keep-alive.  A conforming peer closes after it; the client must not use the connection again.
RClosesAfter(s) == s.connClose # "" \/ (RHasBody(s) /\ s.framing = "close") \/ (s.ver = "1.0" /\ ~s.keepAlive)

\* value the harness reports for a long field value made of pattern bytes
PadValue(s) == "<run " \o ToDec(s.padI) \o " 0 " \o ToDec(s.pad) \o ">"

\* what the client must return: status, application fields (framing / connection fields are not compared),
\* body as provenance runs, trailers.  names = spelling of the x- fields as returned: canonical with header-name
\* normalisation, as on the wire without.
ExpectedResponse(s, normalise) ==
    [status |-> s.status,
     fields |-> [k \in 1 .. Len(s.fields) |-> [name |-> s.fields[k].lname, value |-> JoinWith(s.fields[k].words, " ")]]
                \o (IF s.pad > 0 THEN <<[name |-> "x-pad", value |-> PadValue(s)]>> ELSE << >>),
     names |-> [k \in 1 .. Len(s.fields) |-> IF normalise THEN RForms(s.fields[k].lname).canon ELSE RSpell(s.fields[k].lname, s.fields[k].style)]
               \o (IF s.pad > 0 THEN <<"X-Pad">> ELSE << >>),
     body |-> IF RHasBody(s) /\ s.bodyLen > 0 THEN <<<<s.i, 0, s.bodyLen>>>> ELSE << >>,
     bodyLen |-> IF RHasBody(s) THEN s.bodyLen ELSE 0,
     trailers |-> IF RHasBody(s) THEN [k \in 1 .. Len(s.trailers) |-> [name |-> s.trailers[k].lname, value |-> s.trailers[k].value]] ELSE << >>]
=============================================================================
