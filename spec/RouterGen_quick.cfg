CONSTANTS
  GetPats = {}
  PostPats = {}
  Paths = {}
  MaxRoutes = 0
  Segs = {"a", "ab", ":x", "a:y"}
  MaxDepth = 2
  PV = {"a", "ab", "c", ""}
  AV = {"", "a", "c/a"}
  TripleCount = 800
  RandSegs = {"a", "ab", "b", ":x", ":y", "a:z"}
  RandDepth = 3
  RandCount = 100
  RandMaxK = 7
  RandAllK = 3
  RawCount = 150
  OptCount = 60
INIT GenInit
NEXT GenNext
