CONSTANTS MaxReqs = 3
SPECIFICATION MCSpec
INVARIANTS TypeOK CursorSync NoOverread OncePerRequest ResponsesFIFO CleanReject StreamExact TracerAlternates PairsBracket NothingAfterClose FinalIndependent
