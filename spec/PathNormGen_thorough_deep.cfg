CONSTANTS
  Alphabet <- Alphabet3
  MaxLen = 13
  BackslashSep = FALSE
  RandMax = 40
  PadMax = 9
INIT GenInit
NEXT GenNext
