CONSTANTS
  Alphabet <- Alphabet3
  MaxLen = 13
  BackslashSep = FALSE
  RandMax = 40
INIT GenInit
NEXT GenNext
