CONSTANTS MaxLen = 5
INIT GenInit
NEXT GenNext
