CONSTANTS
  GetPats = {}
  PostPats = {}
  Paths = {}
  MaxRoutes = 0
  Segs = {"a", "ab", ":x", "a:y"}
  MaxDepth = 2
  PV = {"a", "ab", "c", ""}
  AV = {"", "a", "c/a"}
  TripleCount = 0
  RandSegs = {"a", "ab", "b", ":x", ":y", "a:z"}
  RandDepth = 3
  RandCount = 1500
  RandMaxK = 8
  RandAllK = 4
  RawCount = 1500
  OptCount = 600
INIT GenInit
NEXT GenNext
