------------------------------ MODULE ConnPool ------------------------------
(***************************************************************************************************************)
(* C10 -- the connection pool of the hertz HTTP/1 client, pkg/protocol/http1/client.go (HostClient), written   *)
(* at LOCK GRANULARITY: one action per critical section (connsLock, wantConn.mu) or blocking step of the code, *)
(* so that every action can be bound to one hook event of the real client (hook H2, spec/ConnPoolTrace.tla).   *)
(*                                                                                                             *)
(* Processes: callers g (goroutines inside HostClient.Do), background dialers (dialConnFor, one per waiter     *)
(* that decConnsCount handed a connection slot to; identified by the waiter), two system closers (the idle     *)
(* reaper connsCleaner = Sys 1, a goroutine calling CloseIdleConnections = Sys 2) and the peer.                *)
(*                                                                                                             *)
(*   code (client.go)                          action                              hook event                 *)
(*   Do: pendingRequests++                     DoEnter(g,rid,idem)                 do.enter                    *)
(*   Do: select ctx.Done() at the loop top     CtxDone(g)                          do.ctxdone                  *)
(*   acquireConn, connsLock section            AcquirePopIdle / AcquireCreate /    acq.pop / acq.create /      *)
(*                                             AcquireNone                         acq.none                    *)
(*   acquireConn: dialHostHard                 DialOk(g,c) / DialFail(g)           dial.ok / dial.fail         *)
(*   queueForIdle (connsLock)                  QueueForIdle(g,w,k)                 wait.queue                  *)
(*   acquireConn: select w.ready / timer       WaitReady(g) / WaitTimeout(g)       wait.ready / wait.timeout   *)
(*   wantConn.cancel (w.mu)                    Cancel(g)                           want.cancel                 *)
(*   doNonNilReqResp: write+flush              WriteOk(g,c,rid)                    x.sent   (scripted peer)    *)
(*   doNonNilReqResp: Peek(1) fails            ReadFail(g,c,"first")               x.eof    (scripted peer)    *)
(*   ReadHeaders / ReadRespBody fail           ReadFail(g,c,"header"|"body")       x.eof                       *)
(*   read deadline expires                     ReadFail(g,c,"timeout")             x.timeout                   *)
(*   response read completely                  BodyOk(g,c,keep)                    x.full                      *)
(*   releaseConn (connsLock [+ w.mu])          ReleaseDeliver(p,c,w,k) /           want.deliver+rel.deliver /  *)
(*                                             ReleasePushIdle(p,c,k)              rel.idle                    *)
(*   closeConn                                 CloseConn(p,c)                      close                       *)
(*   decConnsCount (connsLock)                 DecHandOff(p,w,k) / DecCount(p,k)   dec.handoff / dec.count     *)
(*   dialConnFor                               BgDialOk / BgDialFail / BgDeliver / bg.dial.ok / bg.dial.fail / *)
(*                                             BgDeliverErr / BgRelease* / BgDec*  want.deliver / rel.* / dec.*  *)
(*   connsCleaner sweep (connsLock)            CleanerSweep(k)                     clean.sweep                 *)
(*   CloseIdleConnections (connsLock)          CloseIdle                           closeidle                   *)
(*   Do: retry of a bad pooled connection      Retry(g)                            do.retry                    *)
(*   Do: pendingRequests--                     DoExit(g)                           do.exit                     *)
(*   Do returned to the application            Return(g)                           Return   (driver)           *)
(*   peer closes an idle connection            PeerCloseIdle(c)                    (script)                    *)
(*                                                                                                             *)
(* The property (properties.jsonl C10) as invariants: Exclusive, Bounded, CountConservation, CleanReuse,       *)
(* ResponseMatches, AtMostOnce, QuiescentOK; liveness Progress under per-process weak fairness.                *)
(*                                                                                                             *)
(* Corrected behaviour.  The code as written returns from Do on ctx.Done() WITHOUT decrementing                *)
(* pendingRequests (client.go, Do, first statement of the for loop).  With AsWritten = TRUE the specification  *)
(* transcribes that and TLC reports QuiescentOK violated (ConnPool_asis.cfg); with AsWritten = FALSE CtxDone   *)
(* decrements the gauge: that is the behaviour the real client is compared with.                              *)
(*                                                                                                             *)
(* Racy reads.  wantConn.waiting() reads the ready channel without w.mu, while cancel/tryDeliver close it      *)
(* under w.mu only.  A queue scan under connsLock (clearFront, releaseConn, decConnsCount) may therefore act   *)
(* on a waiter that it saw waiting and that was cancelled before the scan's tryDeliver: the scan then stops at *)
(* a waiter that is no longer waiting.  The scans are modelled with a parameter k (entries popped): every      *)
(* skipped entry is not waiting; the entry the scan stops at may be in any state; an entry that IS waiting is  *)
(* never popped without being served.  Strict = TRUE removes the racy outcomes that need a stale read          *)
(* (smaller state space for the exhaustive check); Strict = FALSE is what traces of the real code are held to. *)
(*                                                                                                             *)
(* DELIBERATELY UNCONSTRAINED (the property does not speak about it): which idle connection is popped; whether *)
(* a connection is created although an idle one exists; whether acquire gives up although capacity is left     *)
(* (non-Strict); how long a waiter waits (a waiter may always time out); stale entries left in the wait queue; *)
(* whether an error is retried as long as a non-idempotent request is written at most once; error values.     *)
(***************************************************************************************************************)
EXTENDS Integers, Sequences, FiniteSets, TLC

CONSTANTS Callers,      \* caller goroutines
          NC, NW,       \* connection ids 1..NC, waiter ids 1..NW
          MaxReqs,      \* requests per caller
          MaxConnsSet,  \* values of MaxConns explored
          WaitSet,      \* values of "wait for a free connection" (MaxConnWaitTimeout > 0) explored
          Faults,       \* per-exchange fault kinds enabled
          IdemSet,      \* idempotence of requests: subset of BOOLEAN
          MaxFaults,    \* total number of injected faults per behaviour
          Strict,       \* TRUE: scans and guards exactly as the code without stale reads
          AsWritten,    \* TRUE: transcribe the early return on ctx.Done() without the gauge decrement
          SysOn         \* subset of {1,2}: 1 = idle reaper, 2 = CloseIdleConnections caller

VARIABLES cf,         \* [max, wait]: configuration of the HostClient (constant during a behaviour)
          connsCount, \* HostClient.connsCount
          idle,       \* HostClient.conns: sequence of idle connection ids (appended at the end, popped anywhere)
          waitq,      \* HostClient.connsWait: sequence of waiter ids
          want,       \* want[w] = [st, conn]: st in none|new|waiting|delivered|failed|taken|cancelled
          conn,       \* conn[c] = [st, user, clean, peerClosed, req]
          pending,    \* HostClient.pendingRequests
          pc,         \* pc[g] = [at, c, w, pooled, err]
          sent,       \* sent[g]: times the current request of g reached the peer (capped at 2)
          cancelled,  \* cancelled[g]: the context of g's current/next request is cancelled
          idem,       \* idem[g]: the current request is safe to repeat
          cur,        \* cur[g]: id of the current request
          got,        \* got[g]: id of the request whose complete response g consumed (0 none)
          left,       \* left[g]: requests g has still to issue
          dl,         \* dl[w] = [at, c]: background dialer serving waiter w; at in none|dial|deliver|faildeliver|dec
          sys,        \* sys[s] = [todo, dec]: connections popped from idle still to close; a decrement is due
          budget      \* faults still available

vars == <<cf, connsCount, idle, waitq, want, conn, pending, pc, sent, cancelled, idem, cur, got, left, dl, sys, budget>>

C == 1 .. NC
W == 1 .. NW
Sys == {1, 2}
None == <<"none", 0>>
NoConn == [st |-> "free", user |-> None, clean |-> FALSE, peerClosed |-> FALSE, req |-> 0]
NoWant == [st |-> "none", conn |-> 0]
NoDl   == [at |-> "none", c |-> 0]
IdlePc == [at |-> "idle", c |-> 0, w |-> 0, pooled |-> FALSE, err |-> "none"]

Range(s) == {s[i] : i \in DOMAIN s}
Drop(s, k) == SubSeq(s, k + 1, Len(s))
RemoveAt(s, i) == SubSeq(s, 1, i - 1) \o SubSeq(s, i + 1, Len(s))
Min(a, b) == IF a < b THEN a ELSE b

Caller(g) == <<"caller", g>>
Dialer(w) == <<"dialer", w>>
SysP(s)   == <<"sys", s>>

Stale(w) == want[w].st # "waiting"
\* a waiter record is garbage once its owner is done with it, it is not queued and no dialer serves it
GC(wt, q, d) == LET rq == Range(q) IN
                [w \in W |-> IF wt[w].st \in {"taken", "cancelled"} /\ w \notin rq /\ d[w].at = "none"
                              THEN NoWant ELSE wt[w]]
FreeConns == {c \in C : conn[c].st = "free"}
FreeWaiters == {w \in W : want[w].st = "none" /\ w \notin Range(waitq) /\ dl[w].at = "none"}
Lowest(S) == CHOOSE x \in S : \A y \in S : x <= y

Init == /\ cf \in [max : MaxConnsSet, wait : WaitSet]
        /\ connsCount = 0 /\ idle = << >> /\ waitq = << >>
        /\ want = [w \in W |-> NoWant] /\ conn = [c \in C |-> NoConn] /\ pending = 0
        /\ pc = [g \in Callers |-> IdlePc] /\ sent = [g \in Callers |-> 0]
        /\ cancelled = [g \in Callers |-> FALSE] /\ idem = [g \in Callers |-> TRUE]
        /\ cur = [g \in Callers |-> 0] /\ got = [g \in Callers |-> 0]
        /\ left = [g \in Callers |-> MaxReqs]
        /\ dl = [w \in W |-> NoDl] /\ sys = [s \in Sys |-> [todo |-> << >>, dec |-> FALSE]]
        /\ budget = MaxFaults

At(g, a) == pc[g].at = a
Go(g, a) == pc' = [pc EXCEPT ![g].at = a]
UseFault(f) == f \in Faults /\ budget > 0 /\ budget' = budget - 1

--------------------------------------------------------------------------------------------------------------
(* Do *)

DoEnter(g, rid, im) ==
    /\ At(g, "idle") /\ left[g] > 0
    /\ pending' = pending + 1 /\ left' = [left EXCEPT ![g] = @ - 1]
    /\ sent' = [sent EXCEPT ![g] = 0] /\ idem' = [idem EXCEPT ![g] = im]
    /\ cur' = [cur EXCEPT ![g] = rid] /\ got' = [got EXCEPT ![g] = 0]
    /\ pc' = [pc EXCEPT ![g] = [IdlePc EXCEPT !.at = "top"]]
    /\ UNCHANGED <<cf, connsCount, idle, waitq, want, conn, cancelled, dl, sys, budget>>

\* the application cancels the context: before Do is called, or while the exchange is in flight
CtxCancel(g) ==
    /\ ~cancelled[g]
    /\ \/ At(g, "idle") /\ left[g] > 0 /\ UseFault("ctxpre")
       \/ At(g, "read") /\ UseFault("ctxpost")
    /\ cancelled' = [cancelled EXCEPT ![g] = TRUE]
    /\ UNCHANGED <<cf, connsCount, idle, waitq, want, conn, pending, pc, sent, idem, cur, got, left, dl, sys>>

\* loop top of Do: the context is done.  Corrected behaviour: the gauge is decremented on this path too.
CtxDone(g) ==
    /\ At(g, "top") /\ cancelled[g]
    /\ pending' = IF AsWritten THEN pending ELSE pending - 1
    /\ pc' = [pc EXCEPT ![g] = [IdlePc EXCEPT !.at = "done", !.err = "ctx"]]
    /\ UNCHANGED <<cf, connsCount, idle, waitq, want, conn, sent, cancelled, idem, cur, got, left, dl, sys, budget>>

Passes(g) == At(g, "top") /\ (Strict => ~cancelled[g])

--------------------------------------------------------------------------------------------------------------
(* acquireConn *)

AcquirePopIdle(g, c) ==
    /\ Passes(g)
    /\ \E i \in DOMAIN idle : idle[i] = c /\ (Strict => i = Len(idle)) /\ idle' = RemoveAt(idle, i)
    /\ conn[c].st = "open" /\ conn[c].user = None
    /\ conn' = [conn EXCEPT ![c].user = Caller(g)]
    /\ pc' = [pc EXCEPT ![g].at = "write", ![g].c = c, ![g].pooled = TRUE]
    /\ UNCHANGED <<cf, connsCount, waitq, want, pending, sent, cancelled, idem, cur, got, left, dl, sys, budget>>

AcquireCreate(g) ==
    /\ Passes(g) /\ (Strict => idle = << >>)
    /\ connsCount < cf.max
    /\ connsCount' = connsCount + 1
    /\ Go(g, "dial")
    /\ UNCHANGED <<cf, idle, waitq, want, conn, pending, sent, cancelled, idem, cur, got, left, dl, sys, budget>>

AcquireNone(g) ==
    /\ Passes(g) /\ (Strict => (idle = << >> /\ connsCount >= cf.max))
    /\ IF cf.wait THEN Go(g, "queue")
       ELSE pc' = [pc EXCEPT ![g].at = "ret", ![g].err = "nofree"]
    /\ UNCHANGED <<cf, connsCount, idle, waitq, want, conn, pending, sent, cancelled, idem, cur, got, left, dl, sys, budget>>

DialOk(g, c) ==
    /\ At(g, "dial") /\ conn[c].st = "free"
    /\ conn' = [conn EXCEPT ![c] = [st |-> "open", user |-> Caller(g), clean |-> TRUE, peerClosed |-> FALSE, req |-> 0]]
    /\ pc' = [pc EXCEPT ![g].at = "write", ![g].c = c, ![g].pooled = FALSE]
    /\ UNCHANGED <<cf, connsCount, idle, waitq, want, pending, sent, cancelled, idem, cur, got, left, dl, sys, budget>>

DialFail(g) ==
    /\ At(g, "dial") /\ UseFault("dialerr")
    /\ pc' = [pc EXCEPT ![g].at = "dec", ![g].err = "dial"]
    /\ UNCHANGED <<cf, connsCount, idle, waitq, want, conn, pending, sent, cancelled, idem, cur, got, left, dl, sys>>

\* queueForIdle: clearFront pops k entries that are not waiting, then the new waiter is pushed
QueueForIdle(g, w, k) ==
    /\ At(g, "queue") /\ want[w].st = "none" /\ w \notin Range(waitq) /\ dl[w].at = "none"
    /\ k \in 0 .. Len(waitq) /\ \A i \in 1 .. k : Stale(waitq[i])
    /\ IF Strict /\ k < Len(waitq) THEN ~Stale(waitq[k + 1]) ELSE TRUE
    /\ waitq' = Append(Drop(waitq, k), w)
    /\ want' = GC([want EXCEPT ![w] = [st |-> "waiting", conn |-> 0]], waitq', dl)
    /\ pc' = [pc EXCEPT ![g].at = "wait", ![g].w = w]
    /\ UNCHANGED <<cf, connsCount, idle, conn, pending, sent, cancelled, idem, cur, got, left, dl, sys, budget>>

\* select: the ready channel is closed (a connection or a dial error was delivered)
WaitReady(g) ==
    /\ At(g, "wait")
    /\ LET w == pc[g].w IN
       \/ /\ want[w].st = "delivered"
          /\ LET c == want[w].conn IN
             /\ conn' = [conn EXCEPT ![c].user = Caller(g)]
             /\ pc' = [pc EXCEPT ![g].at = "write", ![g].c = c, ![g].w = 0, ![g].pooled = TRUE]
             /\ want' = GC([want EXCEPT ![w].st = "taken"], waitq, dl)
       \/ /\ want[w].st = "failed"
          /\ pc' = [pc EXCEPT ![g].at = "cancel", ![g].err = "dial"]
          /\ UNCHANGED <<conn, want>>
    /\ UNCHANGED <<cf, connsCount, idle, waitq, pending, sent, cancelled, idem, cur, got, left, dl, sys, budget>>

\* select: the MaxConnWaitTimeout timer fires (always possible: latency of waiters is not constrained)
WaitTimeout(g) ==
    /\ At(g, "wait")
    /\ pc' = [pc EXCEPT ![g].at = "cancel", ![g].err = "nofree"]
    /\ UNCHANGED <<cf, connsCount, idle, waitq, want, conn, pending, sent, cancelled, idem, cur, got, left, dl, sys, budget>>

\* wantConn.cancel under w.mu: a connection delivered in the meantime is taken back and released
Cancel(g) ==
    /\ At(g, "cancel")
    /\ LET w == pc[g].w IN
       IF want[w].st = "delivered"
       THEN LET c == want[w].conn IN
            /\ conn' = [conn EXCEPT ![c].user = Caller(g)]
            /\ pc' = [pc EXCEPT ![g].at = "rel", ![g].c = c, ![g].w = 0]
            /\ want' = GC([want EXCEPT ![w] = [st |-> "cancelled", conn |-> 0]], waitq, dl)
       ELSE /\ want[w].st \in {"waiting", "failed"}
            /\ pc' = [pc EXCEPT ![g].at = "ret", ![g].w = 0]
            /\ want' = GC([want EXCEPT ![w] = [st |-> "cancelled", conn |-> 0]], waitq, dl)
            /\ UNCHANGED conn
    /\ UNCHANGED <<cf, connsCount, idle, waitq, pending, sent, cancelled, idem, cur, got, left, dl, sys, budget>>

--------------------------------------------------------------------------------------------------------------
(* the exchange on connection c: doNonNilReqResp *)

WriteOk(g, c, rid) ==
    /\ At(g, "write") /\ pc[g].c = c /\ conn[c].user = Caller(g) /\ rid = cur[g]
    /\ idem[g] \/ sent[g] = 0                                    \* AtMostOnce
    /\ sent' = [sent EXCEPT ![g] = Min(@ + 1, 2)]
    /\ conn' = [conn EXCEPT ![c].clean = FALSE, ![c].req = rid]
    /\ Go(g, "read")
    /\ UNCHANGED <<cf, connsCount, idle, waitq, want, pending, cancelled, idem, cur, got, left, dl, sys, budget>>

\* the complete response was read; keep = no "Connection: close"
BodyOk(g, c, keep, dead) ==
    /\ At(g, "read") /\ pc[g].c = c /\ conn[c].user = Caller(g) /\ ~conn[c].peerClosed
    /\ IF keep THEN "ok" \in Faults ELSE "okclose" \in Faults
    /\ got' = [got EXCEPT ![g] = conn[c].req]
    /\ conn' = [conn EXCEPT ![c].clean = keep, ![c].peerClosed = dead]    \* dead: the peer closes right after
    /\ pc' = [pc EXCEPT ![g].at = IF keep THEN "rel" ELSE "close", ![g].err = "none"]
    /\ UNCHANGED <<cf, connsCount, idle, waitq, want, pending, sent, cancelled, idem, cur, left, dl, sys, budget>>

FaultOf(kind) == CASE kind = "first" -> "eof0" [] kind = "header" -> "eofhdr" [] kind = "body" -> "eofbody"
                   [] kind = "timeout" -> "stall"

\* the response does not arrive completely: EOF before the first byte / inside the header / inside the body,
\* or the peer stalls past the read timeout.  A connection closed by the peer while idle can only fail "first".
ReadFail(g, c, kind) ==
    /\ At(g, "read") /\ pc[g].c = c /\ conn[c].user = Caller(g)
    /\ IF conn[c].peerClosed THEN kind = "first" /\ UNCHANGED budget ELSE UseFault(FaultOf(kind))
    /\ pc' = [pc EXCEPT ![g].at = "close", ![g].err = kind]
    /\ UNCHANGED <<cf, connsCount, idle, waitq, want, conn, pending, sent, cancelled, idem, cur, got, left, dl, sys>>

PeerCloseIdle(c) ==
    /\ c \in Range(idle) /\ ~conn[c].peerClosed /\ UseFault("idleclose")
    /\ conn' = [conn EXCEPT ![c].peerClosed = TRUE]
    /\ UNCHANGED <<cf, connsCount, idle, waitq, want, pending, pc, sent, cancelled, idem, cur, got, left, dl, sys>>

--------------------------------------------------------------------------------------------------------------
(* shared-state effects of releaseConn / closeConn / decConnsCount, used by callers, dialers and closers *)

\* releaseConn, delivered to waiter w after popping k entries (w is entry k)
RelDeliverEff(c, w, k, d) ==
    /\ conn[c].st = "open" /\ conn[c].clean                         \* CleanReuse
    /\ cf.wait /\ k \in 1 .. Len(waitq) /\ waitq[k] = w /\ \A i \in 1 .. k - 1 : Stale(waitq[i])
    /\ want[w].st = "waiting"
    /\ waitq' = Drop(waitq, k)
    /\ want' = GC([want EXCEPT ![w] = [st |-> "delivered", conn |-> c]], waitq', d)
    /\ conn' = [conn EXCEPT ![c].user = <<"want", w>>]
    /\ dl' = d
    /\ UNCHANGED idle

\* releaseConn, appended to the idle list after popping k entries none of which is waiting
RelIdleEff(c, k, d) ==
    /\ conn[c].st = "open" /\ conn[c].clean                         \* CleanReuse
    /\ k \in 0 .. Len(waitq) /\ \A i \in 1 .. k : Stale(waitq[i])
    /\ cf.wait \/ k = 0
    /\ k = Len(waitq) \/ (k >= 1 /\ ~Strict)       \* stops early only at an entry it saw waiting (stale read)
    /\ waitq' = Drop(waitq, k)
    /\ want' = GC(want, waitq', d)
    /\ idle' = Append(idle, c)
    /\ conn' = [conn EXCEPT ![c].user = None]
    /\ dl' = d

CloseEff(c) == conn' = [conn EXCEPT ![c] = NoConn]

\* decConnsCount: the slot goes to waiter w (entry k), a background dialer is started for it
DecHandOffEff(w, k, d) ==
    /\ cf.wait /\ k \in 1 .. Len(waitq) /\ waitq[k] = w /\ \A i \in 1 .. k - 1 : Stale(waitq[i])
    /\ Strict => ~Stale(w)
    /\ d[w].at = "none"
    /\ waitq' = Drop(waitq, k)
    /\ dl' = [d EXCEPT ![w] = [at |-> "dial", c |-> 0]]
    /\ want' = GC(want, waitq', dl')
    /\ UNCHANGED connsCount

\* decConnsCount: nobody waits (k stale entries popped, queue empty afterwards)
DecCountEff(k, d) ==
    /\ k = (IF cf.wait THEN Len(waitq) ELSE 0) /\ \A i \in 1 .. k : Stale(waitq[i])
    /\ waitq' = Drop(waitq, k)
    /\ want' = GC(want, waitq', d)
    /\ connsCount' = connsCount - 1
    /\ dl' = d

--------------------------------------------------------------------------------------------------------------
(* caller: release / close / decrement / retry / exit *)

ReleaseDeliver(g, c, w, k) ==
    /\ At(g, "rel") /\ pc[g].c = c /\ conn[c].user = Caller(g) /\ RelDeliverEff(c, w, k, dl)
    /\ pc' = [pc EXCEPT ![g].at = "ret", ![g].c = 0]
    /\ UNCHANGED <<cf, connsCount, pending, sent, cancelled, idem, cur, got, left, sys, budget>>

ReleasePushIdle(g, c, k) ==
    /\ At(g, "rel") /\ pc[g].c = c /\ conn[c].user = Caller(g) /\ RelIdleEff(c, k, dl)
    /\ pc' = [pc EXCEPT ![g].at = "ret", ![g].c = 0]
    /\ UNCHANGED <<cf, connsCount, pending, sent, cancelled, idem, cur, got, left, sys, budget>>

\* closeConn after the exchange; the code may also give a connection up before or instead of using it (request
\* timeout used up, SetWriteTimeout/SetReadTimeout or write error, Connection: close asked by the request,
\* MaxConnDuration): closing is always safe, so outside Strict it is allowed wherever the caller holds c
CloseConn(g, c) ==
    /\ pc[g].c = c /\ conn[c].user = Caller(g) /\ CloseEff(c)
    /\ \/ At(g, "close") /\ pc' = [pc EXCEPT ![g].at = "dec", ![g].c = 0]
       \/ ~Strict /\ At(g, "rel") /\ pc' = [pc EXCEPT ![g].at = "dec", ![g].c = 0]
       \/ ~Strict /\ pc[g].at \in {"write", "read"} /\ pc' = [pc EXCEPT ![g].at = "dec", ![g].c = 0, ![g].err = "giveup"]
    /\ UNCHANGED <<cf, connsCount, idle, waitq, want, pending, sent, cancelled, idem, cur, got, left, dl, sys, budget>>

DecHandOff(g, w, k) ==
    /\ At(g, "dec") /\ DecHandOffEff(w, k, dl) /\ Go(g, "ret")
    /\ UNCHANGED <<cf, idle, conn, pending, sent, cancelled, idem, cur, got, left, sys, budget>>

DecCount(g, k) ==
    /\ At(g, "dec") /\ DecCountEff(k, dl) /\ Go(g, "ret")
    /\ UNCHANGED <<cf, idle, conn, pending, sent, cancelled, idem, cur, got, left, sys, budget>>

\* Do retries a request whose pooled connection turned out to be closed by the peer, iff it is idempotent
CodeRetries(g) == pc[g].err = "first" /\ pc[g].pooled /\ idem[g]
Retry(g) ==
    /\ At(g, "ret") /\ pc[g].err # "none"
    /\ Strict => CodeRetries(g)
    /\ pc' = [pc EXCEPT ![g] = [IdlePc EXCEPT !.at = "top"]]
    /\ UNCHANGED <<cf, connsCount, idle, waitq, want, conn, pending, sent, cancelled, idem, cur, got, left, dl, sys, budget>>

DoExit(g) ==
    /\ At(g, "ret") /\ (Strict => ~CodeRetries(g))
    /\ pending' = pending - 1
    /\ Go(g, "done")
    /\ UNCHANGED <<cf, connsCount, idle, waitq, want, conn, sent, cancelled, idem, cur, got, left, dl, sys, budget>>

\* Do has returned err to the application; ok = (err == nil)
Return(g, ok) ==
    /\ At(g, "done")
    /\ ok => (pc[g].err = "none" /\ got[g] = cur[g])                \* ResponseMatches
    /\ Strict => (ok <=> pc[g].err = "none")
    /\ pc' = [pc EXCEPT ![g] = IdlePc]
    /\ cancelled' = [cancelled EXCEPT ![g] = FALSE]
    /\ UNCHANGED <<cf, connsCount, idle, waitq, want, conn, pending, sent, idem, cur, got, left, dl, sys, budget>>

--------------------------------------------------------------------------------------------------------------
(* background dialer for waiter w: dialConnFor *)

BgDialOk(w, c) ==
    /\ dl[w].at = "dial" /\ conn[c].st = "free"
    /\ conn' = [conn EXCEPT ![c] = [st |-> "open", user |-> Dialer(w), clean |-> TRUE, peerClosed |-> FALSE, req |-> 0]]
    /\ dl' = [dl EXCEPT ![w] = [at |-> "deliver", c |-> c]]
    /\ UNCHANGED <<cf, connsCount, idle, waitq, want, pending, pc, sent, cancelled, idem, cur, got, left, sys, budget>>

BgDialFail(w) ==
    /\ dl[w].at = "dial" /\ UseFault("dialerr")
    /\ dl' = [dl EXCEPT ![w].at = "faildeliver"]
    /\ UNCHANGED <<cf, connsCount, idle, waitq, want, conn, pending, pc, sent, cancelled, idem, cur, got, left, sys>>

\* tryDeliver(cc, nil) succeeds (w.mu)
BgDeliver(w, c) ==
    /\ dl[w].at = "deliver" /\ dl[w].c = c /\ want[w].st = "waiting"
    /\ dl' = [dl EXCEPT ![w] = NoDl]
    /\ want' = [want EXCEPT ![w] = [st |-> "delivered", conn |-> c]]
    /\ conn' = [conn EXCEPT ![c].user = <<"want", w>>]
    /\ UNCHANGED <<cf, connsCount, idle, waitq, pending, pc, sent, cancelled, idem, cur, got, left, sys, budget>>

\* tryDeliver(nil, err) succeeds (w.mu)
BgDeliverErr(w) ==
    /\ dl[w].at = "faildeliver" /\ want[w].st = "waiting"
    /\ dl' = [dl EXCEPT ![w].at = "dec"]
    /\ want' = [want EXCEPT ![w] = [st |-> "failed", conn |-> 0]]
    /\ UNCHANGED <<cf, connsCount, idle, waitq, conn, pending, pc, sent, cancelled, idem, cur, got, left, sys, budget>>

\* tryDeliver fails when the waiter is gone (want[w].st # "waiting" is stable): the failed attempt is merged into
\* the step that follows it, releaseConn(cc) resp. decConnsCount
BgReleaseDeliver(w, c, w2, k) ==
    /\ dl[w].at = "deliver" /\ Stale(w) /\ dl[w].c = c /\ conn[c].user = Dialer(w)
    /\ RelDeliverEff(c, w2, k, [dl EXCEPT ![w] = NoDl])
    /\ UNCHANGED <<cf, connsCount, pending, pc, sent, cancelled, idem, cur, got, left, sys, budget>>

BgReleasePushIdle(w, c, k) ==
    /\ dl[w].at = "deliver" /\ Stale(w) /\ dl[w].c = c /\ conn[c].user = Dialer(w)
    /\ RelIdleEff(c, k, [dl EXCEPT ![w] = NoDl])
    /\ UNCHANGED <<cf, connsCount, pending, pc, sent, cancelled, idem, cur, got, left, sys, budget>>

BgDecHandOff(w, w2, k) ==
    /\ (dl[w].at = "dec" \/ (dl[w].at = "faildeliver" /\ Stale(w))) /\ DecHandOffEff(w2, k, [dl EXCEPT ![w] = NoDl])
    /\ UNCHANGED <<cf, idle, conn, pending, pc, sent, cancelled, idem, cur, got, left, sys, budget>>

BgDecCount(w, k) ==
    /\ (dl[w].at = "dec" \/ (dl[w].at = "faildeliver" /\ Stale(w))) /\ DecCountEff(k, [dl EXCEPT ![w] = NoDl])
    /\ UNCHANGED <<cf, idle, conn, pending, pc, sent, cancelled, idem, cur, got, left, sys, budget>>

--------------------------------------------------------------------------------------------------------------
(* system closers: s = 1 the idle reaper (oldest first), s = 2 CloseIdleConnections (everything) *)

SysTake(s, k) ==
    /\ s \in SysOn /\ sys[s].todo = << >> /\ ~sys[s].dec
    /\ k \in 1 .. Len(idle)
    /\ s = 2 => k = Len(idle)
    /\ sys' = [sys EXCEPT ![s].todo = SubSeq(idle, 1, k)]
    /\ idle' = Drop(idle, k)
    /\ conn' = [c \in C |-> IF c \in Range(SubSeq(idle, 1, k)) THEN [conn[c] EXCEPT !.user = SysP(s)] ELSE conn[c]]
    /\ UNCHANGED <<cf, connsCount, waitq, want, pending, pc, sent, cancelled, idem, cur, got, left, dl, budget>>
CleanerSweep(k) == SysTake(1, k)
CloseIdle(k)    == SysTake(2, k)

SysClose(s, c) ==
    /\ sys[s].todo # << >> /\ ~sys[s].dec /\ c = Head(sys[s].todo) /\ conn[c].user = SysP(s)
    /\ CloseEff(c)
    /\ sys' = [sys EXCEPT ![s].todo = Tail(@), ![s].dec = TRUE]
    /\ UNCHANGED <<cf, connsCount, idle, waitq, want, pending, pc, sent, cancelled, idem, cur, got, left, dl, budget>>

SysDecHandOff(s, w, k) ==
    /\ sys[s].dec /\ DecHandOffEff(w, k, dl)
    /\ sys' = [sys EXCEPT ![s].dec = FALSE]
    /\ UNCHANGED <<cf, idle, conn, pending, pc, sent, cancelled, idem, cur, got, left, budget>>

SysDecCount(s, k) ==
    /\ sys[s].dec /\ DecCountEff(k, dl)
    /\ sys' = [sys EXCEPT ![s].dec = FALSE]
    /\ UNCHANGED <<cf, idle, conn, pending, pc, sent, cancelled, idem, cur, got, left, budget>>

--------------------------------------------------------------------------------------------------------------
Ks == 0 .. NW

CallerNext(g) ==
    \/ \E im \in IdemSet : DoEnter(g, g, im)
    \/ CtxDone(g)
    \/ \E c \in C : AcquirePopIdle(g, c)
    \/ AcquireCreate(g) \/ AcquireNone(g)
    \/ (FreeConns # {} /\ DialOk(g, Lowest(FreeConns))) \/ DialFail(g)
    \/ (FreeWaiters # {} /\ \E k \in Ks : QueueForIdle(g, Lowest(FreeWaiters), k))
    \/ WaitReady(g) \/ WaitTimeout(g) \/ Cancel(g)
    \/ \E c \in C : \/ WriteOk(g, c, cur[g]) \/ BodyOk(g, c, TRUE, FALSE) \/ BodyOk(g, c, FALSE, FALSE)
                    \/ \E kind \in {"first", "header", "body", "timeout"} : ReadFail(g, c, kind)
                    \/ CloseConn(g, c)
                    \/ \E k \in Ks : \/ ReleasePushIdle(g, c, k)
                                     \/ \E w \in W : ReleaseDeliver(g, c, w, k)
    \/ \E k \in Ks : DecCount(g, k) \/ \E w \in W : DecHandOff(g, w, k)
    \/ Retry(g) \/ DoExit(g)
    \/ \E ok \in BOOLEAN : Return(g, ok)

DialerNext(w) ==
    \/ (FreeConns # {} /\ BgDialOk(w, Lowest(FreeConns))) \/ BgDialFail(w)
    \/ \E c \in C : BgDeliver(w, c)
    \/ BgDeliverErr(w)
    \/ \E c \in C, k \in Ks : BgReleasePushIdle(w, c, k) \/ \E w2 \in W : BgReleaseDeliver(w, c, w2, k)
    \/ \E k \in Ks : BgDecCount(w, k) \/ \E w2 \in W : BgDecHandOff(w, w2, k)

SysStep(s) ==
    \/ \E c \in C : SysClose(s, c)
    \/ \E k \in Ks : SysDecCount(s, k) \/ \E w \in W : SysDecHandOff(s, w, k)

EnvNext ==
    \/ \E g \in Callers : CtxCancel(g)
    \/ \E c \in C : PeerCloseIdle(c)
    \/ \E k \in 1 .. NC : CleanerSweep(k) \/ CloseIdle(k)

Next == \/ \E g \in Callers : CallerNext(g)
        \/ \E w \in W : DialerNext(w)
        \/ \E s \in Sys : SysStep(s)
        \/ EnvNext

Spec == Init /\ [][Next]_vars

\* per-process weak fairness: callers, dialers, pending close/decrement steps of the closers.  Not WF(Next).
FairSpec == /\ Spec
            /\ \A g \in Callers : WF_vars(CallerNext(g) /\ ~(pc[g].at = "idle"))
            /\ \A w \in W : WF_vars(DialerNext(w))
            /\ \A s \in Sys : WF_vars(SysStep(s))

--------------------------------------------------------------------------------------------------------------
(* properties *)

TypeOK == /\ connsCount \in 0 .. NC + Cardinality(Callers) + NW + 2
          /\ pending \in 0 .. Cardinality(Callers) * (MaxReqs + 1)
          /\ \A i \in DOMAIN idle : idle[i] \in C
          /\ \A i \in DOMAIN waitq : waitq[i] \in W
          /\ \A w \in W : want[w].st \in {"none", "waiting", "delivered", "failed", "taken", "cancelled"}
          /\ \A c \in C : conn[c].st \in {"free", "open"}

\* who holds which connection: callers, background dialers, closers, waiters with a delivered connection
HolderPairs == {<<Caller(g), pc[g].c>> : g \in {h \in Callers : pc[h].c # 0}}
               \cup {<<Dialer(w), dl[w].c>> : w \in {v \in W : dl[v].c # 0}}
               \cup {<<<<"want", w>>, want[w].conn>> : w \in {v \in W : want[v].st = "delivered"}}
               \cup UNION {{<<SysP(s), sys[s].todo[i]>> : i \in DOMAIN sys[s].todo} : s \in Sys}

\* a connection carries at most one request at a time: every holder is THE user of its connection (so no
\* connection has two holders), every used connection has its holder, idle connections have none
Exclusive ==
    LET hp == HolderPairs
        ri == Range(idle) IN
    /\ \A pr \in hp : pr[2] \in C /\ conn[pr[2]].st = "open" /\ conn[pr[2]].user = pr[1]
    /\ Cardinality({c \in C : conn[c].st = "open" /\ conn[c].user # None}) = Cardinality(hp)
    /\ \A c \in C : IF conn[c].st = "open" THEN (conn[c].user = None <=> c \in ri)
                                          ELSE (conn[c].user = None /\ c \notin ri)
    /\ Cardinality(ri) = Len(idle)

Bounded == connsCount <= cf.max

\* every counted slot is accounted for: dialing, a decrement that is due, or an open connection
Slots == Cardinality({g \in Callers : pc[g].at \in {"dial", "dec"}})
         + Cardinality({w \in W : dl[w].at \in {"dial", "faildeliver", "dec"}})
         + Cardinality({s \in Sys : sys[s].dec})
         + Cardinality({c \in C : conn[c].st = "open"})
CountConservation == connsCount = Slots

CleanReuse == \A c \in C : (c \in Range(idle) \/ conn[c].user[1] = "want") => (conn[c].st = "open" /\ conn[c].clean)

ResponseMatches == \A g \in Callers : got[g] \in {0, cur[g]}

AtMostOnce == \A g \in Callers : ~idem[g] => sent[g] <= 1

Quiescent == /\ \A g \in Callers : pc[g].at = "idle"
             /\ \A w \in W : dl[w].at = "none"
             /\ \A s \in Sys : sys[s].todo = << >> /\ ~sys[s].dec
QuiescentOK == Quiescent =>
    /\ \A c \in C : conn[c].st = "free" \/ c \in Range(idle)
    /\ \A i \in DOMAIN waitq : want[waitq[i]].st # "waiting"      \* live waiters only; stale entries are not judged
    /\ \A w \in W : want[w].st \notin {"waiting", "delivered"}
    /\ pending = 0
    /\ connsCount = Len(idle)

\* the constants NC / NW are large enough: an action never lacks a free id
IdsSuffice == /\ (\E g \in Callers : pc[g].at = "dial") \/ (\E w \in W : dl[w].at = "dial") => FreeConns # {}
              /\ (\E g \in Callers : pc[g].at = "queue") => FreeWaiters # {}

Progress == \A g \in Callers : (pc[g].at = "top") ~> (pc[g].at = "idle")

Symm == Permutations(Callers)
=============================================================================
