CONSTANTS
  Modes = {"ok1", "ok2", "ok3", "empty", "err", "zero", "mixed"}
  Thorough = FALSE
INIT GenInit
NEXT GenNext
