CONSTANTS
  NT = 2
  NU = 2
  Rounds = 2
  Drain = TRUE
  AtomicFire = TRUE
  Go123 = FALSE
  Misuse = TRUE
  PutOnlyStopped = FALSE
SPECIFICATION Spec
INVARIANTS NoTrap

