CONSTANTS
  MaxCalls = 1
  AsWritten = FALSE
  OpSet = "small"
INIT TraceInit
NEXT TraceNext
INVARIANTS Report
