---------------------------- MODULE AdaptorTrace ----------------------------
(***************************************************************************************************************)
(* Trace validation for X04.  Lines recorded by harness/drivers/x04 (one action per line, no silent steps: the  *)
(* validation is deterministic):                                                                               *)
(*  Case{kind "rw", pre, prebody, ops, sig}  must be well-formed and carry the marks the specification computes *)
(*    New{map}                      Header() as first seen = the headers the Response had (clause 4)            *)
(*    Set/Add/Del/WriteHeader/Write{i, n, v, code, p, ret, err, after, st, hdr, body}                           *)
(*                                  call i of the case = Adaptor!Step; after it the Response shows the body of  *)
(*                                  the machine and, once the header is sent, its status and header multimap    *)
(*                                  (st, hdr: parsed by net/http from the serialized header); Write returned    *)
(*                                  len(p), nil (clause 3)                                                      *)
(*    Fin{st, hdr, body}            after the last call: as above; header never sent: status 200 and the        *)
(*                                  former headers or the flushed Header() (clause 4)                           *)
(*  Case{kind "fwd", ...}  H{view}  Conv{view}: FwdOK   Iso{hh, oh}: IsoOK                     (clauses 1, 4)   *)
(*  Case{kind "rev", ...}  N{view}  Copy{view}: CopyOK  CopyLen{cl, blen}: CopyLenOK  Wire{view}: WireOK           *)
(*                         Back{view}: FwdOK                                                   (clause 2)      *)
(*  End                                                                                                        *)
(* Panic, BuildErr or anything else has no action (clause 5): the case is rejected at that line.               *)
(* The same module validates the recording of httptest.ResponseRecorder (driver -impl recorder).              *)
(***************************************************************************************************************)
EXTENDS Adaptor, AdaptorReq, Json, IOUtils

Trace == ndJsonDeserialize(IOEnv.VERIF_TRACE)

VARIABLES cur,    \* the Case line being validated
          mem,    \* views seen so far in a request case
          ph,     \* what the next line must be
          l, bad
tvars == <<vars, cur, mem, ph, l, bad>>

NoMem == [h |-> << >>, o |-> << >>, n |-> << >>, c |-> << >>]
Line == Trace[l]

SetMachine(P, h, s, st, sh, b, cs) ==
  /\ pre' = P /\ hdr' = h /\ sent' = s /\ status' = st /\ sentHdr' = sh /\ body' = b /\ calls' = cs
Idle == SetMachine(<< >>, Empty, FALSE, 200, Empty, "", << >>) /\ cur' = << >> /\ mem' = NoMem /\ ph' = "idle"

TraceInit == /\ pre = << >> /\ hdr = Empty /\ sent = FALSE /\ status = 200 /\ sentHdr = Empty /\ body = "" /\ calls = << >>
             /\ cur = << >> /\ mem = NoMem /\ ph = "idle" /\ l = 1 /\ bad = << >>

-----------------------------------------------------------------------------
(* response writer *)
ObsOf(obs, n) == IF \E i \in DOMAIN obs : obs[i].n = n THEN obs[CHOOSE i \in DOMAIN obs : obs[i].n = n].vs ELSE << >>
\* the observed header values are those of the multimap h; Content-Type is free when the handler set none
HdrMatches(obs, h) == /\ \A i \in DOMAIN obs : obs[i].n \in Names
                      /\ \A n \in Names : \/ n = CT /\ h[n] = << >>
                                          \/ ObsOf(obs, n) = [i \in DOMAIN h[n] |-> Canon(n, h[n][i])]

RwCase == /\ Line.ev = "Case" /\ ph = "idle" /\ Line.kind = "rw"
          /\ Line.pre \in Pres /\ Line.prebody = PreBodyOf(Line.pre)
          /\ \A i \in DOMAIN Line.ops : OpWF(Line.ops[i])
          /\ Line.sig = [wh2 |-> Wh2(Line.ops), ck2 |-> Ck2(Line.pre, Line.ops), lost |-> Lost(Line.pre, Line.ops)]
          /\ SetMachine(Line.pre, Group(Line.pre), FALSE, 200, Empty, PreBodyOf(Line.pre), << >>)
          /\ cur' = Line /\ mem' = NoMem /\ ph' = "new"

RwNew == /\ Line.ev = "New" /\ ph = "new"
         /\ \A n \in Names : ObsOf(Line.map, n) = [i \in DOMAIN hdr[n] |-> Canon(n, hdr[n][i])]
         /\ ph' = "run" /\ UNCHANGED <<vars, cur, mem>>

RwCall == /\ Line.ev \in {"Set", "Add", "Del", "WriteHeader", "Write"} /\ ph = "run"
          /\ Line.i = Len(calls) + 1 /\ Line.i <= Len(cur.ops) /\ Line.after = sent
          /\ LET o == Op(Line.ev, Line.n, Line.v, Line.code, Line.p) IN
             /\ o = cur.ops[Line.i]
             /\ Step(o)
          /\ Line.body = body'
          /\ Line.ev = "Write" => (Line.ret = Len(Line.p) /\ ~Line.err)
          /\ sent' => (Line.st = status' /\ HdrMatches(Line.hdr, sentHdr'))
          /\ UNCHANGED <<cur, mem, ph>>

RwFin == /\ Line.ev = "Fin" /\ ph = "run" /\ Len(calls) = Len(cur.ops)
         /\ Line.body = body
         /\ Line.st = status
         /\ \E h \in FinalHdrs : HdrMatches(Line.hdr, h)
         /\ ph' = "end" /\ UNCHANGED <<vars, cur, mem>>

-----------------------------------------------------------------------------
(* requests *)
ReqCase == /\ Line.ev = "Case" /\ ph = "idle" /\ Line.kind \in {"fwd", "rev"}
           /\ Line.bad \in BOOLEAN
           /\ cur' = Line /\ mem' = NoMem /\ ph' = (IF Line.kind = "fwd" THEN "H" ELSE "N") /\ UNCHANGED vars

Keep(field, nxt) == /\ mem' = [mem EXCEPT ![field] = Line] /\ ph' = nxt /\ UNCHANGED <<vars, cur>>

FwdH    == Line.ev = "H"    /\ ph = "H"    /\ ~Line.err /\ Keep("h", "Conv")
FwdConv == Line.ev = "Conv" /\ ph = "Conv" /\ FwdOK(cur, mem.h, Line) /\ Keep("o", "Iso")
FwdIso  == Line.ev = "Iso"  /\ ph = "Iso"  /\ IsoOK(mem.h, mem.o, Line) /\ ph' = "end" /\ UNCHANGED <<vars, cur, mem>>
RevN    == Line.ev = "N"    /\ ph = "N"    /\ ~Line.err /\ ~Line.berr /\ Keep("n", "Copy")
RevCopy == Line.ev = "Copy" /\ ph = "Copy" /\ CopyOK(mem.n, Line) /\ Keep("c", "CopyLen")
RevLen  == Line.ev = "CopyLen" /\ ph = "CopyLen" /\ CopyLenOK(Line) /\ Line.blen = Len(mem.c.body) /\ ph' = "Wire" /\ UNCHANGED <<vars, cur, mem>>
RevWire == Line.ev = "Wire" /\ ph = "Wire" /\ WireOK(mem.n, Line) /\ ph' = "Back" /\ UNCHANGED <<vars, cur, mem>>
RevBack == Line.ev = "Back" /\ ph = "Back" /\ FwdOK(cur, mem.c, Line) /\ ph' = "end" /\ UNCHANGED <<vars, cur, mem>>

TraceEnd == Line.ev = "End" /\ ph = "end" /\ Idle

-----------------------------------------------------------------------------
Normal == /\ l <= Len(Trace)
          /\ (RwCase \/ RwNew \/ RwCall \/ RwFin \/ ReqCase \/ FwdH \/ FwdConv \/ FwdIso \/ RevN \/ RevCopy \/ RevLen \/ RevWire \/ RevBack \/ TraceEnd)
          /\ l' = l + 1 /\ UNCHANGED bad

NextCase(k) == IF \E j \in k + 1 .. Len(Trace) : Trace[j].ev = "Case"
               THEN CHOOSE j \in k + 1 .. Len(Trace) : Trace[j].ev = "Case" /\ \A i \in k + 1 .. j - 1 : Trace[i].ev # "Case"
               ELSE Len(Trace) + 1

Mismatch == /\ l <= Len(Trace) /\ ~ENABLED Normal
            /\ bad' = Append(bad, l)
            /\ l' = IF Len(bad) >= 1000000 THEN Len(Trace) + 1 ELSE NextCase(l)
            /\ Idle

MismatchEOF == /\ l = Len(Trace) + 1 /\ ph # "idle"
               /\ bad' = Append(bad, l) /\ l' = l /\ Idle

TraceNext == Normal \/ Mismatch \/ MismatchEOF

Report == (l = Len(Trace) + 1 /\ ph = "idle") => PrintT(<<"@@BAD", bad, l - 1, Len(Trace)>>)
=============================================================================
