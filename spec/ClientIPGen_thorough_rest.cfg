CONSTANTS
  MaxToks = 4
  Big = TRUE
  NRand = 120000
  Part = "rest"
INIT GenInit
NEXT GenNext
