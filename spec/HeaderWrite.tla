----------------------------- MODULE HeaderWrite -----------------------------
(***************************************************************************)
(* C05 -- header-setting APIs cannot be used to inject lines into a        *)
(* message.                                                                *)
(*                                                                         *)
(* An API PROGRAM is a short sequence of calls from the entry-point table  *)
(* (EntryTable below: one row per exported header-writing method of        *)
(* protocol.RequestHeader / ResponseHeader / Cookie / Trailer / Request    *)
(* and the app.RequestContext helpers), each with byte-string arguments.   *)
(* Bytes are small integers.  After the calls the object is SERIALISED     *)
(* (RequestHeader.Header(), ResponseHeader.Header(), Trailer.Header(), or  *)
(* the whole message through http1/req.Write, http1/resp.Write).           *)
(*                                                                         *)
(* The property is a predicate on (program, serialised bytes) only:        *)
(*   MessageOK(obs, target, body, prog, bytes)                             *)
(* It is decided by a STRICT LINE READER written here (Lines): split at    *)
(* every LF, strip one trailing CR, reject any other CR.  Then             *)
(*   - the first line is a start line, every other line of the header      *)
(*     block is a field line  name ":" value  whose name consists of token *)
(*     characters, up to the first empty line;                             *)
(*   - per field name, the number of lines carrying that name is at most   *)
(*     the number of calls of the program that may legitimately produce a  *)
(*     line of that name (HNames / TNames: Set/Add(k,v) -> k, SetHost(v)   *)
(*     -> Host, SetCookie -> Cookie / Set-Cookie, Trailer.Set(k,v) -> k in *)
(*     the trailer block and "Trailer" in the header block ...) plus one   *)
(*     if it is a name the library emits on its own (DefaultNames);        *)
(*     consequently a line whose name comes out of an argument VALUE is    *)
(*     never accepted (count 0), and the total number of field lines is    *)
(*     bounded by  #calls + #defaults;                                     *)
(*   - fields that are single-valued on the wire (Content-Length, Transfer-Encoding, Host, Server, Date,    *)
(*     Content-Type, User-Agent, Content-Encoding) appear at most once whatever mix of generic and          *)
(*     dedicated setters the program used, never Content-Length together with Transfer-Encoding, never two  *)
(*     `Connection: close` lines or close together with keep-alive (SingleValuedOK);                        *)
(*   - nothing follows the empty line except the body framing the case     *)
(*     fixes (no body, or the chunked one-byte body "B" followed by the    *)
(*     trailer block, which is checked the same way against TNames).       *)
(*                                                                         *)
(* The state machine  Call* ; Serialize  below runs a REFERENCE serialiser *)
(* (Mode = "ref": invalid names dropped, CR/LF in values -> SP, like       *)
(* header.go:appendHeaderLine/newlineToSpace) and TLC checks that it meets *)
(* the obligation (HeaderWrite_mc*.cfg); Mode = "naive" (bytes written as  *)
(* given) and Mode = "cookieraw" (everything sanitised except the request  *)
(* Cookie line = hertz as written today, cookie.go:appendRequestCookie-    *)
(* Bytes) must VIOLATE it (negative configurations run by checks/c05.py,   *)
(* so the invariant is known not to be vacuous).                           *)
(*                                                                         *)
(* Binding: HeaderWriteGen enumerates programs, harness/drivers/c05 runs   *)
(* them on the real objects and records the bytes, HeaderWriteTrace        *)
(* evaluates MessageOK on the recorded bytes.                              *)
(*                                                                         *)
(* DELIBERATELY UNCONSTRAINED (the property does not speak about it):      *)
(*   - whether a field appears at all (it may be dropped), the order of    *)
(*     fields, default fields and their values, status code / reason;      *)
(*   - field VALUES (only that they contain no CR/LF, which the reader     *)
(*     enforces): NUL, colon, space are free; values are not compared;     *)
(*   - how an illegal field NAME is treated: dropped, or sanitised to any  *)
(*     token that has the same letters/digits (Canon) -- so "x:" may come  *)
(*     out as "x", "X", "x-" ..., and an empty name may come out as the    *)
(*     (malformed but not injected) line ": v", as hertz does;             *)
(*   - whether Set replaces or adds (every call naming k allows one line); *)
(*   - request-line method / URI setters (not in the property's list).     *)
(***************************************************************************)
EXTENDS Integers, Sequences, FiniteSets, TLC, SequencesExt

CONSTANTS Mode,      \* "ref" | "naive" | "cookieraw" : serialiser run by the state machine
          Profile    \* argument universe of the exhaustive configuration (McNames / McVals below)

CR == 13  LF == 10  NUL == 0  COLON == 58  SP == 32  COMMA == 44  EQ == 61
LetterN == 120      \* 'x' : the letter of name-like arguments
LetterV == 118      \* 'v' : the letter of value-like arguments

NHost              == <<72, 111, 115, 116>>
NUserAgent         == <<85, 115, 101, 114, 45, 65, 103, 101, 110, 116>>
NContentType       == <<67, 111, 110, 116, 101, 110, 116, 45, 84, 121, 112, 101>>
NContentLength     == <<67, 111, 110, 116, 101, 110, 116, 45, 76, 101, 110, 103, 116, 104>>
NTransferEncoding  == <<84, 114, 97, 110, 115, 102, 101, 114, 45, 69, 110, 99, 111, 100, 105, 110, 103>>
NConnection        == <<67, 111, 110, 110, 101, 99, 116, 105, 111, 110>>
NTrailer           == <<84, 114, 97, 105, 108, 101, 114>>
NCookie            == <<67, 111, 111, 107, 105, 101>>
NSetCookie         == <<83, 101, 116, 45, 67, 111, 111, 107, 105, 101>>
NServer            == <<83, 101, 114, 118, 101, 114>>
NDate              == <<68, 97, 116, 101>>
NContentEncoding   == <<67, 111, 110, 116, 101, 110, 116, 45, 69, 110, 99, 111, 100, 105, 110, 103>>
NLocation          == <<76, 111, 99, 97, 116, 105, 111, 110>>
NAuthorization     == <<65, 117, 116, 104, 111, 114, 105, 122, 97, 116, 105, 111, 110>>
BHttp11            == <<72, 84, 84, 80, 47, 49, 46, 49>>                   \* "HTTP/1.1"
BColonSp           == <<58, 32>>
BCRLF              == <<13, 10>>
BChunkLines        == << <<49>>, <<66>>, <<48>> >>                          \* "1" "B" "0"
BChunk             == <<49, 13, 10, 66, 13, 10, 48, 13, 10>>
BTEChunked         == <<99, 104, 117, 110, 107, 101, 100>>
BReqStart          == <<80, 79, 83, 84, 32, 47, 112, 32, 72, 84, 84, 80, 47, 49, 46, 49>>   \* "POST /p HTTP/1.1"
BRespStart         == <<72, 84, 84, 80, 47, 49, 46, 49, 32, 50, 48, 48, 32, 79, 75>>        \* "HTTP/1.1 200 OK"
BSemiSp            == <<59, 32>>
BCommaSp           == <<44, 32>>
BDomainEq          == <<59, 32, 100, 111, 109, 97, 105, 110, 61>>
BPathEq            == <<59, 32, 112, 97, 116, 104, 61>>
BHostV             == <<101, 120, 97, 109, 112, 108, 101, 46, 99, 111, 109>>

-----------------------------------------------------------------------------
(* The entry-point table.  tgt: object the program runs on (req = protocol.Request, resp = protocol.Response,  *)
(* ctx = app.RequestContext); cls: what the call may legitimately contribute (see HNames/TNames); fx: the      *)
(* fixed field name of cls "fixed"; roles: one letter per string argument, "n" = name-like (field name,        *)
(* trailer name, trailer-name list), "v" = value-like (everything that may only ever appear inside a value),   *)
(* "d" = a decimal integer (SetContentLength).                                                                  *)
Ent(t, c, f, r) == [tgt |-> t, cls |-> c, fx |-> f, roles |-> r]
NV == <<"n", "v">>
EntryTable ==
     ("ReqHeader.Set"                     :> Ent("req", "kvset", << >>, NV))
  @@ ("ReqHeader.Add"                     :> Ent("req", "kvadd", << >>, NV))
  @@ ("ReqHeader.SetBytesKV"              :> Ent("req", "kvset", << >>, NV))
  @@ ("ReqHeader.SetCanonical"            :> Ent("req", "kvset", << >>, NV))
  @@ ("ReqHeader.SetArgBytes"             :> Ent("req", "kvset", << >>, NV))
  @@ ("ReqHeader.AddArgBytes"             :> Ent("req", "kvadd", << >>, NV))
  @@ ("ReqHeader.SetArgBytesNoValue"      :> Ent("req", "kvset", << >>, NV))
  @@ ("ReqHeader.AddArgBytesNoValue"      :> Ent("req", "kvadd", << >>, NV))
  @@ ("Request.SetHeader"                 :> Ent("req", "kvset", << >>, NV))
  @@ ("Request.SetHeaders"                :> Ent("req", "kvset", << >>, NV))
  @@ ("ReqHeader.SetHost"                 :> Ent("req", "fixed", NHost, <<"v">>))
  @@ ("ReqHeader.SetHostBytes"            :> Ent("req", "fixed", NHost, <<"v">>))
  @@ ("Request.SetHost"                   :> Ent("req", "fixed", NHost, <<"v">>))
  @@ ("ReqHeader.SetUserAgentBytes"       :> Ent("req", "fixed", NUserAgent, <<"v">>))
  @@ ("ReqHeader.SetContentTypeBytes"     :> Ent("req", "fixed", NContentType, <<"v">>))
  @@ ("ReqHeader.SetMultipartFormBoundary" :> Ent("req", "fixed", NContentType, <<"v">>))
  @@ ("ReqHeader.SetContentLengthBytes"   :> Ent("req", "fixed", NContentLength, <<"v">>))
  @@ ("Request.SetAuthToken"              :> Ent("req", "fixed", NAuthorization, <<"v">>))
  @@ ("Request.SetAuthSchemeToken"        :> Ent("req", "fixed", NAuthorization, <<"v", "v">>))
  @@ ("Request.SetBasicAuth"              :> Ent("req", "fixed", NAuthorization, <<"v", "v">>))
  @@ ("Request.URI.SetUsername"           :> Ent("req", "fixed", NAuthorization, <<"v">>))
  @@ ("ReqHeader.SetContentLength"        :> Ent("req", "fixed", NContentLength, <<"d">>))
  @@ ("ReqHeader.SetConnectionClose"      :> Ent("req", "fixed", NConnection, << >>))
  @@ ("Request.SetConnectionClose"        :> Ent("req", "fixed", NConnection, << >>))
  @@ ("ReqHeader.SetCookie"               :> Ent("req", "reqcookie", << >>, <<"v", "v">>))
  @@ ("Request.SetCookie"                 :> Ent("req", "reqcookie", << >>, <<"v", "v">>))
  @@ ("Request.SetCookies"                :> Ent("req", "reqcookie", << >>, <<"v", "v">>))
  @@ ("ReqTrailer.Set"                    :> Ent("req", "trailer", << >>, NV))
  @@ ("ReqTrailer.Add"                    :> Ent("req", "trailer", << >>, NV))
  @@ ("ReqTrailer.UpdateArgBytes"         :> Ent("req", "trailer", << >>, NV))
  @@ ("ReqTrailer.SetTrailers"            :> Ent("req", "trailers", << >>, <<"n">>))
  @@ ("ReqHeader.Del"                     :> Ent("req", "none", << >>, <<"n">>))
  @@ ("ReqHeader.DisableNormalizing"      :> Ent("req", "none", << >>, << >>))
  @@ ("RespHeader.Set"                    :> Ent("resp", "kvset", << >>, NV))
  @@ ("RespHeader.Add"                    :> Ent("resp", "kvadd", << >>, NV))
  @@ ("RespHeader.SetBytesV"              :> Ent("resp", "kvset", << >>, NV))
  @@ ("RespHeader.SetCanonical"           :> Ent("resp", "kvset", << >>, NV))
  @@ ("RespHeader.SetArgBytes"            :> Ent("resp", "kvset", << >>, NV))
  @@ ("RespHeader.AddArgBytes"            :> Ent("resp", "kvadd", << >>, NV))
  @@ ("RespHeader.SetArgBytesNoValue"     :> Ent("resp", "kvset", << >>, NV))
  @@ ("RespHeader.AddArgBytesNoValue"     :> Ent("resp", "kvadd", << >>, NV))
  @@ ("RespHeader.SetContentType"         :> Ent("resp", "fixed", NContentType, <<"v">>))
  @@ ("RespHeader.SetContentTypeBytes"    :> Ent("resp", "fixed", NContentType, <<"v">>))
  @@ ("RespHeader.SetContentEncoding"     :> Ent("resp", "fixed", NContentEncoding, <<"v">>))
  @@ ("RespHeader.SetContentEncodingBytes" :> Ent("resp", "fixed", NContentEncoding, <<"v">>))
  @@ ("RespHeader.SetServerBytes"         :> Ent("resp", "fixed", NServer, <<"v">>))
  @@ ("RespHeader.SetContentLengthBytes"  :> Ent("resp", "fixed", NContentLength, <<"v">>))
  @@ ("RespHeader.SetContentLength"       :> Ent("resp", "fixed", NContentLength, <<"d">>))
  @@ ("RespHeader.SetConnectionClose"     :> Ent("resp", "fixed", NConnection, << >>))
  @@ ("Response.SetConnectionClose"       :> Ent("resp", "fixed", NConnection, << >>))
  @@ ("RespHeader.SetCookie"              :> Ent("resp", "respcookie", << >>, <<"v", "v", "v", "v">>))
  @@ ("RespHeader.SetCookieBytes"         :> Ent("resp", "respcookie", << >>, <<"v", "v", "v", "v">>))
  @@ ("RespHeader.ParseSetCookie"         :> Ent("resp", "respcookie", << >>, <<"v">>))
  @@ ("RespHeader.SetCookieParsed"        :> Ent("resp", "respcookie", << >>, <<"v">>))
  @@ ("RespHeader.DelClientCookie"        :> Ent("resp", "respcookie", << >>, <<"v">>))
  @@ ("RespHeader.DelClientCookieBytes"   :> Ent("resp", "respcookie", << >>, <<"v">>))
  @@ ("RespTrailer.Set"                   :> Ent("resp", "trailer", << >>, NV))
  @@ ("RespTrailer.Add"                   :> Ent("resp", "trailer", << >>, NV))
  @@ ("RespTrailer.UpdateArgBytes"        :> Ent("resp", "trailer", << >>, NV))
  @@ ("RespTrailer.SetTrailers"           :> Ent("resp", "trailers", << >>, <<"n">>))
  @@ ("RespHeader.Del"                    :> Ent("resp", "none", << >>, <<"n">>))
  @@ ("RespHeader.DisableNormalizing"     :> Ent("resp", "none", << >>, << >>))
  @@ ("Ctx.Header"                        :> Ent("ctx", "kvset", << >>, NV))
  @@ ("Ctx.SetCookie"                     :> Ent("ctx", "respcookie", << >>, <<"v", "v", "v", "v">>))
  @@ ("Ctx.SetPartitionedCookie"          :> Ent("ctx", "respcookie", << >>, <<"v", "v", "v", "v">>))
  @@ ("Ctx.Redirect"                      :> Ent("ctx", "fixed", NLocation, <<"v">>))
  @@ ("Ctx.SetContentType"                :> Ent("ctx", "fixed", NContentType, <<"v">>))
  @@ ("Ctx.SetContentTypeBytes"           :> Ent("ctx", "fixed", NContentType, <<"v">>))
  @@ ("Ctx.Data"                          :> Ent("ctx", "fixed", NContentType, <<"v">>))
  @@ ("Ctx.RespTrailer.Set"               :> Ent("ctx", "trailer", << >>, NV))
  @@ ("Ctx.SetConnectionClose"            :> Ent("ctx", "fixed", NConnection, << >>))

Entries == DOMAIN EntryTable
Side(tgt) == IF tgt = "req" THEN "req" ELSE "resp"

\* a call as it appears in cases and traces: [e |-> entry name, a |-> <<byte strings>>]
WellFormedCall(c) == c.e \in Entries /\ Len(c.a) = Len(EntryTable[c.e].roles)
Cls(c) == EntryTable[c.e].cls

-----------------------------------------------------------------------------
(* Byte-string helpers *)
Lower(b) == IF b \in 65 .. 90 THEN b + 32 ELSE b
IsAlnum(b) == b \in 48 .. 57 \/ b \in 65 .. 90 \/ b \in 97 .. 122
TChar == (48 .. 57) \cup (65 .. 90) \cup (97 .. 122) \cup {33, 35, 36, 37, 38, 39, 42, 43, 45, 46, 94, 95, 96, 124, 126}
\* a name reduced to what identifies the field: letters and digits, case folded
Canon(s) == LET low == [i \in DOMAIN s |-> Lower(s[i])] IN SelectSeq(low, IsAlnum)
Has(s, b) == \E i \in DOMAIN s : s[i] = b
HasCRLF(s) == Has(s, CR) \/ Has(s, LF)

\* ascending sequence of a finite set of integers (SetToSeq of TLC enumerates a normalised set in order; the
\* order is re-checked and the sequence sorted if that ever changes)
Asc(S) == LET q == SetToSeq(S)
          IN IF \A i \in 1 .. Len(q) - 1 : q[i] < q[i + 1] THEN q ELSE SortSeq(q, <)
\* the pieces of b between occurrences of sep (k occurrences -> k+1 pieces, possibly empty).  Written with a set
\* filter instead of a byte-by-byte recursion: this is evaluated on every recorded message.
Pieces(b, sep) ==
    LET pos == Asc({i \in DOMAIN b : b[i] = sep})
        k   == Len(pos)
    IN [j \in 1 .. k + 1 |-> SubSeq(b, IF j = 1 THEN 1 ELSE pos[j - 1] + 1, IF j = k + 1 THEN Len(b) ELSE pos[j] - 1)]

RECURSIVE Flatten(_)
Flatten(ss) == IF ss = << >> THEN << >> ELSE ss[1] \o Flatten(Tail(ss))

-----------------------------------------------------------------------------
(* The strict line reader *)
StripCR(p) == IF Len(p) > 0 /\ p[Len(p)] = CR THEN SubSeq(p, 1, Len(p) - 1) ELSE p
Lines(b) ==
    LET raw == Pieces(b, LF)
        n   == Len(raw) - 1                         \* number of LF-terminated lines
        ls  == [i \in 1 .. n |-> StripCR(raw[i])]
    IN [ok    |-> /\ raw[n + 1] = << >>             \* the bytes end with a line terminator
                  /\ \A i \in 1 .. n : ~Has(ls[i], CR),   \* no bare CR
        lines |-> ls]

ColonPos(l) == LET C == {i \in DOMAIN l : l[i] = COLON}
               IN IF C = {} THEN 0 ELSE CHOOSE i \in C : \A j \in C : i <= j
\* a line parsed once: is it  token* ":" anything , and the canonical form of its name
ParseField(l) == LET cp == ColonPos(l)
                 IN [ok |-> cp > 0 /\ \A i \in 1 .. cp - 1 : l[i] \in TChar,
                     nm |-> IF cp > 0 THEN Canon(SubSeq(l, 1, cp - 1)) ELSE << >>,
                     val |-> IF cp > 0 THEN SubSeq(l, cp + 1, Len(l)) ELSE << >>]

StartLineOK(side, l) ==
    IF side = "req"
    THEN LET p == Pieces(l, SP) IN Len(p) = 3 /\ p[1] # << >> /\ p[2] # << >> /\ p[3] = BHttp11
    ELSE /\ Len(l) >= 12 /\ SubSeq(l, 1, 8) = BHttp11 /\ l[9] = SP
         /\ \A i \in 10 .. 12 : l[i] \in 48 .. 57
         /\ (Len(l) > 12 => l[13] = SP)

-----------------------------------------------------------------------------
(* What a program may legitimately put on the wire *)
DefaultNames(side) ==
    IF side = "req" THEN {NHost, NUserAgent, NContentType, NContentLength, NTransferEncoding, NConnection}
    ELSE {NServer, NDate, NContentType, NContentLength, NTransferEncoding, NConnection}

IsKV(c) == Cls(c) \in {"kvset", "kvadd"}
\* names of header-block lines the call may produce (at most one line each)
HNames(c) == CASE IsKV(c)                -> << c.a[1] >>
               [] Cls(c) = "fixed"       -> << EntryTable[c.e].fx >>
               [] Cls(c) = "reqcookie"   -> << NCookie >>
               [] Cls(c) = "respcookie"  -> << NSetCookie >>
               [] Cls(c) \in {"trailer", "trailers"} -> << NTrailer >>
               [] OTHER                  -> << >>
\* names of trailer-block lines the call may produce
TNames(c) == CASE IsKV(c) /\ Canon(c.a[1]) = Canon(NTrailer) -> Pieces(c.a[2], COMMA)
               [] Cls(c) = "trailer"     -> << c.a[1] >>
               [] Cls(c) = "trailers"    -> Pieces(c.a[1], COMMA)
               [] OTHER                  -> << >>
HAllow(prog) == Flatten([i \in DOMAIN prog |-> HNames(prog[i])])
TAllow(prog) == Flatten([i \in DOMAIN prog |-> TNames(prog[i])])

\* ls: the lines of one block (without the terminating empty line)
Parsed(ls) == [i \in DOMAIN ls |-> ParseField(ls[i])]
BlockOKF(ls, fl, allow, dflt) ==
    LET al == [j \in DOMAIN allow |-> Canon(allow[j])]
        df == {Canon(d) : d \in dflt}
    IN /\ \A i \in DOMAIN ls : fl[i].ok
       /\ \A i \in DOMAIN ls :
             Cardinality({j \in DOMAIN ls : fl[j].nm = fl[i].nm})
               <= Cardinality({j \in DOMAIN al : al[j] = fl[i].nm}) + (IF fl[i].nm \in df THEN 1 ELSE 0)

BlockOK(ls, allow, dflt) == BlockOKF(ls, Parsed(ls), allow, dflt)

(* Fields that are single-valued on the wire.  A second line of such a name is an injected line whichever API  *)
(* calls produced it (generic Set/Add and the dedicated setter in either order, or twice the same): the        *)
(* framing fields, Host, and the fields the library stores in a dedicated slot.  Content-Length together with  *)
(* Transfer-Encoding is the same hazard (two framings).  Connection may legitimately have several lines        *)
(* (upgrade + close), but not two `close` lines and not `close` together with `keep-alive`.                     *)
(* Exempt: a name the program wrote through the raw argument API (SetArgBytes/AddArgBytes), which by design    *)
(* bypasses the dedicated stores -- it is what the parser uses to fill the header.                              *)
UniqueNames(side) ==
    IF side = "req" THEN {NContentLength, NTransferEncoding, NHost, NContentType, NUserAgent}
    ELSE {NContentLength, NTransferEncoding, NServer, NDate, NContentType, NContentEncoding}
RawKV == {"ReqHeader.SetArgBytes", "ReqHeader.AddArgBytes", "ReqHeader.SetArgBytesNoValue", "ReqHeader.AddArgBytesNoValue",
          "RespHeader.SetArgBytes", "RespHeader.AddArgBytes", "RespHeader.SetArgBytesNoValue", "RespHeader.AddArgBytesNoValue"}
RawNamed(prog) == {Canon(prog[i].a[1]) : i \in {j \in DOMAIN prog : prog[j].e \in RawKV}}
BKeepAlive == <<107, 101, 101, 112, 45, 97, 108, 105, 118, 101>>
BClose     == <<99, 108, 111, 115, 101>>
\* the comma-separated tokens of a field value: lower case, without SP / HT
Tokens(v) == LET low == [i \in DOMAIN v |-> Lower(v[i])]
                 ps  == Pieces(low, COMMA)
             IN {SelectSeq(ps[i], LAMBDA b : b # SP /\ b # 9) : i \in DOMAIN ps}
SingleValuedOKF(ls, fl, prog, side) ==
    LET raw  == RawNamed(prog)
        N(c) == Cardinality({i \in DOMAIN ls : fl[i].nm = c})
        cl   == Canon(NContentLength)
        te   == Canon(NTransferEncoding)
        co   == Canon(NConnection)
        conn == {i \in DOMAIN ls : fl[i].nm = co}
        \* SetContentLengthBytes is parser plumbing like the raw argument API: it stores the text of the field and
        \* leaves the framing decision alone, so the two-framings clause is not judged for programs using it
        rawcl == \E i \in DOMAIN prog : prog[i].e \in {"ReqHeader.SetContentLengthBytes", "RespHeader.SetContentLengthBytes"}
        nclose == Cardinality({i \in conn : BClose \in Tokens(fl[i].val)})
        nkeep  == Cardinality({i \in conn : BKeepAlive \in Tokens(fl[i].val)})
    IN /\ \A u \in UniqueNames(side) : Canon(u) \in raw \/ N(Canon(u)) <= 1
       /\ (cl \in raw \/ te \in raw \/ rawcl \/ ~(N(cl) >= 1 /\ N(te) >= 1))
       /\ (co \in raw \/ (nclose <= 1 /\ ~(nclose >= 1 /\ nkeep >= 1)))

\* the header block of a message: line obligations + single-valued fields, each line parsed once
HeaderBlockOK(ls, prog, side) ==
    LET fl == Parsed(ls)
    IN BlockOKF(ls, fl, HAllow(prog), DefaultNames(side)) /\ SingleValuedOKF(ls, fl, prog, side)

FirstEmpty(ls) == IF \E i \in DOMAIN ls : ls[i] = << >>
                  THEN CHOOSE i \in DOMAIN ls : ls[i] = << >> /\ \A j \in 1 .. i - 1 : ls[j] # << >>
                  ELSE 0

\* obs: "header" (start line + header block), "trailer" (trailer block only), "message" (everything written)
\* body: "none" | "stream" (one byte "B" sent chunked, followed by the trailer block)
MessageOK(obs, tgt, body, prog, bytes) ==
    LET R  == Lines(bytes)
        ls == R.lines
        n  == Len(ls)
        e  == FirstEmpty(ls)
        side == Side(tgt)
    IN /\ R.ok
       /\ e > 0
       /\ CASE obs = "trailer" ->
                 /\ e = n
                 /\ BlockOK(SubSeq(ls, 1, n - 1), TAllow(prog), {})
            [] obs = "header" ->
                 /\ e = n /\ n >= 2
                 /\ StartLineOK(side, ls[1])
                 /\ HeaderBlockOK(SubSeq(ls, 2, n - 1), prog, side)
            [] obs = "message" ->
                 /\ e >= 2
                 /\ StartLineOK(side, ls[1])
                 /\ HeaderBlockOK(SubSeq(ls, 2, e - 1), prog, side)
                 /\ IF body = "none" THEN e = n
                    ELSE /\ n >= e + 4
                         /\ SubSeq(ls, e + 1, e + 3) = BChunkLines
                         /\ ls[n] = << >>
                         /\ BlockOK(SubSeq(ls, e + 4, n - 1), TAllow(prog), {})

-----------------------------------------------------------------------------
(* Reference serialiser and the state machine  Call* ; Serialize           *)
VARIABLES side,      \* "req" | "resp"
          prog,      \* calls made so far (records [e, a])
          store,     \* header fields held by the object: sequence of [n, v, raw]
          tstore,    \* trailer fields: sequence of [n, v]
          phase,     \* "calls" | "done"
          obs, out   \* what was serialised, and the bytes
vars == <<side, prog, store, tstore, phase, obs, out>>

Fld(n, v, raw) == [n |-> n, v |-> v, raw |-> raw]
Without(s, k) == SelectSeq(s, LAMBDA f : Canon(f.n) # Canon(k))
IdxOf(s, k) == IF \E i \in DOMAIN s : s[i].n = k THEN CHOOSE i \in DOMAIN s : s[i].n = k ELSE 0

AddReqCookie(s, piece) ==
    LET i == IdxOf(s, NCookie)
    IN IF i = 0 THEN Append(s, Fld(NCookie, piece, TRUE))
       ELSE [s EXCEPT ![i].v = @ \o BSemiSp \o piece]

TrailerDecl(list) == [i \in DOMAIN Pieces(list, COMMA) |-> [n |-> Pieces(list, COMMA)[i], v |-> << >>]]

ApplyH(s, c) ==
    CASE IsKV(c) /\ Canon(c.a[1]) = Canon(NTrailer) -> s
      [] IsKV(c) /\ side = "req" /\ Canon(c.a[1]) = Canon(NCookie) -> AddReqCookie(s, c.a[2])
      [] IsKV(c) /\ Canon(c.a[1]) = Canon(NTransferEncoding) -> s          \* managed by the library
      [] Cls(c) = "kvset" \/ (Cls(c) = "kvadd" /\ Canon(c.a[1]) \in {Canon(u) : u \in UniqueNames(side)})
                               -> Append(Without(s, c.a[1]), Fld(c.a[1], c.a[2], FALSE))
      [] Cls(c) = "kvadd"      -> Append(s, Fld(c.a[1], c.a[2], FALSE))
      [] Cls(c) = "fixed"      -> Append(Without(s, EntryTable[c.e].fx), Fld(EntryTable[c.e].fx, Flatten(c.a), FALSE))
      [] Cls(c) = "reqcookie"  -> AddReqCookie(s, IF c.a[1] = << >> THEN c.a[2] ELSE c.a[1] \o <<EQ>> \o c.a[2])
      [] Cls(c) = "respcookie" -> Append(s, Fld(NSetCookie, Flatten([i \in DOMAIN c.a |-> c.a[i] \o BSemiSp]), FALSE))
      [] OTHER                 -> s
ApplyT(t, c) ==
    CASE IsKV(c) /\ Canon(c.a[1]) = Canon(NTrailer) -> TrailerDecl(c.a[2])
      [] Cls(c) = "trailer"    -> Append(t, [n |-> c.a[1], v |-> c.a[2]])
      [] Cls(c) = "trailers"   -> TrailerDecl(c.a[1])
      [] OTHER                 -> t

San(v) == [i \in DOMAIN v |-> IF v[i] \in {CR, LF} THEN SP ELSE v[i]]
ValidName(n) == n # << >> /\ \A i \in DOMAIN n : n[i] \in TChar
\* header.go:appendHeaderLine (Mode "ref"); "naive" writes what it is given; "cookieraw" = hertz today
FieldBytes(f) ==
    CASE Mode = "naive" -> f.n \o BColonSp \o f.v \o BCRLF
      [] Mode = "cookieraw" /\ f.raw -> f.n \o BColonSp \o f.v \o BCRLF
      [] OTHER -> IF ValidName(f.n) THEN f.n \o BColonSp \o San(f.v) \o BCRLF ELSE << >>

JoinNames(t) == Flatten([i \in DOMAIN t |-> IF i < Len(t) THEN t[i].n \o BCommaSp ELSE t[i].n])
\* the default field (Host / Server) only if the program did not set it; no Content-Length next to chunked
DfltName == IF side = "req" THEN NHost ELSE NServer
HeaderBytes(msg) ==
    (IF side = "req" THEN BReqStart ELSE BRespStart) \o BCRLF
    \o (IF \E i \in DOMAIN store : Canon(store[i].n) = Canon(DfltName) THEN << >>
        ELSE FieldBytes(Fld(DfltName, BHostV, FALSE)))
    \o Flatten([i \in DOMAIN store |-> IF msg /\ Canon(store[i].n) = Canon(NContentLength) THEN << >>
                                        ELSE FieldBytes(store[i])])
    \o (IF tstore # << >> THEN FieldBytes(Fld(NTrailer, JoinNames(tstore), FALSE)) ELSE << >>)
    \o (IF msg THEN FieldBytes(Fld(NTransferEncoding, BTEChunked, FALSE)) ELSE << >>)
    \o BCRLF
TrailerBytes == Flatten([i \in DOMAIN tstore |-> FieldBytes(Fld(tstore[i].n, tstore[i].v, FALSE))]) \o BCRLF

Serialise(o) == CASE o = "header"  -> HeaderBytes(FALSE)
                  [] o = "trailer" -> TrailerBytes
                  [] o = "message" -> HeaderBytes(TRUE) \o BChunk \o TrailerBytes

\* ---- argument universe of the exhaustive configurations
RECURSIVE StrsUpTo(_, _)
StrsUpTo(A, n) == IF n = 0 THEN {<< >>}
                  ELSE LET P == StrsUpTo(A, n - 1) IN P \cup {Append(p, a) : p \in {q \in P : Len(q) = n - 1}, a \in A}
AlphaN == {LetterN, COLON, SP, CR, LF, NUL}
AlphaV == {LetterV, COLON, SP, CR, LF, NUL}
HostileV == {<<LF, LetterV, COLON>>, <<CR, LF, CR, LF>>, <<LetterV, CR, LF, LetterV, COLON, SP, LetterV>>}
HostileN == {<<LetterN, LF, LetterN>>, <<LF, LetterN, COLON>>}
\* Profile: "single" / "pair" (thorough tier), "single-q" / "pair-q" (quick tier: smaller pools)
McNames == CASE Profile = "single"   -> StrsUpTo(AlphaN, 2) \cup HostileN \cup {NCookie, NTrailer, NHost}
             [] Profile = "single-q" -> StrsUpTo(AlphaN, 1) \cup HostileN \cup {NCookie, NTrailer}
             [] Profile = "pair"     -> {<< >>, <<LetterN>>, NCookie, NTrailer} \cup HostileN
             [] OTHER                -> {<< >>, <<LetterN>>, NCookie, NTrailer, <<LetterN, LF, LetterN>>}
McVals  == CASE Profile = "single"   -> StrsUpTo(AlphaV, 2) \cup HostileV
             [] Profile = "single-q" -> StrsUpTo(AlphaV, 2) \cup HostileV
             [] Profile = "pair"     -> {<<LetterV>>} \cup HostileV
             [] OTHER                -> {<<LetterV>>, <<LF, LetterV, COLON>>, <<CR, LF, CR, LF>>}
McMaxCalls == IF Profile \in {"single", "single-q"} THEN 1 ELSE 2
\* one representative entry per (side, class)
McEntries(sd) == IF sd = "req"
                 THEN {"ReqHeader.Set", "ReqHeader.Add", "ReqHeader.SetHost", "ReqHeader.SetCookie", "ReqTrailer.Set",
                       "ReqTrailer.SetTrailers", "ReqHeader.Del"}
                 ELSE {"RespHeader.Set", "RespHeader.Add", "RespHeader.SetServerBytes", "RespHeader.ParseSetCookie",
                       "RespTrailer.Add", "RespTrailer.SetTrailers"}
ArgSet(r) == IF r = "n" THEN McNames ELSE McVals
McCallsOf(sd) == UNION {
      LET rs == EntryTable[e].roles IN
      IF Len(rs) = 1 THEN {[e |-> e, a |-> <<x>>] : x \in ArgSet(rs[1])}
      ELSE {[e |-> e, a |-> <<x, y>>] : x \in ArgSet(rs[1]), y \in ArgSet(rs[2])}
    : e \in McEntries(sd)}
\* constant-level (evaluated once by TLC)
McCalls == [sd \in {"req", "resp"} |-> McCallsOf(sd)]

Init == /\ side \in {"req", "resp"} /\ prog = << >> /\ store = << >> /\ tstore = << >>
        /\ phase = "calls" /\ obs = "none" /\ out = << >>

Call(c) == /\ phase = "calls" /\ Len(prog) < McMaxCalls
           /\ prog' = Append(prog, c)
           /\ store' = ApplyH(store, c)
           /\ tstore' = ApplyT(tstore, c)
           /\ UNCHANGED <<side, phase, obs, out>>

Serialize(o) == /\ phase = "calls"
                /\ phase' = "done" /\ obs' = o /\ out' = Serialise(o)
                /\ UNCHANGED <<side, prog, store, tstore>>

Next == (phase = "calls" /\ Len(prog) < McMaxCalls /\ \E c \in McCalls[side] : Call(c)) \/ (\E o \in {"header", "trailer", "message"} : Serialize(o))
Spec == Init /\ [][Next]_vars

TypeOK == /\ phase \in {"calls", "done"} /\ obs \in {"none", "header", "trailer", "message"}
          /\ \A i \in DOMAIN prog : WellFormedCall(prog[i])
\* THE PROPERTY on the model: whatever the program, the serialised bytes meet the obligation
Safe == phase = "done" => MessageOK(obs, side, "stream", prog, out)
=============================================================================
