CONSTANTS
  MaxSteps = 3
  MaxRecycle = 2
  MultipartFix = TRUE
  PreParsed = {TRUE, FALSE}
  Variant = "asis"
SPECIFICATION Spec
INVARIANTS TypeOK IndependentCopy IndependentOrig Complete Detached NoNextInCopy
