------------------------------ MODULE H1Client ------------------------------
(***************************************************************************)
(* C11 (and the client direction of C02): the HTTP/1.1 client of hertz     *)
(* (pkg/app/client.Client.Do -> pkg/protocol/http1.HostClient.Do ->        *)
(* doNonNilReqResp: acquireConn, req.Write / ProxyWrite, Flush,            *)
(* resp.ReadHeaders, ReadRespBody | ReadRespBodyStream, releaseConn |      *)
(* closeConn) talking to one peer over a sequence of exchanges.            *)
(*                                                                         *)
(* Part 1 (data): a request PROGRAM                                        *)
(*   [method, host, userinfo, path, query, frag, url, hdrs, body, opts]    *)
(* body = [kind \in {"none","bytes","stream","form","multipart"}, n, i,    *)
(* declared, step, kvs, files]; ExpectedRequest(p, cfg) is what BOTH       *)
(* decoders of the bytes on the wire (net/http.ReadRequest and the hertz   *)
(* server) must report: method, target (origin-form, absolute-form through *)
(* a proxy), Host, the application header fields, the body as provenance   *)
(* runs / decoded form / decoded multipart parts.  Response scripts and    *)
(* ExpectedResponse come from RespWire.                                    *)
(*                                                                         *)
(* Part 2 (state machine): connections, Dial, Send(c), PeerReply,          *)
(* Deliver(c, n), PeerEof(c), Return(o), Close(c) over abstract exchanges  *)
(* [headEnd, end, closeAfter, reqClose, untilClose, big, early] (early:     *)
(* EarlyReply(c): the peer answers and closes without reading the request; *)
(* the client's write fails and it reads what is there).  Properties:      *)
(*   CleanReuse        a request is only written to a connection on which  *)
(*                     every byte the peer has sent was consumed;          *)
(*   NoReuseAfterClose never to a connection whose last response ended it  *)
(*                     (Connection: close, read-until-close body, HTTP/1.0 *)
(*                     without keep-alive, request carried close, body     *)
(*                     over the limit);                                    *)
(*   FinalIndependent  the returned outcomes are a function of the         *)
(*                     exchanges, not of the Deliver steps (C02);          *)
(*   NoOverread, OneReplyPerRequest, DirtyIsGivenUp, UntilCloseSawEof.     *)
(*                                                                         *)
(* Deliberately unconstrained: default header fields the client adds       *)
(* (User-Agent, Content-Type default, Content-Length / Transfer-Encoding:  *)
(* how a body is framed is free as long as both decoders read the same     *)
(* body); order of fields with different names; case of special header     *)
(* names (Host, Content-Type, ...: only x- names are compared by case);    *)
(* a defaulted Content-Type on a response that carries none; error texts;  *)
(* whether the client reuses a reusable connection or dials (both          *)
(* allowed), when it closes a connection it will not reuse; in STREAMING   *)
(* mode a body over MaxResponseBodySize may be returned in full or         *)
(* refused with tooLarge (hertz documents the limit there as a prefetch    *)
(* bound); whitespace inside folded values (the harness collapses runs).   *)
(***************************************************************************)
EXTENDS RespWire

-----------------------------------------------------------------------------
(* Part 1: request programs *)

\* request header names used by the generators: lower-case and canonical (normalised) spelling
ReqNameForms(n) ==
    CASE n = "X-A" -> [lower |-> "x-a", canon |-> "X-A"]
      [] n = "x-a" -> [lower |-> "x-a", canon |-> "X-A"]
      [] n = "X-BB" -> [lower |-> "x-bb", canon |-> "X-Bb"]
      [] n = "x-lower-NAME" -> [lower |-> "x-lower-name", canon |-> "X-Lower-Name"]
      [] n = "Content-Type" -> [lower |-> "content-type", canon |-> "Content-Type"]
      [] n = "User-Agent" -> [lower |-> "user-agent", canon |-> "User-Agent"]
      [] n = "Accept" -> [lower |-> "accept", canon |-> "Accept"]
      [] n = "accept-language" -> [lower |-> "accept-language", canon |-> "Accept-Language"]
\* names whose spelling on the wire is compared (application names; the spelling of special names is free)
IsXName(n) == n \in {"X-A", "x-a", "X-BB", "X-Bb", "x-bb", "x-lower-NAME", "X-Lower-Name", "x-lower-name", "X-a", "x-A", "x-bB",
                     "X-Pad", "x-pad", "X-PAD", "x-pAD", "X-Interim", "x-interim", "X-INTERIM", "x-inTerim"}

\* documented path normalisation (pkg/protocol/uri.go: "The returned path is always urldecoded and normalized, i.e.
\* '//f%20obar/baz/../zzz' becomes '/f obar/zzz'"; client option: "extra slashes are removed, special characters are
\* encoded"), as a table over the paths the generators use
NormPath(p) ==
    CASE p = "" -> "/"
      [] p = "/" -> "/"
      [] p = "/p" -> "/p"
      [] p = "/p/q" -> "/p/q"
      [] p = "/a/b/c" -> "/a/b/c"
      [] p = "/a//b" -> "/a/b"
      [] p = "//a/b" -> "/a/b"
      [] p = "/a/b/../c" -> "/a/c"
      [] p = "/a/./b" -> "/a/b"
      [] p = "/a%20b" -> "/a%20b"
      [] p = "/a b" -> "/a%20b"
RawPath(p) == IF p = "" THEN "/" ELSE p

BasicAuth(userinfo) == CASE userinfo = "user:pw" -> "Basic dXNlcjpwdw=="

\* host:port the client must connect to
AddPort(h) == CASE h = "example.com" -> "example.com:80"
                [] h = "example.com:8080" -> "example.com:8080"
                [] h = "h2.example:81" -> "h2.example:81"
ProxyAddr == "proxy.example:3128"

UrlOf(p) == "http://" \o (IF p.userinfo # "" THEN p.userinfo \o "@" ELSE "") \o p.host \o p.path
            \o (IF p.query # "" THEN "?" \o p.query ELSE "") \o (IF p.frag # "" THEN "#" \o p.frag ELSE "")

OriginForm(p, cfg) == (IF cfg.noNormPath THEN RawPath(p.path) ELSE NormPath(p.path))
                      \o (IF p.query # "" THEN "?" \o p.query ELSE "")
\* multipart parts: the simple fields first (text), then the parts with content (provenance runs)
ExpParts(b) ==
    [k \in 1 .. Len(b.kvs) |-> [name |-> b.kvs[k].k, filename |-> "", ctype |-> "", n |-> Len(b.kvs[k].v), isText |-> TRUE,
                                text |-> b.kvs[k].v, runs |-> << >>]]
    \o [k \in 1 .. Len(b.files) |->
          LET f == b.files[k] IN
          [name |-> f.param, filename |-> f.filename,
           \* the content type of a part is only fixed when the program names it and the part is a file part
           ctype |-> IF f.api = "field" /\ f.filename # "" THEN f.ctype ELSE "",
           n |-> f.n, isText |-> FALSE, text |-> "", runs |-> IF f.n = 0 THEN << >> ELSE <<<<f.i, 0, f.n>>>>]]

\* Operations on the specially stored request headers (prog.special), carried out in order after the header adds and
\* the option setters and before the body is attached:
\* the LAST writer of a name wins, a deleted name is absent (Host: back to the URL's host), whichever API was used --
\* Header.Set(name, v) / Header.Del(name) or the dedicated setters.
SetCookieIn(cs, ck, cv) == IF \E j \in DOMAIN cs : cs[j].k = ck
                           THEN [j \in DOMAIN cs |-> IF cs[j].k = ck THEN [k |-> ck, v |-> cv] ELSE cs[j]]
                           ELSE Append(cs, [k |-> ck, v |-> cv])
ApplyOp(st, o) ==
    CASE o.op = "setHost" \/ (o.op = "set" /\ o.name = "Host") -> [st EXCEPT !.host = o.value]
      [] o.op = "del" /\ o.name = "Host" -> [st EXCEPT !.host = ""]
      [] o.op = "setUA" \/ (o.op = "set" /\ o.name = "User-Agent") -> [st EXCEPT !.ua = o.value]
      [] o.op = "del" /\ o.name = "User-Agent" -> [st EXCEPT !.ua = ""]
      [] o.op = "setCT" \/ (o.op = "set" /\ o.name = "Content-Type") -> [st EXCEPT !.ct = o.value]
      [] o.op = "del" /\ o.name = "Content-Type" -> [st EXCEPT !.ct = ""]
      [] o.op = "setClose" \/ (o.op = "set" /\ o.name = "Connection" /\ o.value = "close") -> [st EXCEPT !.close = TRUE]
      [] o.op = "set" /\ o.name = "Connection" -> [st EXCEPT !.close = FALSE]
      [] o.op = "resetClose" \/ (o.op = "del" /\ o.name = "Connection") -> [st EXCEPT !.close = FALSE]
      [] o.op = "setCookie" -> [st EXCEPT !.cookies = SetCookieIn(st.cookies, o.name, o.value)]
      [] o.op = "del" /\ o.name = "Cookie" -> [st EXCEPT !.cookies = << >>]
      [] OTHER -> st                      \* set Content-Length: framing fields are not compared (only counted)
RECURSIVE ApplyOps(_, _)
ApplyOps(st, ops) == IF ops = << >> THEN st ELSE ApplyOps(ApplyOp(st, Head(ops)), Tail(ops))
Special(p) == ApplyOps([host |-> p.opts.hostHdr, ua |-> "", ct |-> "", close |-> p.opts.close, cookies |-> << >>], p.special)
EffClose(p) == Special(p).close
HostLine(p) == IF Special(p).host # "" THEN Special(p).host ELSE p.host
CookieLine(cs) == JoinWith([j \in DOMAIN cs |-> cs[j].k \o "=" \o cs[j].v], "; ")
\* names that may occur at most once among the header lines of a request
SingleNames == {"host", "content-length", "connection", "user-agent", "content-type", "cookie", "transfer-encoding"}

ExpectedRequest(p, cfg) ==
    [method |-> p.method,
     target |-> IF cfg.proxy THEN "http://" \o p.host \o OriginForm(p, cfg) ELSE OriginForm(p, cfg),
     host   |-> IF cfg.proxy THEN p.host ELSE HostLine(p),        \* the host the request is for, as a server derives it
     hostLine |-> HostLine(p),                                      \* the literal Host header field
     addr   |-> IF cfg.proxy THEN ProxyAddr ELSE AddPort(p.host),  \* where the connection goes
     fields |-> [k \in 1 .. Len(p.hdrs) |-> [name |-> ReqNameForms(p.hdrs[k].name).lower, value |-> p.hdrs[k].value]]
                \o (IF p.userinfo # "" THEN <<[name |-> "authorization", value |-> BasicAuth(p.userinfo)]>> ELSE << >>)
                \o (IF Special(p).ua # "" THEN <<[name |-> "user-agent", value |-> Special(p).ua]>> ELSE << >>)
                \o (IF Special(p).ct # "" THEN <<[name |-> "content-type", value |-> Special(p).ct]>> ELSE << >>)
                \o (IF Special(p).cookies # << >> THEN <<[name |-> "cookie", value |-> CookieLine(Special(p).cookies)]>> ELSE << >>),
     wireNames |-> [k \in 1 .. Len(p.hdrs) |-> IF cfg.noNormHdr THEN p.hdrs[k].name ELSE ReqNameForms(p.hdrs[k].name).canon],
     close  |-> EffClose(p),
     kind   |-> p.body.kind,
     bodyLen |-> IF p.body.kind \in {"bytes", "stream"} THEN p.body.n ELSE 0,
     body   |-> IF p.body.kind \in {"bytes", "stream"} /\ p.body.n > 0 THEN <<<<p.body.i, 0, p.body.n>>>> ELSE << >>,
     form   |-> IF p.body.kind = "form" THEN p.body.kvs ELSE << >>,
     parts  |-> IF p.body.kind = "multipart" THEN ExpParts(p.body) ELSE << >>]

WellFormedProg(p) ==
    /\ p.body.kind \in {"none", "bytes", "stream", "form", "multipart"}
    /\ p.body.kind # "none" => p.method \in {"POST", "PUT", "PATCH", "DELETE"}
    /\ p.body.kind = "stream" => p.body.declared \in {p.body.n, -1}
    /\ p.url = UrlOf(p)
    \* the dedicated-setter programs do not also Add the same names, and leave the content type of forms alone
    /\ p.special # << >> => /\ \A j \in DOMAIN p.hdrs : p.hdrs[j].name \notin {"User-Agent", "Content-Type"}
                            /\ (p.body.kind \in {"form", "multipart"} => \A j \in DOMAIN p.special : p.special[j].op # "setCT" /\ p.special[j].name # "Content-Type")

-----------------------------------------------------------------------------
(* comparison of what a decoder / the client reported with the expectation *)

ValuesOf(fs, n) == SelectSeq(fs, LAMBDA f : f.name = n)
NamesIn(fs) == {fs[k].name : k \in DOMAIN fs}
\* every expected name carries exactly the expected values in order; any other reported field must be a free one
FieldsOK(got, exp, free) ==
    /\ \A k \in DOMAIN exp : ValuesOf(got, exp[k].name) = ValuesOf(exp, exp[k].name)
    /\ \A k \in DOMAIN got : got[k].name \in NamesIn(exp) \/ got[k].name \in free
Count(s, v) == Cardinality({k \in DOMAIN s : s[k] = v})
\* the x- names among got are, as a bag, the x- names among exp
XNamesOK(got, exp) ==
    /\ \A k \in DOMAIN exp : IsXName(exp[k]) => Count(got, exp[k]) = Count(exp, exp[k])
    /\ \A k \in DOMAIN got : IsXName(got[k]) => got[k] \in {exp[j] : j \in DOMAIN exp}

KeysOf(kvs) == {kvs[k].k : k \in DOMAIN kvs}
SameKV(got, exp) == /\ Len(got) = Len(exp)
                    /\ \A k \in DOMAIN exp : SelectSeq(got, LAMBDA x : x.k = exp[k].k) = SelectSeq(exp, LAMBDA x : x.k = exp[k].k)

PartMatch(g, e) == /\ g.name = e.name /\ g.filename = e.filename /\ g.n = e.n
                   /\ IF e.isText THEN g.text = e.text ELSE g.runs = e.runs
                   /\ e.ctype # "" => g.ctype = e.ctype
SameParts(got, exp) ==
    /\ Len(got) = Len(exp)
    /\ \A k \in DOMAIN exp :
          LET gs == SelectSeq(got, LAMBDA x : x.name = exp[k].name)
              es == SelectSeq(exp, LAMBDA x : x.name = exp[k].name)
          IN Len(gs) = Len(es) /\ \A j \in DOMAIN es : PartMatch(gs[j], es[j])

FreeReqNames == {"user-agent", "content-type"}
FreeRespNames == {"content-type"}

\* what one decoder reported (an OnWire record) is the expected request
OnWireOK(L, e) ==
    /\ L.method = e.method /\ L.target = e.target /\ L.host = e.host
    /\ FieldsOK(L.fields, e.fields, FreeReqNames)
    /\ L.close = e.close
    /\ L.extra = 0                                  \* the bytes are ONE request: nothing follows it
    /\ CASE e.kind \in {"none", "bytes", "stream"} -> L.bodyLen = e.bodyLen /\ L.bodyRuns = e.body
         [] e.kind = "form"      -> L.formErr = "" /\ SameKV(L.form, e.form)
         [] e.kind = "multipart" -> L.formErr = "" /\ SameParts(L.parts, e.parts)

\* the raw head of the request: start line, one Host line, spelling of the application names
RawOK(L, e) ==
    /\ L.start = e.method \o " " \o e.target \o " HTTP/1.1"
    /\ Cardinality({k \in DOMAIN L.lines : L.lines[k].lname = "host"}) = 1
    /\ \A k \in DOMAIN L.lines : L.lines[k].lname = "host" => L.lines[k].value = e.hostLine
    /\ \A n \in SingleNames : Cardinality({k \in DOMAIN L.lines : L.lines[k].lname = n}) <= 1
    /\ XNamesOK([k \in DOMAIN L.lines |-> L.lines[k].name], e.wireNames)

\* the body of the response is over the configured limit
Big(s, cfg) == cfg.maxResp > 0 /\ RHasBody(s) /\ s.bodyLen > cfg.maxResp

\* what the client returned (a Returned record) is the expected response
ReturnedOK(L, s, cfg, early) ==
    LET e == ExpectedResponse(s, ~cfg.noNormHdr) IN
    \* after an early answer the client may report the failed write instead of the response (never an over-limit body)
    IF early /\ L.err \in {"eof", "badPoolConn"} THEN TRUE
    ELSE IF Big(s, cfg) /\ (~cfg.stream \/ early) THEN L.err = "tooLarge"
    ELSE IF Big(s, cfg) /\ L.err = "tooLarge" THEN TRUE
    ELSE /\ L.err = "" /\ L.readErr = ""
         /\ L.status = e.status
         /\ FieldsOK(L.fields, e.fields, FreeRespNames)
         /\ XNamesOK(L.names, e.names)
         /\ L.bodyLen = e.bodyLen /\ L.bodyRuns = e.body
         /\ FieldsOK(L.trailers, e.trailers, {})
         \* a response framed by Content-Length shows that field (also for the one-digit lengths)
         /\ s.framing = "cl" => L.cl = ToDec(s.bodyLen)

-----------------------------------------------------------------------------
(* Part 2: the connection state machine *)

VARIABLES xs,      \* abstract exchanges [headEnd, end, closeAfter, reqClose, untilClose, big], fixed per behaviour
          stream,  \* response streaming mode
          xn,       \* exchange in progress / next to start (1 .. Len(xs)+1)
          phase,   \* "idle" (between exchanges) | "sent" (request written) | "replied" (peer has answered)
          conns,   \* connections: [open, avail, delivered, rd, base, peerClosed, eofSeen, mustClose, untilClose]
          cur,     \* connection of the exchange in progress (0: none)
          ret      \* outcomes returned so far: "ok" | "tooLarge"

vars == <<xs, stream, xn, phase, conns, cur, ret>>

N == Len(xs)
Fresh == [open |-> TRUE, avail |-> 0, delivered |-> 0, rd |-> 0, base |-> 0, peerClosed |-> FALSE, eofSeen |-> FALSE, mustClose |-> FALSE,
          untilClose |-> FALSE]

InitWith(es, st) == /\ xs = es /\ stream = st /\ xn = 1 /\ phase = "idle" /\ conns = << >> /\ cur = 0 /\ ret = << >>

\* dialer.DialConnection (acquireConn found no pooled connection, or chose not to use one)
Dial == /\ phase = "idle" /\ xn <= N
        /\ conns' = Append(conns, Fresh)
        /\ UNCHANGED <<xs, stream, xn, phase, cur, ret>>

\* a connection may carry the next request: open, not given up, and nothing of earlier responses left unread
Usable(c) == /\ c \in DOMAIN conns /\ conns[c].open /\ ~conns[c].mustClose
             /\ conns[c].rd = conns[c].avail

\* reqI.Write / ProxyWrite + Flush on connection c
Send(c) == /\ phase = "idle" /\ xn <= N /\ Usable(c) /\ ~xs[xn].early
           /\ cur' = c /\ phase' = "sent"
           /\ UNCHANGED <<xs, stream, xn, conns, ret>>

\* the peer answers with the response of exchange xn (and closes afterwards if the exchange ends the connection)
PeerReply == /\ phase = "sent"
             /\ conns' = [conns EXCEPT ![cur].base = conns[cur].avail,
                                       ![cur].avail = conns[cur].avail + xs[xn].end,
                                       ![cur].peerClosed = xs[xn].closeAfter,
                                       ![cur].untilClose = xs[xn].untilClose]
             /\ phase' = "replied"
             /\ UNCHANGED <<xs, stream, xn, cur, ret>>

\* the peer answers EARLY: it has queued the response of exchange xn and closed without reading the request; the
\* client's write / flush on connection c fails with "connection closed" and the client then reads what is there
\* (doNonNilReqResp, branch errs.ErrConnectionClosed: ReadHeaderAndLimitBody with MaxResponseBodySize)
EarlyReply(c) == /\ phase = "idle" /\ xn <= N /\ Usable(c) /\ xs[xn].early
                 /\ conns' = [conns EXCEPT ![c].base = conns[c].avail,
                                           ![c].avail = conns[c].avail + xs[xn].end,
                                           ![c].peerClosed = TRUE,
                                           ![c].untilClose = xs[xn].untilClose]
                 /\ cur' = c /\ phase' = "replied"
                 /\ UNCHANGED <<xs, stream, xn, ret>>

\* one socket read hands n more bytes to the client
Deliver(c, n) == /\ c \in DOMAIN conns /\ conns[c].open /\ n >= 1
                 /\ conns[c].delivered + n <= conns[c].avail
                 /\ conns' = [conns EXCEPT ![c].delivered = conns[c].delivered + n]
                 /\ UNCHANGED <<xs, stream, xn, phase, cur, ret>>

\* a socket read sees the end of the stream
PeerEof(c) == /\ c \in DOMAIN conns /\ conns[c].open /\ conns[c].peerClosed /\ ~conns[c].eofSeen
              /\ conns[c].delivered = conns[c].avail
              /\ conns' = [conns EXCEPT ![c].eofSeen = TRUE]
              /\ UNCHANGED <<xs, stream, xn, phase, cur, ret>>

\* outcomes the client may return for an exchange (a function of the exchange and the mode only)
\* (after an early answer the client may also report the failed write: "closed")
Outcomes(x) == (IF x.big THEN (IF stream THEN {"ok", "tooLarge"} ELSE {"tooLarge"}) ELSE {"ok"})
               \cup (IF x.early THEN {"closed"} ELSE {})

\* Do returns (streaming mode: and the body stream has been read to its end and closed).  "ok" needs the whole
\* response (read-until-close: and the end of the stream); an over-limit refusal needs at least the head and gives
\* the connection up.
Return(o) ==
    /\ phase = "replied" /\ o \in Outcomes(xs[xn])
    /\ IF o = "ok"
       THEN /\ conns[cur].delivered = conns[cur].avail
            /\ xs[xn].untilClose => conns[cur].eofSeen
            /\ conns' = [conns EXCEPT ![cur].rd = conns[cur].avail,
                                      ![cur].mustClose = xs[xn].closeAfter \/ xs[xn].reqClose]
       ELSE /\ o = "tooLarge" => conns[cur].delivered >= conns[cur].base + xs[xn].headEnd
            /\ conns' = [conns EXCEPT ![cur].mustClose = TRUE]
    /\ ret' = Append(ret, o) /\ xn' = xn + 1 /\ phase' = "idle" /\ cur' = 0
    /\ UNCHANGED <<xs, stream>>

\* closeConn: always allowed (a client may give any connection up)
Close(c) == /\ c \in DOMAIN conns /\ conns[c].open
            /\ conns' = [conns EXCEPT ![c].open = FALSE]
            /\ UNCHANGED <<xs, stream, xn, phase, cur, ret>>

Next == \/ (Len(conns) < N + 1 /\ Dial)
        \/ (\E c \in DOMAIN conns : Send(c) \/ EarlyReply(c) \/ PeerEof(c) \/ Close(c) \/ \E n \in 1 .. 3 : Deliver(c, n))
        \/ PeerReply
        \/ (\E o \in {"ok", "tooLarge", "closed"} : Return(o))

-----------------------------------------------------------------------------
(* properties *)

TypeOK == /\ xn \in 1 .. N + 1 /\ phase \in {"idle", "sent", "replied"} /\ cur \in 0 .. Len(conns)
          /\ (phase # "idle") = (cur # 0)
NoOverread == \A c \in DOMAIN conns : conns[c].rd <= conns[c].delivered /\ conns[c].delivered <= conns[c].avail
\* a request is written only to a connection without unread bytes ...
CleanReuse == phase = "sent" => conns[cur].rd = conns[cur].avail
\* ... and never to one that the previous response (or request) ended
NoReuseAfterClose == /\ phase = "sent" => ~conns[cur].peerClosed /\ ~conns[cur].mustClose
                     /\ \A c \in DOMAIN conns : (c # cur /\ conns[c].peerClosed) => ~Usable(c)
\* every request gets exactly one response: the bytes sent by the peer are the responses of the exchanges so far
RECURSIVE SumEnd(_)
SumEnd(n) == IF n = 0 THEN 0 ELSE xs[n].end + SumEnd(n - 1)
RECURSIVE SumAvail(_)
SumAvail(c) == IF c = 0 THEN 0 ELSE conns[c].avail + SumAvail(c - 1)
OneReplyPerRequest == SumAvail(Len(conns)) = SumEnd(IF phase = "replied" THEN xn ELSE xn - 1)
\* C02: the outcomes are a function of the exchanges (the Deliver steps do not matter)
FinalIndependent == /\ Len(ret) = xn - 1
                    /\ \A i \in DOMAIN ret : ret[i] \in Outcomes(xs[i])
\* a connection on which bytes of a response were left unread (a refused body) is given up
DirtyIsGivenUp == \A c \in DOMAIN conns : (c # cur /\ conns[c].rd < conns[c].avail) => conns[c].mustClose
\* a read-until-close body has only been returned complete after the end of the stream was seen
UntilCloseSawEof == \A c \in DOMAIN conns : (conns[c].untilClose /\ conns[c].avail > 0 /\ conns[c].rd = conns[c].avail) => conns[c].eofSeen
\* a connection the peer has closed is never left usable
ClosedNotUsable == \A c \in DOMAIN conns : (conns[c].peerClosed /\ c # cur) => ~Usable(c)
=============================================================================
