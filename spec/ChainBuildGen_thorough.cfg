CONSTANTS MaxOps = 5 MaxGroups = 4 MaxRoutes = 2
INIT GenInit
NEXT GenNext
