CONSTANTS MaxOps = 5 MaxGroups = 4 MaxRoutes = 2
RandomPrograms = 5000
INIT GenInit
NEXT GenNext
