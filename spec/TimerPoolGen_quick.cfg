CONSTANTS
  SLen = 5
  MLen = 5
INIT GenInit
NEXT GenNext
