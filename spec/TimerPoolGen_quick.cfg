CONSTANTS
  SLen = 6
  MLen = 5
INIT GenInit
NEXT GenNext
