---------------------------- MODULE LBCacheObsMC ----------------------------
(* The observer accepts every behaviour of LBCache: LBCache runs with the observer fed the events its steps     *)
(* emit (converted to the shape of the recorded lines); invariant: the observer never rejects.                  *)
(* (REndSame -- "the resolver reports the same list again" re-using a version number -- is a finiteness device  *)
(* of the liveness configuration and is filtered out: recorded versions are always fresh.)                      *)
EXTENDS LBCache, LBCacheObs

VARIABLE obs
ovars == <<vars, obs>>

Id(x) == IF x = NoInst THEN 0 ELSE x[1] * 10 + x[2]
InsSeq(v) == IF v = 0 THEN << >> ELSE [i \in 1 .. ver'[v].n |-> v * 10 + i]
P(p) == p
Conv(e) ==
    CASE e.ev = "Target" -> [ev |-> "Target", p |-> P(e.p), key |-> e.k, tk |-> "r:" \o e.k, t |-> 0]
      [] e.ev = "ResolveBegin" -> [ev |-> "ResolveBegin", p |-> P(e.p), key |-> e.k]
      [] e.ev = "ResolveEnd" -> [ev |-> "ResolveEnd", p |-> P(e.p), key |-> e.k, v |-> e.v, err |-> (e.v = 0),
                                 ck |-> e.k, ins |-> InsSeq(e.v), pos |-> InsSeq(e.v)]
      [] e.ev = "Rebalance" -> [ev |-> "Rebalance", p |-> P(e.p), ck |-> "r:" \o e.k, ins |-> InsSeq(e.v), pos |-> InsSeq(e.v)]
      [] e.ev = "Pick" -> [ev |-> "Pick", p |-> P(e.p), ck |-> "r:" \o e.k, ins |-> InsSeq(e.v), pos |-> InsSeq(e.v), x |-> Id(e.x)]
      [] e.ev = "Return" -> [ev |-> "Return", p |-> P(e.p), key |-> e.k, x |-> Id(e.x), err |-> e.err]
      [] e.ev = "Delete" -> [ev |-> "Delete", key |-> "r:" \o e.k, t |-> 0, stall |-> 1000]

OInitMC == Init /\ obs = OInit("r", 60)
ONextMC == /\ Next
           /\ ~(out'.ev = "ResolveEnd" /\ out'.p = 0 /\ out'.v # 0 /\ out'.v <= nres)
           /\ obs' = IF out'.ev = "none" THEN obs ELSE OStep(obs, Conv(out'))
Accepts == obs.ok
\* at quiescence the observer's view agrees with the model (it is not vacuous)
Agree == \A k \in Keys : /\ (obs.cst[k] = "yes" => cache[k] # 0)
                         /\ (obs.cst[k] = "no" => cache[k] = 0 \/ \E c \in Callers : pc[c].k = k)
OView == <<View, obs>>
=============================================================================
