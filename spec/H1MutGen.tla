------------------------------ MODULE H1MutGen ------------------------------
(***************************************************************************)
(* Case generator for C03 (server read path): every single token-level     *)
(* mutation of a corpus of valid request streams.  A stream is a sequence  *)
(* of tokens (method, SP, target, version, CRLF, field-name, ":", OWS,     *)
(* field-value elements, ",", chunk-size, chunk-ext, body pieces ...); a   *)
(* mutation is Delete(p) | Dup(p) | Replace(p,t) | Insert(p,t) |           *)
(* Truncate(p) with t from a hostile token set.  Bytes that TLA+ strings   *)
(* cannot hold are symbolic tokens (<NUL>, <C3>, <7F>, <FF>) mapped by the *)
(* driver.  Pairs of mutations (thorough) are drawn with tlc -simulate     *)
(* style pseudo-random indices derived from the seed.                      *)
(***************************************************************************)
EXTENDS Integers, Sequences, Json, IOUtils, SequencesExt, TLC

CONSTANTS PairSamples    \* number of pseudo-random double mutations

CRLF == "\r\n"
Corpus == <<
  <<"GET", " ", "/p", " ", "HTTP/1.1", CRLF, "Host", ":", " ", "example.com", CRLF, CRLF>>,
  <<"GET", " ", "/p/q", "?", "x=1", "&", "y=%41", "#", "f", " ", "HTTP/1.1", CRLF, "Host", ":", " ", "example.com", ":", "80", CRLF,
    "Accept", ":", " ", "a", ",", " ", "b", ";", "q=0.5", CRLF, "X-A", ":", "v", CRLF, CRLF>>,
  <<"POST", " ", "/p", " ", "HTTP/1.1", CRLF, "Host", ":", " ", "example.com", CRLF, "Content-Length", ":", " ", "5", CRLF,
    "Content-Type", ":", " ", "application/x-www-form-urlencoded", CRLF, CRLF, "a=1", "&", "b">>,
  <<"PUT", " ", "/c", " ", "HTTP/1.1", CRLF, "Host", ":", " ", "example.com", CRLF, "Transfer-Encoding", ":", " ", "chunked", CRLF,
    "Trailer", ":", " ", "X-T", ",", " ", "X-U", CRLF, CRLF, "3", CRLF, "abc", CRLF, "2", ";", "e=1", CRLF, "de", CRLF, "0", CRLF,
    "X-T", ":", " ", "tv", CRLF, CRLF>>,
  <<"POST", " ", "/e", " ", "HTTP/1.1", CRLF, "Host", ":", " ", "example.com", CRLF, "Expect", ":", " ", "100-continue", CRLF,
    "Content-Length", ":", " ", "3", CRLF, CRLF, "xyz">>,
  <<"GET", " ", "/close", " ", "HTTP/1.1", CRLF, "Host", ":", " ", "example.com", CRLF, "Connection", ":", " ", "close", CRLF, CRLF>>,
  <<"GET", " ", "/old", " ", "HTTP/1.0", CRLF, "Connection", ":", " ", "keep-alive", CRLF, CRLF>>,
  <<"GET", " ", "/fold", " ", "HTTP/1.1", CRLF, "Host", ":", " ", "example.com", CRLF, "X-F", ":", " ", "w1", CRLF, " ", "w2", CRLF, CRLF>>,
  <<"GET", " ", "/ck", " ", "HTTP/1.1", CRLF, "Host", ":", " ", "example.com", CRLF, "Cookie", ":", " ", "a", "=", "1", ";", " ", "b", "=", "2", CRLF,
    "If-Modified-Since", ":", " ", "Mon, 02 Jan 2006 15:04:05 GMT", CRLF, "Range", ":", " ", "bytes", "=", "0", "-", "1", CRLF, CRLF>>,
  <<"POST", " ", "/mp", " ", "HTTP/1.1", CRLF, "Host", ":", " ", "example.com", CRLF, "Content-Type", ":", " ", "multipart/form-data", ";", " ",
    "boundary", "=", "BB", CRLF, "Content-Length", ":", " ", "60", CRLF, CRLF,
    "--BB", CRLF, "Content-Disposition: form-data; name=\"a\"", CRLF, CRLF, "v", CRLF, "--BB--", CRLF>>,
  <<"GET", " ", "http://", "example.com", "/abs", " ", "HTTP/1.1", CRLF, "Host", ":", " ", "example.com", CRLF, CRLF,
    "GET", " ", "/second", " ", "HTTP/1.1", CRLF, "Host", ":", " ", "example.com", CRLF, CRLF>>,
  <<"OPTIONS", " ", "*", " ", "HTTP/1.1", CRLF, "Host", ":", " ", "example.com", CRLF, "User-Agent", ":", " ", "ua", CRLF,
    "Authorization", ":", " ", "Basic", " ", "dTpw", CRLF, CRLF>>
>>

Hostile == <<"", " ", "\t", "\r", "\n", "<NUL>", ":", ",", ";", "=", "-1", "99999999999999999999", "0x", "a:b", "%", "%zz", "<C3>", "<FF>", "\r\n\r\n",
             "7fffffffffffffff", "7ffffffffffffffe", "ffffffffffffffff", "+1", "9223372036854775807", "18446744073709551615">>

RECURSIVE Cat(_)
Cat(ts) == IF ts = << >> THEN "" ELSE Head(ts) \o Cat(Tail(ts))

Del(ts, p) == SubSeq(ts, 1, p - 1) \o SubSeq(ts, p + 1, Len(ts))
Dup(ts, p) == SubSeq(ts, 1, p) \o SubSeq(ts, p, Len(ts))
Rep(ts, p, t) == [ts EXCEPT ![p] = t]
Ins(ts, p, t) == SubSeq(ts, 1, p - 1) \o <<t>> \o SubSeq(ts, p, Len(ts))
Trunc(ts, p) == SubSeq(ts, 1, p - 1)

Mutants(c) ==
    LET ts == Corpus[c] n == Len(ts) IN
    [j \in 1 .. n |-> [c |-> c, mut |-> "del", p |-> j, t |-> "", toks |-> Del(ts, j)]]
    \o [j \in 1 .. n |-> [c |-> c, mut |-> "dup", p |-> j, t |-> "", toks |-> Dup(ts, j)]]
    \o [j \in 1 .. n - 1 |-> [c |-> c, mut |-> "trunc", p |-> j + 1, t |-> "", toks |-> Trunc(ts, j + 1)]]
    \o [j \in 1 .. n * Len(Hostile) |->
          LET p == ((j - 1) \div Len(Hostile)) + 1 t == Hostile[((j - 1) % Len(Hostile)) + 1] IN
          [c |-> c, mut |-> "rep", p |-> p, t |-> t, toks |-> Rep(ts, p, t)]]
    \o [j \in 1 .. (n + 1) * Len(Hostile) |->
          LET p == ((j - 1) \div Len(Hostile)) + 1 t == Hostile[((j - 1) % Len(Hostile)) + 1] IN
          [c |-> c, mut |-> "ins", p |-> p, t |-> t, toks |-> Ins(ts, p, t)]]

RECURSIVE AllMutants(_)
AllMutants(c) == IF c > Len(Corpus) THEN << >> ELSE Mutants(c) \o AllMutants(c + 1)

\* double mutations: replace/insert at two pseudo-random places (linear congruential sequence from the seed)
Seed == IF "VERIF_SEED" \in DOMAIN IOEnv THEN atoi(IOEnv.VERIF_SEED) ELSE 1
Lcg(x) == ((x % 65537) * 75 + 74) % 65537        \* TLC integers are 32 bit
RECURSIVE Rnd(_, _)
Rnd(x, k) == IF k = 0 THEN x ELSE Rnd(Lcg(x), k - 1)
Pair(k) == LET r1 == Rnd((Seed % 1000) * 7919 + k, 3) r2 == Lcg(r1) r3 == Lcg(r2) r4 == Lcg(r3) r5 == Lcg(r4)
               c == (r1 % Len(Corpus)) + 1 ts == Corpus[c] n == Len(ts)
               p1 == (r2 % n) + 1 t1 == Hostile[(r3 % Len(Hostile)) + 1]
               p2 == (r4 % n) + 1 t2 == Hostile[(r5 % Len(Hostile)) + 1] IN
           [c |-> c, mut |-> "pair", p |-> p1 * 1000 + p2, t |-> t1 \o "|" \o t2, toks |-> Ins(Rep(ts, p1, t1), p2, t2)]

Valid == [c \in 1 .. Len(Corpus) |-> [c |-> c, mut |-> "none", p |-> 0, t |-> "", toks |-> Corpus[c]]]
All == Valid \o AllMutants(1) \o [k \in 1 .. PairSamples |-> Pair(k)]

Case(k) == LET m == All[k] raw == Cat(m.toks) IN
           [id |-> k, loose |-> TRUE, corpus |-> m.c, mut |-> m.mut, p |-> m.p, t |-> m.t,
            script |-> << >>, wire |-> <<[t |-> "lit", s |-> raw, i |-> 0, a |-> 0, b |-> 0]>>,
            offs |-> <<[start |-> 0, headEnd |-> Len(raw), end |-> Len(raw)]>>]

ASSUME ndJsonSerialize(IOEnv.VERIF_OUT, [k \in 1 .. Len(All) |-> Case(k)])

VARIABLE g
GenInit == g = 0
GenNext == UNCHANGED g
=============================================================================
