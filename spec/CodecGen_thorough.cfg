CONSTANTS
  Nil <- NilStr
  Render <- RenderStr
  Lit <- LitStr
  McFamilies = {}
  McTarget = 0
  Families <- ThoroughFamilies
  RandFamilies <- ThoroughRand
  Target = 500
INIT GenInit
NEXT GenNext
