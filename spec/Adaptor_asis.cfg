CONSTANTS
  MaxCalls = 3
  AsWritten = TRUE
  OpSet = "small"
SPECIFICATION Spec
INVARIANTS TypeOK
PROPERTIES HeaderOnce
