\* the code AS WRITTEN (refresh clears the lease flag): TLC must refute IdleExpires
CONSTANTS
  Keys = {"A", "B"}
  Callers = {c1}
  Counts = {1}
  CanFail = TRUE
  MaxRes = 2
  MaxCalls = 2
  MaxWTicks = 0
  MaxRTicks = 0
  RefreshResets = TRUE
SPECIFICATION LiveSpec
INVARIANTS TypeOK MarkedUnused
PROPERTIES IdleExpires
