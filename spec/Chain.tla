------------------------------- MODULE Chain -------------------------------
(***************************************************************************)
(* C12 -- handler chains.  Transcription of RequestContext.Next / Abort /  *)
(* IsAborted (pkg/app/context.go) as an explicit interpreter: one action   *)
(* per statement of                                                        *)
(*     func (ctx) Next(c) { ctx.index++                                    *)
(*        for ctx.index < len(ctx.handlers) { handlers[index](c,ctx); ctx.index++ } } *)
(*     func (ctx) Abort() { ctx.index = AbortIndex }                       *)
(* A handler is one of seven behaviours, each a short program of "next" /  *)
(* "abort" operations.  The engine starts a request with ctx.Next().       *)
(*                                                                         *)
(* Observable events (emitted in `out`, logged by the instrumented         *)
(* handlers of the driver): Enter(h), Next(h), Resume(h) (the Next call in *)
(* h returned), Abort(h), Exit(h).                                         *)
(*                                                                         *)
(* Deliberately unconstrained: response status/body, what IsAborted()      *)
(* reports, the numeric value of index after an abort.                     *)
(***************************************************************************)
EXTENDS Integers, Sequences, FiniteSets, TLC

CONSTANTS MaxLen            \* longest chain in the exhaustive configuration

AbortIndex == 63

Behaviours == {"Ret", "NextRet", "Abort", "NextAbort", "AbortNext", "NextNext", "AbortWithStatus"}

Ops(b) == CASE b = "Ret"             -> << >>
            [] b = "NextRet"         -> <<"next">>
            [] b = "Abort"           -> <<"abort">>
            [] b = "NextAbort"       -> <<"next", "abort">>
            [] b = "AbortNext"       -> <<"abort", "next">>
            [] b = "NextNext"        -> <<"next", "next">>
            [] b = "AbortWithStatus" -> <<"abort">>

\* all sequences over S of length 1..n
RECURSIVE SeqsUpTo(_, _)
SeqsUpTo(S, n) == IF n = 0 THEN {<< >>}
                  ELSE LET P == SeqsUpTo(S, n - 1) IN P \cup {Append(p, s) : p \in {q \in P : Len(q) = n - 1}, s \in S}
Chains(n) == SeqsUpTo(Behaviours, n) \ {<< >>}

VARIABLES chain,    \* the handlers of the matched route (sequence of behaviours), fixed per behaviour
          index,    \* ctx.index, 0-based, -1 before the request starts
          stack,    \* call stack: loop frames [k:"loop", pc:"inc"|"test"] and handler frames [k:"h", h, pc]
          out,      \* event emitted by the last step (None if the step is internal)
          entered,  \* handlers entered so far, in order
          exited,   \* handlers that returned, in order
          aborted   \* Abort has been called at least once

vars == <<chain, index, stack, out, entered, exited, aborted>>

None == [ev |-> "none"]

LoopFrame == [k |-> "loop", pc |-> "inc", h |-> -1]
Top == stack[Len(stack)]
Pop == SubSeq(stack, 1, Len(stack) - 1)
SetTop(f) == [stack EXCEPT ![Len(stack)] = f]

StartWith(c) == /\ chain = c /\ index = -1 /\ stack = <<LoopFrame>> /\ out = None
                /\ entered = << >> /\ exited = << >> /\ aborted = FALSE

Init == \E c \in Chains(MaxLen) : StartWith(c)

\* ctx.index++
LoopInc == /\ stack # << >> /\ Top.k = "loop" /\ Top.pc = "inc"
           /\ index' = index + 1
           /\ stack' = SetTop([Top EXCEPT !.pc = "test"])
           /\ out' = None
           /\ UNCHANGED <<chain, entered, exited, aborted>>

\* loop test true: call handlers[index]
LoopCall == /\ stack # << >> /\ Top.k = "loop" /\ Top.pc = "test" /\ index < Len(chain)
            /\ stack' = Append(SetTop([Top EXCEPT !.pc = "inc"]), [k |-> "h", h |-> index, pc |-> 1])
            /\ out' = [ev |-> "Enter", h |-> index]
            /\ entered' = Append(entered, index)
            /\ UNCHANGED <<chain, index, exited, aborted>>

\* loop test false: Next returns (to the handler that called it, or to the engine)
LoopExit == /\ stack # << >> /\ Top.k = "loop" /\ Top.pc = "test" /\ index >= Len(chain)
            /\ stack' = Pop
            /\ out' = IF Len(stack) > 1 THEN [ev |-> "Resume", h |-> stack[Len(stack) - 1].h] ELSE None
            /\ UNCHANGED <<chain, index, entered, exited, aborted>>

HandlerOp == /\ stack # << >> /\ Top.k = "h"
             /\ LET ops == Ops(chain[Top.h + 1]) IN
                /\ Top.pc <= Len(ops)
                /\ IF ops[Top.pc] = "next"
                   THEN /\ stack' = Append(SetTop([Top EXCEPT !.pc = @ + 1]), LoopFrame)
                        /\ out' = [ev |-> "Next", h |-> Top.h]
                        /\ UNCHANGED <<index, aborted>>
                   ELSE /\ stack' = SetTop([Top EXCEPT !.pc = @ + 1])
                        /\ index' = AbortIndex
                        /\ aborted' = TRUE
                        /\ out' = [ev |-> "Abort", h |-> Top.h]
             /\ UNCHANGED <<chain, entered, exited>>

HandlerRet == /\ stack # << >> /\ Top.k = "h"
              /\ Top.pc > Len(Ops(chain[Top.h + 1]))
              /\ stack' = Pop
              /\ out' = [ev |-> "Exit", h |-> Top.h]
              /\ exited' = Append(exited, Top.h)
              /\ UNCHANGED <<chain, index, entered, aborted>>

Step == LoopInc \/ LoopCall \/ LoopExit \/ HandlerOp \/ HandlerRet
Next == Step
Spec == Init /\ [][Next]_vars

Finished == stack = << >>

-----------------------------------------------------------------------------
Range(s) == {s[i] : i \in DOMAIN s}
Open == {h \in Range(entered) : h \notin Range(exited)}

TypeOK == /\ index \in -1 .. 127 /\ aborted \in BOOLEAN
          /\ \A i \in DOMAIN stack : stack[i].k \in {"loop", "h"}

EnterAtMostOnce == \A i, j \in DOMAIN entered : i # j => entered[i] # entered[j]
EnterInOrder    == \A i, j \in DOMAIN entered : i < j => entered[i] < entered[j]
\* code after a Next call in h runs only after every later handler that was entered has returned;
\* and handlers return in reverse order of entry
Onion == /\ out.ev = "Resume" => \A g \in Open : g <= out.h
         /\ out.ev = "Exit"   => \A g \in Open : g < out.h
\* once Abort has been called, no handler that has not been entered is entered
AbortStops == [][aborted => entered' = entered]_vars
\* the index never wraps (int8) for chains within the documented limit
NoOverflow == index <= 127
Terminates == <>Finished
=============================================================================
