CONSTANTS MaxLen = 1
INIT TraceInit
NEXT TraceNext
INVARIANTS Report EnterAtMostOnce EnterInOrder Onion
