CONSTANTS MaxLen = 5
SPECIFICATION Spec
INVARIANTS TypeOK EnterAtMostOnce EnterInOrder Onion NoOverflow
PROPERTIES AbortStops
