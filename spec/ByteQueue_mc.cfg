CONSTANTS
  Sizes = {0, 2}
  EofAts = {3}
  MaxSteps = 2
  MaxK = 3
  MaxDeliver = 3
  MaxPeeks = 2
  Parts = {"rd", "wr"}
SPECIFICATION Spec
INVARIANTS TypeOK NoLossNoDup ResultIsNext LenExact PeekStable CopiesValid FlushComplete ShortOnlyAtError SinkPrefix CallerIntact
