--------------------------- MODULE ChainBuildGen ---------------------------
(* Case generator for C12 (builder programs). *)
EXTENDS ChainBuild, Json, IOUtils, SequencesExt
CONSTANTS RandomPrograms
\* Longer structured programs the exhaustive family is too short for: several Use calls on one group (so that its
\* handler slice has spare capacity), groups created without middleware, then Use calls on several owners of what
\* may be one shared backing array, then a route in every group; plus seeded pseudo-random programs of 8 ops.
Rep(o, k) == [j \in 1 .. k |-> o]
U(g) == Op("Use", g, 1)
G(p) == Op("Group", p, 0)
R(g) == Op("Register", g, 1)
Structured == UNION {{
    Rep(U(0), a) \o <<G(0), G(0), U(1), U(2), R(1), R(2), R(0)>>,
    Rep(U(0), a) \o <<G(0), G(0), U(2), U(1), R(1), R(2)>>,
    Rep(U(0), a) \o <<G(0), U(0), U(1), R(1), R(0)>>,
    Rep(U(0), a) \o <<G(0), U(1), U(0), R(1), R(0)>>,
    Rep(U(0), a) \o <<G(0), U(1), G(1), U(1), U(2), R(1), R(2)>>,
    Rep(U(0), a) \o <<Op("NoRoute", 0, 1), G(0), U(1), U(0), R(1)>>,
    Rep(U(0), a) \o <<G(0), U(1), R(1)>> \o <<U(0)>>,
    <<Op("Group", 0, 1)>> \o Rep(U(1), a) \o <<G(1), G(1), U(2), U(3), R(2), R(3), R(1)>>
  } : a \in 1 .. 6}

Seed == IF "VERIF_SEED" \in DOMAIN IOEnv THEN atoi(IOEnv.VERIF_SEED) ELSE 1
Lcg(x) == ((x % 65537) * 75 + 74) % 65537
RECURSIVE RandProg(_, _, _, _)
\* k ops left, x random state, ng groups so far, p prefix
RandProg(k, x, ng, p) ==
    IF k = 0 THEN p \o [g \in 1 .. ng |-> R(g - 1)]
    ELSE LET y == Lcg(x) z == Lcg(y) c == y % 10 g == z % ng IN
         IF c < 6 THEN RandProg(k - 1, z, ng, Append(p, U(g)))
         ELSE IF c < 9 /\ ng < 4 THEN RandProg(k - 1, z, ng + 1, Append(p, Op("Group", g, z % 2)))
         ELSE RandProg(k - 1, z, ng, Append(p, R(g)))
Random == {RandProg(8, (Seed % 1000) * 131 + j, 1, << >>) : j \in 1 .. RandomPrograms}

All == SetToSeq(Programs \cup Structured \cup Random)
ASSUME ndJsonSerialize(IOEnv.VERIF_OUT, [i \in 1 .. Len(All) |-> [id |-> i, kind |-> "build", prog |-> All[i]]])
GenInit == StartBuild(<< >>)
GenNext == UNCHANGED bvars
=============================================================================
