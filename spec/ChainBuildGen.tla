--------------------------- MODULE ChainBuildGen ---------------------------
(* Case generator for C12 (builder programs). *)
EXTENDS ChainBuild, Json, IOUtils, SequencesExt
All == SetToSeq(Programs)
ASSUME ndJsonSerialize(IOEnv.VERIF_OUT, [i \in 1 .. Len(All) |-> [id |-> i, kind |-> "build", prog |-> All[i]]])
GenInit == StartBuild(<< >>)
GenNext == UNCHANGED bvars
=============================================================================
