CONSTANTS
  Alphabet <- Alphabet7
  MaxLen = 5
  BackslashSep = TRUE
SPECIFICATION Spec
\* AllInOne = ImplIsRef /\ RefContained /\ CleanImplIsRef /\ CleanContained with shared intermediate values;
\* list the individual invariants instead to see which one a counterexample violates
INVARIANTS TypeOK AllInOne RankOK
