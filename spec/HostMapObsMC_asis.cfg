\* must be rejected: the cleaner as written (orphan use)
CONSTANTS
  Keys = {"a"}
  TLSKeys = {}
  Callers = {1, 2}
  MaxCalls = 1
  NH = 2
  MaxConns = 1
  MaxTicks = 1
  MaxCI = 0
  MaxReap = 0
  Retries = 0
  HoldCounted = FALSE
  CIAll = TRUE
INIT OInitMC
NEXT ONextMC
VIEW OView
INVARIANTS Accepts Agree
