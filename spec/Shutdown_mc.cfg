\* quick, exhaustive: 2 connections x 2 shutdown callers x 1 hook (any speed), standard transport
CONSTANTS
  Conns = {c1, c2}
  Callers = {k1, k2}
  Hooks = {h1}
  BeyondHooks = {}
  MaxReq = 1
  Transport = "standard"
  ServerRun = TRUE
  CasLoserErrors = TRUE
  ExitCheckAfterHandler = TRUE
  HooksConcurrent = TRUE
  CountAtAccept = TRUE
SYMMETRY Sym
SPECIFICATION Spec
INVARIANTS TypeOK ActiveCount ObligationsHold SecondShutdownErrors NotRunningErrors NoAcceptAfterClose HooksStartedAtReturn HooksAwaited InFlightAwaited AcceptedAwaited CloseAnnounced InFlightCompleted EndOK
