CONSTANTS McDepth = 2
          McLeafMode = "small"
INIT TraceInit
NEXT TraceNext
INVARIANTS Report
