----------------------------- MODULE ParserCalls -----------------------------
(***************************************************************************)
(* C03, part (b) -- every exported parser of untrusted data returns for    *)
(* every input: Call(parser, input) ends in a result of class ok or err.   *)
(* There is NO action for a panic: a recorded Panic event is therefore not *)
(* a behaviour of this specification and the trace that carries it is      *)
(* rejected (ParserCallsTrace).                                            *)
(*                                                                         *)
(* The quantifier "for every string" is made explicit: the input space of  *)
(* a parser is the set of all TOKEN strings of length <= MaxLenOf[parser]  *)
(* over the hostile token alphabet of the parser's family (Alpha below).   *)
(* Tokens are byte strings ("%2", "SameSite", "99999999999999999999",      *)
(* "\r\n"); a token "<HH>" (two upper-case hex digits) stands for the      *)
(* single byte 0xHH (TLA+ strings cannot hold NUL, 0x7F, 0xC3, 0xFF); the  *)
(* input handed to the real parser is the concatenation of the tokens.     *)
(* The alphabets are chosen from the index and slice expressions in the    *)
(* anchored files: first-byte dispatch (key[0] | 0x20), fixed-width slices *)
(* (path[2:], key[:8], src[i+2]), separators whose absence or doubling     *)
(* makes an element empty, numbers that overflow, quotes, percent escapes  *)
(* cut short.                                                              *)
(*                                                                         *)
(* State machine: `cur` steps through the whole space of one parser in     *)
(* shortlex order (Succ); each input is Called once and Returns once.      *)
(* Checked by TLC on small bounds (ParserCalls_mc.cfg): Succ stays inside  *)
(* the space, Rank(Succ(s)) = Rank(s) + 1, Unrank(Rank(s)) = s (so the     *)
(* enumeration is a bijection between 0 .. Total-1 and the bounded space), *)
(* the enumeration terminates (Terminates), every input is called exactly  *)
(* once (the number of distinct states is 4 * Total + 1 per parser,        *)
(* compared by the runner with the ExpectedStates this module prints).     *)
(*                                                                         *)
(* The driver (harness/drivers/c03p) enumerates the same space -- it reads *)
(* alphabets and bounds from the file ParserCallsGen writes from this      *)
(* module's constants -- against the REAL hertz code, in the same order;   *)
(* ParserCallsTrace checks every recorded line, including that no input    *)
(* was skipped (input' = Succ(input)).                                     *)
(*                                                                         *)
(* Parsers (what the driver calls for the entry named in Table; each call  *)
(* also reads the parsed object back through its public accessors, which   *)
(* is where lazily parsed parts -- query args, cookies -- are decoded):    *)
(*   uri.ParseURI            protocol.ParseURI(s)                           *)
(*   uri.Parse.emptyHost     (&URI{}).Parse([]byte{}, s)                    *)
(*   uri.Parse.host          (&URI{}).Parse("h.example", s)                 *)
(*   uri.Update              ParseURI("http://h.example/p/q?x=1#f").Update(s) *)
(*   uri.UpdateBytes.zero    (&URI{}).UpdateBytes(s)                        *)
(*   req.SetRequestURI       (&Request{}).SetRequestURI(s); req.URI()       *)
(*   req.SetRequestURI.host  same with req.Header.SetHost("h.example")      *)
(*   args.ParseBytes         (&Args{}).ParseBytes(s); VisitAll/Peek/...     *)
(*   req.PostArgs            form body s; req.PostArgs()                    *)
(*   cookie.Parse            (&Cookie{}).Parse(s)  (Set-Cookie value)       *)
(*   resp.SetCookie          ResponseHeader.Set("Set-Cookie", s); Cookie()  *)
(*   reqhdr.Cookie           RequestHeader.Set("Cookie", s); Cookie(k),     *)
(*                           VisitAllCookie, Cookies()                      *)
(*   range.cl0|cl1|cl2       app.ParseByteRange(s, 0|1|2)                   *)
(*   date.IfModifiedSince    header If-Modified-Since: s;                   *)
(*                           RequestContext.IfModifiedSince(t)              *)
(*   cookie.Expires          (&Cookie{}).Parse("a=b; Expires=" \o s)        *)
(*   ctype.Boundary          RequestHeader.SetContentTypeBytes(s) and       *)
(*                           Set("Content-Type", s); MultipartFormBoundary()*)
(*   mp.MultipartForm        Content-Type multipart/form-data; boundary=b,  *)
(*                           body s; req.MultipartForm()                    *)
(*   mp.ParseMultipartForm   protocol.ParseMultipartForm(reader(s), req,..) *)
(*   trailer.SetTrailers     (&Trailer{}).SetTrailers(s)                    *)
(*   reqhdr.Set.Trailer      RequestHeader.Set("Trailer", s)                *)
(*   resphdr.Set.Trailer     ResponseHeader.Set("Trailer", s)               *)
(*   cl.ParseContentLength   protocol.ParseContentLength(s)                 *)
(*   chunk.ParseChunkSize    utils.ParseChunkSize(reader(s))                *)
(*   req.BasicAuth           header Authorization: s; req.BasicAuth()       *)
(*   http1.req.Read          req.Read(&Request{}, reader("GET / HTTP/1.1\r\n" \o s)); *)
(*                           then URI(), cookies, trailer as a server would *)
(*   http1.req.Read.fold     req.Read(&Request{}, reader("GET / HTTP/1.1\r\nA: b" \o s \o "\r\n\r\n")): *)
(*                           folded (obs-fold) header values and odd line ends *)
(*   http1.req.firstline     req.ReadHeader(&RequestHeader{}, reader(s))    *)
(*   http1.resp.ReadHeader   resp.ReadHeader(&ResponseHeader{}, reader("HTTP/1.1 200 OK\r\n" \o s)) *)
(*   http1.resp.firstline    resp.ReadHeader(&ResponseHeader{}, reader(s))  *)
(*   http1.ext.ReadTrailer   ext.ReadTrailer(&Trailer{}, reader(s))         *)
(*   http1.resp.Read.contentLength  resp.ReadHeaderAndLimitBody(&Response{}, reader("HTTP/1.1 200 OK\r\n *)
(*                           Content-Length: " \o s \o "\r\n\r\nabc"), 0) -- the client's read with its *)
(*                           default (unlimited) MaxResponseBodySize         *)
(*   http1.ext.ReadBody.chunked     ext.ReadBody(reader(s), -1, 0, nil): chunked body, no size limit *)
(*                                                                         *)
(* Deliberately unconstrained: WHICH class a call returns (ok/err), every  *)
(* parsed value, error texts.  The property only says the call returns.    *)
(* A call that does not return at all (endless loop) is reported by the    *)
(* driver as a dead driver (exit 2), it is not a trace event.              *)
(***************************************************************************)
EXTENDS Integers, Sequences, FiniteSets, TLC

CONSTANTS MaxLenOf,    \* [Parsers -> Nat]: longest enumerated token string (cfg: <- McLen | QuickLen | ThoroughLen)
          RandMax      \* longest token string of the seeded random cases beyond the exhaustive bound

-----------------------------------------------------------------------------
(* hostile token alphabets, one per family; the order is the enumeration order *)
Alpha == [
  uri      |-> <<"a", ":", "/", "//", "?", "#", "@", "%", "%2", "%zz", "[", "]", "..", " ", "<00>">>,
  args     |-> <<"a", "=", "&", "%", "%2", "%4", "1", "z", "+", "<FF>">>,
  cookie   |-> <<"a", "=", ";", " ", "SameSite", "Max-Age", "Expires", "Lax", "Strict", "None", "9", "-1", "\"",
                 "HttpOnly", "Secure", "Domain", "Path">>,
  reqcookie|-> <<"a", "b", "=", ";", " ", "\"", "<FF>">>,
  range    |-> <<"bytes", "=", "-", ",", "0", "1", "99999999999999999999", "a", " ">>,
  date     |-> <<"Tue, 10 Nov 2009 23:00:00 GMT", "Tue, ", "10 Nov 2009", " ", "23:00:00", "GMT", "-", "99", "a", "<00>">>,
  ctype    |-> <<"multipart/form-data", ";", " ", "boundary", "=", "\"", "b", "a">>,
  mpbody   |-> <<"--", "b", "\r\n", "Content-Disposition: form-data; name=\"a\"", "; filename=\"f\"", "x">>,
  trailer  |-> <<"a", ",", " ", "Content-Length", "Host", "Trailer", "c", "P">>,
  clen     |-> <<"0", "1", "9", "99999999999999999999", "999999999999999999", "-", "+", " ", "a", "<FF>">>,
  chunk    |-> <<"0", "1", "f", "ffffffffffffffff", " ", ";", "\r", "\n", "x", "<FF>">>,
  auth     |-> <<"Basic", " ", "QQ==", "Og==", "YTpi", "=", "a", "!">>,
  hdrblock |-> <<"a", ":", " ", "\t", "\r\n", "\n", "\r\n\r\n", "Trailer", ",", "Content-Length", "1", "Cookie">>,
  reqline  |-> <<"GET", " ", "/", "a:b", "HTTP/1.1", "HTTP/1.0", "\r\n", "\n", "<00>">>,
  rhdrblock|-> <<"a", ":", " ", "\t", "\r\n", "\n", "\r\n\r\n", "Trailer", ",", "Content-Length", "1", "Set-Cookie", "SameSite=">>,
  statline |-> <<"HTTP/1.1", "HTTP/1.0", " ", "200", "99999999999999999999", "OK", "\r\n", "\n", "<00>">>,
  rtrailer |-> <<"a", ":", " ", "\t", "\r\n", "\n", "0", "Content-Length", "Host">>,
  hdrfold  |-> <<"a", ":", " ", "\t", "\r\n", "\n">>,
  chunked  |-> <<"0", "1", "f", "fffffffffffffff", "\r\n", "a", ";", " ", "\n">>
]
Families == DOMAIN Alpha

(* parser, family, MaxLen in ParserCalls_mc.cfg, in the quick tier, in the thorough tier, cap on the length of the   *)
(* random longer inputs (0 = RandMax; the two parsers that turn a peer-declared length into an allocation are capped  *)
(* so that the harness never asks for gigabytes: at most 7 digit tokens in a row)                                      *)
Table == <<
  <<"uri.ParseURI",           "uri",       2, 4, 5, 0>>,
  <<"uri.Parse.emptyHost",    "uri",       2, 3, 4, 0>>,
  <<"uri.Parse.host",         "uri",       2, 3, 5, 0>>,
  <<"uri.Update",             "uri",       2, 3, 4, 0>>,
  <<"uri.UpdateBytes.zero",   "uri",       2, 3, 4, 0>>,
  <<"req.SetRequestURI",      "uri",       2, 3, 4, 0>>,
  <<"req.SetRequestURI.host", "uri",       2, 3, 4, 0>>,
  <<"args.ParseBytes",        "args",      2, 4, 6, 0>>,
  <<"req.PostArgs",           "args",      2, 3, 4, 0>>,
  <<"cookie.Parse",           "cookie",    2, 4, 5, 0>>,
  <<"resp.SetCookie",         "cookie",    2, 3, 4, 0>>,
  <<"reqhdr.Cookie",          "reqcookie", 2, 5, 7, 0>>,
  <<"range.cl0",              "range",     2, 4, 5, 0>>,
  <<"range.cl1",              "range",     2, 4, 6, 0>>,
  <<"range.cl2",              "range",     2, 4, 5, 0>>,
  <<"date.IfModifiedSince",   "date",      2, 3, 5, 0>>,
  <<"cookie.Expires",         "date",      2, 3, 5, 0>>,
  <<"ctype.Boundary",         "ctype",     2, 4, 6, 0>>,
  <<"mp.MultipartForm",       "mpbody",    3, 5, 7, 0>>,
  <<"mp.ParseMultipartForm",  "mpbody",    3, 4, 5, 0>>,
  <<"trailer.SetTrailers",    "trailer",   2, 5, 6, 0>>,
  <<"reqhdr.Set.Trailer",     "trailer",   2, 4, 5, 0>>,
  <<"resphdr.Set.Trailer",    "trailer",   2, 3, 4, 0>>,
  <<"cl.ParseContentLength",  "clen",      2, 4, 5, 0>>,
  <<"chunk.ParseChunkSize",   "chunk",     2, 4, 5, 0>>,
  <<"req.BasicAuth",          "auth",      2, 4, 5, 0>>,
  <<"http1.req.Read",         "hdrblock",  2, 4, 5, 0>>,
  <<"http1.req.Read.fold",    "hdrfold",   3, 5, 7, 0>>,
  <<"http1.req.firstline",    "reqline",   2, 4, 5, 0>>,
  <<"http1.resp.ReadHeader",  "rhdrblock", 2, 4, 5, 0>>,
  <<"http1.resp.firstline",   "statline",  2, 4, 5, 0>>,
  <<"http1.ext.ReadTrailer",  "rtrailer",  2, 4, 5, 0>>,
  <<"http1.resp.Read.contentLength", "clen", 2, 4, 5, 7>>,
  <<"http1.ext.ReadBody.chunked", "chunked", 2, 4, 6, 7>>
>>

Range(s) == {s[i] : i \in DOMAIN s}
Parsers == {r[1] : r \in Range(Table)}
Row(p) == CHOOSE r \in Range(Table) : r[1] = p
FamilyOf == [p \in Parsers |-> Row(p)[2]]
McLen == [p \in Parsers |-> Row(p)[3]]
QuickLen == [p \in Parsers |-> Row(p)[4]]
ThoroughLen == [p \in Parsers |-> Row(p)[5]]
RandMaxOf == [p \in Parsers |-> IF Row(p)[6] = 0 THEN RandMax ELSE Row(p)[6]]      \* random inputs: MaxLenOf[p]+1 .. RandMaxOf[p]

Tokens == [f \in Families |-> Range(Alpha[f])]
NTok == [f \in Families |-> Len(Alpha[f])]
TokIdx == [f \in Families |-> [t \in Range(Alpha[f]) |-> CHOOSE i \in 1 .. Len(Alpha[f]) : Alpha[f][i] = t]]

ASSUME \A f \in Families : Cardinality(Tokens[f]) = NTok[f] /\ NTok[f] >= 2     \* tokens are distinct
ASSUME \A i, j \in DOMAIN Table : i # j => Table[i][1] # Table[j][1]
ASSUME \A r \in Range(Table) : r[2] \in Families /\ r[3] <= r[4] /\ r[4] <= r[5]
ASSUME DOMAIN MaxLenOf = Parsers /\ \A p \in Parsers : MaxLenOf[p] < RandMaxOf[p] /\ RandMaxOf[p] <= RandMax

-----------------------------------------------------------------------------
(* shortlex enumeration of the token strings over Alpha[f] *)
RECURSIVE Pow(_, _)
Pow(b, e) == IF e = 0 THEN 1 ELSE b * Pow(b, e - 1)
RECURSIVE Total(_, _)                        \* number of strings of length <= n
Total(f, n) == IF n < 0 THEN 0 ELSE Pow(NTok[f], n) + Total(f, n - 1)

First(f, n) == [i \in 1 .. n |-> Alpha[f][1]]
IsLastOfLen(f, s) == \A i \in 1 .. Len(s) : s[i] = Alpha[f][NTok[f]]
Max(S) == CHOOSE x \in S : \A y \in S : y <= x

Succ(f, s) == IF IsLastOfLen(f, s) THEN First(f, Len(s) + 1)
              ELSE LET q == Max({i \in 1 .. Len(s) : s[i] # Alpha[f][NTok[f]]})
                   IN [i \in 1 .. Len(s) |-> IF i < q THEN s[i]
                                             ELSE IF i = q THEN Alpha[f][TokIdx[f][s[i]] + 1]
                                             ELSE Alpha[f][1]]

RECURSIVE RankDigits(_, _, _)
RankDigits(f, s, i) == IF i > Len(s) THEN 0
                       ELSE (TokIdx[f][s[i]] - 1) * Pow(NTok[f], Len(s) - i) + RankDigits(f, s, i + 1)
Rank(f, s) == Total(f, Len(s) - 1) + RankDigits(f, s, 1)        \* 0-based position in the enumeration

RECURSIVE LenOfRank(_, _, _)
LenOfRank(f, r, n) == IF r < Total(f, n) THEN n ELSE LenOfRank(f, r, n + 1)
Unrank(f, r) == LET n == LenOfRank(f, r, 0)
                    o == r - Total(f, n - 1)
                IN [i \in 1 .. n |-> Alpha[f][((o \div Pow(NTok[f], n - i)) % NTok[f]) + 1]]

InSpace(p, s) == Len(s) <= MaxLenOf[p] /\ \A i \in 1 .. Len(s) : s[i] \in Tokens[FamilyOf[p]]
IsLast(p, s) == Len(s) = MaxLenOf[p] /\ IsLastOfLen(FamilyOf[p], s)
TotalOf(p) == Total(FamilyOf[p], MaxLenOf[p])

-----------------------------------------------------------------------------
(* the calls *)
Classes == {"ok", "err"}

VARIABLES parser,   \* the parser whose space is being walked
          cur,      \* current input (token string)
          phase,    \* "ready" (cur not yet called) | "called" | "returned" | "done"
          class     \* result class of the last returned call
vars == <<parser, cur, phase, class>>

Init == parser \in Parsers /\ cur = << >> /\ phase = "ready" /\ class = "none"

\* Call(parser, cur): the real code is entered with the concatenation of cur
Call == /\ phase = "ready"
        /\ phase' = "called" /\ UNCHANGED <<parser, cur, class>>

\* the call comes back with a value or an error -- the only two ways out; a panic is not a way out
Return(c) == /\ phase = "called" /\ c \in Classes
             /\ phase' = "returned" /\ class' = c /\ UNCHANGED <<parser, cur>>

Advance == /\ phase = "returned" /\ ~IsLast(parser, cur)
           /\ cur' = Succ(FamilyOf[parser], cur) /\ phase' = "ready" /\ class' = "none" /\ UNCHANGED parser

Finish == /\ phase = "returned" /\ IsLast(parser, cur)
          /\ phase' = "done" /\ class' = "none" /\ UNCHANGED <<parser, cur>>

Next == Call \/ (\E c \in Classes : Return(c)) \/ Advance \/ Finish
Spec == Init /\ [][Next]_vars /\ WF_vars(Next)

-----------------------------------------------------------------------------
TypeOK == /\ parser \in Parsers /\ InSpace(parser, cur)
          /\ phase \in {"ready", "called", "returned", "done"}
          /\ class \in Classes \cup {"none"} /\ (phase = "returned" <=> class \in Classes)

\* Rank is a bijection from the bounded space onto 0 .. Total-1: it has the inverse Unrank, its values are in range,
\* and Succ is "+1" (so walking with Succ from << >> visits rank 0, 1, 2, ... without gap or repetition)
RankBijection == LET f == FamilyOf[parser] r == Rank(f, cur)
                 IN /\ r \in 0 .. TotalOf(parser) - 1
                    /\ Unrank(f, r) = cur
                    /\ (cur = << >>) <=> (r = 0)
                    /\ IsLast(parser, cur) <=> (r = TotalOf(parser) - 1)
SuccStep == ~IsLast(parser, cur) =>
              LET f == FamilyOf[parser] n == Succ(f, cur)
              IN InSpace(parser, n) /\ Rank(f, n) = Rank(f, cur) + 1 /\ n # cur
\* an input is never called twice and never skipped: cur only moves by Succ, and only after a return
OneCallPerInput == [][/\ cur' # cur => (phase = "returned" /\ phase' = "ready" /\ cur' = Succ(FamilyOf[parser], cur))
                      /\ phase' = "called" => (phase = "ready" /\ cur' = cur)]_vars
Terminates == <>(phase = "done")

\* 4 states per input (ready, called, returned x 2 classes) + done, per parser; compared with TLC's count by the runner
RECURSIVE SumTotals(_)
SumTotals(S) == IF S = {} THEN 0 ELSE LET p == CHOOSE x \in S : TRUE IN 4 * TotalOf(p) + 1 + SumTotals(S \ {p})
ExpectedStates == SumTotals(Parsers)
=============================================================================
