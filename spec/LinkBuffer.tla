----------------------------- MODULE LinkBuffer -----------------------------
(***************************************************************************)
(* C13 stage 2 -- the input side of standard.Conn as it is written:        *)
(* transcription of pkg/network/standard/connection.go (fill, Peek,        *)
(* peekBuffer, Skip, next, Read, ReadByte, ReadBinary, Release,            *)
(* handleTail, releaseCaches) and buffer.go (linkBufferNode: Reset,        *)
(* Release, malloc/free through mcache).  TLC checks that this design      *)
(* refines ByteQueue (every step is a ByteQueue step under the mapping     *)
(* below) and never hands out or keeps a slice into recycled memory.       *)
(*                                                                         *)
(* Memory.  Every node buffer and every Peek copy is a block (blk, fresh   *)
(* number).  A node holds the stream bytes [base, base+mal) at buffer      *)
(* indexes [0, mal) (fill appends consecutive stream bytes).  free() puts  *)
(* a block into `freed` (mcache may hand it to anybody); Reset() lets the  *)
(* block be overwritten from index 0 (generation bgen[blk] is bumped).     *)
(* Blocks larger than mallocMax are never pooled (free is a no-op, the GC  *)
(* keeps them alive while a slice refers to them).                         *)
(*                                                                         *)
(* Steps.  A method call is split so that every step maps to at most one   *)
(* ByteQueue step:  Call (stutter; fill's preamble)  ->  SrcDeliver /      *)
(* SrcFailSame / SrcFailNext (socket reads inside fill or Read; = Deliver, *)
(* SrcEnd, SrcTimeout)  ->  Finish (= the ByteQueue operation with the     *)
(* result computed from the node geometry).                                *)
(*                                                                         *)
(* Sizes are scaled in the exhaustive configuration (block1k=1, block4k=4, *)
(* mallocMax=16 ...); the trace configuration uses the real values and     *)
(* compares the node geometry with Conn.VerifInputNodes().              *)
(***************************************************************************)
EXTENDS Integers, Sequences, FiniteSets, TLC

CONSTANTS B1, B4, MM,     \* block1k, block4k (= defaultMallocSize), mallocMax
          InitSize,       \* set of `size` arguments of newConn
          Sizes, EofAts, MaxSteps, MaxPeeks, MaxDeliver,
          Delivers,       \* sizes a single socket read may return in the exhaustive configuration (<= MaxDeliver)
          WithData        \* BOOLEAN: model socket reads that return data and the terminal error together

VARIABLES buf,   \* [nodes, rdIx, len, maxSize, cerr, caches, freed, nblk, bgen]
          src,   \* [eofAt, rcvd, term]
          pc,    \* the call in progress
          abs    \* auxiliary: the ByteQueue view that is not a function of buf/src
                 \* [perr, peeks, pmem, rel, copies, res, hEnd, hOK, steps]

lvars == <<buf, src, pc, abs>>

Terminal == {"eof", "reset"}
NoRun == [f |-> 0, t |-> 0, nr |-> 0]
Run(f, k) == IF k = 0 THEN NoRun ELSE [f |-> f, t |-> f + k, nr |-> 1]
BadRun(code) == [f |-> code, t |-> code, nr |-> 2]
Min2(a, b) == IF a < b THEN a ELSE b
Max2(a, b) == IF a > b THEN a ELSE b

RECURSIVE Pow2From(_, _)
Pow2From(p, n) == IF p >= n THEN p ELSE Pow2From(2 * p, n)
\* malloc(size, size): mcache rounds the capacity up to a power of two; above mallocMax plain make
CapOf(size) == IF size > MM THEN size ELSE Pow2From(1, size)

Idle == [st |-> "idle", op |-> "none", n |-> 0, i |-> 0, lastN |-> 0, cls |-> "ok", direct |-> 0]

---------------------------------------------------------------------------
(* buffer.go *)

NewNode(b, size) ==    \* newBufferNode(size), appended behind write
    [b EXCEPT !.nodes = Append(@, [cap |-> CapOf(size), off |-> 0, mal |-> 0, ro |-> FALSE, base |-> 0, blk |-> b.nblk]),
              !.nblk = @ + 1, !.bgen = Append(@, 0)]

\* linkBufferNode.Release: free(buf) unless readOnly; free() ignores blocks above mallocMax
FreeNode(b, nd) == IF nd.ro \/ nd.cap > MM THEN b ELSE [b EXCEPT !.freed = @ \cup {nd.blk}]

\* linkBufferNode.Reset of node ix: off = malloc = 0, readOnly = false; the storage will be overwritten
ResetNode(b, ix) == [b EXCEPT !.nodes[ix].off = 0, !.nodes[ix].mal = 0, !.nodes[ix].ro = FALSE,
                              !.bgen[b.nodes[ix].blk] = @ + 1]

NLen(nd) == nd.mal - nd.off

---------------------------------------------------------------------------
(* connection.go, pure parts *)

\* releaseCaches
ReleaseCaches(b) == [b EXCEPT !.freed = @ \cup {b.caches[j] : j \in DOMAIN b.caches}, !.caches = << >>]

\* peekBuffer(i): which stream bytes end up in the destination.  Result: the run, BadRun(-1) if the pieces are not
\* consecutive stream bytes, BadRun(-2) if the chain ends (nil dereference in the code).
RECURSIVE Walk(_, _, _, _, _)
Walk(nodes, ix, ack, start, pos) ==
    IF ack = 0 THEN (IF start < 0 THEN NoRun ELSE [f |-> start, t |-> pos, nr |-> 1])
    ELSE IF ix > Len(nodes) THEN BadRun(-2)
    ELSE LET nd == nodes[ix]
             l == NLen(nd)
             take == IF l >= ack THEN ack ELSE l
             at == nd.base + nd.off
         IN IF take = 0 THEN Walk(nodes, ix + 1, ack, start, pos)
            ELSE IF start >= 0 /\ at # pos THEN BadRun(-1)
            ELSE Walk(nodes, ix + 1, ack - take, IF start < 0 THEN at ELSE start, at + take)
Contents(b, i) == Walk(b.nodes, b.rdIx, i, -1, -1)

\* Skip(n): [b, cls]; cls = "panic" if the chain ends
RECURSIVE SkipWalk(_, _, _)
SkipWalk(nodes, ix, ack) ==
    IF ack = 0 THEN [nodes |-> nodes, ix |-> ix]
    ELSE IF ix > Len(nodes) THEN [nodes |-> nodes, ix |-> 0]
    ELSE LET l == NLen(nodes[ix]) IN
         IF l >= ack THEN [nodes |-> [nodes EXCEPT ![ix].off = @ + ack], ix |-> ix]
         ELSE SkipWalk(nodes, ix + 1, ack - l)
SkipF(b, n) ==
    IF b.len < n THEN [b |-> b, cls |-> "other"]
    ELSE LET w == SkipWalk(b.nodes, b.rdIx, n) IN
         IF w.ix = 0 THEN [b |-> b, cls |-> "panic"]
         ELSE [b |-> [b EXCEPT !.len = @ - n, !.nodes = w.nodes, !.rdIx = w.ix], cls |-> "ok"]

RECURSIVE SumMal(_, _, _)
SumMal(nodes, lo, hi) == IF lo > hi THEN 0 ELSE nodes[lo].mal + SumMal(nodes, lo + 1, hi)
RECURSIVE FreeUpTo(_, _, _)
FreeUpTo(b, j, hi) == IF j > hi THEN b ELSE FreeUpTo(FreeNode(b, b.nodes[j]), j + 1, hi)

CapMax(b, size) == LET s == Min2(size, MM) IN [b EXCEPT !.maxSize = Max2(@, s)]

\* Release
ReleaseF(b) ==
    LET N == Len(b.nodes) IN
    IF b.len = 0 /\ N = 1
    THEN ResetNode(b, 1)                                        \* head == write: reuse the node
    ELSE IF b.len = 0 /\ N = 2                                  \* head.next == write
    THEN LET size == b.nodes[1].mal + b.nodes[2].mal
             b1 == CapMax(FreeNode(b, b.nodes[1]), size)
             \* handleTail
             b2 == IF b1.nodes[2].cap > MM
                   THEN LET b3 == NewNode(b1, b1.maxSize) IN
                        FreeNode([b3 EXCEPT !.nodes = <<b3.nodes[3]>>], b1.nodes[2])
                   ELSE LET b3 == ResetNode(b1, 2) IN [b3 EXCEPT !.nodes = <<b3.nodes[2]>>]
         IN ReleaseCaches([b2 EXCEPT !.rdIx = 1])
    ELSE LET size == SumMal(b.nodes, 2, b.rdIx)                 \* mallocs of the nodes that become head
             b1 == FreeUpTo(b, 1, b.rdIx - 1)
             rest == SubSeq(b1.nodes, b.rdIx, N)
             b2 == [b1 EXCEPT !.nodes = [rest EXCEPT ![Len(rest)].ro = TRUE], !.rdIx = 1]
         IN ReleaseCaches(CapMax(b2, size))

\* fill(i), up to the read loop: [b, st, cls]; st = "done" (fill returns cls) or "loop"
FillPrep(b, i) ==
    IF b.len >= i THEN [b |-> b, st |-> "done", cls |-> "ok"]
    ELSE IF b.cerr # "none"
    THEN IF b.len > 0 THEN [b |-> b, st |-> "done", cls |-> "ok"]      \* c.err put back
         ELSE [b |-> [b EXCEPT !.cerr = "none"], st |-> "done", cls |-> b.cerr]
    ELSE LET N == Len(b.nodes)
             w == b.nodes[N]
             left == w.cap - w.mal
         IN IF left < i - b.len \/ w.ro
            THEN [b |-> NewNode([b EXCEPT !.nodes[N].ro = FALSE], IF i < b.maxSize THEN b.maxSize ELSE i),
                  st |-> "loop", cls |-> "ok"]
            ELSE [b |-> b, st |-> "loop", cls |-> "ok"]

\* Peek(i0) after fill returned fcls: [b, k, cls, run, blk]  (blk = 0: no slice handed out)
PeekPost(b, i0, fcls) ==
    IF fcls # "ok" THEN [b |-> b, k |-> 0, cls |-> fcls, run |-> NoRun, blk |-> 0]
    ELSE LET short == b.len < i0
             i == IF short THEN b.len ELSE i0
             cls == IF short THEN (IF b.cerr = "none" THEN "ok" ELSE b.cerr) ELSE "ok"     \* readErr()
             b1 == IF short THEN [b EXCEPT !.cerr = "none"] ELSE b
             nd == b1.nodes[b1.rdIx]
         IN IF NLen(nd) >= i
            THEN [b |-> b1, k |-> i, cls |-> cls, run |-> Run(nd.base + nd.off, i), blk |-> IF i = 0 THEN 0 ELSE nd.blk]
            ELSE LET nb == b1.nblk
                     b2 == [b1 EXCEPT !.nblk = @ + 1, !.bgen = Append(@, 0),
                                      !.caches = IF B1 < i /\ i <= MM THEN Append(@, nb) ELSE @]
                 IN [b |-> b2, k |-> i, cls |-> cls, run |-> Contents(b1, i), blk |-> nb]

\* next(l): peekBuffer, Skip, Release
NextF(b, l) ==
    LET run == Contents(b, l)
        s == SkipF(b, l)
    IN IF s.cls # "ok" THEN [b |-> s.b, k |-> l, cls |-> s.cls, run |-> run]
       ELSE [b |-> ReleaseF(s.b), k |-> l, cls |-> (IF run.nr = 2 /\ run.f = -2 THEN "panic" ELSE "ok"), run |-> run]

---------------------------------------------------------------------------
(* the ByteQueue view *)

Rcv == src.rcvd
Rd == src.rcvd - buf.len - pc.direct     \* bytes read straight into the caller's buffer are not consumed until Read returns

AbsRes(kind, n, k, run, cls, ln) == [k |-> kind, n |-> n, cnt |-> k, run |-> run, cls |-> cls, len |-> ln, rcv |-> src.rcvd, ab |-> 0]
NoRes == [k |-> "none", n |-> 0, cnt |-> 0, run |-> NoRun, cls |-> "ok", len |-> 0, rcv |-> 0, ab |-> 0]

BQ == INSTANCE ByteQueue WITH
        eofAt <- src.eofAt, rcv <- Rcv, rd <- Rd, perr <- abs.perr, term <- src.term,
        peeks <- abs.peeks, rel <- abs.rel, copies <- abs.copies, wr <- 0, flushed <- 0, wip <- 0,
        res <- abs.res, hEnd <- abs.hEnd, hOK <- abs.hOK, steps <- abs.steps,
        MaxK <- 0, Parts <- {"rd"}

InitP(e, s) ==
        /\ /\ src = [eofAt |-> e, rcvd |-> 0, term |-> FALSE]
           /\ LET m == Max2(B4, s) IN
              buf = [nodes |-> <<[cap |-> CapOf(m), off |-> 0, mal |-> 0, ro |-> FALSE, base |-> 0, blk |-> 1]>>,
                        rdIx |-> 1, len |-> 0, maxSize |-> m, cerr |-> "none", caches |-> << >>, freed |-> {},
                        nblk |-> 2, bgen |-> <<0>>]
        /\ pc = Idle
        /\ abs = [perr |-> "none", peeks |-> << >>, pmem |-> << >>, rel |-> 0, copies |-> << >>, res |-> NoRes,
                  hEnd |-> 0, hOK |-> TRUE, steps |-> 0]
Init == \E e \in EofAts, s \in InitSize : InitP(e, s)

---------------------------------------------------------------------------
(* steps *)

Reported(cls) == IF cls \in Terminal \cup {"timeout"} /\ ~src.term THEN "none" ELSE abs.perr
Consumed(a, run) == [a EXCEPT !.hOK = (@ /\ (run.nr = 0 \/ (run.nr = 1 /\ run.f = a.hEnd))),
                              !.hEnd = IF run.nr = 1 THEN run.t ELSE @]

\* the operation returns: o = [b, kind, n, k, cls, run (returned bytes), crun (consumed bytes), blk, clear]
Return(o) ==
    /\ buf' = o.b
    /\ pc' = Idle
    /\ LET a0 == Consumed(abs, o.crun)
           keep == IF o.clear THEN << >> ELSE a0.peeks
           keepm == IF o.clear THEN << >> ELSE a0.pmem
           newp == o.kind = "Peek" /\ o.k > 0
       IN abs' = [a0 EXCEPT
                    !.perr = IF o.cls \in {"ok", "other", "panic"} THEN @ ELSE Reported(o.cls),
                    !.peeks = IF newp THEN Append(keep, o.run) ELSE keep,
                    !.pmem = IF newp THEN Append(keepm, [blk |-> o.blk, gen |-> o.b.bgen[o.blk]]) ELSE keepm,
                    !.rel = IF o.clear THEN src.rcvd - o.b.len ELSE @,
                    !.copies = IF o.kind = "ReadBinary" /\ o.k > 0 THEN Append(@, o.run) ELSE @,
                    !.res = AbsRes(o.kind, o.n, o.k, o.run, o.cls, o.b.len),
                    !.steps = @ + 1]
    /\ UNCHANGED src

Out(b, kind, n, k, cls, run, crun, blk, clear) ==
    [b |-> b, kind |-> kind, n |-> n, k |-> k, cls |-> cls, run |-> run, crun |-> crun, blk |-> blk, clear |-> clear]

\* operations that never read the socket (Read: only with buffered data: next(min(len, n)))
SimpleP(op, n) ==
    /\ pc.st = "idle"
    /\ \/ /\ op = "Skip"
          /\ LET s == SkipF(buf, n) IN
             Return(Out(s.b, "Skip", n, 0, s.cls, NoRun, IF s.cls = "ok" THEN Run(Rd, n) ELSE NoRun, 0, FALSE))
       \/ op = "Release" /\ Return(Out(ReleaseF(buf), "Release", 0, 0, "ok", NoRun, NoRun, 0, TRUE))
       \/ op = "Len" /\ Return(Out(buf, "Len", 0, buf.len, "ok", NoRun, NoRun, 0, FALSE))
       \/ /\ op = "Read" /\ buf.len > 0
          /\ LET x == NextF(buf, Min2(buf.len, n)) IN
             Return(Out(x.b, "Read", n, x.k, x.cls, x.run, x.run, 0, TRUE))

\* operations that start with fill (or, for a large Read on an empty buffer, with a direct socket read)
CallP(op, n) ==
    /\ pc.st = "idle"
    /\ op \in {"Peek", "ReadByte", "ReadBinary", "Read"}
    /\ op = "ReadByte" => n = 1
    /\ op = "Read" => buf.len = 0
    /\ IF op = "Read" /\ n > B4
       THEN /\ pc' = [Idle EXCEPT !.st = "dloop", !.op = op, !.n = n]       \* c.c.Read(b) directly
            /\ UNCHANGED buf
       ELSE LET i == IF op = "Read" THEN 1 ELSE n
                f == FillPrep(buf, i)
            IN /\ buf' = f.b
               /\ pc' = [Idle EXCEPT !.st = f.st, !.op = op, !.n = n, !.i = i, !.cls = f.cls]
    /\ UNCHANGED <<src, abs>>

Need == pc.i - buf.len

\* socket reads inside fill's loop return m bytes in total (into the write node)
SrcDeliverP(m) ==
    /\ pc.st = "loop" /\ Need > 0 /\ ~src.term /\ m > 0
    /\ LET N == Len(buf.nodes)  w == buf.nodes[N] IN
       /\ m <= w.cap - w.mal /\ src.rcvd + m <= src.eofAt
       /\ buf' = [buf EXCEPT !.nodes[N].mal = @ + m,
                             !.nodes[N].base = IF w.mal = w.off THEN src.rcvd - w.mal ELSE @,   \* no live byte in the node: re-anchor
                             !.len = @ + m]
       /\ src' = [src EXCEPT !.rcvd = @ + m]
       /\ pc' = [pc EXCEPT !.lastN = m]
    /\ UNCHANGED abs

\* ... and the same read also returned the terminal error: c.err = err, fill returns nil
SrcFailSameP(c) ==
    /\ pc.st = "loop" /\ pc.lastN > 0 /\ ~src.term /\ src.rcvd = src.eofAt /\ c \in Terminal
    /\ buf' = [buf EXCEPT !.cerr = c]
    /\ abs' = [abs EXCEPT !.perr = c]
    /\ src' = [src EXCEPT !.term = TRUE]
    /\ pc' = [pc EXCEPT !.st = "done", !.cls = "ok"]

\* the next read of the loop returns (0, err): fill returns err
SrcFailNextP(c) ==
    /\ pc.st = "loop" /\ Need > 0
    /\ \/ /\ c \in Terminal /\ src.rcvd = src.eofAt /\ (src.term => c = abs.perr)
          /\ src' = [src EXCEPT !.term = TRUE]
       \/ /\ c = "timeout" /\ ~src.term /\ UNCHANGED src
    /\ abs' = [abs EXCEPT !.perr = c]
    /\ pc' = [pc EXCEPT !.st = "done", !.cls = c]
    /\ UNCHANGED buf

\* fill's loop ends because enough has arrived
LoopExit == /\ pc.st = "loop" /\ Need <= 0 /\ pc' = [pc EXCEPT !.st = "done", !.cls = "ok"] /\ UNCHANGED <<buf, src, abs>>

\* Read(b) with len(b) > block4k and an empty buffer: one socket read straight into b
DirectDeliverP(m) ==
    /\ pc.st = "dloop" /\ pc.direct = 0 /\ ~src.term /\ m > 0
    /\ m <= pc.n /\ src.rcvd + m <= src.eofAt
    /\ src' = [src EXCEPT !.rcvd = @ + m]
    /\ pc' = [pc EXCEPT !.direct = m, !.st = "ddone"]
    /\ UNCHANGED <<buf, abs>>
DirectFailSameP(c) ==
    /\ pc.st = "ddone" /\ pc.cls = "ok" /\ pc.direct > 0 /\ ~src.term /\ src.rcvd = src.eofAt /\ c \in Terminal
    /\ abs' = [abs EXCEPT !.perr = c] /\ pc' = [pc EXCEPT !.cls = c]
    /\ src' = [src EXCEPT !.term = TRUE]
    /\ UNCHANGED buf
DirectFailNextP(c) ==
    /\ pc.st = "dloop" /\ pc.direct = 0
    /\ \/ /\ c \in Terminal /\ src.rcvd = src.eofAt /\ (src.term => c = abs.perr)
          /\ src' = [src EXCEPT !.term = TRUE]
       \/ /\ c = "timeout" /\ ~src.term /\ UNCHANGED src
    /\ abs' = [abs EXCEPT !.perr = c]
    /\ pc' = [pc EXCEPT !.st = "ddone", !.cls = c]
    /\ UNCHANGED buf

Finish ==
    \/ /\ pc.st = "done"
       /\ \/ /\ pc.op = "Peek"
             /\ LET p == PeekPost(buf, pc.n, pc.cls) IN
                Return(Out(p.b, "Peek", pc.n, p.k, p.cls, p.run, NoRun, p.blk, FALSE))
          \/ /\ pc.op \in {"ReadByte", "ReadBinary"}
             /\ LET p == PeekPost(buf, pc.n, pc.cls) IN
                IF p.cls # "ok"
                THEN Return(Out(p.b, pc.op, pc.n, 0, p.cls, NoRun, NoRun, 0, FALSE))      \* (nil, err): nothing consumed
                ELSE LET s == SkipF(p.b, pc.n) IN
                     Return(Out(s.b, pc.op, pc.n, p.k, s.cls, p.run, p.run, 0, FALSE))
          \/ /\ pc.op = "Read"
             /\ IF pc.cls # "ok"
                THEN Return(Out(buf, "Read", pc.n, 0, pc.cls, NoRun, NoRun, 0, TRUE))
                ELSE LET x == NextF(buf, Min2(buf.len, pc.n)) IN
                     Return(Out(x.b, "Read", pc.n, x.k, x.cls, x.run, x.run, 0, TRUE))
    \/ /\ pc.st = "ddone"
       /\ LET run == Run(src.rcvd - pc.direct, pc.direct) IN
          Return(Out(buf, "Read", pc.n, pc.direct, pc.cls, run, run, 0, TRUE))

\* exhaustive configuration
Simple == abs.steps < MaxSteps /\ \E op \in {"Skip", "Release", "Len", "Read"}, n \in Sizes :
             (op \in {"Release", "Len"} => n = 0) /\ SimpleP(op, n)
Call == abs.steps < MaxSteps /\ \E op \in {"Peek", "ReadByte", "ReadBinary", "Read"}, n \in Sizes :
             (op = "Peek" => Len(abs.peeks) < MaxPeeks) /\ CallP(op, n)
SrcDeliver == \E m \in Delivers : SrcDeliverP(m)
SrcFailSame == WithData /\ \E c \in Terminal : SrcFailSameP(c)
SrcFailNext == \E c \in Terminal \cup {"timeout"} : SrcFailNextP(c)
DirectDeliver == \E m \in Delivers : DirectDeliverP(m)
DirectFailSame == WithData /\ \E c \in Terminal : DirectFailSameP(c)
DirectFailNext == \E c \in Terminal \cup {"timeout"} : DirectFailNextP(c)

Next == Simple \/ Call \/ SrcDeliver \/ SrcFailSame \/ SrcFailNext \/ LoopExit
        \/ DirectDeliver \/ DirectFailSame \/ DirectFailNext \/ Finish
Spec == Init /\ [][Next]_lvars

---------------------------------------------------------------------------
(* properties *)

RECURSIVE SumLen(_, _)
SumLen(nodes, ix) == IF ix > Len(nodes) THEN 0 ELSE NLen(nodes[ix]) + SumLen(nodes, ix + 1)

WellFormed ==
    /\ buf.rdIx \in 1 .. Len(buf.nodes)
    /\ \A j \in DOMAIN buf.nodes : LET nd == buf.nodes[j] IN 0 <= nd.off /\ nd.off <= nd.mal /\ nd.mal <= nd.cap
    /\ buf.len = SumLen(buf.nodes, buf.rdIx)                     \* len is exactly what the chain holds from read on
    /\ \A j \in DOMAIN buf.nodes : buf.nodes[j].blk \notin buf.freed    \* no live node sits on freed memory
\* the chain from the read position holds exactly the unconsumed received bytes, in stream order
HoldsStream == buf.len > 0 => Contents(buf, buf.len) = Run(src.rcvd - pc.direct - buf.len, buf.len)
\* no slice handed out by Peek since the last release points into freed or reset memory
PeekMemValid == \A j \in DOMAIN abs.pmem : abs.pmem[j].blk \notin buf.freed /\ buf.bgen[abs.pmem[j].blk] = abs.pmem[j].gen
NoPanic == abs.res.cls # "panic"
\* an error put aside in c.err is the terminal error of the source
StoredErr == buf.cerr # "none" => src.term /\ buf.cerr = abs.perr

\* Refinement: every step is a ByteQueue step (or leaves the ByteQueue view unchanged)
BQStep ==
    \/ BQ!SrcStep /\ UNCHANGED <<Rd, abs.peeks, abs.rel, abs.copies, abs.hEnd, abs.hOK, abs.res, abs.steps>>
    \/ /\ abs'.steps = abs.steps + 1
       /\ BQ!RdOp(abs'.res.k, abs'.res.n, abs'.res.cnt, abs'.res.cls, Rd' - Rd)
       /\ UNCHANGED <<src.eofAt, Rcv, src.term>>
Refines == [][BQStep]_<<src.eofAt, Rcv, Rd, abs.perr, src.term, abs.peeks, abs.rel, abs.copies, abs.res, abs.hEnd, abs.hOK, abs.steps>>
BQInv == BQ!TypeOK /\ BQ!NoLossNoDup /\ BQ!ResultIsNext /\ BQ!LenExact /\ BQ!PeekStable /\ BQ!CopiesValid /\ BQ!ShortOnlyAtError
=============================================================================
