CONSTANTS
  MaxLenOf <- McLen
  RandMax = 12
SPECIFICATION Spec
INVARIANTS TypeOK RankBijection SuccStep
PROPERTIES OneCallPerInput Terminates
