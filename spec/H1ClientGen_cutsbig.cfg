CONSTANTS Mode = "cutsbig"
BigSizes = {4096, 4097, 8193}
ScriptStride = 1
CutStride = 1
INIT GenInit
NEXT GenNext
