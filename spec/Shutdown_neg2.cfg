\* NEGATIVE (expected: AcceptedAwaited violated): the connection is counted as active only when its goroutine starts
CONSTANTS
  Conns = {c1, c2}
  Callers = {k1, k2}
  Hooks = {h1}
  BeyondHooks = {}
  MaxReq = 1
  Transport = "standard"
  ServerRun = TRUE
  CasLoserErrors = TRUE
  ExitCheckAfterHandler = TRUE
  HooksConcurrent = TRUE
  CountAtAccept = FALSE
SYMMETRY Sym
SPECIFICATION Spec
INVARIANTS TypeOK AcceptedAwaited
