CONSTANTS
  Alphabet <- Alphabet3
  MaxLen = 13
  BackslashSep = FALSE
INIT TraceInit
NEXT TraceNext
INVARIANTS Report
