\* liveness under fairness (no symmetry): 1 connection x 1 caller x 2 hooks
CONSTANTS
  Conns = {c1}
  Callers = {k1}
  Hooks = {h1, h2}
  BeyondHooks = {h2}
  MaxReq = 1
  Transport = "standard"
  ServerRun = TRUE
  CasLoserErrors = TRUE
  ExitCheckAfterHandler = TRUE
  HooksConcurrent = TRUE
  CountAtAccept = TRUE
SPECIFICATION FairSpec
INVARIANTS TypeOK ObligationsHold
PROPERTIES ShutdownReturns HooksStartedL InFlightCompletedL
