CONSTANTS
  Alphabet <- Alphabet7
  MaxLen = 8
  BackslashSep = FALSE
INIT TraceInit
NEXT TraceNext
INVARIANTS Report
