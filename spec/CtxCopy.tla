------------------------------ MODULE CtxCopy ------------------------------
(***************************************************************************)
(* X06 (extension) -- RequestContext.Copy() gives an independent, complete *)
(* copy of a request context.                                              *)
(*                                                                         *)
(* Code: pkg/app/context.go RequestContext.Copy, and what it calls:        *)
(* pkg/protocol/request.go Request.CopyTo / CopyToSkipBody, response.go    *)
(* Response.CopyTo / CopyToSkipBody, header.go RequestHeader.CopyTo /      *)
(* ResponseHeader.CopyTo, uri.go URI.CopyTo, args.go Args.CopyTo /         *)
(* copyArgs, trailer.go Trailer.CopyTo.  "Copy returns a copy of the       *)
(* current context that can be safely used outside the request's scope"    *)
(* -- for goroutines that outlive the handler, while the server resets the *)
(* original (ResetWithoutConn / Reset + pool) and fills it with the next   *)
(* request.                                                                *)
(*                                                                         *)
(* The observable state of a context is the component list of C09          *)
(* (CtxLifecycle.tla, = the keys of the driver's dump: exported getters    *)
(* and fields only).  Here each component of the original and of the copy  *)
(* carries an abstract VALUE:                                              *)
(*    "first"  what the original held when Copy was called                 *)
(*    "det"    the value of a detached context (what Copy assigns to the   *)
(*             parts it does not copy: zero, index = AbortIndex, ...)      *)
(*    "mutO" / "mutC"  written later by a mutator applied to the original  *)
(*             / to the copy                                               *)
(*    "next"   data of a later request served with the recycled original   *)
(* CopyMode transcribes Copy() field by field: "deep" (own storage:        *)
(* append into the copy's own buffers, entry-wise map copy, slice copy of  *)
(* immutable strings, value copy of a reference to an object the reset of  *)
(* the original does not write to), "zero" (not copied), "alias" (the copy *)
(* would share storage with the original: none in the code as written).    *)
(* A write to a component goes through to the other side while the two     *)
(* share its storage (link).                                               *)
(*                                                                         *)
(* Clauses:                                                                *)
(*  1 Independence      after Copy, no mutator applied to the original, no *)
(*                      end of its handler and no recycling changes a      *)
(*                      component of the copy; and no mutator applied to   *)
(*                      the copy changes the original (or the context that *)
(*                      the recycled original has become).                 *)
(*  2 Completeness      right after Copy every component outside NotCopied *)
(*                      has the original's value, every NotCopied one the  *)
(*                      detached value.  Documented exceptions: body       *)
(*                      streams ("copies ... except of body stream": the   *)
(*                      body-derived components of a request/response      *)
(*                      whose body is a stream are not preserved); the     *)
(*                      multipart form "will be automatically re-created   *)
(*                      on the first call to MultipartForm" -- so it IS    *)
(*                      preserved as far as any getter can tell.           *)
(*  (clauses 3-5: CtxCopyKeys.tla, CtxCopyTrace.tla)                       *)
(*                                                                         *)
(* MultipartFix: on the unchanged tree the form of a multipart request     *)
(* that the server parsed while reading it (the default: no body bytes are *)
(* kept then) is NOT re-created in the copy -- genuine defect,             *)
(* known/X06.json.  TRUE models the proposed repair (Request.CopyTo hands  *)
(* the copy the serialised form); CtxCopy_asis.cfg (FALSE) must violate    *)
(* Complete.  Variant selects negative configurations (expected to fail):  *)
(* "shallowParams" (paramCopy dropped), "aliasKeys" (cp.Keys = ctx.Keys),  *)
(* "omitFullPath".                                                         *)
(*                                                                         *)
(* Deliberately unconstrained: capacities, pointer identity, scratch       *)
(* buffers, maxKeepBodySize, binder/validator (no getter), the client-side *)
(* multipart parts of a Request (SetFile/SetMultipartField/...Boundary:    *)
(* they hold readers, like a body stream; CopyTo drops them silently),     *)
(* Response.ImmediateHeaderFlush and the hijack writer (how the response   *)
(* is written, not what it is), values stored under keys (the map is       *)
(* copied entry-wise, the values are the caller's).                        *)
(***************************************************************************)
EXTENDS Integers, Sequences, FiniteSets, TLC, CtxLifecycleTable

CONSTANTS MaxSteps,      \* mutator steps per behaviour
          MaxRecycle,    \* later requests served with the original
          MultipartFix,  \* TRUE: the proposed repair of Request.CopyTo
          PreParsed,     \* values PreParsed may take: is the request a multipart form the server parsed while reading
          Variant        \* "asis" = the code as written; else a negative configuration

P(p, S) == {p \o s : s \in S}

-----------------------------------------------------------------------------
(* Observable components of a context: as in CtxLifecycle.tla (C09), without "wire" (a copy is never written) *)
ReqHFields == P("req.h.", {"method", "requestURI", "host", "contentType", "userAgent", "contentLength", "protocol",
                           "connectionClose", "disableNormalizing", "rawHeaders", "cookies", "custom", "trailer",
                           "noDefaultContentType"})
ReqHViews  == {"req.h.all", "req.h.bytes"}
URIFields  == P("req.uri.", {"scheme", "host", "path", "pathOriginal", "queryString", "hash", "username", "password",
                             "disablePathNormalizing", "queryArgs"})
URIViews   == {"req.uri.full"}
ReqMP      == P("req.mp.", {"boundary", "files", "fields", "flags", "form"})
ReqBody    == {"req.body", "req.bodyBytes", "req.bodyStream.is"}
ReqPost    == {"req.postArgs", "req.postArgString"}
ReqOther   == {"req.options", "req.isTLS", "req.parsedURI"}
ReqViews   == {"req.derived", "req.basicAuth"}
ReqObs     == ReqHFields \cup ReqHViews \cup URIFields \cup URIViews \cup ReqMP \cup ReqBody \cup ReqPost \cup ReqOther \cup ReqViews

RespHFields == P("resp.h.", {"status", "contentType", "contentLength", "contentEncoding", "server", "connectionClose",
                             "protocol", "noDefaultContentType", "noDefaultDate", "disableNormalizing", "headerLength",
                             "cookies", "custom", "trailer"})
RespHViews  == {"resp.h.all", "resp.h.bytes"}
RespBody    == {"resp.body", "resp.bodyBytes", "resp.bodyStream.is", "resp.hijack"}
RespFlags   == {"resp.skipBody", "resp.immediateHeaderFlush", "resp.hijackWriter", "resp.addrs"}
RespViews   == {"resp.derived"}
RespObs     == RespHFields \cup RespHViews \cup RespBody \cup RespFlags \cup RespViews

CtxOwn     == P("ctx.", {"params", "keys", "errors", "handlers", "index", "fullPath", "finished", "hijackHandler"})
CtxScoped  == P("ctx.", {"conn", "htmlRender", "enableTrace", "exiled", "traceInfo", "clientIPFunc", "formValueFunc"})
CtxViews   == {"ctx.derived"}
TraceStats == P("trace.", {"sendSize", "recvSize", "error", "panicked", "events", "level"})
Comp       == CtxOwn \cup CtxScoped \cup CtxViews \cup TraceStats \cup ReqObs \cup RespObs

(* Families: the granularity of the Touch table (CtxLifecycleTable.tla), plus the two shortcut getters that read
   through a replaceable function: FormValue (query, post and multipart arguments) and ClientIP (request headers) *)
FamilyTable ==
     "req.h"     :> (ReqHFields \cup ReqHViews \cup ReqViews \cup {"req.parsedURI", "ctx.derived", "ctx.clientIPFunc", "ctx.formValueFunc"}
                     \cup ReqMP)      \* the multipart getters read the boundary from Content-Type
  @@ "req.uri"   :> (URIFields \cup URIViews \cup {"req.derived", "req.parsedURI", "ctx.derived", "ctx.formValueFunc"})
  @@ "req.body"  :> (ReqBody \cup {"req.parsedURI", "ctx.derived", "ctx.formValueFunc"})
  @@ "req.mp"    :> (ReqMP \cup {"req.parsedURI", "req.body", "ctx.derived", "ctx.formValueFunc"})
  @@ "req.post"  :> (ReqPost \cup {"req.parsedURI", "ctx.derived", "ctx.formValueFunc"})
  @@ "req.options" :> {"req.options", "req.parsedURI"}
  @@ "req.isTLS" :> {"req.isTLS", "req.parsedURI"}
  @@ "resp.h"    :> (RespHFields \cup RespHViews \cup RespViews \cup {"resp.skipBody"})   \* MustSkipBody() reads the status code
  @@ "resp.body" :> RespBody
  @@ "trace"     :> (TraceStats \ {"trace.level"})
Fam(f) == IF f \in DOMAIN FamilyTable THEN FamilyTable[f] ELSE {f}

CtxMutators == {m \in DOMAIN MutTable : "Ctx" \in MutTable[m].kinds}
(* The Touch table was measured (C09) on requests whose response was still empty; what a mutator clears shows only
   when something is there.  Additions found by X06's pairs: *)
RespResetters == {"Ctx.NotModified", "Ctx.NotFound", "Ctx.AbortWithMsg",         \* call Response.Reset() first
                  "Ctx.File", "Ctx.FileAttachment", "Ctx.FileFromFS"}            \* ServeFile answers through the three above
ExtraTouch(m) == (IF m \in RespResetters THEN Fam("resp.h") \cup Fam("resp.body") \cup RespFlags ELSE {})
                 \cup (IF m \in {"Ctx.File", "Ctx.FileAttachment", "Ctx.FileFromFS"} THEN {"ctx.index"} ELSE {})   \* AbortWithMsg on a request it refuses
Touch(m) == ((UNION {Fam(f) : f \in MutTable[m].fam}) \cup ExtraTouch(m)) \cap Comp
TouchSets == {Touch(m) : m \in CtxMutators}

-----------------------------------------------------------------------------
(* Copy(), field by field *)

(* cp := &RequestContext{conn, Params}; index = AbortIndex; handlers = nil; everything not assigned stays zero *)
NotCopiedCtx == P("ctx.", {"errors", "handlers", "index", "htmlRender", "hijackHandler", "finished", "traceInfo",
                           "enableTrace", "exiled"}) \cup TraceStats
(* Request.CopyTo / Response.CopyTo: "except of body stream"; flags and client-side parts that CopyToSkipBody leaves out *)
NotCopiedMsg == {"req.bodyStream.is", "resp.bodyStream.is", "resp.immediateHeaderFlush", "resp.hijackWriter",
                 "req.mp.files", "req.mp.fields", "req.mp.boundary"}
NotCopied    == NotCopiedCtx \cup NotCopiedMsg

(* body-derived components: not preserved when the body of the original is a stream at the time of the copy *)
ReqStreamViews  == {"req.body", "req.bodyBytes", "req.postArgs", "req.postArgString", "req.mp.flags", "req.mp.form",
                    "ctx.derived", "ctx.formValueFunc",
                    "req.h.trailer"}      \* the trailer of a chunked body arrives when the stream has been read
RespStreamViews == {"resp.body", "resp.bodyBytes", "resp.hijack"}
(* what the as-written CopyTo loses of a multipart request parsed while it was read (no body bytes kept) *)
PreParsedLoss   == {"req.body", "req.bodyBytes", "req.mp.flags", "req.mp.form", "ctx.derived", "ctx.formValueFunc"}

MayDiffer(reqStream, respStream) ==
  NotCopied \cup (IF reqStream THEN ReqStreamViews ELSE {}) \cup (IF respStream THEN RespStreamViews ELSE {})

CopyMode(c, pre) ==
  IF c \in NotCopied THEN "zero"
  ELSE IF pre /\ ~MultipartFix /\ c \in PreParsedLoss THEN "zero"
  ELSE IF Variant = "shallowParams" /\ c = "ctx.params" THEN "alias"     \* Params: ctx.Params without paramCopy
  ELSE IF Variant = "aliasKeys" /\ c = "ctx.keys" THEN "alias"           \* cp.Keys = ctx.Keys
  ELSE IF Variant = "omitFullPath" /\ c = "ctx.fullPath" THEN "zero"
  ELSE "deep"

(* The mutators X06 applies: the C09 alphabet for contexts without the two entries that panic by themselves on any
   context (HTML without a renderer, ProtoBuf of a value that is no proto.Message) -- a panic of Copy or of a getter
   would be indistinguishable from theirs. *)
Alphabet == CtxMutators \ {"Ctx.HTML", "Ctx.ProtoBuf"}

(* What the getters of a detached context show for the components Copy does not copy (values as printed by the
   driver's dump: fields joined by |, strings quoted).  The client-side multipart parts are left unconstrained. *)
DetachedValue ==
     "ctx.errors"        :> "0|\"\"|\"\""        \* len(Errors), messages, Errors.String()
  @@ "ctx.handlers"      :> "0|false"              \* len(Handlers()), Handler() != nil
  @@ "ctx.index"         :> "63|true"              \* GetIndex() = AbortIndex, IsAborted()
  @@ "ctx.htmlRender"    :> "false"
  @@ "ctx.hijackHandler" :> "false|false"          \* Hijacked(), GetHijackHandler() != nil
  @@ "ctx.finished"      :> "\"open\""             \* Finished(): a channel of its own, not closed
  @@ "ctx.traceInfo"     :> "false"
  @@ "ctx.enableTrace"   :> "false"
  @@ "ctx.exiled"        :> "false"
  @@ "trace.sendSize"    :> "<absent>"
  @@ "trace.recvSize"    :> "<absent>"
  @@ "trace.error"       :> "<absent>"
  @@ "trace.panicked"    :> "<absent>"
  @@ "trace.events"      :> "<absent>"
  @@ "trace.level"       :> "<absent>"
  @@ "req.bodyStream.is"  :> "false"
  @@ "resp.bodyStream.is" :> "false"
  @@ "resp.immediateHeaderFlush" :> "false"
  @@ "resp.hijackWriter"  :> "false"
Watch == DOMAIN DetachedValue
ASSUME Watch \subseteq NotCopied

-----------------------------------------------------------------------------
VARIABLES phase,    \* "pre" | "handler" (copy taken, handler running) | "done" (handler ended) | "recycled"
          pre,      \* the request is a multipart form parsed while read
          orig,     \* component -> value, the original context (after recycling: the context it has become)
          copy,     \* component -> value, the copy
          link,     \* components whose storage the two share
          snapC,    \* what the copy showed right after Copy
          snapO,    \* what the original showed at the start of its current use (after Copy / after recycling)
          tC, tO,   \* components written through the copy / through the original since those snapshots
          atCopy,   \* history: components outside NotCopied that did not have the original's value right after Copy
          nstep, nrec
vars == <<phase, pre, orig, copy, link, snapC, snapO, tC, tO, atCopy, nstep, nrec>>

Const(v) == [c \in Comp |-> v]

Init == /\ phase = "pre" /\ pre \in PreParsed
        /\ orig = Const("first") /\ copy = Const("none") /\ link = {}
        /\ snapC = Const("none") /\ snapO = Const("first") /\ tC = {} /\ tO = {} /\ atCopy = {} /\ nstep = 0 /\ nrec = 0

(* c2 := ctx.Copy() *)
Copy ==
  /\ phase = "pre"
  /\ LET cp == [c \in Comp |-> IF CopyMode(c, pre) = "zero" THEN "det" ELSE orig[c]] IN
     /\ copy' = cp /\ snapC' = cp
     /\ atCopy' = {c \in Comp \ NotCopied : cp[c] # orig[c]}
  /\ link' = {c \in Comp : CopyMode(c, pre) = "alias"}
  /\ phase' = "handler" /\ snapO' = orig /\ tO' = {} /\ tC' = {}
  /\ UNCHANGED <<pre, orig, nstep, nrec>>

Write(f, T, v) == [c \in Comp |-> IF c \in T THEN v ELSE f[c]]

(* a mutator with touch set T applied to the original (inside its handler, or inside the handler of the later request) *)
MutO(T) ==
  /\ phase \in {"handler", "recycled"} /\ nstep < MaxSteps
  /\ orig' = Write(orig, T, "mutO") /\ copy' = Write(copy, T \cap link, "mutO")
  /\ tO' = tO \cup T /\ nstep' = nstep + 1
  /\ UNCHANGED <<phase, pre, link, snapC, snapO, tC, atCopy, nrec>>

(* a mutator applied to the copy: any time after Copy *)
MutC(T) ==
  /\ phase # "pre" /\ nstep < MaxSteps
  /\ copy' = Write(copy, T, "mutC") /\ orig' = Write(orig, T \cap link, "mutC")
  /\ tC' = tC \cup T /\ nstep' = nstep + 1
  /\ UNCHANGED <<phase, pre, link, snapC, snapO, tO, atCopy, nrec>>

(* the handler ends; the server clears the hijack handler and writes the response (http1.Server.Serve) *)
ServerWrite == Fam("resp.h") \cup Fam("resp.body") \cup {"resp.skipBody", "ctx.hijackHandler", "ctx.index"} \cup (TraceStats \ {"trace.level"})
Return ==
  /\ phase = "handler"
  /\ orig' = Write(orig, ServerWrite, "mutO") /\ copy' = Write(copy, ServerWrite \cap link, "mutO")
  /\ tO' = tO \cup ServerWrite /\ phase' = "done"
  /\ UNCHANGED <<pre, link, snapC, snapO, tC, atCopy, nstep, nrec>>

(* ResetWithoutConn / Reset + Put + Get, then the next request is read into the same object: every component of
   the original is rewritten; storage shared with the copy is rewritten under the copy *)
Recycle ==
  /\ phase \in {"done", "recycled"} /\ nrec < MaxRecycle
  /\ orig' = Const("next") /\ copy' = Write(copy, link, "next")
  /\ snapO' = Const("next") /\ tO' = {} /\ phase' = "recycled" /\ nrec' = nrec + 1
  /\ UNCHANGED <<pre, link, snapC, tC, atCopy, nstep>>

Next == Copy \/ Return \/ Recycle \/ \E T \in TouchSets : MutO(T) \/ MutC(T)
Spec == Init /\ [][Next]_vars

-----------------------------------------------------------------------------
Values == {"first", "det", "mutO", "mutC", "next", "none"}
TypeOK == /\ phase \in {"pre", "handler", "done", "recycled"} /\ pre \in BOOLEAN
          /\ orig \in [Comp -> Values] /\ copy \in [Comp -> Values]
          /\ link \subseteq Comp /\ tC \subseteq Comp /\ tO \subseteq Comp /\ nstep \in 0 .. MaxSteps /\ nrec \in 0 .. MaxRecycle

(* clause 1: what the copy shows changes only through the copy; what the original shows only through the original *)
IndependentCopy == phase # "pre" => \A c \in Comp \ tC : copy[c] = snapC[c]
IndependentOrig == phase # "pre" => \A c \in Comp \ tO : orig[c] = snapO[c]
(* clause 2 *)
Complete == atCopy = {}
Detached == phase # "pre" => \A c \in NotCopied \ tC : copy[c] = "det"
(* the copy never shows data of a later request *)
NoNextInCopy == \A c \in Comp : copy[c] # "next"

ASSUME TouchOK == \A m \in CtxMutators : Touch(m) # {} \/ MutTable[m].fam = {}
=============================================================================
