CONSTANTS
  Slots = {1, 2}
  Objs = {1, 2}
  MaxReq = 2
  MaxMut = 2
  Drop = {}
  HeaderLengthFix = TRUE
SPECIFICATION Spec
INVARIANTS TypeOK FreshAtProbe PoolClean Exclusive ExiledNeverPooled
