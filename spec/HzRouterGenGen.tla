--------------------------- MODULE HzRouterGenGen ---------------------------
(***************************************************************************)
(* Case generator for C16.  The case space is                              *)
(*   declarations (sequences of 1..MaxMethods methods [verb, path, name,   *)
(*   dir]) x options {sort, snake, byMethod}                               *)
(* with paths of depth <= MaxDepth over the segment alphabet               *)
(*   inner: a b a-b a_b :id        last: the same + *rest + "" (root /     *)
(*   trailing slash)                                                       *)
(* verbs {GET, POST, Any}, handler names (repeats = one IDL function with  *)
(* several api.<verb> annotations), handler_path directories whose base    *)
(* names collide ("x", "y/x").  Only Legal, WellFormed declarations.       *)
(* The space is far too big to compile (each case is a Go package set),    *)
(* so a tier runs:                                                         *)
(*   1. Fixed:    the minimal cases of the known findings + hand-picked    *)
(*                collision shapes (always),                               *)
(*   2. Singles:  EVERY one-method declaration with a path of depth <=     *)
(*                SingleDepth x every verb (options cycle with the index), *)
(*   3. Pairs:    EVERY ordered pair of methods over the PairPaths core    *)
(*                (prefix sharing / mangling collisions; thorough only),   *)
(*   4. Sampled:  NSample pseudo-random declarations of 2..MaxMethods      *)
(*                methods drawn with a Wichmann-Hill generator seeded by   *)
(*                VERIF_SEED (weights favour shared prefixes, colliding    *)
(*                segments, routes that extend an earlier route, and       *)
(*                handler names repeated on any earlier route).            *)
(***************************************************************************)
EXTENDS HzRouterGen, Json, IOUtils, SequencesExt

CONSTANTS MaxMethods, MaxDepth, SingleDepth, NSample, WithPairs

Seed == atoi(IOEnv.VERIF_SEED)

InnerSegs == <<"a", "b", "a-b", "a_b", ":id">>
LastSegs == <<"a", "b", "a-b", "a_b", ":id", "*rest", "">>
DeclVerbs == <<"GET", "POST", "Any">>
NameList == <<"A", "B", "Id", "C", "D", "E">>
\* weighted draws
InnerW == <<"a", "a", "b", "a-b", "a_b", ":id">>
LastW == <<"a", "b", "a-b", "a_b", ":id", "*rest", "", "">>
VerbW == <<"GET", "GET", "POST", "Any">>
\* handler_path directories: equal base names ("x", "y/x") and base names equal only after identifier mangling
DirW == <<"", "x", "y/x", "x-y", "x_y">>
DepthW == <<1, 2, 2, 3, 3>>

Opt(k) == [sort |-> (k % 2) = 1, snake |-> ((k \div 2) % 2) = 1, byMethod |-> ((k \div 4) % 2) = 1]
M(v, p, n, d) == [verb |-> v, path |-> p, name |-> n, dir |-> d]
RepeatedName(d) == \E i, j \in DOMAIN d : i < j /\ d[i].name = d[j].name
MkCase(o, d) == [opts |-> o, methods |-> d, feat |-> [repeatedName |-> RepeatedName(d), n |-> Len(d)]]

\* ---- 1. fixed cases
Fixed == <<
   \* C16-snake-dup-handler-mw: one IDL function with two annotations, snake-style middleware names
   MkCase(Opt(2), <<M("GET", <<"a">>, "A", ""), M("POST", <<"a">>, "A", "")>>),
   MkCase(Opt(3), <<M("GET", <<"a">>, "A", ""), M("POST", <<"b">>, "A", "")>>),
   \* the same declaration without snake style (must pass)
   MkCase(Opt(0), <<M("GET", <<"a">>, "A", ""), M("POST", <<"a">>, "A", "")>>),
   \* segments that collide after identifier mangling, as groups and as leaves, every option
   MkCase(Opt(0), <<M("GET", <<"a-b", "a">>, "A", ""), M("GET", <<"a_b", "a">>, "B", ""), M("GET", <<"a", "b", "a">>, "C", "")>>),
   MkCase(Opt(2), <<M("GET", <<"a-b", "a">>, "A", ""), M("GET", <<"a_b", "a">>, "B", ""), M("GET", <<"a", "b", "a">>, "C", "")>>),
   MkCase(Opt(7), <<M("GET", <<"a-b">>, "A", "x"), M("GET", <<"a_b">>, "A", "y/x"), M("POST", <<"a-b", "">>, "B", "")>>),
   \* a route that is also a prefix, declared before / after the longer route, root and trailing slash, Any
   MkCase(Opt(0), <<M("GET", <<"a", "b">>, "A", ""), M("GET", <<"a">>, "B", ""), M("POST", <<"a", "a">>, "C", "")>>),
   MkCase(Opt(1), <<M("GET", <<"a", "b">>, "A", ""), M("GET", <<"a">>, "B", ""), M("POST", <<"a", "a">>, "C", "")>>),
   MkCase(Opt(4), <<M("Any", <<"">>, "A", ""), M("GET", <<"a", "">>, "B", "x"), M("Any", <<"a">>, "C", "y/x"), M("GET", <<":id", "*rest">>, "Id", "")>>),
   \* a route declared BEFORE a longer route it prefixes (without sort_router its node is a handler AND a group)
   \* x its handler name bound to a second route x snake-style names, without / with sort_router, by service / by method
   MkCase(Opt(2), <<M("GET", <<"a">>, "A", ""), M("GET", <<"a", "b">>, "B", ""), M("POST", <<"b">>, "A", "")>>),
   MkCase(Opt(2), <<M("POST", <<"b">>, "A", ""), M("GET", <<"a">>, "A", ""), M("GET", <<"a", "b">>, "B", "")>>),
   MkCase(Opt(6), <<M("GET", <<"a">>, "A", "x"), M("POST", <<"a", "">>, "B", ""), M("POST", <<"a-b">>, "A", "x")>>),
   MkCase(Opt(2), <<M("GET", <<"a", "b">>, "A", ""), M("Any", <<"a", "b", ":id">>, "B", ""), M("GET", <<"a">>, "A", ""), M("POST", <<"a", "a_b">>, "A", "")>>),
   MkCase(Opt(3), <<M("GET", <<"a">>, "A", ""), M("GET", <<"a", "b">>, "B", ""), M("POST", <<"b">>, "A", "")>>),
   MkCase(Opt(0), <<M("GET", <<"a">>, "A", ""), M("GET", <<"a", "b">>, "B", ""), M("POST", <<"b">>, "A", "")>>),
   \* handler-by-method: handler directories whose base names collide only after mangling ('-', '_', '.'), the SAME
   \* handler function name in each: every route must run the handler of its own package
   MkCase(Opt(4), <<M("GET", <<"a">>, "A", "x-y"), M("GET", <<"b">>, "A", "x_y")>>),
   MkCase(Opt(5), <<M("GET", <<"a">>, "A", "x_y"), M("POST", <<"a">>, "A", "x-y"), M("GET", <<"a", "b">>, "A", "x.y")>>),
   MkCase(Opt(6), <<M("GET", <<"a">>, "A", "y/x-y"), M("GET", <<"b">>, "A", "x_y"), M("GET", <<"a-b">>, "B", "x-y"), M("GET", <<"a_b">>, "B", "x")>>)
>>

\* ---- 2. every single-method declaration
RECURSIVE GenPaths(_)
GenPaths(d) == IF d = 1 THEN {<<s>> : s \in Range(LastSegs)}
               ELSE {<<s>> \o q : s \in Range(InnerSegs), q \in GenPaths(d - 1)}
PathsUpTo(d) == UNION {GenPaths(k) : k \in 1 .. d}
SinglePaths == SetToSeq(PathsUpTo(SingleDepth))
Singles == [i \in 1 .. Len(SinglePaths) * 3 |->
              LET p == SinglePaths[((i - 1) \div 3) + 1] v == DeclVerbs[((i - 1) % 3) + 1] IN
              MkCase(Opt(i % 8), <<M(v, p, "A", DirW[(i % Len(DirW)) + 1])>>)]

\* ---- 3. every ordered pair over a core of paths that share prefixes / collide after mangling
PairPaths == <<<<"a">>, <<"a", "">>, <<"a", "b">>, <<"a-b">>, <<"a_b">>, <<"a-b", "a">>, <<"a_b", "a">>, <<":id">>, <<"a", ":id">>, <<"a", "*rest">>, <<"">>>>
PairMethods == {M(v, PairPaths[k], "A", "") : v \in {"GET", "Any"}, k \in DOMAIN PairPaths}
PairSet == {<<x, [y EXCEPT !.name = "B", !.dir = "x"]>> : x \in PairMethods, y \in PairMethods}
PairSeq == SetToSeq({d \in PairSet : Legal(d)})
Pairs2 == IF WithPairs THEN [i \in 1 .. Len(PairSeq) |-> MkCase(Opt(i % 8), PairSeq[i])] ELSE << >>

\* ---- 4. seeded sample (Wichmann-Hill; every intermediate value < 2^31)
WH(s) == [x |-> (171 * s.x) % 30269, y |-> (172 * s.y) % 30307, z |-> (170 * s.z) % 30323]
Val(s) == s.x + s.y + s.z
Start(i) == WH(WH([x |-> ((Seed * 7919 + i * 104729) % 30268) + 1,
                   y |-> ((Seed * 31 + i * 9973) % 30306) + 1,
                   z |-> ((Seed * 17 + i * 7) % 30322) + 1]))
RECURSIVE Draws(_, _)
Draws(s, n) == IF n = 0 THEN << >> ELSE <<Val(s)>> \o Draws(WH(s), n - 1)
Pick(w, v) == w[(v % Len(w)) + 1]

PerMethod == 10
CanExtend(q) == Len(q) < MaxDepth /\ q[Len(q)] # "" /\ ~IsCatchAll(q[Len(q)])
\* method k of a sampled case from draws r (offset o); prev = the methods accepted so far.
\* One draw in three the path EXTENDS the path of an earlier method (so that a route declared before is a prefix of
\* this one: without sort_router its tree node becomes handler and group at once); one draw in four the handler
\* name is that of an earlier method (one IDL function with several annotations), prefix routes included.
SampleMethod(r, o, k, prev) ==
    LET d == Pick(DepthW, r[o + 1])
        dd == IF d > MaxDepth THEN MaxDepth ELSE d
        fresh == [j \in 1 .. dd |-> IF j < dd THEN Pick(InnerW, r[o + 1 + j]) ELSE Pick(LastW, r[o + 4])]
        base == IF Len(prev) >= 1 THEN prev[(r[o + 10] % Len(prev)) + 1].path ELSE << >>
        p == IF Len(prev) >= 1 /\ r[o + 9] % 3 = 0 /\ CanExtend(base) THEN Append(base, Pick(LastW, r[o + 4])) ELSE fresh
        nm == IF Len(prev) >= 1 /\ r[o + 6] % 4 = 0 THEN prev[(r[o + 7] % Len(prev)) + 1].name ELSE NameList[((k - 1) % Len(NameList)) + 1]
    IN M(Pick(VerbW, r[o + 5]), p, nm, Pick(DirW, r[o + 8]))
RECURSIVE Build(_, _, _, _)
Build(r, k, n, acc) ==           \* draw n methods; a method that would make the declaration illegal is skipped
    IF k > n THEN acc
    ELSE LET m == SampleMethod(r, 2 + (k - 1) * PerMethod, k, acc) IN
         Build(r, k + 1, n, IF Legal(Append(acc, m)) THEN Append(acc, m) ELSE acc)
Sample(i) == LET r == Draws(Start(i), 2 + MaxMethods * PerMethod)
                 n == 2 + (r[1] % (MaxMethods - 1))
             IN MkCase(Opt(r[2] % 8), Build(r, 1, n, << >>))
Sampled == [i \in 1 .. NSample |-> Sample(i)]

All == Fixed \o Singles \o Pairs2 \o Sampled
ASSUME LET A == All IN       \* (bound once: All depends on IOEnv and is not cached as a constant)
       /\ \A i \in DOMAIN A : WellFormed(A[i].methods) /\ Legal(A[i].methods)
       /\ ndJsonSerialize(IOEnv.VERIF_OUT, [i \in 1 .. Len(A) |-> [id |-> i] @@ A[i]])

GenInit == /\ decl = << >> /\ opts = Opt(0) /\ nodes = << >> /\ done = 0 /\ phase = "gen" /\ reg = {}
GenNext == UNCHANGED vars
=============================================================================
