CONSTANTS
  Slots = {1}
  Objs = {1}
  MaxReq = 1
  MaxMut = 1
  Drop = {}
  HeaderLengthFix = TRUE
  PairMod = 1
  PairAllModes = TRUE
  SPairMod = 1
  NTriple = 30000
  NConc = 3
  Conns = 16
  Rounds = 40
  TouchShapes = 4
INIT GenInit
NEXT GenNext
