CONSTANTS
  MaxCalls = 1
  AsWritten = FALSE
  OpSet = "small"
  GenLen = 4
  GenOps = "mid"
  NRand = 40000
  ReqFull = TRUE
INIT GenInit
NEXT GenNext
