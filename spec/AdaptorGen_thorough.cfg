CONSTANTS
  MaxCalls = 1
  AsWritten = FALSE
  OpSet = "small"
  GenLen = 4
  GenOps = "full"
  NRand = 20000
  ReqFull = TRUE
INIT GenInit
NEXT GenNext
