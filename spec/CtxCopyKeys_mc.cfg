CONSTANTS
  N = 2
  Readers = {1, 2}
  MaxOps = 1
  Locked = TRUE
SPECIFICATION Spec
INVARIANTS TypeOK Linearizable NoTornRead Snapshot MutexOK
