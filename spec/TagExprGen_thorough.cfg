CONSTANTS McDepth = 2
          McLeafMode = "small"
          GenMode = "exhaustive"
          GenCfgName = "m2"
          GenDepth = 3
          GenChainCfgName = "chain"
          GenChainOps = 3
          GenFuncCfgName = "c3"
          GenLenOps = 3
          GenProdFull = TRUE
          GenPtr = TRUE
          SimMinDepth = 4
          SimMaxDepth = 4
INIT GenInit
NEXT GenNext
