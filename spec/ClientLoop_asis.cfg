CONSTANTS AsWritten = TRUE
  MCMaxScript = 2
  MCEntries = {"dialerr", "closePartial", "ok"}
  MCApis = {"do"}
  MCRetryIfs = {"default"}
  MCWarms = {"none"}
  MCMethods = {"GET"}
SPECIFICATION Spec
INVARIANTS AttemptBound NonRepeatableOnce DefaultApplied
