CONSTANTS
  B1 = 1024
  B4 = 4096
  MM = 524288
  InitSize = {0}
  Sizes = {0}
  EofAts = {0}
  MaxSteps = 0
  MaxPeeks = 0
  MaxDeliver = 1
  Delivers = {1}
  WithData = TRUE
INIT TraceInit
NEXT TraceNext
INVARIANTS Report Mark WellFormed HoldsStream PeekMemValid NoPanic StoredErr BQInv
