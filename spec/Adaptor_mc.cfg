CONSTANTS
  MaxCalls = 5
  AsWritten = FALSE
  OpSet = "small"
SPECIFICATION Spec
INVARIANTS TypeOK RefAgrees
PROPERTIES HeaderOnce BodyAppendOnly
