CONSTANTS Mode = "ref"
Profile = "pair-q"
INIT TraceInit
NEXT TraceNext
INVARIANTS Report
