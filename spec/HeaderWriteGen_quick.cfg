CONSTANTS Mode = "ref"
Profile = "pair-q"
MaxLen = 3
SpecLen = 1
NoneLen = 1
PairAll = FALSE
PairHostile = 1
PartnerAll = FALSE
LetterLen = 2
INIT GenInit
NEXT GenNext
