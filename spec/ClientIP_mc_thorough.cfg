CONSTANTS
  MaxToks = 3
  Big = TRUE
  NRand = 60000
  Seed = 1
SPECIFICATION Spec
INVARIANTS WF ImplIsRef NoSpoofInv RightMostInv ResultShapeInv
