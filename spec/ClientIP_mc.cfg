CONSTANTS
  MaxToks = 2
  Big = FALSE
  NRand = 2500
  Seed = 1
SPECIFICATION Spec
INVARIANTS WF ImplIsRef NoSpoofInv RightMostInv ResultShapeInv
