------------------------------ MODULE H1Reject ------------------------------
(***************************************************************************)
(* C03, server read path -- the error-path protocol of one connection for  *)
(* ARBITRARY input (mutated, possibly malformed streams), where framing is *)
(* not known to the specification.  For every request the server either    *)
(* accepts (Handle, HandleEnd, one response written by the handler) or      *)
(* rejects: exactly one 4xx response carrying Connection: close, no handler *)
(* for that request, nothing written afterwards, connection closed.  The    *)
(* server may also give up silently (peer closed in the middle of a         *)
(* message).  There is no action for a panic, for output that is not        *)
(* well-formed HTTP, or for bytes written after the close.                  *)
(* Which of accept / reject happens is deliberately unconstrained: the      *)
(* specification does not decide whether a mutated message is well-formed.  *)
(***************************************************************************)
EXTENDS Integers, Sequences

VARIABLES ph,     \* "idle" | "handle" | "write" | "closing" | "rejected" | "closed"
          nh,     \* handlers started
          nf,     \* responses written by handlers
          nrej,   \* reject responses written
          after   \* events observed after a reject / announced close that are not the close itself

rvars == <<ph, nh, nf, nrej, after>>

RInit == ph = "idle" /\ nh = 0 /\ nf = 0 /\ nrej = 0 /\ after = 0

RNet == UNCHANGED rvars                                              \* bytes arrive / peer closes: no obligation
RInterim == ph = "idle" /\ UNCHANGED rvars                           \* 100 Continue before a body is read
RHandle == ph = "idle" /\ ph' = "handle" /\ nh' = nh + 1 /\ UNCHANGED <<nf, nrej, after>>
RHandleEnd == ph = "handle" /\ ph' = "write" /\ UNCHANGED <<nh, nf, nrej, after>>
\* the handler's response; a response announcing close must be the last thing written
RRespond(close) == /\ ph = "write" /\ ph' = (IF close THEN "closing" ELSE "idle")
                   /\ nf' = nf + 1 /\ UNCHANGED <<nh, nrej, after>>
\* rejection: a response not produced by a handler must be a 4xx carrying Connection: close
RReject(status, close) == /\ ph = "idle" /\ status >= 400 /\ status <= 499 /\ close
                          /\ ph' = "rejected" /\ nrej' = nrej + 1 /\ UNCHANGED <<nh, nf, after>>
\* the connection is closed: after a reject / an announced close, or quietly between requests; closing while a
\* response is owed (phase write) is the server giving up on a broken connection, never with a handler running
RClose == ph \in {"idle", "closing", "rejected", "write"} /\ ph' = "closed" /\ UNCHANGED <<nh, nf, nrej, after>>

RNext == RNet \/ RInterim \/ RHandle \/ RHandleEnd \/ (\E c \in BOOLEAN : RRespond(c))
         \/ (\E s \in {399, 400, 413, 499, 500}, c \in BOOLEAN : RReject(s, c)) \/ RClose
RSpec == RInit /\ [][RNext]_rvars

RTypeOK == ph \in {"idle", "handle", "write", "closing", "rejected", "closed"} /\ nrej \in 0 .. 1
\* at most one rejection, and it is final: nothing but the close follows
RejectIsFinal == nrej <= 1 /\ (nrej = 1 => ph \in {"rejected", "closed"})
\* every handler response belongs to a handler that ran; a rejected request ran no handler
HandlersMatch == nf <= nh /\ nh <= nf + 1
Bounded == nh <= 3
=============================================================================
