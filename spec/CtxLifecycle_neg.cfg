\* NEGATIVE configuration (expected to FAIL): one line dropped from a reset function
\* (ctx.Keys = nil of RequestContext.ResetWithoutConn).  TLC must find a history (a mutator touching the keys,
\* end of request or connection, reuse) whose probe sees it.
CONSTANTS
  Slots = {1, 2}
  Objs = {1, 2}
  MaxReq = 2
  MaxMut = 1
  Drop = {"ctx.keys"}
  HeaderLengthFix = TRUE
SPECIFICATION Spec
INVARIANTS FreshAtProbe
