CONSTANTS
  Conns = {c1}
  Callers = {k1}
  Hooks = {h1}
  BeyondHooks = {}
  MaxReq = 1
  Transport = "standard"
  ServerRun = TRUE
  CasLoserErrors = TRUE
  ExitCheckAfterHandler = TRUE
  HooksConcurrent = TRUE
  CountAtAccept = TRUE
  BeyondWait = 200
  SlowWait = 300
  PairMod = 1
  NTriple = 70
  HookMod = 1
  SecondMod = 1
  NRand = 120
  Waits <- WaitsThorough
  LongWaits <- LongThorough
  Idles <- IdlesThorough
  Trials = 600
INIT GenInit
NEXT GenNext
