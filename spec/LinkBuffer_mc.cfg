CONSTANTS
  B1 = 1
  B4 = 4
  MM = 16
  InitSize = {0}
  Sizes = {0, 1, 4, 5, 9, 17}
  EofAts = {5, 40}
  MaxSteps = 3
  MaxPeeks = 2
  MaxDeliver = 40
  Delivers = {1, 4, 20}
  WithData = TRUE
SPECIFICATION Spec
INVARIANTS WellFormed HoldsStream PeekMemValid NoPanic StoredErr BQInv
PROPERTIES Refines
