CONSTANTS
  NT = 8
  NU = 2
  Rounds = 1
  Drain = TRUE
  AtomicFire = TRUE
  Go123 = FALSE
  Misuse = TRUE
  PutOnlyStopped = FALSE
INIT TraceInit
NEXT TraceNext
INVARIANTS Report
